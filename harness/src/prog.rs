//! Scripted circuits: a JSON program of composer calls, interpreted against
//! the real `Composer`.
//!
//! A program is `{"ops": [ {"op": ..., ...}, ... ]}`. Witness arguments are
//! either a register name (string; `"name.3"` indexes a bit vector,
//! `"P.x"`/`"P.y"` the coordinates of a point register) or an absolute
//! witness index (number; 0 and 1 are the constants ZERO and ONE). Field
//! elements are small integers (negative = negated), `"0x.."` hex, or limb
//! arrays (see `fe`).

use std::collections::HashMap;
use std::sync::Mutex;

use dusk_bls12_381::BlsScalar;
use dusk_jubjub::{JubJubAffine, JubJubExtended};
use dusk_plonk::prelude::*;
use serde_json::{json, Value};

use crate::fe::fe_from_json;
use crate::util::err_class;

#[derive(Clone, Debug, Default, PartialEq)]
pub struct Program {
    pub ops: Vec<Value>,
}

impl Program {
    pub fn from_json(v: &Value) -> Result<Self, String> {
        let ops = v
            .get("ops")
            .and_then(|o| o.as_array())
            .ok_or("program without ops")?
            .clone();
        Ok(Self { ops })
    }

    pub fn to_json(&self) -> Value {
        json!({ "ops": self.ops })
    }
}

#[derive(Clone, Debug)]
pub enum Reg {
    W(Witness),
    P(WitnessPoint),
    Ws(Vec<Witness>),
}

#[derive(Clone, Debug)]
pub struct CallRecord {
    pub resolved: Value,
    pub index: usize,
    pub op: String,
    pub outcome: String,
    pub rows_before: usize,
    pub rows_after: usize,
    pub wit_before: usize,
    pub wit_after: usize,
    pub ret: Vec<usize>,
}

impl CallRecord {
    pub fn to_json(&self) -> Value {
        json!({
            "i": self.index, "op": self.op, "res": self.outcome,
            "nr0": self.rows_before, "nr1": self.rows_after,
            "nw0": self.wit_before, "nw1": self.wit_after,
            "ret": self.ret,
        })
    }
}

#[derive(Debug)]
pub enum RunError {
    Lib(Error),
    Bad(String),
}

impl From<Error> for RunError {
    fn from(e: Error) -> Self {
        RunError::Lib(e)
    }
}

fn bad<T>(s: impl Into<String>) -> Result<T, RunError> {
    Err(RunError::Bad(s.into()))
}

struct Interp<'a> {
    c: &'a mut Composer,
    regs: HashMap<String, Reg>,
    // arguments of the current op with registers resolved to 1-based witness
    // indexes (what the trace specification consumes)
    resolved: std::cell::RefCell<serde_json::Map<String, Value>>,
}

fn fe(op: &Value, key: &str) -> Result<BlsScalar, RunError> {
    match op.get(key) {
        Some(v) if !v.is_null() => fe_from_json(v).map_err(RunError::Bad),
        _ => bad(format!("missing field element `{key}` in {op}")),
    }
}

fn fe_opt(op: &Value, key: &str) -> Result<Option<BlsScalar>, RunError> {
    match op.get(key) {
        Some(v) if !v.is_null() => fe_from_json(v).map(Some).map_err(RunError::Bad),
        _ => Ok(None),
    }
}

fn fe_or_zero(v: Option<&Value>) -> Result<BlsScalar, RunError> {
    match v {
        Some(v) if !v.is_null() => fe_from_json(v).map_err(RunError::Bad),
        _ => Ok(BlsScalar::zero()),
    }
}

fn usz(op: &Value, key: &str) -> Result<usize, RunError> {
    op.get(key)
        .and_then(|v| v.as_u64())
        .map(|v| v as usize)
        .ok_or_else(|| RunError::Bad(format!("missing integer `{key}` in {op}")))
}

/// Extended point given as `{"u":..,"v":..}` (affine, Z = 1) or
/// `{"ext":[u,v,z,t1,t2]}` (raw extended representation).
pub fn point_from_json(v: &Value) -> Result<JubJubExtended, String> {
    if let Some(name) = v.get("name").and_then(|n| n.as_str()) {
        return match name {
            "G" => Ok(dusk_jubjub::GENERATOR_EXTENDED),
            "G_NUMS" => Ok(dusk_jubjub::GENERATOR_NUMS_EXTENDED),
            "identity" => Ok(JubJubExtended::identity()),
            _ => Err(format!("unknown named point {name}")),
        };
    }
    if let Some(of) = v.get("of") {
        // [k]P computed with the library (scenario convenience only; expected
        // values are always recomputed by the specification)
        let base = point_from_json(of)?;
        let k = fe_from_json(v.get("mul").ok_or("mul/of without mul")?)?;
        let s: Option<dusk_jubjub::JubJubScalar> =
            dusk_jubjub::JubJubScalar::from_bytes(&k.to_bytes()).into();
        let s = s.ok_or("mul scalar not canonical")?;
        return Ok(base * s);
    }
    if let Some(ext) = v.get("ext").and_then(|e| e.as_array()) {
        if ext.len() != 5 {
            return Err("ext needs 5 coordinates".into());
        }
        let c: Result<Vec<BlsScalar>, String> = ext.iter().map(fe_from_json).collect();
        let c = c?;
        Ok(JubJubExtended::from_raw_unchecked(c[0], c[1], c[2], c[3], c[4]))
    } else {
        let u = fe_from_json(v.get("u").ok_or("point without u")?)?;
        let w = fe_from_json(v.get("v").ok_or("point without v")?)?;
        Ok(JubJubExtended::from_affine(JubJubAffine::from_raw_unchecked(u, w)))
    }
}

impl<'a> Interp<'a> {
    fn wit_v(&self, v: &Value) -> Result<Witness, RunError> {
        match v {
            Value::Number(n) => {
                let i = n.as_u64().ok_or_else(|| RunError::Bad("bad index".into()))? as usize;
                self.c
                    .verif_witness(i)
                    .ok_or_else(|| RunError::Bad(format!("witness {i} out of range")))
            }
            Value::String(s) => {
                if let Some(Reg::W(w)) = self.regs.get(s) {
                    return Ok(*w);
                }
                if let Some((base, field)) = s.rsplit_once('.') {
                    match (self.regs.get(base), field) {
                        (Some(Reg::P(p)), "x") => return Ok(*p.x()),
                        (Some(Reg::P(p)), "y") => return Ok(*p.y()),
                        (Some(Reg::Ws(ws)), k) => {
                            if let Ok(k) = k.parse::<usize>() {
                                if let Some(w) = ws.get(k) {
                                    return Ok(*w);
                                }
                            }
                        }
                        _ => {}
                    }
                }
                bad(format!("unknown witness register {s}"))
            }
            _ => bad(format!("bad witness reference {v}")),
        }
    }

    fn wit(&self, op: &Value, key: &str) -> Result<Witness, RunError> {
        match op.get(key) {
            Some(v) => {
                let w = self.wit_v(v)?;
                self.resolved.borrow_mut().insert(key.to_string(), json!(w.index() + 1));
                Ok(w)
            }
            None => bad(format!("missing witness `{key}` in {op}")),
        }
    }

    fn wit_or_zero(&self, v: Option<&Value>) -> Result<Witness, RunError> {
        match v {
            Some(v) if !v.is_null() => self.wit_v(v),
            _ => Ok(Composer::ZERO),
        }
    }

    fn pt(&self, op: &Value, key: &str) -> Result<WitnessPoint, RunError> {
        let p = self.pt_inner(op, key)?;
        self.resolved
            .borrow_mut()
            .insert(key.to_string(), json!([p.x().index() + 1, p.y().index() + 1]));
        Ok(p)
    }

    fn pt_inner(&self, op: &Value, key: &str) -> Result<WitnessPoint, RunError> {
        match op.get(key) {
            Some(Value::String(s)) => match self.regs.get(s) {
                Some(Reg::P(p)) => Ok(*p),
                _ => bad(format!("unknown point register {s}")),
            },
            Some(Value::Array(a)) if a.len() == 2 => {
                let x = self.wit_v(&a[0])?;
                let y = self.wit_v(&a[1])?;
                Ok(Composer::verif_point_of(x, y))
            }
            _ => bad(format!("missing point `{key}` in {op}")),
        }
    }

    fn tf(&self, op: &Value, key: &str) -> Result<TorsionFreeWitnessPoint, RunError> {
        Ok(TorsionFreeWitnessPoint::new_unchecked(self.pt(op, key)?))
    }

    fn ext(&self, op: &Value, key: &str) -> Result<JubJubExtended, RunError> {
        match op.get(key) {
            Some(v) => point_from_json(v).map_err(RunError::Bad),
            None => bad(format!("missing point value `{key}` in {op}")),
        }
    }

    fn constraint(&self, op: &Value) -> Result<Constraint, RunError> {
        let q = op.get("q").cloned().unwrap_or(json!({}));
        let mut s = Constraint::new()
            .mult(fe_or_zero(q.get("m"))?)
            .left(fe_or_zero(q.get("l"))?)
            .right(fe_or_zero(q.get("r"))?)
            .output(fe_or_zero(q.get("o"))?)
            .fourth(fe_or_zero(q.get("f"))?)
            .constant(fe_or_zero(q.get("c"))?);
        if let Some(pi) = fe_opt(op, "pi")? {
            s = s.public(pi);
        }
        let w = op.get("w").and_then(|w| w.as_array()).cloned().unwrap_or_default();
        let ws = [
            self.wit_or_zero(w.first())?,
            self.wit_or_zero(w.get(1))?,
            self.wit_or_zero(w.get(2))?,
            self.wit_or_zero(w.get(3))?,
        ];
        self.resolved.borrow_mut().insert(
            "w".to_string(),
            json!(ws.iter().map(|x| x.index() + 1).collect::<Vec<_>>()),
        );
        s = s.a(ws[0]).b(ws[1]).c(ws[2]).d(ws[3]);
        Ok(s)
    }

    fn set_out(&mut self, op: &Value, r: Reg) {
        if let Some(name) = op.get("out").and_then(|o| o.as_str()) {
            self.regs.insert(name.to_string(), r);
        }
    }

    /// Executes one op; returns the witness indexes it handed back.
    fn step(&mut self, op: &Value) -> Result<Vec<usize>, RunError> {
        let name = op.get("op").and_then(|o| o.as_str()).unwrap_or("");
        let mut ret: Vec<usize> = Vec::new();
        match name {
            "witness" => {
                let w = self.c.append_witness(fe(op, "v")?);
                ret.push(w.index());
                self.set_out(op, Reg::W(w));
            }
            "constant" => {
                let w = self.c.append_constant(fe(op, "v")?);
                ret.push(w.index());
                self.set_out(op, Reg::W(w));
            }
            "public" => {
                let w = self.c.append_public(fe(op, "v")?);
                ret.push(w.index());
                self.set_out(op, Reg::W(w));
            }
            "gate" => {
                let s = self.constraint(op)?;
                self.c.append_gate(s);
            }
            "evaluated_output" => {
                let s = self.constraint(op)?;
                if let Some(w) = self.c.append_evaluated_output(s) {
                    ret.push(w.index());
                    self.set_out(op, Reg::W(w));
                }
            }
            "gate_add" => {
                let s = self.constraint(op)?;
                let w = self.c.gate_add(s);
                ret.push(w.index());
                self.set_out(op, Reg::W(w));
            }
            "gate_mul" => {
                let s = self.constraint(op)?;
                let w = self.c.gate_mul(s);
                ret.push(w.index());
                self.set_out(op, Reg::W(w));
            }
            "raw" => {
                let sel = op
                    .get("sel")
                    .and_then(|s| s.as_array())
                    .ok_or_else(|| RunError::Bad("raw without sel".into()))?;
                if sel.len() != 11 {
                    return bad("raw needs 11 selectors");
                }
                let mut selectors = [BlsScalar::zero(); 11];
                for (i, v) in sel.iter().enumerate() {
                    selectors[i] = fe_from_json(v).map_err(RunError::Bad)?;
                }
                let w = op.get("w").and_then(|w| w.as_array()).cloned().unwrap_or_default();
                let wires = [
                    self.wit_or_zero(w.first())?,
                    self.wit_or_zero(w.get(1))?,
                    self.wit_or_zero(w.get(2))?,
                    self.wit_or_zero(w.get(3))?,
                ];
                self.resolved.borrow_mut().insert(
                    "w".to_string(),
                    json!(wires.iter().map(|x| x.index() + 1).collect::<Vec<_>>()),
                );
                let pi = fe_opt(op, "pi")?;
                self.c.verif_raw_gate(selectors, wires, pi);
            }
            "assert_equal" => {
                let a = self.wit(op, "a")?;
                let b = self.wit(op, "b")?;
                self.c.assert_equal(a, b);
            }
            "assert_equal_constant" => {
                let a = self.wit(op, "a")?;
                let k = fe(op, "c")?;
                let pi = fe_opt(op, "pi")?;
                self.c.assert_equal_constant(a, k, pi);
            }
            "boolean" => {
                let a = self.wit(op, "a")?;
                self.c.component_boolean(a);
            }
            "select" => {
                let bit = self.wit(op, "bit")?;
                let a = self.wit(op, "a")?;
                let b = self.wit(op, "b")?;
                let w = self.c.component_select(bit, a, b);
                ret.push(w.index());
                self.set_out(op, Reg::W(w));
            }
            "select_one" => {
                let bit = self.wit(op, "bit")?;
                let a = self.wit(op, "a")?;
                let w = self.c.component_select_one(bit, a);
                ret.push(w.index());
                self.set_out(op, Reg::W(w));
            }
            "select_zero" => {
                let bit = self.wit(op, "bit")?;
                let a = self.wit(op, "a")?;
                let w = self.c.component_select_zero(bit, a);
                ret.push(w.index());
                self.set_out(op, Reg::W(w));
            }
            "range_bits" => {
                let w = self.wit(op, "w")?;
                let bits = usz(op, "bits")?;
                if self.c.verif_component_range_bits(w, bits).is_none() {
                    return bad(format!("range_bits width {bits} unsupported"));
                }
            }
            "range_pairs" => {
                let w = self.wit(op, "w")?;
                let pairs = usz(op, "pairs")?;
                if self.c.verif_component_range(w, pairs).is_none() {
                    return bad(format!("range_pairs width {pairs} unsupported"));
                }
            }
            "range_check" => {
                let w = self.wit(op, "w")?;
                let bits = usz(op, "bits")?;
                if bits > 256 {
                    return bad("range_check width > 256");
                }
                self.c.verif_range_check(w, bits);
            }
            "logic" => {
                let a = self.wit(op, "a")?;
                let b = self.wit(op, "b")?;
                let pairs = usz(op, "pairs")?;
                let xor = op.get("xor").and_then(|x| x.as_bool()).unwrap_or(false);
                // use the dedicated public entry points where they exist
                match self.c.verif_logic(a, b, pairs, xor) {
                    Some(w) => {
                        ret.push(w.index());
                        self.set_out(op, Reg::W(w));
                    }
                    None => return bad(format!("logic width {pairs} unsupported")),
                }
            }
            "truncate" => {
                let w = self.wit(op, "w")?;
                let n = usz(op, "n")?;
                match self.c.verif_truncate(w, n) {
                    Some(w) => {
                        ret.push(w.index());
                        self.set_out(op, Reg::W(w));
                    }
                    None => return bad(format!("truncate width {n} unsupported")),
                }
            }
            "decomposition" => {
                let w = self.wit(op, "w")?;
                let n = usz(op, "n")?;
                match self.c.verif_decomposition(w, n) {
                    Some(ws) => {
                        ret.extend(ws.iter().map(|w| w.index()));
                        self.set_out(op, Reg::Ws(ws));
                    }
                    None => return bad(format!("decomposition width {n} unsupported")),
                }
            }
            "bind_truncation_split" => {
                let input = self.wit(op, "input")?;
                let low = self.wit(op, "low")?;
                let n = usz(op, "n")?;
                if n > 255 {
                    return bad("bind_truncation_split width > 255");
                }
                self.c.verif_bind_truncation_split(input, low, n);
            }
            "assert_canonical_truncation" => {
                let high = self.wit(op, "high")?;
                let low = self.wit(op, "low")?;
                let n = usz(op, "n")?;
                if n > 255 {
                    return bad("assert_canonical_truncation width > 255");
                }
                self.c.verif_assert_canonical_truncation(high, low, n);
            }
            "assert_canonical_jubjub_scalar" => {
                let s = self.wit(op, "s")?;
                self.c.verif_assert_canonical_jubjub_scalar(s);
            }
            "point" => {
                // unchecked pair of witnesses
                let p = self.c.verif_point(fe(op, "u")?, fe(op, "v")?);
                ret.extend([p.x().index(), p.y().index()]);
                self.set_out(op, Reg::P(p));
            }
            "append_point" => {
                let e = self.ext(op, "pt")?;
                let p = self.c.append_point(e)?;
                ret.extend([p.x().index(), p.y().index()]);
                self.set_out(op, Reg::P(p));
            }
            "append_constant_point" => {
                let e = self.ext(op, "pt")?;
                let p: WitnessPoint = self.c.append_constant_point(e)?.into();
                ret.extend([p.x().index(), p.y().index()]);
                self.set_out(op, Reg::P(p));
            }
            "append_public_point" => {
                let e = self.ext(op, "pt")?;
                let p = self.c.append_public_point(e)?;
                ret.extend([p.x().index(), p.y().index()]);
                self.set_out(op, Reg::P(p));
            }
            "assert_equal_point" => {
                let a = self.pt(op, "a")?;
                let b = self.pt(op, "b")?;
                self.c.assert_equal_point(a, b);
            }
            "assert_equal_public_point" => {
                let p = self.pt(op, "p")?;
                let e = self.ext(op, "pt")?;
                self.c.assert_equal_public_point(p, e)?;
            }
            "assert_torsion_free" => {
                let p = self.pt(op, "p")?;
                let q: WitnessPoint = self.c.assert_torsion_free_point(p).into();
                self.set_out(op, Reg::P(q));
            }
            "torsion_free_gates" => {
                let p = self.pt(op, "p")?;
                self.c
                    .verif_assert_torsion_free_gates(p, fe(op, "qu")?, fe(op, "qv")?);
            }
            "add_point" => {
                let a = self.tf(op, "a")?;
                let b = self.tf(op, "b")?;
                let p: WitnessPoint = self.c.component_add_point(a, b).into();
                ret.extend([p.x().index(), p.y().index()]);
                self.set_out(op, Reg::P(p));
            }
            "sub_point" => {
                let a = self.tf(op, "a")?;
                let b = self.tf(op, "b")?;
                let p: WitnessPoint = self.c.component_sub_point(a, b).into();
                ret.extend([p.x().index(), p.y().index()]);
                self.set_out(op, Reg::P(p));
            }
            "neg_point" => {
                let a = self.tf(op, "a")?;
                let p: WitnessPoint = self.c.component_neg_point(a).into();
                ret.extend([p.x().index(), p.y().index()]);
                self.set_out(op, Reg::P(p));
            }
            "add_point_gates" => {
                let a = self.pt(op, "a")?;
                let b = self.pt(op, "b")?;
                let p = self.c.verif_add_point_gates(a, b);
                ret.extend([p.x().index(), p.y().index()]);
                self.set_out(op, Reg::P(p));
            }
            "select_identity" => {
                let bit = self.wit(op, "bit")?;
                let a = self.tf(op, "a")?;
                let p: WitnessPoint = self.c.component_select_identity(bit, a).into();
                ret.extend([p.x().index(), p.y().index()]);
                self.set_out(op, Reg::P(p));
            }
            "select_point" => {
                let bit = self.wit(op, "bit")?;
                let a = self.pt(op, "a")?;
                let b = self.pt(op, "b")?;
                let p = self.c.component_select_point(bit, a, b);
                ret.extend([p.x().index(), p.y().index()]);
                self.set_out(op, Reg::P(p));
            }
            "mul_point" => {
                let s = self.wit(op, "s")?;
                let p = self.tf(op, "p")?;
                let r: WitnessPoint = self.c.component_mul_point(s, p).into();
                ret.extend([r.x().index(), r.y().index()]);
                self.set_out(op, Reg::P(r));
            }
            "mul_generator" => {
                let s = self.wit(op, "s")?;
                let e = self.ext(op, "pt")?;
                let r: WitnessPoint = self.c.component_mul_generator(s, e)?.into();
                ret.extend([r.x().index(), r.y().index()]);
                self.set_out(op, Reg::P(r));
            }
            "fixed_base_digits" => {
                let s = self.wit(op, "s")?;
                let e = self.ext(op, "pt")?;
                let d = op
                    .get("digits")
                    .and_then(|d| d.as_array())
                    .ok_or_else(|| RunError::Bad("missing digits".into()))?;
                if d.len() != 256 {
                    return bad("digits must have 256 entries");
                }
                let mut digits = [0i8; 256];
                for (i, v) in d.iter().enumerate() {
                    digits[i] = v.as_i64().ok_or_else(|| RunError::Bad("bad digit".into()))? as i8;
                }
                let r = self.c.verif_fixed_base_signed_digits(s, e, &digits)?;
                ret.extend([r.x().index(), r.y().index()]);
                self.set_out(op, Reg::P(r));
            }
            "set_witness" => {
                let w = self.wit(op, "w")?;
                let v = fe(op, "v")?;
                self.c.verif_set_witness(w.index(), v);
            }
            "dup_rows" => {
                // re-emit rows [from, from+count) as raw rows, overriding the
                // arithmetic selectors given in `q` (and q_arith = 1 when any
                // is given); `pi: "balance"` attaches the public input that
                // cancels the arithmetic identity for the current values.
                let from = usz(op, "from")?;
                let count = usz(op, "count")?;
                let snap = self.c.verif_snapshot();
                if from + count > snap.rows.len() {
                    return bad("dup_rows out of range");
                }
                let q = op.get("q").cloned().unwrap_or(json!({}));
                for i in from..from + count {
                    let mut sel = snap.rows[i].selectors;
                    let mut any = false;
                    for (k, name) in ["m", "l", "r", "o", "f", "c"].iter().enumerate() {
                        if let Some(v) = q.get(*name) {
                            sel[k] = fe_from_json(v).map_err(RunError::Bad)?;
                            any = true;
                        }
                    }
                    if any {
                        sel[6] = BlsScalar::one();
                    }
                    let w = snap.rows[i].wires;
                    let vals: Vec<BlsScalar> = w.iter().map(|k| snap.witnesses[*k]).collect();
                    let pi = match op.get("pi").and_then(|p| p.as_str()) {
                        Some("balance") => {
                            let a = sel[0] * vals[0] * vals[1]
                                + sel[1] * vals[0]
                                + sel[2] * vals[1]
                                + sel[3] * vals[2]
                                + sel[4] * vals[3]
                                + sel[5];
                            Some(-(a * sel[6]))
                        }
                        _ => None,
                    };
                    let wires = [
                        self.c.verif_witness(w[0]).unwrap(),
                        self.c.verif_witness(w[1]).unwrap(),
                        self.c.verif_witness(w[2]).unwrap(),
                        self.c.verif_witness(w[3]).unwrap(),
                    ];
                    self.c.verif_raw_gate(sel, wires, pi);
                }
            }
            "propagate" => {
                // generic constraint propagation (no gadget knowledge): in row order,
                // every arithmetic row whose output wire `c` makes its FIRST appearance
                // in that row (an "evaluated output") gets c recomputed from the row:
                // c := -(q_m ab + q_l a + q_r b + q_f d + q_c + pi) / q_o.
                // Witnesses below `from` and those listed in `pinned` are left alone.
                let from = usz(op, "from")?;
                let pinned: Vec<usize> = op
                    .get("pinned")
                    .and_then(|p| p.as_array())
                    .map(|a| a.iter().filter_map(|x| x.as_u64()).map(|x| x as usize).collect())
                    .unwrap_or_default();
                let snap = self.c.verif_snapshot();
                let pis: HashMap<usize, BlsScalar> = snap.public_inputs.iter().cloned().collect();
                let mut seen = vec![false; snap.witnesses.len()];
                let mut vals = snap.witnesses.clone();
                for (i, row) in snap.rows.iter().enumerate() {
                    let [a, b, c, d] = row.wires;
                    let q = &row.selectors;
                    let fresh = c >= from && !seen[c] && c != a && c != b && c != d && !pinned.contains(&c);
                    if fresh && q[6] != BlsScalar::zero() && q[3] != BlsScalar::zero() {
                        let pi = pis.get(&i).copied().unwrap_or(BlsScalar::zero());
                        let x = q[0] * vals[a] * vals[b] + q[1] * vals[a] + q[2] * vals[b]
                            + q[4] * vals[d] + q[5] + pi;
                        if let Some(inv) = Option::<BlsScalar>::from(q[3].invert()) {
                            vals[c] = -(x * inv);
                            self.c.verif_set_witness(c, vals[c]);
                        }
                    }
                    for w in row.wires {
                        seen[w] = true;
                    }
                }
            }
            "ret" => {
                // declares which witnesses the scenario regards as "returned"
                if let Some(ws) = op.get("w").and_then(|w| w.as_array()) {
                    for w in ws {
                        ret.push(self.wit_v(w)?.index());
                    }
                }
            }
            "set_witness_opt" => {
                // adversarial override keyed by the SPECIFICATION's layout: when the
                // implementation's layout has drifted the index may not exist; the
                // override is then skipped (the scenario's expectation is phrased so
                // that a skipped override cannot raise an alarm)
                let v = fe(op, "v")?;
                if let Some(i) = op.get("w").and_then(|w| w.as_u64()) {
                    self.c.verif_set_witness(i as usize, v);
                }
            }
            "pad" => {
                let to = usz(op, "to")?;
                if self.c.constraints() > to {
                    return bad(format!(
                        "pad target {to} below current size {}",
                        self.c.constraints()
                    ));
                }
                while self.c.constraints() < to {
                    self.c.append_gate(Constraint::new());
                }
            }
            other => return bad(format!("unknown op `{other}`")),
        }
        Ok(ret)
    }
}

/// Runs `program` on `composer`. Stops at the first library error (as a real
/// `Circuit::circuit` using `?` would). `trace` receives one record per op.
pub fn run_program(
    program: &Program,
    composer: &mut Composer,
    mut trace: Option<&mut Vec<CallRecord>>,
) -> Result<(), RunError> {
    run_program_cb(program, composer, &mut |r, _| {
        if let Some(t) = trace.as_deref_mut() {
            t.push(r.clone());
        }
    })
}

/// Like `run_program`, calling `cb(record, composer)` after every op (the
/// composer is in the state the op left it in).
pub fn run_program_cb(
    program: &Program,
    composer: &mut Composer,
    cb: &mut dyn FnMut(&CallRecord, &Composer),
) -> Result<(), RunError> {
    let mut it = Interp {
        c: composer,
        regs: HashMap::new(),
        resolved: Default::default(),
    };
    for (i, op) in program.ops.iter().enumerate() {
        let rows_before = it.c.constraints();
        let wit_before = it.c.verif_witness_count();
        it.resolved.borrow_mut().clear();
        let r = it.step(op);
        let (outcome, ret) = match &r {
            Ok(ret) => ("ok".to_string(), ret.clone()),
            Err(RunError::Lib(e)) => (format!("err:{}", err_class(e)), vec![]),
            Err(RunError::Bad(s)) => (format!("bad:{s}"), vec![]),
        };
        let rec = CallRecord {
            resolved: Value::Object(it.resolved.borrow().clone()),
            index: i,
            op: op.get("op").and_then(|o| o.as_str()).unwrap_or("").to_string(),
            outcome,
            rows_before,
            rows_after: it.c.constraints(),
            wit_before,
            wit_after: it.c.verif_witness_count(),
            ret,
        };
        cb(&rec, it.c);
        r?;
    }
    Ok(())
}

static DEFAULT_PROGRAM: Mutex<Option<Program>> = Mutex::new(None);

/// Sets the program that `ScriptedCircuit::default()` carries (needed for the
/// public `Circuit::compress()` / `Compiler::compile::<C>()` entry points,
/// which instantiate the circuit through `Default`).
pub fn set_default_program(p: Program) {
    *DEFAULT_PROGRAM.lock().unwrap_or_else(|e| e.into_inner()) = Some(p);
}

/// A circuit that carries its program in the struct (it may be run on any
/// thread, e.g. a rayon worker).
#[derive(Clone, Debug)]
pub struct ScriptedCircuit {
    pub program: Program,
}

impl ScriptedCircuit {
    pub fn new(program: Program) -> Self {
        Self { program }
    }
}

impl Default for ScriptedCircuit {
    fn default() -> Self {
        let p = DEFAULT_PROGRAM
            .lock()
            .unwrap_or_else(|e| e.into_inner())
            .clone()
            .unwrap_or_default();
        Self { program: p }
    }
}

impl Circuit for ScriptedCircuit {
    fn circuit(&self, composer: &mut Composer) -> Result<(), Error> {
        match run_program(&self.program, composer, None) {
            Ok(()) => Ok(()),
            Err(RunError::Lib(e)) => Err(e),
            Err(RunError::Bad(s)) => panic!("harness: bad program: {s}"),
        }
    }
}

/// Snapshot of a composer as JSON (limb-encoded field elements).
pub fn snapshot_json(c: &Composer, with_values: bool) -> Value {
    let s = c.verif_snapshot();
    let rows: Vec<Value> = s
        .rows
        .iter()
        .map(|r| {
            json!({
                "q": r.selectors.iter().map(crate::fe::fe_to_json).collect::<Vec<_>>(),
                "w": r.wires,
            })
        })
        .collect();
    let pis: Vec<Value> = s
        .public_inputs
        .iter()
        .map(|(i, v)| json!({"row": i, "v": crate::fe::fe_to_json(v)}))
        .collect();
    let mut out = json!({"rows": rows, "pis": pis, "nw": s.witnesses.len()});
    if with_values {
        out["vals"] = crate::fe::fes_to_json(&s.witnesses);
    }
    out
}
