//! C06: differential "in the exponent" of the prover's masking, no prover hook.
//!
//! The expected behaviour comes from the specification (TLC, `TraceMasks` =
//! `Masking!ExpectedScalars` over the BLS12-381 scalar field), computed from
//! the scenario parameters BEFORE this binary runs. This binary only drives
//! the library and compares group elements / bytes:
//!
//! masks describe
//!     one line per circuit family: {"family", "constraints"}
//! masks run --scen SCEN.ndjson --expect EXPECT.ndjson
//!     per scenario: `PublicParameters::setup` under a scripted generator
//!     (secret tau, generator scalar sg known), compile the family's circuit,
//!     prove under the scripted stream S and under S[k -> S[k]+delta]
//!     (scenario kind "diff") or under a second stream differing in every
//!     draw ("fresh"); check
//!       * the generator log of every proving run: exactly `draws` calls
//!         `fill_bytes(64)` and nothing else,
//!       * both proofs verify,
//!       * every commitment in `same` is byte-identical,
//!       * every commitment in `moved` differs by [scalar] * G1 generator,
//!       * every field in `differ` differs.
//!
//! scenario: {"id","kind":"diff"|"fresh","family","salt","version",
//!            "tau","sg","sh","stream":[14 scalars],"k","delta",
//!            "stream2":[14 scalars] (fresh)}  (scalars: limbs / hex / ints)

use std::collections::HashMap;
use std::fs::File;
use std::io::{BufRead, BufReader, BufWriter, Write};

use dusk_bls12_381::{BlsScalar, G1Affine, G1Projective};
use dusk_bytes::Serializable;
use dusk_plonk::prelude::*;
use plonk_conf::families;
use plonk_conf::fe::*;
use plonk_conf::prog::*;
use plonk_conf::rng::ScriptRng;
use plonk_conf::util::*;
use serde_json::{json, Value};

const PROOF_POINTS: [&str; 11] = [
    "a_comm", "b_comm", "c_comm", "d_comm", "z_comm", "t_low_comm", "t_mid_comm",
    "t_high_comm", "t_fourth_comm", "w_z_chall_comm", "w_z_chall_w_comm",
];
const PROOF_SCALARS: [&str; 15] = [
    "a_eval", "b_eval", "c_eval", "d_eval", "a_w_eval", "b_w_eval", "d_w_eval",
    "q_arith_eval", "q_c_eval", "q_l_eval", "q_r_eval", "s_sigma_1_eval",
    "s_sigma_2_eval", "s_sigma_3_eval", "z_eval",
];

/// Byte range of a named proof field inside `Proof::to_bytes()`.
fn field_range(name: &str) -> Option<std::ops::Range<usize>> {
    if let Some(i) = PROOF_POINTS.iter().position(|n| *n == name) {
        return Some(48 * i..48 * (i + 1));
    }
    PROOF_SCALARS.iter().position(|n| *n == name).map(|i| 528 + 32 * i..528 + 32 * (i + 1))
}

fn point(bytes: &[u8], name: &str) -> Result<G1Affine, String> {
    let r = field_range(name).ok_or_else(|| format!("unknown field {name}"))?;
    let a: [u8; 48] = bytes[r].try_into().map_err(|_| format!("{name} is not a point"))?;
    G1Affine::from_bytes(&a).map_err(|e| format!("{name}: {e:?}"))
}

fn read_ndjson(path: &str) -> Vec<Value> {
    BufReader::new(File::open(path).unwrap_or_else(|e| panic!("{path}: {e}")))
        .lines()
        .map(|l| l.unwrap())
        .filter(|l| l.trim_start().starts_with('{'))
        .map(|l| serde_json::from_str(&l).expect("ndjson"))
        .collect()
}

fn fes(v: &Value) -> Vec<BlsScalar> {
    v.as_array().map(|a| a.iter().map(|x| fe_from_json(x).expect("scalar")).collect()).unwrap_or_default()
}

fn log_ok(log: &[(&'static str, usize)], draws: usize) -> bool {
    log.len() == draws && log.iter().all(|(m, n)| *m == "fill_bytes" && *n == 64)
}

fn log_json(log: &[(&'static str, usize)]) -> Value {
    json!(log.iter().map(|(m, n)| format!("{m}({n})")).collect::<Vec<_>>())
}

fn describe() {
    for name in families::FAMILIES.iter().chain(families::LARGE_FAMILIES.iter()) {
        let mut c = Composer::initialized();
        let p = families::family(name, 0).unwrap();
        if run_program(&p, &mut c, None).is_err() {
            continue;
        }
        println!("{}", json!({"family": name, "constraints": c.constraints()}));
    }
}

struct Keys {
    prover: Prover,
    verifier: Verifier,
}

fn run(scen_path: &str, expect_path: &str) {
    quiet_panics();
    let scens = read_ndjson(scen_path);
    let mut expect: HashMap<u64, Value> = HashMap::new();
    for e in read_ndjson(expect_path) {
        expect.insert(e["id"].as_u64().unwrap(), e);
    }
    let out = std::io::stdout();
    let mut out = BufWriter::new(out.lock());
    // keys per (tau, sg, sh, family)
    let mut cache: HashMap<String, Result<Keys, String>> = HashMap::new();

    for sc in &scens {
        let id = sc["id"].as_u64().unwrap();
        let Some(ex) = expect.get(&id) else {
            writeln!(out, "{}", json!({"id": id, "error": "no expectation from the specification"})).unwrap();
            continue;
        };
        let family = sc["family"].as_str().unwrap_or("arith");
        let salt = sc["salt"].as_u64().unwrap_or(0);
        let version = match sc["version"].as_u64().unwrap_or(3) {
            2 => PlonkVersion::V2,
            _ => PlonkVersion::V3,
        };
        let tau = fe_from_json(&sc["tau"]).expect("tau");
        let sg = fe_from_json(&sc["sg"]).expect("sg");
        let sh = fe_from_json(&sc["sh"]).expect("sh");
        let key = format!("{}|{}|{}|{}", fe_hex(&tau), fe_hex(&sg), fe_hex(&sh), family);
        let keys = cache.entry(key).or_insert_with(|| {
            let mut rng = ScriptRng::new(1, vec![tau, sg, sh]);
            // families beyond the 2^12 switch of the FFT / parallel paths need a larger SRS
            let cap = if families::LARGE_FAMILIES.contains(&family) { 1 << 13 } else { 1 << 11 };
            let pp = guarded(|| PublicParameters::setup(cap, &mut rng))
                .map_err(|p| format!("setup panic: {p}"))?
                .map_err(|e| format!("setup: {e:?}"))?;
            if !log_ok(&rng.log, 3) {
                return Err(format!("setup drew {:?}", rng.log));
            }
            // the generator of the SRS is [sg] G (read from the encoded opening key)
            let raw = pp.to_raw_var_bytes();
            let g: [u8; 48] = raw[..48].try_into().unwrap();
            let g = G1Affine::from_bytes(&g).map_err(|e| format!("opening key g: {e:?}"))?;
            if G1Projective::from(g) != G1Affine::generator() * sg {
                return Err("SRS generator is not [sg] G".into());
            }
            let circ = ScriptedCircuit::new(families::family(family, 0).ok_or("unknown family")?);
            let (prover, verifier) = guarded(|| Compiler::compile_with_circuit(&pp, b"c06", &circ))
                .map_err(|p| format!("compile panic: {p}"))?
                .map_err(|e| format!("compile: {e:?}"))?;
            Ok(Keys { prover, verifier })
        });
        let keys = match keys {
            Ok(k) => k,
            Err(e) => {
                writeln!(out, "{}", json!({"id": id, "error": e})).unwrap();
                continue;
            }
        };
        let circ = ScriptedCircuit::new(families::family(family, salt).expect("family"));
        let draws = ex["draws"].as_u64().unwrap_or(14) as usize;
        let kind = sc["kind"].as_str().unwrap_or("diff");

        let s1 = fes(&sc["stream"]);
        let s2: Vec<BlsScalar> = if kind == "diff" {
            let k = sc["k"].as_u64().expect("k") as usize;
            let delta = fe_from_json(&sc["delta"]).expect("delta");
            let mut s = s1.clone();
            s[k - 1] += delta;
            s
        } else {
            fes(&sc["stream2"])
        };

        let mut res = json!({"id": id, "kind": kind, "family": family, "k": sc["k"], "version": sc["version"]});
        let mut proofs: Vec<Vec<u8>> = Vec::new();
        let mut ok = true;
        let mut logs = Vec::new();
        for s in [&s1, &s2] {
            let mut rng = ScriptRng::new(7, s.clone());
            let r = guarded(|| keys.prover.prove_with_version(&mut rng, &circ, version));
            let oc = outcome(&r);
            logs.push(log_json(&rng.log));
            if !log_ok(&rng.log, draws) {
                ok = false;
                res["rng"] = json!("unexpected");
            }
            match r {
                Ok(Ok((proof, pis))) => {
                    let v = guarded(|| keys.verifier.verify_with_version(&proof, &pis, version));
                    if outcome(&v) != "ok" {
                        ok = false;
                        res["verify"] = json!(outcome(&v));
                    }
                    proofs.push(proof.to_bytes().to_vec());
                }
                _ => {
                    ok = false;
                    res["prove"] = json!(oc);
                }
            }
        }
        res["rng_log"] = json!(logs);
        if proofs.len() == 2 {
            let (p1, p2) = (&proofs[0], &proofs[1]);
            let mut bad: Vec<Value> = Vec::new();
            for name in ex["same"].as_array().cloned().unwrap_or_default() {
                let name = name.as_str().unwrap();
                let r = field_range(name).expect("field");
                if p1[r.clone()] != p2[r] {
                    bad.push(json!({"field": name, "expected": "identical", "observed": "changed"}));
                }
            }
            for m in ex["moved"].as_array().cloned().unwrap_or_default() {
                let name = m[0].as_str().unwrap();
                let scalar = fe_from_json(&m[1]).expect("expected scalar");
                match (point(p1, name), point(p2, name)) {
                    (Ok(c1), Ok(c2)) => {
                        let diff = G1Projective::from(c2) - G1Projective::from(c1);
                        if diff != G1Affine::generator() * scalar {
                            let how = if c1 == c2 { "unchanged" } else { "moved by another amount" };
                            bad.push(json!({"field": name, "expected": "moved by [scalar]G", "observed": how}));
                        }
                    }
                    (a, b) => bad.push(json!({"field": name, "error": format!("{:?} {:?}", a.err(), b.err())})),
                }
            }
            for name in ex["differ"].as_array().cloned().unwrap_or_default() {
                let name = name.as_str().unwrap();
                let r = field_range(name).expect("field");
                if p1[r.clone()] == p2[r] {
                    bad.push(json!({"field": name, "expected": "different", "observed": "shared"}));
                }
            }
            // informational: fields of the two proofs that coincide
            let shared: Vec<&str> = PROOF_POINTS
                .iter()
                .chain(PROOF_SCALARS.iter())
                .filter(|n| {
                    let r = field_range(n).unwrap();
                    p1[r.clone()] == p2[r]
                })
                .copied()
                .collect();
            res["shared"] = json!(shared);
            if !bad.is_empty() {
                ok = false;
                res["bad"] = json!(bad);
                res["proofs"] = json!([hex_bytes(p1), hex_bytes(p2)]);
            }
        }
        res["ok"] = json!(ok);
        writeln!(out, "{}", res).unwrap();
    }
}

fn arg(args: &[String], name: &str) -> Option<String> {
    args.iter().position(|a| a == name).and_then(|i| args.get(i + 1)).cloned()
}

fn main() {
    let args: Vec<String> = std::env::args().collect();
    match args.get(1).map(|s| s.as_str()) {
        Some("describe") => describe(),
        Some("run") => run(&arg(&args, "--scen").expect("--scen"), &arg(&args, "--expect").expect("--expect")),
        _ => {
            eprintln!("usage: masks describe | run --scen F --expect F");
            std::process::exit(2);
        }
    }
}
