//! Composer recorder (C07-C14 layout / honest-value conformance): runs
//! scripted programs on the real `Composer` and records, per call, the
//! resolved arguments and exactly what the call appended (rows, witnesses
//! with their values, public inputs, returned witnesses, outcome).
//!
//! stdin: NDJSON `{"id":..,"ops":[...]}`; stdout: NDJSON events
//!   {"ev":"begin","id",rows,vals,pis,d}          state after initialized()
//!   {"ev":"call","id","i","op","args",res,ret,rows,vals,pis,d}
//! Field elements are limb arrays; selectors of rows are indexes into the
//! event's dictionary `d`; witness indexes and rows are 1-based.

use std::collections::HashMap;
use std::io::{BufRead, Write};

use dusk_bls12_381::BlsScalar;
use dusk_plonk::prelude::*;
use plonk_conf::fe::*;
use plonk_conf::prog::*;
use plonk_conf::util::*;
use serde_json::{json, Map, Value};

struct Dict {
    map: HashMap<[u8; 32], usize>,
    vals: Vec<BlsScalar>,
}

impl Dict {
    fn new() -> Self {
        Self { map: HashMap::new(), vals: Vec::new() }
    }
    fn id(&mut self, x: &BlsScalar) -> usize {
        let k = x.to_bytes();
        if let Some(i) = self.map.get(&k) {
            return *i;
        }
        self.vals.push(*x);
        let i = self.vals.len();
        self.map.insert(k, i);
        i
    }
}

const FE_KEYS: [&str; 6] = ["v", "c", "pi", "qu", "qv", "u"];

fn args_json(op: &Value, resolved: &Value) -> Value {
    let mut m = Map::new();
    if let Some(o) = op.as_object() {
        for (k, v) in o {
            match k.as_str() {
                "op" | "out" => {}
                "q" => {
                    // six external selectors, in order m l r o f c
                    let q: Vec<Value> = ["m", "l", "r", "o", "f", "c"]
                        .iter()
                        .map(|n| match v.get(*n) {
                            Some(x) => fe_to_json(&fe_from_json(x).unwrap()),
                            None => fe_to_json(&BlsScalar::zero()),
                        })
                        .collect();
                    m.insert("q".into(), Value::Array(q));
                }
                "sel" => {
                    let q: Vec<Value> = v
                        .as_array()
                        .unwrap()
                        .iter()
                        .map(|x| fe_to_json(&fe_from_json(x).unwrap()))
                        .collect();
                    m.insert("sel".into(), Value::Array(q));
                }
                "pt" => {
                    if let Ok(e) = point_from_json(v) {
                        m.insert(
                            "ext".into(),
                            json!([
                                fe_to_json(&e.get_u()),
                                fe_to_json(&e.get_v()),
                                fe_to_json(&e.get_z()),
                                fe_to_json(&e.get_t1()),
                                fe_to_json(&e.get_t2())
                            ]),
                        );
                    }
                }
                "digits" => {
                    m.insert("digits".into(), v.clone());
                }
                key if FE_KEYS.contains(&key) && !v.is_null() && !v.is_string_reg() => {
                    if let Ok(x) = fe_from_json(v) {
                        m.insert(key.into(), fe_to_json(&x));
                    }
                }
                _ => {
                    if v.is_u64() || v.is_boolean() {
                        m.insert(k.clone(), v.clone());
                    }
                }
            }
        }
    }
    if let Some(r) = resolved.as_object() {
        for (k, v) in r {
            m.insert(k.clone(), v.clone());
        }
    }
    if op.get("pi").map(|p| !p.is_null()).unwrap_or(false) {
        m.insert("haspi".into(), json!(true));
    }
    Value::Object(m)
}

trait IsReg {
    fn is_string_reg(&self) -> bool;
}
impl IsReg for Value {
    fn is_string_reg(&self) -> bool {
        matches!(self, Value::String(s) if !s.starts_with("0x"))
    }
}

fn delta_json(before: &dusk_plonk::verif::VerifSnapshot, after: &dusk_plonk::verif::VerifSnapshot) -> Value {
    let mut d = Dict::new();
    let rows: Vec<Value> = after.rows[before.rows.len()..]
        .iter()
        .map(|r| {
            json!({
                "q": r.selectors.iter().map(|s| d.id(s)).collect::<Vec<_>>(),
                "w": r.wires.iter().map(|w| w + 1).collect::<Vec<_>>(),
            })
        })
        .collect();
    let vals: Vec<Value> = after.witnesses[before.witnesses.len()..]
        .iter()
        .map(fe_to_json)
        .collect();
    let old: std::collections::HashSet<usize> = before.public_inputs.iter().map(|(i, _)| *i).collect();
    let pis: Vec<Value> = after
        .public_inputs
        .iter()
        .filter(|(i, _)| !old.contains(i))
        .map(|(i, v)| json!({"row": i + 1, "v": fe_to_json(v)}))
        .collect();
    // overrides of already allocated witnesses (set_witness)
    let over: Vec<Value> = before
        .witnesses
        .iter()
        .zip(after.witnesses.iter())
        .enumerate()
        .filter(|(_, (a, b))| a != b)
        .map(|(i, (_, b))| json!([i + 1, fe_to_json(b)]))
        .collect();
    json!({"rows": rows, "vals": vals, "pis": pis, "over": over,
           "d": d.vals.iter().map(fe_to_json).collect::<Vec<_>>()})
}

fn main() {
    quiet_panics();
    let stdin = std::io::stdin();
    let out = std::io::stdout();
    let mut out = out.lock();
    for line in stdin.lock().lines() {
        let line = line.unwrap();
        if !line.trim_start().starts_with('{') {
            continue;
        }
        let sc: Value = serde_json::from_str(&line).expect("program json");
        let id = sc.get("id").cloned().unwrap_or(json!(0));
        let prog = Program::from_json(&sc).expect("program");
        let mut c = Composer::initialized();
        let empty = dusk_plonk::verif::VerifSnapshot {
            rows: vec![],
            public_inputs: vec![],
            witnesses: vec![],
        };
        let mut before = c.verif_snapshot();
        let mut ev = delta_json(&empty, &before);
        ev["ev"] = json!("begin");
        ev["id"] = id.clone();
        writeln!(out, "{}", ev).unwrap();

        let run = guarded(|| {
            run_program_cb(&prog, &mut c, &mut |r, comp| {
                let after = comp.verif_snapshot();
                let mut ev = delta_json(&before, &after);
                ev["ev"] = json!("call");
                ev["id"] = id.clone();
                ev["i"] = json!(r.index + 1);
                ev["op"] = json!(r.op);
                ev["args"] = args_json(&prog.ops[r.index], &r.resolved);
                if r.outcome.starts_with("bad:") {
                    ev["res"] = json!("bad");
                    ev["why"] = json!(r.outcome);
                } else {
                    ev["res"] = json!(r.outcome);
                }
                ev["ret"] = json!(r.ret.iter().map(|w| w + 1).collect::<Vec<_>>());
                writeln!(out, "{}", ev).unwrap();
                before = after;
            })
        });
        let fin = match &run {
            Ok(Ok(())) => "ok".to_string(),
            Ok(Err(RunError::Lib(e))) => format!("err:{}", err_class(e)),
            Ok(Err(RunError::Bad(s))) => format!("bad:{s}"),
            Err(p) => format!("panic:{}", p.chars().take(160).collect::<String>()),
        };
        writeln!(out, "{}", json!({"ev":"end","id":id,"res":fin,
            "nr": before.rows.len(), "nw": before.witnesses.len()})).unwrap();
    }
}
