//! C16 / C17 binding: concretises the abstract inputs TLC derives from
//! `spec/Codec.tla`, runs the REAL checked decoders on them (panic = data,
//! counting allocator), and runs the serialization round trips.
//!
//!   codec selftest                      class representatives self-test
//!   codec replay      < scenarios.ndjson   decoder scenarios (MBT)
//!   codec pkenc       < scenarios.ndjson   ProverKey encoder scenarios (MBT)
//!   codec roundtrip [--tier quick|thorough]
//!   codec qm                            vanishing-top-coefficient family
//!   codec hostile [--tier ..]           hostile compressed circuits
//!
//! Every result is one JSON line on stdout; `{"begin":id}` precedes each
//! scenario so that an abort (refused allocation) can be attributed.

mod alloc;
mod enc;
mod objs;
mod reps;
mod rt;

use std::io::{BufRead, Write};

use dusk_bytes::{DeserializableSlice, Serializable};
use dusk_plonk::prelude::*;
use plonk_conf::fe::hex_bytes;
use plonk_conf::util::*;
use serde_json::{json, Value};

use alloc::measure;
use enc::*;
use objs::*;
use reps::Reps;

#[global_allocator]
static A: alloc::Counting = alloc::Counting;

pub struct Base {
    pub pp: PublicParameters,
    pub obj: Obj,
    pub prover_bytes: Vec<u8>,
    pub verifier_bytes: Vec<u8>,
    pub proof_bytes: Vec<u8>,
    pub pis: Vec<dusk_bls12_381::BlsScalar>,
    pub pp_bytes: Vec<u8>,
    /// a second valid object of each kind (other circuit, label, size): splice donor
    pub alt: [Vec<u8>; 4],
}

pub const SMOKE_SEED: u64 = 7;

/// `extra_rows` raw rows beyond the two of the smallest base (size 8): the
/// same abstract inputs can be replayed on a larger object of the same shape.
pub fn build_base_sized(extra_rows: usize) -> Result<Base, String> {
    let rows = 4 + 1 + 2 + extra_rows;
    let cap = (rows + 6).next_power_of_two();
    let pp = setup(cap);
    let program = allsel_program(1, extra_rows, 1);
    let obj = compile(&pp, b"codec-base", &program)?;
    let prover_bytes = obj.prover.to_bytes();
    let verifier_bytes = obj.verifier.to_bytes();
    let (o, pr, _) = prove_bytes(&obj.prover, &program, SMOKE_SEED, PlonkVersion::V3);
    let (proof_bytes, pis) = pr.ok_or(format!("base circuit does not prove: {o}"))?;
    let v = verify_bytes(&obj.verifier, &proof_bytes, &pis, PlonkVersion::V3);
    if v != "ok" {
        return Err(format!("base proof does not verify: {v}"));
    }
    // the model assumes every fixed polynomial of the base has full length
    let parts = parse_prover(&prover_bytes)?;
    if !parts.pk_complete {
        return Err("base prover encoding is incomplete".into());
    }
    let n = u64::from_le_bytes(parts.enc.get("pk.n").unwrap().as_slice().try_into().unwrap());
    for i in 1..=15 {
        let l = u64::from_le_bytes(parts.enc.get(&format!("pk.len.{i}")).unwrap().as_slice().try_into().unwrap());
        if l != n {
            return Err(format!("base polynomial {i} has length {l} != {n}"));
        }
    }
    let pp_bytes = pp.to_var_bytes();
    let alt_pp = setup(32);
    let alt_prog = allsel_program(2, 3, 2);
    let alt_obj = compile(&alt_pp, b"another-label", &alt_prog)?;
    let (_, alt_pr, _) = prove_bytes(&alt_obj.prover, &alt_prog, 9, PlonkVersion::V3);
    let alt_proof = alt_pr.ok_or("alt circuit does not prove")?.0;
    let alt = [alt_proof, alt_obj.verifier.to_bytes(), alt_obj.prover.to_bytes(), alt_pp.to_var_bytes()];
    Ok(Base { alt, pp, obj, prover_bytes, verifier_bytes, proof_bytes, pis, pp_bytes })
}

pub fn build_base() -> Result<Base, String> {
    build_base_sized(0)
}

fn apply_total(m: &str, bytes: &mut Vec<u8>, class: &str) -> Result<(), String> {
    match class {
        "exact" => {}
        "short" => {
            bytes.pop();
        }
        "long" => bytes.push(0),
        "long8" => bytes.extend_from_slice(&[0xab; 8]),
        "tiny" => {
            let k = match m {
                "prover" | "verifier" => 47,
                "pp" => 240,
                _ => 0,
            };
            bytes.truncate(k);
        }
        "empty" => bytes.clear(),
        "dropone" => {
            let k = bytes.len().saturating_sub(48);
            bytes.truncate(k);
        }
        _ => return Err(format!("unknown total class {class}")),
    }
    Ok(())
}

pub fn concretise(base: &Base, reps: &Reps, m: &str, toks: &[(String, String)]) -> Result<(Vec<u8>, Enc), String> {
    let mut enc = match m {
        "proof" => parse_proof(&base.proof_bytes)?,
        "verifier" => parse_verifier(&base.verifier_bytes)?,
        "prover" => parse_prover(&base.prover_bytes)?.enc,
        "pp" => parse_pp(&base.pp_bytes)?,
        _ => return Err(format!("unknown machine {m}")),
    };
    let mut total = "exact".to_string();
    let mut post: Vec<(String, String)> = Vec::new();
    for (f, c) in toks {
        if f.starts_with("byte.") || f.starts_with("splice.") {
            post.push((f.clone(), c.clone()));
        } else if f == "total" {
            total = c.clone();
        } else if c == "-" {
            continue; // deterministic step of the model, no input revealed
        } else {
            apply(&mut enc, m, f, c, reps)?;
        }
    }
    let mut bytes = enc.bytes();
    for (f, c) in &post {
        let (kind, off) = f.split_once('.').unwrap();
        let off: usize = off.parse().map_err(|_| format!("bad offset in {f}"))?;
        if kind == "byte" {
            // unstructured mutation: xor mask at an offset (no model prediction)
            let mask: u8 = c.parse().map_err(|_| format!("bad mask in {f}"))?;
            let n = bytes.len();
            if n > 0 {
                bytes[off % n] ^= mask;
            }
        } else {
            // splice: keep [0, off), continue with the donor's bytes from `off`
            let donor = &base.alt[match m {
                "proof" => 0,
                "verifier" => 1,
                "prover" => 2,
                _ => 3,
            }];
            let off = off % bytes.len().max(1);
            bytes.truncate(off);
            if off < donor.len() {
                bytes.extend_from_slice(&donor[off..]);
            }
        }
    }
    apply_total(m, &mut bytes, &total)?;
    Ok((bytes, enc))
}

fn corrupt_proof(p: &[u8]) -> Vec<u8> {
    // a_eval replaced by a different canonical scalar
    let mut q = p.to_vec();
    let off = 11 * 48;
    q[off] ^= 1;
    q
}

pub fn observe(base: &Base, m: &str, bytes: &[u8]) -> Value {
    let len = bytes.len();
    match m {
        "proof" => {
            let (r, peak, maxreq) = measure(|| guarded(|| Proof::from_slice(bytes)));
            let res = match &r {
                Ok(Ok(_)) => "ok".to_string(),
                Ok(Err(e)) => format!("err:{:?}", e),
                Err(p) => format!("panic:{p}"),
            };
            let mut out = json!({"res":res,"peak":peak,"maxreq":maxreq,"len":len});
            if let Ok(Ok(p)) = &r {
                let re = p.to_bytes();
                out["reenc"] = json!(if re[..] == bytes[..bytes.len().min(1008)] && bytes.len() == 1008 { "same" } else { "diff" });
                out["reenc_prefix"] = json!(bytes.len() >= 1008 && re[..] == bytes[..1008]);
                let v = guarded(|| base.obj.verifier.verify(p, &base.pis));
                out["smoke"] = json!({"verify": outcome(&v)});
            }
            out
        }
        "verifier" => {
            let (r, peak, maxreq) = measure(|| guarded(|| Verifier::try_from_bytes(bytes)));
            let mut out = json!({"res":outcome_dbg(&r),"peak":peak,"maxreq":maxreq,"len":len});
            if let Ok(Ok(v)) = &r {
                let re = guarded(|| v.to_bytes());
                out["reenc"] = match &re {
                    Ok(b) => json!(if b[..] == bytes[..] { "same" } else { "diff" }),
                    Err(p) => json!(format!("panic:{p}")),
                };
                let good = verify_bytes(v, &base.proof_bytes, &base.pis, PlonkVersion::V3);
                let bad = verify_bytes(v, &corrupt_proof(&base.proof_bytes), &base.pis, PlonkVersion::V3);
                let v1 = verify_bytes(v, &base.proof_bytes, &base.pis, PlonkVersion::V1);
                out["smoke"] = json!({"verify_good":good,"verify_bad":bad,"verify_v1":v1});
            }
            out
        }
        "prover" => {
            let (r, peak, maxreq) = measure(|| guarded(|| Prover::try_from_bytes(bytes)));
            let mut out = json!({"res":outcome_dbg(&r),"peak":peak,"maxreq":maxreq,"len":len});
            if let Ok(Ok(p)) = &r {
                let re = guarded(|| p.to_bytes());
                out["reenc"] = match &re {
                    Ok(b) => json!(if b[..] == bytes[..] { "same" } else { "diff" }),
                    Err(p) => json!(format!("panic:{p}")),
                };
                let (o, pr, draws) = prove_bytes(p, &base.obj.program, SMOKE_SEED, PlonkVersion::V3);
                let mut smoke = json!({"prove":o,"draws":draws});
                if let Some((pb, pis)) = pr {
                    smoke["same_proof"] = json!(pb == base.proof_bytes);
                    smoke["verify"] = json!(verify_bytes(&base.obj.verifier, &pb, &pis, PlonkVersion::V3));
                }
                out["smoke"] = smoke;
            }
            out
        }
        "pp" => {
            let (r, peak, maxreq) = measure(|| guarded(|| PublicParameters::from_slice(bytes)));
            let mut out = json!({"res":outcome_dbg(&r),"peak":peak,"maxreq":maxreq,"len":len});
            if let Ok(Ok(pp)) = &r {
                let re = guarded(|| pp.to_var_bytes());
                out["reenc"] = match &re {
                    Ok(b) => json!(if b[..] == bytes[..] { "same" } else { "diff" }),
                    Err(p) => json!(format!("panic:{p}")),
                };
                let circ = plonk_conf::prog::ScriptedCircuit::new(base.obj.program.clone());
                let c = guarded(|| Compiler::compile_with_circuit(pp, b"codec-base", &circ));
                let mut smoke = json!({"compile": outcome(&c)});
                if let Ok(Ok((prover, verifier))) = c {
                    let (o, pr, _) = prove_bytes(&prover, &base.obj.program, SMOKE_SEED, PlonkVersion::V3);
                    smoke["prove"] = json!(o);
                    if let Some((pb, pis)) = pr {
                        smoke["verify"] = json!(verify_bytes(&verifier, &pb, &pis, PlonkVersion::V3));
                    }
                }
                out["smoke"] = smoke;
            }
            out
        }
        _ => json!({"error": format!("unknown machine {m}")}),
    }
}

fn replay(extra_rows: usize) -> i32 {
    let reps = match Reps::build() {
        Ok(r) => r,
        Err(e) => {
            println!("{}", json!({"fatal": e}));
            return 2;
        }
    };
    let base = match build_base_sized(extra_rows) {
        Ok(b) => b,
        Err(e) => {
            println!("{}", json!({"fatal": e}));
            return 2;
        }
    };
    // warm-up: thread pool and lazy statics outside the measured calls
    for m in ["proof", "verifier", "prover", "pp"] {
        let (b, _) = concretise(&base, &reps, m, &[]).expect("identity concretisation");
        let o = observe(&base, m, &b);
        println!("{}", json!({"warmup": m, "res": o["res"], "peak": o["peak"], "len": o["len"]}));
    }
    println!("{}", json!({"reps_selftests": reps.checks}));
    let stdin = std::io::stdin();
    let out = std::io::stdout();
    for line in stdin.lock().lines() {
        let line = line.unwrap();
        if !line.trim_start().starts_with('{') {
            continue;
        }
        let sc: Value = match serde_json::from_str(&line) {
            Ok(v) => v,
            Err(e) => {
                println!("{}", json!({"fatal": format!("bad scenario json: {e}")}));
                return 2;
            }
        };
        let id = sc["id"].clone();
        let m = sc["m"].as_str().unwrap_or("").to_string();
        let toks: Vec<(String, String)> = sc["toks"]
            .as_array()
            .map(|a| {
                a.iter()
                    .map(|t| (t[0].as_str().unwrap_or("").to_string(), t[1].as_str().unwrap_or("").to_string()))
                    .collect()
            })
            .unwrap_or_default();
        {
            let mut o = out.lock();
            writeln!(o, "{}", json!({"begin": id})).unwrap();
            o.flush().unwrap();
        }
        match concretise(&base, &reps, &m, &toks) {
            Err(e) => println!("{}", json!({"id": id, "m": m, "error": e})),
            Ok((bytes, enc)) => {
                let mut o = observe(&base, &m, &bytes);
                o["id"] = id;
                o["m"] = json!(m);
                // well-formedness of the element fields, judged on the bytes the
                // decoder actually accepted where they parse under the grammar
                let reparsed = if o["res"] == "ok" {
                    match m.as_str() {
                        "proof" if bytes.len() == 1008 => parse_proof(&bytes).ok(),
                        "verifier" => parse_verifier(&bytes).ok(),
                        "prover" => parse_prover(&bytes).ok().map(|p| p.enc),
                        "pp" => parse_pp(&bytes).ok(),
                        _ => None,
                    }
                } else {
                    None
                };
                o["nwf_from"] = json!(if reparsed.is_some() { "accepted-bytes" } else { "mutated-fields" });
                o["nwf"] = json!(not_well_formed(reparsed.as_ref().unwrap_or(&enc)));
                if sc.get("keep").and_then(|k| k.as_bool()).unwrap_or(false) || o["res"].as_str().map(|r| r.starts_with("panic")).unwrap_or(false) {
                    if bytes.len() <= 4096 {
                        o["hex"] = json!(hex_bytes(&bytes));
                    } else {
                        o["digest"] = json!(plonk_conf::fe::digest(&bytes));
                    }
                }
                println!("{}", o);
            }
        }
    }
    0
}

fn main() {
    quiet_panics();
    if std::env::var("CODEC_DEBUG").is_ok() {
        std::panic::set_hook(Box::new(|i| eprintln!("PANIC: {i}")));
    }
    let args: Vec<String> = std::env::args().collect();
    let cmd = args.get(1).map(|s| s.as_str()).unwrap_or("");
    let tier = args
        .iter()
        .position(|a| a == "--tier")
        .and_then(|i| args.get(i + 1))
        .map(|s| s.as_str())
        .unwrap_or("quick")
        .to_string();
    let code = match cmd {
        "selftest" => match Reps::build() {
            Ok(r) => {
                println!("{}", json!({"reps_selftests": r.checks}));
                0
            }
            Err(e) => {
                println!("{}", json!({"fatal": e}));
                2
            }
        },
        "replay" => replay(
            args.iter()
                .position(|a| a == "--extra-rows")
                .and_then(|i| args.get(i + 1))
                .and_then(|s| s.parse().ok())
                .unwrap_or(0),
        ),
        "pkenc" => rt::pkenc(),
        "piindex" => rt::piindex(),
        "roundtrip" => rt::roundtrip(&tier),
        "qm" => rt::qm(),
        "hostile" => rt::hostile(&tier),
        "flag1" => rt::flag1(),
        _ => {
            eprintln!("usage: codec selftest|replay|pkenc|roundtrip|qm|hostile [--tier quick|thorough]");
            2
        }
    };
    std::process::exit(code);
}
