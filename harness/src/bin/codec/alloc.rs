//! Counting global allocator: current / peak bytes, largest single request.
//! A request above `LIMIT` is refused (null) after a marker on stderr; the
//! process then aborts through `handle_alloc_error`, and the driver attributes
//! the abort to the scenario announced last on stdout.

use std::alloc::{GlobalAlloc, Layout, System};
use std::sync::atomic::{AtomicUsize, Ordering::Relaxed};

pub struct Counting;

static CUR: AtomicUsize = AtomicUsize::new(0);
static PEAK: AtomicUsize = AtomicUsize::new(0);
static MAXREQ: AtomicUsize = AtomicUsize::new(0);

pub const LIMIT: usize = 1 << 31;

fn note(size: usize) {
    let c = CUR.fetch_add(size, Relaxed) + size;
    PEAK.fetch_max(c, Relaxed);
    MAXREQ.fetch_max(size, Relaxed);
}

fn refuse(size: usize) {
    use std::io::Write;
    let mut buf = [0u8; 64];
    let mut n = 0;
    for b in b"ALLOC-REFUSED size=" {
        buf[n] = *b;
        n += 1;
    }
    let mut digits = [0u8; 24];
    let mut k = 0;
    let mut s = size;
    loop {
        digits[k] = b'0' + (s % 10) as u8;
        k += 1;
        s /= 10;
        if s == 0 {
            break;
        }
    }
    while k > 0 {
        k -= 1;
        buf[n] = digits[k];
        n += 1;
    }
    buf[n] = b'\n';
    n += 1;
    let _ = std::io::stderr().write_all(&buf[..n]);
}

unsafe impl GlobalAlloc for Counting {
    unsafe fn alloc(&self, l: Layout) -> *mut u8 {
        if l.size() > LIMIT {
            refuse(l.size());
            return std::ptr::null_mut();
        }
        let p = System.alloc(l);
        if !p.is_null() {
            note(l.size());
        }
        p
    }
    unsafe fn alloc_zeroed(&self, l: Layout) -> *mut u8 {
        if l.size() > LIMIT {
            refuse(l.size());
            return std::ptr::null_mut();
        }
        let p = System.alloc_zeroed(l);
        if !p.is_null() {
            note(l.size());
        }
        p
    }
    unsafe fn dealloc(&self, p: *mut u8, l: Layout) {
        System.dealloc(p, l);
        CUR.fetch_sub(l.size(), Relaxed);
    }
    unsafe fn realloc(&self, p: *mut u8, l: Layout, new: usize) -> *mut u8 {
        if new > LIMIT {
            refuse(new);
            return std::ptr::null_mut();
        }
        let q = System.realloc(p, l, new);
        if !q.is_null() {
            if new >= l.size() {
                note(new - l.size());
                MAXREQ.fetch_max(new, Relaxed);
            } else {
                CUR.fetch_sub(l.size() - new, Relaxed);
            }
        }
        q
    }
}

/// Runs `f`; returns its value, the peak number of bytes allocated above the
/// level at entry, and the largest single request.
pub fn measure<T>(f: impl FnOnce() -> T) -> (T, usize, usize) {
    let base = CUR.load(Relaxed);
    PEAK.store(base, Relaxed);
    MAXREQ.store(0, Relaxed);
    let v = f();
    let peak = PEAK.load(Relaxed).saturating_sub(base);
    (v, peak, MAXREQ.load(Relaxed))
}
