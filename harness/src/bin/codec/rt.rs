//! C16 round trips, the vanishing-top-coefficient family, ProverKey encoder
//! scenarios, hostile compressed circuits.

use std::io::{BufRead, Write};

use dusk_bls12_381::BlsScalar;
use dusk_bytes::{DeserializableSlice, Serializable};
use dusk_plonk::prelude::*;
use plonk_conf::fe::{digest, fe_hex};
use plonk_conf::prog::*;
use plonk_conf::util::*;
use serde_json::{json, Value};

use crate::alloc::measure;
use crate::enc::*;
use crate::objs::*;
use crate::reps::Reps;

fn be64(b: &[u8]) -> u64 {
    u64::from_be_bytes(b.try_into().unwrap())
}

fn le64(b: &[u8]) -> u64 {
    u64::from_le_bytes(b.try_into().unwrap())
}

/// (n, lens[15], complete) read from a prover encoding
pub fn pk_shape(prover_bytes: &[u8]) -> Result<(u64, Vec<u64>, bool, u64), String> {
    let parts = parse_prover(prover_bytes)?;
    let n = le64(parts.enc.get("pk.n").ok_or("no pk.n")?);
    let mut lens = Vec::new();
    for i in 1..=15 {
        match parts.enc.get(&format!("pk.len.{i}")) {
            Some(b) => lens.push(le64(b)),
            None => break,
        }
    }
    let pk_len = be64(parts.enc.get("hdr.pk_len").unwrap());
    Ok((n, lens, parts.pk_complete, pk_len))
}

/// coefficient `n-1` of polynomial `i` (1-based, encoding order)
fn top_coef(prover_bytes: &[u8], i: usize) -> Result<BlsScalar, String> {
    let parts = parse_prover(prover_bytes)?;
    let n = le64(parts.enc.get("pk.n").ok_or("no pk.n")?) as usize;
    let c = parts.enc.get(&format!("pk.coef.{i}")).ok_or("polynomial not reached")?;
    if c.len() / 32 < n {
        return Ok(BlsScalar::zero());
    }
    let a: [u8; 32] = c[32 * (n - 1)..32 * n].try_into().unwrap();
    Option::<BlsScalar>::from(BlsScalar::from_bytes(&a)).ok_or("non-canonical coefficient".into())
}

fn corruptions(proof: &[u8]) -> Vec<(&'static str, Vec<u8>)> {
    let mut v = Vec::new();
    let mut a = proof.to_vec();
    a[11 * 48] ^= 1; // a_eval
    v.push(("a_eval", a));
    let mut b = proof.to_vec();
    let (x, y) = (proof[0..48].to_vec(), proof[48..96].to_vec());
    b[0..48].copy_from_slice(&y);
    b[48..96].copy_from_slice(&x);
    v.push(("swap_a_b", b));
    let mut c = proof.to_vec();
    c[1008 - 32] ^= 2; // z_eval
    v.push(("z_eval", c));
    v
}

/// One full round-trip case; returns the JSON record.
pub fn rt_case(name: &str, pp: &PublicParameters, label: &[u8], program: &Program, seed: u64) -> Value {
    let mut out = json!({"case": name, "label_len": label.len()});
    let obj = match compile(pp, label, program) {
        Ok(o) => o,
        Err(e) => {
            out["skip"] = json!(e);
            return out;
        }
    };
    let pb = obj.prover.to_bytes();
    let vb = obj.verifier.to_bytes();
    out["prover_len"] = json!(pb.len());
    out["prover_digest"] = json!(digest(&pb));
    out["serialized_size_ok"] = json!(obj.prover.serialized_size() == pb.len() && obj.verifier.serialized_size() == vb.len());
    if let Ok((n, lens, complete, pk_len)) = pk_shape(&pb) {
        out["n"] = json!(n);
        out["lens"] = json!(lens);
        out["pk_complete"] = json!(complete);
        out["pk_len"] = json!(pk_len);
    }
    out["constraints"] = json!(be64(&pb[40..48]));
    out["npi"] = json!(be64(&vb[24..32]));

    // ---- prover
    let dp = guarded(|| Prover::try_from_bytes(&pb));
    out["prover_rt"] = json!(outcome_dbg(&dp));
    let mut proof_for_verifier: Option<(Vec<u8>, Vec<BlsScalar>)> = None;
    for (ver, tag) in [(PlonkVersion::V3, "v3"), (PlonkVersion::V2, "v2")] {
        let (o1, p1, d1) = prove_bytes(&obj.prover, program, seed, ver);
        out[format!("prove_{tag}")] = json!(o1);
        if tag == "v3" {
            proof_for_verifier = p1.clone();
        }
        if let Ok(Ok(dec)) = &dp {
            let (o2, p2, d2) = prove_bytes(dec, program, seed, ver);
            out[format!("same_proof_{tag}")] = json!(o1 == o2 && p1.as_ref().map(|p| &p.0) == p2.as_ref().map(|p| &p.0) && p1.as_ref().map(|p| &p.1) == p2.as_ref().map(|p| &p.1));
            out[format!("draws_{tag}")] = json!([d1, d2]);
        }
    }
    if let Ok(Ok(dec)) = &dp {
        out["prover_reenc"] = json!(dec.to_bytes() == pb);
    }

    // ---- verifier
    let dv = guarded(|| Verifier::try_from_bytes(&vb));
    out["verifier_rt"] = json!(outcome_dbg(&dv));
    if let Ok(Ok(dec)) = &dv {
        out["verifier_reenc"] = json!(dec.to_bytes() == vb);
        if let Some((proof, pis)) = &proof_for_verifier {
            let mut verdicts = Vec::new();
            let mut agree = true;
            let mut push = |kind: &str, p: &[u8], pis: &[BlsScalar], ver: PlonkVersion| {
                let a = verify_bytes(&obj.verifier, p, pis, ver);
                let b = verify_bytes(dec, p, pis, ver);
                if a != b {
                    agree = false;
                }
                verdicts.push(json!([kind, a, b]));
            };
            push("good", proof, pis, PlonkVersion::V3);
            push("good-as-v2", proof, pis, PlonkVersion::V2);
            for (k, c) in corruptions(proof) {
                push(k, &c, pis, PlonkVersion::V3);
            }
            if !pis.is_empty() {
                let mut w = pis.clone();
                w[0] += BlsScalar::one();
                push("wrong-pi", proof, &w, PlonkVersion::V3);
                push("short-pi", proof, &pis[1..], PlonkVersion::V3);
            }
            out["verdicts"] = json!(verdicts);
            out["verdicts_agree"] = json!(agree);
            out["good_accepted"] = json!(verify_bytes(&obj.verifier, proof, pis, PlonkVersion::V3) == "ok");
        }
    }

    // ---- proof
    if let Some((proof, _)) = &proof_for_verifier {
        let r = guarded(|| Proof::from_slice(proof));
        match r {
            Ok(Ok(p)) => {
                out["proof_rt"] = json!("ok");
                out["proof_reenc"] = json!(p.to_bytes()[..] == proof[..]);
            }
            Ok(Err(e)) => out["proof_rt"] = json!(format!("err:{:?}", e)),
            Err(m) => out["proof_rt"] = json!(format!("panic:{m}")),
        }
    }
    out
}

fn pp_case(cap: usize) -> Value {
    let pp = setup(cap);
    let mut out = json!({"case": format!("pp-{cap}")});
    let cb = pp.to_var_bytes();
    let rb = pp.to_raw_var_bytes();
    out["len"] = json!([cb.len(), rb.len()]);
    let d = guarded(|| PublicParameters::from_slice(&cb));
    out["pp_rt"] = json!(outcome_dbg(&d));
    let program = arith_program(5, &[1]);
    let reference = compile(&pp, b"pp-rt", &program).map(|o| (o.prover.to_bytes(), o.verifier.to_bytes()));
    if let Ok(Ok(dpp)) = &d {
        out["pp_reenc"] = json!(dpp.to_var_bytes() == cb);
        out["pp_reenc_raw"] = json!(dpp.to_raw_var_bytes() == rb);
        out["pp_max_degree"] = json!(dpp.max_degree() == pp.max_degree());
        let again = compile(dpp, b"pp-rt", &program).map(|o| (o.prover.to_bytes(), o.verifier.to_bytes()));
        out["pp_same_keys"] = json!(again == reference);
    }
    let r = guarded(|| unsafe { PublicParameters::from_slice_unchecked(&rb) });
    match r {
        Ok(rpp) => {
            out["ppraw_rt"] = json!("ok");
            out["ppraw_reenc"] = json!(rpp.to_raw_var_bytes() == rb);
            out["ppraw_reenc_compressed"] = json!(rpp.to_var_bytes() == cb);
            let again = compile(&rpp, b"pp-rt", &program).map(|o| (o.prover.to_bytes(), o.verifier.to_bytes()));
            out["ppraw_same_keys"] = json!(again == reference);
        }
        Err(m) => out["ppraw_rt"] = json!(format!("panic:{m}")),
    }
    out
}

pub fn roundtrip(tier: &str) -> i32 {
    let thorough = tier == "thorough";
    let pp = setup(1 << 10);
    let mut n = 0;
    let long_label: Vec<u8> = (0..300u32).map(|i| (i * 7 + 3) as u8).collect();
    let labels: Vec<(&str, Vec<u8>)> = vec![("empty", vec![]), ("short", b"dusk".to_vec()), ("long", long_label)];
    // arithmetic circuits around power-of-two boundaries, several PI placements
    let mut rows: Vec<usize> = vec![0, 1, 3, 4, 5, 11, 12, 13, 28, 29, 60, 61];
    if thorough {
        rows.extend([2, 6, 7, 27, 59, 123, 124, 125, 250, 251, 252, 253, 500]);
    }
    for r in rows {
        let mut placements: Vec<Vec<usize>> = vec![vec![]];
        if r >= 1 {
            placements.push(vec![0]);
            placements.push(vec![r - 1]);
        }
        if r >= 4 {
            placements.push(vec![0, 1, r / 2, r - 1]);
        }
        if thorough && r >= 3 {
            placements.push((0..r).collect());
        }
        for (k, pl) in placements.iter().enumerate() {
            let (ln, label) = &labels[(r + k) % labels.len()];
            let program = arith_program(r, pl);
            let name = format!("arith-r{r}-pi{:?}-{ln}", pl.len());
            println!("{}", rt_case(&name, &pp, label, &program, 0xC16 + n));
            n += 1;
        }
    }
    // the smallest parameters that fit (trim keeps every point), and generous ones
    for (r, cap) in [(1usize, 16usize), (5, 16), (12, 32), (12, 33), (28, 64), (3, 500)] {
        let ppx = setup(cap);
        let program = arith_program(r, &[0]);
        println!("{}", rt_case(&format!("arith-r{r}-srs{cap}"), &ppx, b"srs", &program, 0xC16 + n));
        n += 1;
    }
    // all selector columns populated (provable raw rows), several sizes
    for extra in if thorough { vec![0usize, 1, 2, 5, 9, 25] } else { vec![0usize, 1, 9] } {
        let program = allsel_program(3 + extra as u64, extra, 1 + extra % 3);
        println!("{}", rt_case(&format!("allsel-x{extra}"), &pp, b"allsel", &program, 0xC16 + n));
        n += 1;
    }
    // real widgets
    let program = widgets_program(&BlsScalar::from(5u64), true);
    println!("{}", rt_case("widgets", &pp, b"widgets", &program, 0xC16 + n));
    // parameters, both encodings
    for cap in if thorough { vec![1usize, 2, 16, 100, 1 << 10] } else { vec![1usize, 16, 100] } {
        println!("{}", pp_case(cap));
    }
    0
}

/// The known C16 family: a free selector solved (from two compiles, reading
/// the coefficient out of the encoding) so that the top interpolation
/// coefficient of q_m vanishes.
pub fn qm() -> i32 {
    let pp = setup(1 << 10);
    for with_pi in [true, false] {
        let p0 = widgets_program(&BlsScalar::zero(), with_pi);
        let p1 = widgets_program(&BlsScalar::one(), with_pi);
        let (o0, o1) = match (compile(&pp, b"qm", &p0), compile(&pp, b"qm", &p1)) {
            (Ok(a), Ok(b)) => (a, b),
            _ => {
                println!("{}", json!({"fatal": "qm family does not compile"}));
                return 2;
            }
        };
        let (c0, c1) = match (top_coef(&o0.prover.to_bytes(), 1), top_coef(&o1.prover.to_bytes(), 1)) {
            (Ok(a), Ok(b)) => (a, b),
            (a, b) => {
                println!("{}", json!({"fatal": format!("cannot read q_m top coefficient: {:?} {:?}", a.err(), b.err())}));
                return 2;
            }
        };
        let d = c1 - c0;
        let dinv: Option<BlsScalar> = d.invert().into();
        let Some(dinv) = dinv else {
            println!("{}", json!({"fatal": "q_m top coefficient does not depend on the free selector"}));
            return 2;
        };
        let x = -c0 * dinv;
        let program = widgets_program(&x, with_pi);
        let mut rec = rt_case(&format!("qm-top-vanishes-pi{}", with_pi as u8), &pp, b"qm", &program, 0x9161);
        rec["x"] = json!(fe_hex(&x));
        rec["family"] = json!("qm");
        println!("{}", rec);
        // control: a different x keeps the top coefficient
        let xc = x + BlsScalar::one();
        let mut rec = rt_case(&format!("qm-control-pi{}", with_pi as u8), &pp, b"qm", &widgets_program(&xc, with_pi), 0x9162);
        rec["family"] = json!("qm-control");
        println!("{}", rec);
    }
    0
}

// PK order of the 11 selectors -> index in the raw-row selector array
const PK_TO_RAW: [usize; 11] = [0, 1, 2, 3, 4, 5, 6, 8, 7, 9, 10];

fn pkenc_program(cls: &[String], x: &[BlsScalar; 11], seed: u64) -> Program {
    let mut st = seed ^ 0x9e17;
    let mut rows = [[BlsScalar::zero(); 11]; 3];
    for (j, c) in cls.iter().enumerate() {
        let raw = PK_TO_RAW[j];
        if c == "zero" {
            continue;
        }
        rows[0][raw] = rnd_scalar(&mut st);
        rows[1][raw] = x[j];
        rows[2][raw] = rnd_scalar(&mut st);
    }
    Program { ops: rows.iter().map(raw_row).collect() }
}

/// ProverKey encoder scenarios: {"id", "lens": [11 x "full"|"short"|"zero"]}
/// -> a circuit whose selector polynomials have exactly those lengths.
pub fn pkenc() -> i32 {
    let pp = setup(16);
    let stdin = std::io::stdin();
    for line in stdin.lock().lines() {
        let line = line.unwrap();
        if !line.trim_start().starts_with('{') {
            continue;
        }
        let sc: Value = serde_json::from_str(&line).expect("scenario json");
        let id = sc["id"].clone();
        let cls: Vec<String> = sc["lens"].as_array().map(|a| a.iter().map(|v| v.as_str().unwrap_or("").to_string()).collect()).unwrap_or_default();
        if cls.len() != 11 {
            println!("{}", json!({"id": id, "error": "lens must have 11 entries"}));
            continue;
        }
        let seed = 17 + id.as_u64().unwrap_or(0);
        let zeros = [BlsScalar::zero(); 11];
        let ones = [BlsScalar::one(); 11];
        // the property itself, on every prover this scenario compiles (the two auxiliary
        // circuits included): try_from_bytes(to_bytes()) succeeds and re-encodes identically
        let rt_fails = |pb: &[u8]| -> Option<String> {
            match guarded(|| Prover::try_from_bytes(pb)) {
                Ok(Ok(dec)) => {
                    if dec.to_bytes() == pb { None } else { Some("ok-but-reencodes-differently".into()) }
                }
                other => Some(outcome_dbg(&other)),
            }
        };
        let body = || -> Result<Value, String> {
            let b0 = compile(&pp, b"pkenc", &pkenc_program(&cls, &zeros, seed))?.prover.to_bytes();
            if let Some(why) = rt_fails(&b0) {
                return Ok(json!({"id": id, "stage": "aux-0", "rt": why, "len": b0.len()}));
            }
            let b1 = compile(&pp, b"pkenc", &pkenc_program(&cls, &ones, seed))?.prover.to_bytes();
            if let Some(why) = rt_fails(&b1) {
                return Ok(json!({"id": id, "stage": "aux-1", "rt": why, "len": b1.len()}));
            }
            let mut x = [BlsScalar::zero(); 11];
            let mut st = seed ^ 0x51;
            for j in 0..11 {
                match cls[j].as_str() {
                    "short" => {
                        let c0 = top_coef(&b0, j + 1)?;
                        let c1 = top_coef(&b1, j + 1)?;
                        let dinv: Option<BlsScalar> = (c1 - c0).invert().into();
                        x[j] = -c0 * dinv.ok_or("coefficient independent of free selector")?;
                    }
                    "full" => x[j] = rnd_scalar(&mut st),
                    _ => {}
                }
            }
            let program = pkenc_program(&cls, &x, seed);
            let obj = compile(&pp, b"pkenc", &program)?;
            let pb = obj.prover.to_bytes();
            let d = guarded(|| Prover::try_from_bytes(&pb));
            let (n, lens, complete, pk_len) = match guarded(|| pk_shape(&pb)) {
                Ok(Ok(t)) => t,
                other => {
                    let why = match other { Ok(Err(e)) => e, Err(p) => p, _ => unreachable!() };
                    return Ok(json!({"id": id, "layout_unreadable": why, "rt": outcome_dbg(&d), "len": pb.len()}));
                }
            };
            let mut out = json!({"id": id, "n": n, "lens": lens, "pk_complete": complete, "pk_len": pk_len,
                                 "rt": outcome_dbg(&d), "len": pb.len()});
            if let Ok(Ok(dec)) = &d {
                out["reenc"] = json!(dec.to_bytes() == pb);
            }
            Ok(out)
        };
        // a panic here is the harness failing to read the encoding the way Codec.tla lays
        // it out (index out of range on a length prefix): reported, not fatal
        match guarded(body) {
            Ok(Ok(v)) => println!("{}", v),
            Ok(Err(e)) => println!("{}", json!({"id": id, "error": e})),
            Err(p) => println!("{}", json!({"id": id, "layout_unreadable": p})),
        }
    }
    0
}

// ------------------------------------------- verifier public-input rows -----

/// The trailing public-input index list of a verifier encoding (8 big-endian bytes per
/// index, count in the header at 24..32) under reordering, duplication, extension and
/// bit flips: decoding must return a value or an error -- never panic -- and an accepted
/// verifier must be usable.
pub fn piindex() -> i32 {
    let pp = setup(32);
    let program = allsel_program(5, 2, 3);
    let obj = match compile(&pp, b"codec-pi", &program) {
        Ok(o) => o,
        Err(e) => {
            println!("{}", json!({"fatal": e}));
            return 2;
        }
    };
    let vb = obj.verifier.to_bytes();
    let n_pi = u64::from_be_bytes(vb[24..32].try_into().unwrap()) as usize;
    if n_pi != 3 || vb.len() < 48 + 8 * n_pi {
        println!("{}", json!({"fatal": format!("base verifier has {n_pi} public inputs")}));
        return 2;
    }
    let (_, pr, _) = prove_bytes(&obj.prover, &program, 7, PlonkVersion::V3);
    let (proof, pis) = match pr {
        Some(x) => x,
        None => {
            println!("{}", json!({"fatal": "base circuit does not prove"}));
            return 2;
        }
    };
    let at = vb.len() - 8 * n_pi;
    let field = |b: &[u8], i: usize| -> Vec<u8> { b[at + 8 * i..at + 8 * i + 8].to_vec() };
    let mut cases: Vec<(String, Vec<u8>)> = vec![("unchanged".into(), vb.clone())];
    for (i, j) in [(0usize, 1usize), (1, 2), (0, 2)] {
        let mut b = vb.clone();
        let (x, y) = (field(&vb, i), field(&vb, j));
        b[at + 8 * i..at + 8 * i + 8].copy_from_slice(&y);
        b[at + 8 * j..at + 8 * j + 8].copy_from_slice(&x);
        cases.push((format!("swap-{i}-{j}"), b));
        let mut b = vb.clone();
        b[at + 8 * j..at + 8 * j + 8].copy_from_slice(&x);
        cases.push((format!("duplicate-{i}-into-{j}"), b));
    }
    let mut rev = vb.clone();
    for i in 0..n_pi {
        rev[at + 8 * i..at + 8 * i + 8].copy_from_slice(&field(&vb, n_pi - 1 - i));
    }
    cases.push(("reversed".into(), rev));
    // count raised by one, a smaller / equal / huge index appended
    for (name, idx) in [("append-zero", 0u64), ("append-first", u64::from_be_bytes(field(&vb, 0).try_into().unwrap())),
                        ("append-huge", u64::MAX)] {
        let mut b = vb.clone();
        b[24..32].copy_from_slice(&((n_pi + 1) as u64).to_be_bytes());
        b.extend_from_slice(&idx.to_be_bytes());
        cases.push((name.into(), b));
    }
    for k in 0..(8 * n_pi) {
        for bit in 0..8 {
            let mut b = vb.clone();
            b[at + k] ^= 1 << bit;
            cases.push((format!("flip-{k}.{bit}"), b));
        }
    }
    for (name, bytes) in cases {
        let d = guarded(|| Verifier::try_from_bytes(&bytes));
        let mut out = json!({"m": "pi-index", "id": name, "res": outcome_dbg(&d)});
        if let Ok(Ok(v)) = &d {
            out["smoke_verify"] = json!(verify_bytes(v, &proof, &pis, PlonkVersion::V3));
            out["reenc"] = json!(match guarded(|| v.to_bytes()) { Ok(b2) => (b2 == bytes).to_string(), Err(p) => format!("panic:{p}") });
        }
        println!("{}", out);
    }
    0
}

// ------------------------------------------------ hostile compressed -----

fn deflate(b: &[u8]) -> Vec<u8> {
    miniz_oxide::deflate::compress_to_vec(b, 6)
}

pub fn hostile(tier: &str) -> i32 {
    let thorough = tier == "thorough";
    let pp = setup(1 << 6);
    let program = arith_program(9, &[0, 4]);
    set_default_program(program.clone());
    let good = match guarded(|| <ScriptedCircuit as Circuit>::compress()) {
        Ok(Ok(b)) => b,
        other => {
            println!("{}", json!({"fatal": format!("compress: {}", outcome(&other))}));
            return 2;
        }
    };
    let packed = match miniz_oxide::inflate::decompress_to_vec(&good) {
        Ok(p) => p,
        Err(_) => {
            println!("{}", json!({"fatal": "cannot inflate the library's own compressed circuit"}));
            return 2;
        }
    };
    let cap_bytes = pp.to_raw_var_bytes().len();
    // reference work: compiling a circuit that fills the parameters' capacity
    // (64 - 6 = 58 constraints), measured the same way
    let full = arith_program(54, &[0, 7]);
    let full_circ = ScriptedCircuit::new(full.clone());
    let _ = guarded(|| Compiler::compile_with_circuit(&pp, b"hostile", &full_circ));
    let (fr, cap_peak, _) = measure(|| guarded(|| Compiler::compile_with_circuit(&pp, b"hostile", &full_circ)));
    if !matches!(fr, Ok(Ok(_))) {
        println!("{}", json!({"fatal": format!("capacity-filling circuit does not compile: {}", outcome(&fr))}));
        return 2;
    }
    let mut cases: Vec<(String, Vec<u8>)> = Vec::new();
    cases.push(("valid".into(), good.clone()));
    cases.push(("empty".into(), vec![]));
    for k in [1usize, 2, 5, good.len() / 2, good.len() - 1] {
        cases.push((format!("truncated-{k}"), good[..k.min(good.len())].to_vec()));
    }
    let flips = if thorough { good.len() * 8 } else { (good.len() * 8).min(400) };
    for i in 0..flips {
        let bit = if thorough { i } else { (i * 7919) % (good.len() * 8) };
        let mut b = good.clone();
        b[bit / 8] ^= 1 << (bit % 8);
        cases.push((format!("flip-{bit}"), b));
    }
    // the public-input index vector (second item of the description, a fixarray in this
    // circuit) re-packed with an array-32 header that declares 65536 MORE entries than it
    // carries: the entries are not there, the description must be refused
    if packed.len() > 2 && (0x90..=0x9f).contains(&packed[1]) {
        let n = packed[1] & 0x0f;
        let mut p = packed[..1].to_vec();
        p.extend_from_slice(&[0xdd, 0x00, 0x01, 0x00, n]);
        p.extend_from_slice(&packed[2..]);
        cases.push(("declared-plus-65536".into(), deflate(&p)));
        // and the honest non-minimal form of the same count, which is the same description
        let mut p = packed[..1].to_vec();
        p.extend_from_slice(&[0xdd, 0x00, 0x00, 0x00, n]);
        p.extend_from_slice(&packed[2..]);
        cases.push(("declared-array32-exact".into(), deflate(&p)));
    }
    // re-packed payloads: array headers replaced by huge declared counts
    for (i, byte) in packed.iter().enumerate() {
        let is_hdr = (0x90..=0x9f).contains(byte) || *byte == 0xdc || *byte == 0xdd;
        if !is_hdr {
            continue;
        }
        for hdr in [vec![0xddu8, 0xff, 0xff, 0xff, 0xff], vec![0xdd, 0x7f, 0xff, 0xff, 0xff], vec![0xdc, 0xff, 0xff], vec![0xdd, 0, 1, 0, 0]] {
            let mut p = packed[..i].to_vec();
            p.extend_from_slice(&hdr);
            let skip = match *byte {
                0xdc => 3,
                0xdd => 5,
                _ => 1,
            };
            p.extend_from_slice(&packed[(i + skip).min(packed.len())..]);
            cases.push((format!("repack-hdr@{i}-{:02x}{}", hdr[0], hdr.len()), deflate(&p)));
        }
        if !thorough && cases.len() > 1500 {
            break;
        }
    }
    // packed payload mutations: every byte set to 0xff / 0x00 (re-deflated)
    let step = if thorough { 1 } else { (packed.len() / 150).max(1) };
    for i in (0..packed.len()).step_by(step) {
        for v in [0xffu8, 0x00, 0xcf, 0xdd] {
            let mut p = packed.clone();
            p[i] = v;
            cases.push((format!("repack-byte@{i}={v:02x}"), deflate(&p)));
        }
    }
    // a deflate bomb: a tiny stream inflating far beyond the capacity
    cases.push(("bomb-zeros-64MiB".into(), deflate(&vec![0u8; 64 << 20])));
    cases.push(("bomb-dd-64MiB".into(), deflate(&vec![0xddu8; 64 << 20])));
    let mut extended = packed.clone();
    extended.extend_from_slice(&[0xc0; 3]);
    cases.push(("repack-trailing-nil".into(), deflate(&extended)));

    // warm-up
    let _ = guarded(|| Compiler::compile_with_compressed(&pp, b"hostile", &good));
    let out = std::io::stdout();
    for (name, bytes) in &cases {
        {
            let mut o = out.lock();
            writeln!(o, "{}", json!({"begin": name})).unwrap();
            o.flush().unwrap();
        }
        let (r, peak, maxreq) = measure(|| guarded(|| Compiler::compile_with_compressed(&pp, b"hostile", bytes)));
        let mut rec = json!({"id": name, "m": "compressed", "res": outcome_dbg(&r), "peak": peak, "maxreq": maxreq,
                             "len": bytes.len(), "cap_bytes": cap_bytes, "cap_peak": cap_peak});
        if let Ok(Ok((prover, verifier))) = &r {
            let (o, pr, _) = prove_bytes(prover, &program, 5, PlonkVersion::V3);
            rec["smoke_prove"] = json!(o);
            if let Some((pb, pis)) = pr {
                rec["smoke_verify"] = json!(verify_bytes(verifier, &pb, &pis, PlonkVersion::V3));
            }
        }
        println!("{}", rec);
    }
    0
}

/// Probe: what does a raw commit-key point with flag = 1 and non-zero
/// coordinates do once accepted? (identity, or something else?)
pub fn flag1() -> i32 {
    let reps = Reps::build().expect("reps");
    let base = crate::build_base().expect("base");
    let parts = parse_prover(&base.prover_bytes).unwrap();
    for j in [1usize, 2, 3] {
        let mut enc = parts.enc.clone();
        apply(&mut enc, "prover", &format!("ck.pt.{j}"), "flag1xy", &reps).unwrap();
        let b1 = enc.bytes();
        let mut enc2 = parts.enc.clone();
        apply(&mut enc2, "prover", &format!("ck.pt.{j}"), "identity", &reps).unwrap();
        let b2 = enc2.bytes();
        let d1 = guarded(|| Prover::try_from_bytes(&b1));
        let d2 = guarded(|| Prover::try_from_bytes(&b2));
        let mut rec = json!({"pt": j, "flag1xy": outcome_dbg(&d1), "identity": outcome_dbg(&d2)});
        if let (Ok(Ok(p1)), Ok(Ok(p2))) = (&d1, &d2) {
            let (o1, r1, _) = prove_bytes(p1, &base.obj.program, 7, PlonkVersion::V3);
            let (o2, r2, _) = prove_bytes(p2, &base.obj.program, 7, PlonkVersion::V3);
            rec["prove"] = json!([o1, o2]);
            rec["same_proof_as_true_identity"] = json!(r1.as_ref().map(|r| &r.0) == r2.as_ref().map(|r| &r.0));
            rec["same_as_base"] = json!(r1.as_ref().map(|r| &r.0[..]) == Some(&base.proof_bytes[..]));
            if let Some((pb, pis)) = &r1 {
                rec["verify_flag1xy"] = json!(verify_bytes(&base.obj.verifier, pb, pis, PlonkVersion::V3));
            }
            rec["reenc_same"] = json!(p1.to_bytes() == b1);
        }
        println!("{}", rec);
    }
    0
}
