//! Real objects the concretiser starts from: scripted circuits, compiled
//! keys, proofs, parameters.

use dusk_bls12_381::BlsScalar;
use dusk_bytes::Serializable;
use dusk_plonk::prelude::*;
use plonk_conf::fe::fe_hex;
use plonk_conf::prog::*;
use plonk_conf::rng::ScriptRng;
use plonk_conf::util::*;
use serde_json::{json, Value};

pub fn rnd_scalar(state: &mut u64) -> BlsScalar {
    let mut w = [0u8; 64];
    for c in w.chunks_mut(8) {
        *state = state.wrapping_mul(6364136223846793005).wrapping_add(1442695040888963407);
        let mut z = *state;
        z = (z ^ (z >> 30)).wrapping_mul(0xbf58476d1ce4e5b9);
        z ^= z >> 27;
        c.copy_from_slice(&z.to_le_bytes());
    }
    BlsScalar::from_bytes_wide(&w)
}

pub fn setup(cap: usize) -> PublicParameters {
    let mut rng = ScriptRng::seeded(0xC16 ^ cap as u64);
    PublicParameters::setup(cap, &mut rng).expect("setup")
}

/// Raw row with the given 11 selectors (order m l r o f c arith range logic
/// fixed var) on all-zero wires: satisfied whenever q_c = 0 and the next row
/// has zero wires (see DESIGN A.3).
pub fn raw_row(sel: &[BlsScalar; 11]) -> Value {
    let s: Vec<Value> = sel.iter().map(|x| json!(fe_hex(x))).collect();
    json!({"op":"raw","sel":s})
}

/// Base circuit of the decoder scenarios: 7 rows (size 8), one public input,
/// every selector column non-zero, provable (all raw rows on zero wires).
pub fn allsel_program(seed: u64, extra_rows: usize, pis: usize) -> Program {
    let mut st = seed ^ 0xa11_5e1;
    let mut ops = Vec::new();
    for i in 0..pis {
        ops.push(json!({"op":"public","v":3 + i as u64}));
    }
    for _ in 0..(2 + extra_rows) {
        let mut sel = [BlsScalar::zero(); 11];
        for (k, s) in sel.iter_mut().enumerate() {
            if k != 5 {
                *s = rnd_scalar(&mut st);
            }
        }
        ops.push(raw_row(&sel));
    }
    Program { ops }
}

/// A circuit that uses all five widgets for real (range, logic, fixed-base,
/// variable-base, arithmetic) plus one free multiplication selector `x` on a
/// zero-wire row and one public input.
pub fn widgets_program(x: &BlsScalar, with_pi: bool) -> Program {
    let mut ops = vec![
        json!({"op":"witness","v":201,"out":"a"}),
        json!({"op":"witness","v":77,"out":"b"}),
        json!({"op":"range_bits","w":"a","bits":8}),
        json!({"op":"logic","a":"a","b":"b","pairs":4,"xor":true,"out":"x"}),
        json!({"op":"witness","v":9,"out":"s"}),
        json!({"op":"mul_generator","s":"s","pt":{"name":"G"},"out":"P"}),
        json!({"op":"append_point","pt":{"name":"G_NUMS"},"out":"Q"}),
        json!({"op":"add_point","a":"P","b":"Q","out":"R"}),
        json!({"op":"gate","q":{"m":fe_hex(x)}}),
    ];
    if with_pi {
        ops.push(json!({"op":"public","v":42}));
    }
    Program { ops }
}

/// Small arithmetic circuits of a chosen number of rows and PI placement.
pub fn arith_program(rows: usize, pi_at: &[usize]) -> Program {
    // rows counts everything after the 4 initial rows
    let mut ops = Vec::new();
    ops.push(json!({"op":"witness","v":6,"out":"a"}));
    ops.push(json!({"op":"witness","v":7,"out":"b"}));
    for i in 0..rows {
        if pi_at.contains(&i) {
            ops.push(json!({"op":"public","v":100 + i as u64}));
        } else if i % 3 == 0 {
            ops.push(json!({"op":"gate_mul","q":{"m":1},"w":["a","b"]}));
        } else if i % 3 == 1 {
            ops.push(json!({"op":"gate_add","q":{"l":1,"r":2},"w":["a","b"]}));
        } else {
            ops.push(json!({"op":"boolean","a":1}));
        }
    }
    Program { ops }
}

pub struct Obj {
    pub program: Program,
    pub label: Vec<u8>,
    pub prover: Prover,
    pub verifier: Verifier,
}

pub fn compile(pp: &PublicParameters, label: &[u8], program: &Program) -> Result<Obj, String> {
    let circ = ScriptedCircuit::new(program.clone());
    let r = guarded(|| Compiler::compile_with_circuit(pp, label, &circ));
    match r {
        Ok(Ok((prover, verifier))) => Ok(Obj { program: program.clone(), label: label.to_vec(), prover, verifier }),
        other => Err(format!("compile: {}", outcome(&other))),
    }
}

pub fn prove_bytes(
    prover: &Prover,
    program: &Program,
    seed: u64,
    version: PlonkVersion,
) -> (String, Option<(Vec<u8>, Vec<BlsScalar>)>, usize) {
    let circ = ScriptedCircuit::new(program.clone());
    let mut rng = ScriptRng::seeded(seed);
    let r = guarded(|| prover.prove_with_version(&mut rng, &circ, version));
    let o = outcome(&r);
    let draws = rng.draws();
    match r {
        Ok(Ok((proof, pis))) => (o, Some((proof.to_bytes().to_vec(), pis)), draws),
        _ => (o, None, draws),
    }
}

pub fn verify_bytes(verifier: &Verifier, proof: &[u8], pis: &[BlsScalar], version: PlonkVersion) -> String {
    let p = match guarded(|| <Proof as dusk_bytes::DeserializableSlice<1008>>::from_slice(proof)) {
        Ok(Ok(p)) => p,
        Ok(Err(e)) => return format!("decode-err:{:?}", e),
        Err(m) => return format!("panic:{m}"),
    };
    let r = guarded(|| verifier.verify_with_version(&p, pis, version));
    outcome(&r)
}

pub fn dbg_class(e: &Error) -> String {
    let d = format!("{:?}", e);
    match d.find(" {") {
        Some(i) => d[..i].to_string(),
        None => d,
    }
}

pub fn outcome_dbg<T>(r: &Result<Result<T, Error>, String>) -> String {
    match r {
        Ok(Ok(_)) => "ok".to_string(),
        Ok(Err(e)) => format!("err:{}", dbg_class(e)),
        Err(p) => format!("panic:{}", p.chars().take(160).collect::<String>()),
    }
}
