//! Valid encodings split into named fields (the grammar of `spec/Codec.tla`),
//! and the application of one abstract token to one field.

use crate::reps::*;

#[derive(Clone, Debug)]
pub struct Fld {
    pub name: String,
    pub bytes: Vec<u8>,
}

#[derive(Clone, Debug, Default)]
pub struct Enc {
    pub f: Vec<Fld>,
}

impl Enc {
    pub fn push(&mut self, name: impl Into<String>, b: &[u8]) {
        self.f.push(Fld { name: name.into(), bytes: b.to_vec() });
    }
    pub fn bytes(&self) -> Vec<u8> {
        self.f.iter().flat_map(|f| f.bytes.iter().copied()).collect()
    }
    pub fn get(&self, name: &str) -> Option<&Vec<u8>> {
        self.f.iter().find(|f| f.name == name).map(|f| &f.bytes)
    }
    pub fn get_mut(&mut self, name: &str) -> Option<&mut Vec<u8>> {
        self.f.iter_mut().find(|f| f.name == name).map(|f| &mut f.bytes)
    }
    pub fn count(&self, prefix: &str) -> usize {
        self.f.iter().filter(|f| f.name.starts_with(prefix)).count()
    }
    pub fn offset_of(&self, name: &str) -> Option<usize> {
        let mut o = 0;
        for f in &self.f {
            if f.name == name {
                return Some(o);
            }
            o += f.bytes.len();
        }
        None
    }
}

struct Cur<'a> {
    b: &'a [u8],
    p: usize,
}

impl<'a> Cur<'a> {
    fn take(&mut self, n: usize) -> Result<&'a [u8], String> {
        if self.p + n > self.b.len() {
            return Err(format!("base encoding too short at {} (+{})", self.p, n));
        }
        let s = &self.b[self.p..self.p + n];
        self.p += n;
        Ok(s)
    }
    fn u64be(&mut self) -> Result<(u64, &'a [u8]), String> {
        let s = self.take(8)?;
        Ok((u64::from_be_bytes(s.try_into().unwrap()), s))
    }
    /// integers inside ProverKey / VerifierKey / EvaluationDomain are written
    /// with dusk-bytes, i.e. little-endian; the Prover / Verifier headers and
    /// the public-input rows are big-endian
    fn u64le(&mut self) -> Result<(u64, &'a [u8]), String> {
        let s = self.take(8)?;
        Ok((u64::from_le_bytes(s.try_into().unwrap()), s))
    }
}

pub const PK_NAMES: [&str; 15] = [
    "q_m", "q_l", "q_r", "q_o", "q_f", "q_c", "q_arith", "q_logic", "q_range", "q_fixed", "q_var",
    "s1", "s2", "s3", "s4",
];

pub fn parse_proof(b: &[u8]) -> Result<Enc, String> {
    if b.len() != 1008 {
        return Err("proof is not 1008 bytes".into());
    }
    let mut e = Enc::default();
    let mut c = Cur { b, p: 0 };
    for i in 1..=11 {
        e.push(format!("g1.{i}"), c.take(48)?);
    }
    for i in 1..=15 {
        e.push(format!("sc.{i}"), c.take(32)?);
    }
    Ok(e)
}

fn parse_vk(c: &mut Cur, e: &mut Enc) -> Result<(), String> {
    e.push("vk.n", c.take(8)?);
    for i in 1..=15 {
        e.push(format!("vk.pt.{i}"), c.take(48)?);
    }
    e.push("vk.pad", c.take(240)?);
    Ok(())
}

fn parse_ok(c: &mut Cur, e: &mut Enc) -> Result<(), String> {
    e.push("ok.g", c.take(48)?);
    e.push("ok.h", c.take(96)?);
    e.push("ok.xh", c.take(96)?);
    Ok(())
}

pub fn parse_verifier(b: &[u8]) -> Result<Enc, String> {
    let mut e = Enc::default();
    let mut c = Cur { b, p: 0 };
    let (l, s) = c.u64be()?;
    e.push("hdr.label_len", s);
    let (v, s) = c.u64be()?;
    e.push("hdr.vk_len", s);
    let (o, s) = c.u64be()?;
    e.push("hdr.ok_len", s);
    let (k, s) = c.u64be()?;
    e.push("hdr.pi_count", s);
    e.push("hdr.size", c.take(8)?);
    e.push("hdr.constraints", c.take(8)?);
    if v != 968 || o != 240 {
        return Err("unexpected verifier section lengths".into());
    }
    e.push("label", c.take(l as usize)?);
    parse_vk(&mut c, &mut e)?;
    parse_ok(&mut c, &mut e)?;
    for i in 1..=k {
        e.push(format!("pi.{i}"), c.take(8)?);
    }
    if c.p != b.len() || e.bytes() != b {
        return Err("verifier parse does not cover the encoding".into());
    }
    Ok(e)
}

fn parse_evals(c: &mut Cur, e: &mut Enc, name: &str, es: usize) -> Result<(), String> {
    if es < 172 || (es - 172) % 32 != 0 {
        return Err("bad evaluation size in base encoding".into());
    }
    e.push(format!("pk.dom.{name}"), c.take(172)?);
    e.push(format!("pk.ev.{name}"), c.take(es - 172)?);
    Ok(())
}

/// Splits ProverKey bytes into fields; stops (without error) where the
/// encoding ends early -- reported through `complete`.
pub fn parse_pk(b: &[u8], e: &mut Enc) -> Result<bool, String> {
    let mut c = Cur { b, p: 0 };
    let r = (|| -> Result<(), String> {
        e.push("pk.n", c.take(8)?);
        let (es, s) = c.u64le()?;
        e.push("pk.es", s);
        let es = es as usize;
        for i in 1..=15 {
            let (len, s) = c.u64le()?;
            e.push(format!("pk.len.{i}"), s);
            e.push(format!("pk.coef.{i}"), c.take(len as usize * 32)?);
            parse_evals(&mut c, e, &i.to_string(), es)?;
        }
        parse_evals(&mut c, e, "lin", es)?;
        parse_evals(&mut c, e, "van", es)?;
        Ok(())
    })();
    let complete = r.is_ok();
    if c.p < b.len() {
        e.push("pk.tail", &b[c.p..]);
    }
    Ok(complete)
}

pub struct ProverParts {
    pub enc: Enc,
    pub pk_complete: bool,
}

pub fn parse_prover(b: &[u8]) -> Result<ProverParts, String> {
    let mut e = Enc::default();
    let mut c = Cur { b, p: 0 };
    let (l, s) = c.u64be()?;
    e.push("hdr.label_len", s);
    let (a, s) = c.u64be()?;
    e.push("hdr.pk_len", s);
    let (k, s) = c.u64be()?;
    e.push("hdr.ck_len", s);
    let (v, s) = c.u64be()?;
    e.push("hdr.vk_len", s);
    e.push("hdr.size", c.take(8)?);
    e.push("hdr.constraints", c.take(8)?);
    if v != 968 {
        return Err("unexpected vk length".into());
    }
    e.push("label", c.take(l as usize)?);
    let pk = c.take(a as usize)?;
    let pk_complete = parse_pk(pk, &mut e)?;
    let ck = c.take(k as usize)?;
    {
        let mut cc = Cur { b: ck, p: 0 };
        let s = cc.take(8)?;
        let cnt = u64::from_le_bytes(s.try_into().unwrap());
        e.push("ck.count", s);
        for i in 1..=cnt {
            e.push(format!("ck.pt.{i}"), cc.take(97)?);
        }
        if cc.p != ck.len() {
            return Err("commit key section has trailing bytes".into());
        }
    }
    parse_vk(&mut c, &mut e)?;
    if c.p != b.len() || e.bytes() != b {
        return Err("prover parse does not cover the encoding".into());
    }
    Ok(ProverParts { enc: e, pk_complete })
}

pub fn parse_pp(b: &[u8]) -> Result<Enc, String> {
    let mut e = Enc::default();
    let mut c = Cur { b, p: 0 };
    parse_ok(&mut c, &mut e)?;
    let mut i = 1;
    while c.p < b.len() {
        e.push(format!("ck.pt.{i}"), c.take(48)?);
        i += 1;
    }
    Ok(e)
}

pub fn parse_ppraw(b: &[u8]) -> Result<Enc, String> {
    let mut e = Enc::default();
    let mut c = Cur { b, p: 0 };
    parse_ok(&mut c, &mut e)?;
    let s = c.take(8)?;
    let cnt = u64::from_le_bytes(s.try_into().unwrap());
    e.push("ck.count", s);
    for i in 1..=cnt {
        e.push(format!("ck.pt.{i}"), c.take(97)?);
    }
    if c.p != b.len() {
        return Err("raw parameters have trailing bytes".into());
    }
    Ok(e)
}

// ------------------------------------------------------------- tokens -----

fn len_value(actual: u64, c: &str) -> Result<u64, String> {
    Ok(match c {
        "exact" => actual,
        "m1" => actual.wrapping_sub(1),
        "p1" => actual + 1,
        "zero" => 0,
        "huge" => 1u64 << 40,
        "ovf" => u64::MAX,
        _ => return Err(format!("unknown length class {c}")),
    })
}

/// model point index 1..3 -> first / middle / last real point
pub fn map_idx(j: usize, cnt: usize) -> usize {
    match j {
        1 => 1,
        2 => cnt / 2 + 1,
        _ => cnt,
    }
}

fn put_scalar_at(v: &mut [u8], idx: usize, s: &[u8]) {
    v[32 * idx..32 * idx + 32].copy_from_slice(s);
}

/// Applies token (`field`, `class`) to `enc` (a split VALID encoding).
pub fn apply(enc: &mut Enc, machine: &str, field: &str, class: &str, reps: &Reps) -> Result<(), String> {
    let parts: Vec<&str> = field.split('.').collect();
    let resolve = |enc: &Enc, pfx: &str, j: &str| -> Result<String, String> {
        let j: usize = j.parse().map_err(|_| format!("bad index in {field}"))?;
        let cnt = enc.count(pfx);
        if cnt == 0 {
            return Err(format!("no fields {pfx}*"));
        }
        // in the parameters the last point may be cut off by the total-length
        // class `dropone`: the third mutated point is the one before it
        let k = if machine == "pp" && j == 3 { cnt - 1 } else { map_idx(j, cnt) };
        Ok(format!("{pfx}{k}"))
    };
    match parts.as_slice() {
        ["total"] => Ok(()), // applied by the caller on the concatenation
        ["hdr", what] if what.ends_with("_len") || *what == "pi_count" => {
            let b = enc.get(field).ok_or(format!("no field {field}"))?.clone();
            let actual = u64::from_be_bytes(b.as_slice().try_into().unwrap());
            let v = len_value(actual, class)?;
            *enc.get_mut(field).unwrap() = v.to_be_bytes().to_vec();
            Ok(())
        }
        ["hdr", "size"] | ["pk", "n"] => {
            let le = parts[0] == "pk";
            let b = enc.get(field).unwrap().clone();
            let actual = if le { u64::from_le_bytes(b.as_slice().try_into().unwrap()) } else { u64::from_be_bytes(b.as_slice().try_into().unwrap()) };
            let v = match class {
                "exact" => actual,
                "double" => actual * 2,
                "odd" => actual + 1,
                "zero" => 0,
                "huge" => 1u64 << 62,
                "big" => 1u64 << 40,
                _ => return Err(format!("unknown class {class} for {field}")),
            };
            *enc.get_mut(field).unwrap() = if le { v.to_le_bytes().to_vec() } else { v.to_be_bytes().to_vec() };
            Ok(())
        }
        ["hdr", "constraints"] => {
            let b = enc.get(field).unwrap().clone();
            let actual = u64::from_be_bytes(b.as_slice().try_into().unwrap());
            let size = actual.next_power_of_two();
            let v = match class {
                "exact" => actual,
                "alt" => {
                    if actual == size {
                        actual - 1
                    } else {
                        size
                    }
                }
                "half" => size / 2,
                "double" => size * 2,
                "zero" => 0,
                "huge" => (1u64 << 63) + 1,
                _ => return Err(format!("unknown class {class} for {field}")),
            };
            if machine == "prover" && class == "alt" && v.next_power_of_two() != size {
                return Err("alt constraints value leaves the padded size".into());
            }
            *enc.get_mut(field).unwrap() = v.to_be_bytes().to_vec();
            Ok(())
        }
        ["vk", "n"] => {
            let b = enc.get(field).unwrap().clone();
            let actual = u64::from_le_bytes(b.as_slice().try_into().unwrap());
            let v = match class {
                "exact" => actual,
                "zero" => 0,
                "one" => 1,
                "alt" => actual + 1,
                "big" => 1u64 << 31,
                "huge" => 1u64 << 40,
                "max" => u64::MAX,
                _ => return Err(format!("unknown class {class} for {field}")),
            };
            *enc.get_mut(field).unwrap() = v.to_le_bytes().to_vec();
            Ok(())
        }
        ["vk", "pad"] => {
            if class == "junk" {
                for (i, b) in enc.get_mut(field).unwrap().iter_mut().enumerate() {
                    *b = (i as u8).wrapping_mul(37) ^ 0xa5;
                }
            }
            Ok(())
        }
        ["vk", "pt", _] | ["g1", _] | ["ok", "g"] => {
            let b = enc.get(field).ok_or(format!("no field {field}"))?.clone();
            *enc.get_mut(field).unwrap() = reps.g1c(&b, class)?;
            Ok(())
        }
        ["ok", "h"] | ["ok", "xh"] => {
            let b = enc.get(field).unwrap().clone();
            *enc.get_mut(field).unwrap() = reps.g2c(&b, class)?;
            Ok(())
        }
        ["sc", _] => {
            let b = enc.get(field).ok_or(format!("no field {field}"))?.clone();
            *enc.get_mut(field).unwrap() = reps.scalar(&b, class)?;
            Ok(())
        }
        ["ck", "count"] => {
            let b = enc.get(field).unwrap().clone();
            let actual = u64::from_le_bytes(b.as_slice().try_into().unwrap());
            let v = len_value(actual, class)?;
            *enc.get_mut(field).unwrap() = v.to_le_bytes().to_vec();
            Ok(())
        }
        ["ck", "pt", j] => {
            let name = resolve(enc, "ck.pt.", j)?;
            let b = enc.get(&name).unwrap().clone();
            let nb = if b.len() == 97 { reps.raw(&b, class)? } else { reps.g1c(&b, class)? };
            *enc.get_mut(&name).unwrap() = nb;
            Ok(())
        }
        ["pi", j] => {
            let name = resolve(enc, "pi.", j)?;
            let v: u64 = match class {
                "exact" => return Ok(()),
                "max" => u64::MAX,
                "zero" => 0,
                _ => return Err(format!("unknown class {class} for {field}")),
            };
            *enc.get_mut(&name).unwrap() = v.to_be_bytes().to_vec();
            Ok(())
        }
        ["pk", "es"] => {
            let b = enc.get(field).unwrap().clone();
            let actual = u64::from_le_bytes(b.as_slice().try_into().unwrap());
            let v = len_value(actual, class)?;
            *enc.get_mut(field).unwrap() = v.to_le_bytes().to_vec();
            Ok(())
        }
        ["pk", "len", i] if class == "over" => {
            // a consistent over-degree polynomial: one more (non-zero,
            // canonical) coefficient, announced length and section length
            // adjusted
            let b = enc.get(field).ok_or(format!("no field {field}"))?.clone();
            let actual = u64::from_le_bytes(b.as_slice().try_into().unwrap());
            *enc.get_mut(field).unwrap() = (actual + 1).to_le_bytes().to_vec();
            let coef = enc.get_mut(&format!("pk.coef.{i}")).ok_or("no coefficient field")?;
            coef.extend_from_slice(&dusk_bls12_381::BlsScalar::from(5u64).to_bytes());
            let h = enc.get("hdr.pk_len").ok_or("no hdr.pk_len")?.clone();
            let a = u64::from_be_bytes(h.as_slice().try_into().unwrap());
            *enc.get_mut("hdr.pk_len").unwrap() = (a + 32).to_be_bytes().to_vec();
            Ok(())
        }
        ["pk", "len", _] => {
            let b = enc.get(field).ok_or(format!("no field {field}"))?.clone();
            let actual = u64::from_le_bytes(b.as_slice().try_into().unwrap());
            let v = len_value(actual, class)?;
            *enc.get_mut(field).unwrap() = v.to_le_bytes().to_vec();
            Ok(())
        }
        ["pk", "coef", _] => {
            let v = enc.get_mut(field).ok_or(format!("no field {field}"))?;
            let k = v.len() / 32;
            if k == 0 {
                return Err("empty coefficient field".into());
            }
            match class {
                "canon" => {}
                "ger" => put_scalar_at(v, k / 2, &reps.sc_ger),
                "gerlast" => put_scalar_at(v, k - 1, &reps.sc_max),
                "topzero" => put_scalar_at(v, k - 1, &[0u8; 32]),
                _ => return Err(format!("unknown class {class} for {field}")),
            }
            Ok(())
        }
        ["pk", "ev", _] => {
            let v = enc.get_mut(field).ok_or(format!("no field {field}"))?;
            let k = v.len() / 32;
            let orig = v.clone();
            match class {
                "canon" | "exact" => {}
                "ger" => put_scalar_at(v, k / 3, &reps.sc_ger),
                "swap" => {
                    // two different non-zero values exchanged
                    let (a, b) = (orig[0..32].to_vec(), orig[32..64].to_vec());
                    if a == b {
                        return Err("swap representative: equal neighbours".into());
                    }
                    put_scalar_at(v, 0, &b);
                    put_scalar_at(v, 1, &a);
                }
                "zero" => put_scalar_at(v, k - 1, &[0u8; 32]),
                "scaled" => {
                    use dusk_bls12_381::BlsScalar;
                    for i in 0..k {
                        let a: [u8; 32] = orig[32 * i..32 * i + 32].try_into().unwrap();
                        let s: Option<BlsScalar> = BlsScalar::from_bytes(&a).into();
                        let s = s.ok_or("base evaluation not canonical")?;
                        put_scalar_at(v, i, &(s + s).to_bytes());
                    }
                }
                _ => return Err(format!("unknown class {class} for {field}")),
            }
            Ok(())
        }
        ["pk", "dom", _] => {
            let v = enc.get_mut(field).ok_or(format!("no field {field}"))?;
            let size = u64::from_le_bytes(v[0..8].try_into().unwrap());
            match class {
                "canon" => {}
                "othersize" => v[0..8].copy_from_slice(&(size / 2).to_le_bytes()),
                "nonpow2" => v[0..8].copy_from_slice(&(size + 1).to_le_bytes()),
                "hugesize" => v[0..8].copy_from_slice(&(1u64 << 40).to_le_bytes()),
                "maxsize" => v[0..8].copy_from_slice(&u64::MAX.to_le_bytes()),
                "logwrong" => {
                    let l = u32::from_le_bytes(v[8..12].try_into().unwrap());
                    v[8..12].copy_from_slice(&(l + 1).to_le_bytes());
                }
                "badfield" => {
                    // group_gen (third scalar) replaced by another canonical scalar
                    let one = dusk_bls12_381::BlsScalar::from(3u64).to_bytes();
                    v[12 + 64..12 + 96].copy_from_slice(&one);
                }
                "gerfield" => v[12 + 32..12 + 64].copy_from_slice(&reps.sc_ger),
                _ => return Err(format!("unknown class {class} for {field}")),
            }
            Ok(())
        }
        _ => Err(format!("no rule for field {field}")),
    }
}

/// Element fields of a (possibly mutated) split encoding that are not
/// well-formed according to the library's own predicates.
pub fn not_well_formed(enc: &Enc) -> Vec<String> {
    let mut bad = Vec::new();
    for f in &enc.f {
        let p: Vec<&str> = f.name.split('.').collect();
        match p.as_slice() {
            ["g1", _] | ["vk", "pt", _] => {
                if !g1c_ok(&f.bytes) {
                    bad.push(format!("{}:g1", f.name));
                }
            }
            ["ok", "g"] => {
                if !g1c_ok(&f.bytes) || g1c_identity(&f.bytes) {
                    bad.push(format!("{}:g1-nonidentity", f.name));
                }
            }
            ["ok", _] => {
                if !g2c_ok(&f.bytes) || g2c_identity(&f.bytes) {
                    bad.push(format!("{}:g2-nonidentity", f.name));
                }
            }
            ["sc", _] => {
                if !scalar_ok(&f.bytes) {
                    bad.push(format!("{}:scalar", f.name));
                }
            }
            ["ck", "pt", _] => {
                if f.bytes.len() == 97 {
                    let c = raw_class(&f.bytes);
                    if c != "valid" && c != "identity" && c != "identity-with-coordinates" {
                        bad.push(format!("{}:{}", f.name, c));
                    }
                } else if !g1c_ok(&f.bytes) {
                    bad.push(format!("{}:g1", f.name));
                }
            }
            ["pk", "coef", _] | ["pk", "ev", _] => {
                if f.bytes.len() % 32 != 0 || f.bytes.chunks(32).any(|c| !scalar_ok(c)) {
                    bad.push(format!("{}:scalar", f.name));
                }
            }
            ["pk", "dom", _] => {
                if f.bytes.len() != 172 || f.bytes[12..].chunks(32).any(|c| !scalar_ok(c)) {
                    bad.push(format!("{}:scalar", f.name));
                }
            }
            _ => {}
        }
    }
    bad
}
