//! Class representatives for the abstract alphabet of `spec/Codec.tla`, each
//! self-tested to BE in its class with dusk-bls12_381's own predicates before
//! it is used (a concretiser bug must not be able to raise an alarm).

use dusk_bls12_381::{BlsScalar, G1Affine, G1Projective, G2Affine, G2Projective};
use dusk_bytes::Serializable;
use plonk_conf::util::guarded;

/// Base-field modulus p, little-endian 64-bit limbs.
pub const FP_P: [u64; 6] = [
    0xb9fe_ffff_ffff_aaab,
    0x1eab_fffe_b153_ffff,
    0x6730_d2a0_f6b0_f624,
    0x6477_4b84_f385_12bf,
    0x4b1b_a7b6_434b_acd7,
    0x1a01_11ea_397f_e69a,
];

/// Scalar-field modulus r, little-endian bytes.
pub const FR_R: [u8; 32] = [
    0x01, 0x00, 0x00, 0x00, 0xff, 0xff, 0xff, 0xff, 0xfe, 0x5b, 0xfe, 0xff, 0x02, 0xa4, 0xbd, 0x53,
    0x05, 0xd8, 0xa1, 0x09, 0x08, 0xd8, 0x39, 0x33, 0x48, 0x7d, 0x9d, 0x29, 0x53, 0xa7, 0xed, 0x73,
];

pub fn p_be() -> [u8; 48] {
    let mut b = [0u8; 48];
    for (i, l) in FP_P.iter().enumerate() {
        b[48 - 8 * (i + 1)..48 - 8 * i].copy_from_slice(&l.to_be_bytes());
    }
    b
}

pub fn limbs_of(b: &[u8]) -> [u64; 6] {
    let mut l = [0u64; 6];
    for i in 0..6 {
        l[i] = u64::from_le_bytes(b[8 * i..8 * i + 8].try_into().unwrap());
    }
    l
}

/// limbs < p (as a 384-bit integer)
pub fn limbs_reduced(l: &[u64; 6]) -> bool {
    for i in (0..6).rev() {
        if l[i] < FP_P[i] {
            return true;
        }
        if l[i] > FP_P[i] {
            return false;
        }
    }
    false
}

/// limbs + p, None on overflow of 384 bits
pub fn limbs_plus_p(l: &[u64; 6]) -> Option<[u64; 6]> {
    let mut out = [0u64; 6];
    let mut carry = 0u128;
    for i in 0..6 {
        let s = l[i] as u128 + FP_P[i] as u128 + carry;
        out[i] = s as u64;
        carry = s >> 64;
    }
    if carry != 0 {
        None
    } else {
        Some(out)
    }
}

pub fn scalar_ok(b: &[u8]) -> bool {
    if b.len() != 32 {
        return false;
    }
    let a: [u8; 32] = b.try_into().unwrap();
    bool::from(BlsScalar::from_bytes(&a).is_some())
}

pub fn g1c_ok(b: &[u8]) -> bool {
    if b.len() != 48 {
        return false;
    }
    let a: [u8; 48] = b.try_into().unwrap();
    <G1Affine as Serializable<48>>::from_bytes(&a).is_ok()
}

pub fn g1c_identity(b: &[u8]) -> bool {
    let a: [u8; 48] = match b.try_into() {
        Ok(a) => a,
        Err(_) => return false,
    };
    match <G1Affine as Serializable<48>>::from_bytes(&a) {
        Ok(p) => bool::from(p.is_identity()),
        Err(_) => false,
    }
}

pub fn g2c_ok(b: &[u8]) -> bool {
    if b.len() != 96 {
        return false;
    }
    let a: [u8; 96] = b.try_into().unwrap();
    <G2Affine as Serializable<96>>::from_bytes(&a).is_ok()
}

pub fn g2c_identity(b: &[u8]) -> bool {
    let a: [u8; 96] = match b.try_into() {
        Ok(a) => a,
        Err(_) => return false,
    };
    match <G2Affine as Serializable<96>>::from_bytes(&a) {
        Ok(p) => bool::from(p.is_identity()),
        Err(_) => false,
    }
}

/// Classification of a 97-byte raw G1 point with the library's predicates
/// (flag first: the predicates themselves panic on a flag outside {0,1} in a
/// build with debug assertions, which is the finding, so it is not called
/// there).
pub fn raw_class(b: &[u8]) -> String {
    if b.len() != 97 {
        return "badlen".into();
    }
    if b[96] > 1 {
        return "flag".into();
    }
    let x = limbs_of(&b[0..48]);
    let y = limbs_of(&b[48..96]);
    let red = limbs_reduced(&x) && limbs_reduced(&y);
    let r = guarded(|| {
        let p = unsafe { G1Affine::from_slice_unchecked(b) };
        (bool::from(p.is_on_curve()), bool::from(p.is_torsion_free()), bool::from(p.is_identity()))
    });
    match r {
        Err(_) => "predicate-panic".into(),
        Ok((on, tf, id)) => {
            if !on {
                "offcurve".into()
            } else if !tf {
                "wrongsub".into()
            } else if !red {
                "unreduced".into()
            } else if id {
                let canon = G1Affine::identity().to_raw_bytes();
                if b == &canon[..] {
                    "identity".into()
                } else {
                    "identity-with-coordinates".into()
                }
            } else {
                "valid".into()
            }
        }
    }
}

pub struct Reps {
    pub g1_other: [u8; 48],
    pub g1_identity: [u8; 48],
    pub g1_offcurve: [u8; 48],
    pub g1_wrongsub: [u8; 48],
    pub g1_xgep: [u8; 48],
    pub g1_infsort: [u8; 48],
    pub g2_other: [u8; 96],
    pub g2_identity: [u8; 96],
    pub g2_offcurve: [u8; 96],
    pub g2_wrongsub: [u8; 96],
    pub g2_xgep: [u8; 96],
    pub raw_other: [u8; 97],
    pub raw_identity: [u8; 97],
    pub raw_wrongsub: [u8; 97],
    pub sc_ger: [u8; 32],
    pub sc_max: [u8; 32],
    pub checks: usize,
}

fn need(cond: bool, what: &str, n: &mut usize) -> Result<(), String> {
    *n += 1;
    if cond {
        Ok(())
    } else {
        Err(format!("class representative self-test failed: {what}"))
    }
}

impl Reps {
    pub fn build() -> Result<Reps, String> {
        let mut n = 0usize;
        // ---- scalars
        let sc_ger = FR_R;
        let sc_max = [0xffu8; 32];
        need(!scalar_ok(&sc_ger), "r is rejected as a scalar", &mut n)?;
        need(!scalar_ok(&sc_max), "2^256-1 is rejected as a scalar", &mut n)?;
        let mut rm1 = FR_R;
        rm1[0] = 0;
        need(scalar_ok(&rm1), "r-1 is a canonical scalar", &mut n)?;
        need((-BlsScalar::one()).to_bytes() == rm1, "r-1 = -1 (modulus constant)", &mut n)?;

        // ---- compressed G1
        let g1_other: [u8; 48] = G1Affine::from(G1Projective::generator() * BlsScalar::from(5u64)).to_bytes();
        need(g1c_ok(&g1_other) && !g1c_identity(&g1_other), "g1 other valid", &mut n)?;
        let g1_identity = G1Affine::identity().to_bytes();
        need(g1c_identity(&g1_identity), "g1 identity decodes to identity", &mut n)?;
        need(g1_identity[0] == 0xc0 && g1_identity[1..].iter().all(|b| *b == 0), "identity bytes c0 00..", &mut n)?;
        let mut g1_offcurve = None;
        let mut g1_wrongsub = None;
        for k in 1u8..=255 {
            let mut b = [0u8; 48];
            b[0] = 0x80;
            b[47] = k;
            let mut bs = b;
            bs[0] |= 0x20;
            let p: Option<G1Affine> = G1Affine::from_compressed_unchecked(&b).into();
            let ps: Option<G1Affine> = G1Affine::from_compressed_unchecked(&bs).into();
            match (p, ps) {
                (None, None) => {
                    if g1_offcurve.is_none() {
                        g1_offcurve = Some(b);
                    }
                }
                (Some(p), _) => {
                    if g1_wrongsub.is_none()
                        && bool::from(p.is_on_curve())
                        && !bool::from(p.is_torsion_free())
                    {
                        g1_wrongsub = Some(p);
                    }
                }
                _ => {}
            }
            if g1_offcurve.is_some() && g1_wrongsub.is_some() {
                break;
            }
        }
        let g1_offcurve = g1_offcurve.ok_or("no off-curve x found")?;
        let ws = g1_wrongsub.ok_or("no wrong-subgroup point found")?;
        let g1_wrongsub = ws.to_bytes();
        need(!g1c_ok(&g1_offcurve), "g1 offcurve rejected by library decoder", &mut n)?;
        {
            let p: Option<G1Affine> = G1Affine::from_compressed_unchecked(&g1_wrongsub).into();
            let p = p.ok_or("wrongsub rep does not decode unchecked")?;
            need(bool::from(p.is_on_curve()), "g1 wrongsub on curve", &mut n)?;
            need(!bool::from(p.is_torsion_free()), "g1 wrongsub not torsion free", &mut n)?;
            need(!g1c_ok(&g1_wrongsub), "g1 wrongsub rejected by checked decoder", &mut n)?;
        }
        let mut g1_xgep = p_be();
        need(g1_xgep[0] & 0xe0 == 0, "p fits 381 bits", &mut n)?;
        g1_xgep[0] |= 0x80;
        need(!g1c_ok(&g1_xgep), "g1 x=p rejected", &mut n)?;
        let mut g1_infsort = g1_identity;
        g1_infsort[0] |= 0x20;
        need(!g1c_ok(&g1_infsort), "g1 identity with sort flag rejected", &mut n)?;

        // ---- compressed G2
        let g2_other: [u8; 96] = G2Affine::from(G2Projective::generator() * BlsScalar::from(7u64)).to_bytes();
        need(g2c_ok(&g2_other) && !g2c_identity(&g2_other), "g2 other valid", &mut n)?;
        let g2_identity = G2Affine::identity().to_bytes();
        need(g2c_identity(&g2_identity), "g2 identity", &mut n)?;
        let mut g2_offcurve = None;
        let mut g2_wrongsub = None;
        for k in 1u8..=255 {
            let mut b = [0u8; 96];
            b[0] = 0x80;
            b[95] = k;
            let mut bs = b;
            bs[0] |= 0x20;
            let p: Option<G2Affine> = G2Affine::from_compressed_unchecked(&b).into();
            let ps: Option<G2Affine> = G2Affine::from_compressed_unchecked(&bs).into();
            match (p, ps) {
                (None, None) => {
                    if g2_offcurve.is_none() {
                        g2_offcurve = Some(b);
                    }
                }
                (Some(p), _) => {
                    if g2_wrongsub.is_none()
                        && bool::from(p.is_on_curve())
                        && !bool::from(p.is_torsion_free())
                    {
                        g2_wrongsub = Some(p);
                    }
                }
                _ => {}
            }
            if g2_offcurve.is_some() && g2_wrongsub.is_some() {
                break;
            }
        }
        let g2_offcurve = g2_offcurve.ok_or("no off-curve g2 x found")?;
        let ws2 = g2_wrongsub.ok_or("no wrong-subgroup g2 point found")?;
        let g2_wrongsub = ws2.to_bytes();
        need(!g2c_ok(&g2_offcurve), "g2 offcurve rejected", &mut n)?;
        {
            let p: Option<G2Affine> = G2Affine::from_compressed_unchecked(&g2_wrongsub).into();
            let p = p.ok_or("g2 wrongsub rep does not decode unchecked")?;
            need(bool::from(p.is_on_curve()) && !bool::from(p.is_torsion_free()), "g2 wrongsub class", &mut n)?;
            need(!g2c_ok(&g2_wrongsub), "g2 wrongsub rejected by checked decoder", &mut n)?;
        }
        let mut g2_xgep = [0u8; 96];
        g2_xgep[..48].copy_from_slice(&p_be());
        g2_xgep[0] |= 0x80;
        need(!g2c_ok(&g2_xgep), "g2 c1=p rejected", &mut n)?;

        // ---- raw G1
        let other = G1Affine::from(G1Projective::generator() * BlsScalar::from(11u64));
        let raw_other = other.to_raw_bytes();
        need(raw_class(&raw_other) == "valid", "raw other valid", &mut n)?;
        let raw_identity = G1Affine::identity().to_raw_bytes();
        need(raw_class(&raw_identity) == "identity", "raw identity", &mut n)?;
        let raw_wrongsub = ws.to_raw_bytes();
        need(raw_class(&raw_wrongsub) == "wrongsub", "raw wrongsub", &mut n)?;

        Ok(Reps {
            g1_other,
            g1_identity,
            g1_offcurve,
            g1_wrongsub,
            g1_xgep,
            g1_infsort,
            g2_other,
            g2_identity,
            g2_offcurve,
            g2_wrongsub,
            g2_xgep,
            raw_other,
            raw_identity,
            raw_wrongsub,
            sc_ger,
            sc_max,
            checks: n,
        })
    }

    /// Representative of compressed-G1 class `c` derived from the valid
    /// encoding `base` (self-tested).
    pub fn g1c(&self, base: &[u8], c: &str) -> Result<Vec<u8>, String> {
        if !g1c_ok(base) {
            return Err("g1c base field is not a valid point".into());
        }
        let out: Vec<u8> = match c {
            "valid" => base.to_vec(),
            "other" => self.g1_other.to_vec(),
            "identity" => self.g1_identity.to_vec(),
            "offcurve" => self.g1_offcurve.to_vec(),
            "wrongsub" => self.g1_wrongsub.to_vec(),
            "xgep" => self.g1_xgep.to_vec(),
            "infsort" => self.g1_infsort.to_vec(),
            "noflag" => {
                let b = if g1c_identity(base) { &self.g1_other[..] } else { base };
                let mut v = b.to_vec();
                v[0] &= 0x7f;
                v
            }
            "infx" => {
                let b = if g1c_identity(base) { &self.g1_other[..] } else { base };
                let mut v = b.to_vec();
                v[0] |= 0x40;
                v
            }
            "negated" => {
                // sort flag flipped: a different VALID point (-P), canonical
                let b = if g1c_identity(base) { &self.g1_other[..] } else { base };
                let mut v = b.to_vec();
                v[0] ^= 0x20;
                v
            }
            _ => return Err(format!("unknown g1c class {c}")),
        };
        let accept = matches!(c, "valid" | "other" | "identity" | "negated");
        if g1c_ok(&out) != accept {
            return Err(format!("g1c representative of {c} is not in its class"));
        }
        if c == "identity" && !g1c_identity(&out) {
            return Err("identity rep is not the identity".into());
        }
        Ok(out)
    }

    pub fn g2c(&self, base: &[u8], c: &str) -> Result<Vec<u8>, String> {
        if !g2c_ok(base) {
            return Err("g2c base field is not a valid point".into());
        }
        let out: Vec<u8> = match c {
            "valid" => base.to_vec(),
            "other" => self.g2_other.to_vec(),
            "identity" => self.g2_identity.to_vec(),
            "offcurve" => self.g2_offcurve.to_vec(),
            "wrongsub" => self.g2_wrongsub.to_vec(),
            "xgep" => self.g2_xgep.to_vec(),
            "noflag" => {
                let mut v = base.to_vec();
                v[0] &= 0x7f;
                v
            }
            "infx" => {
                let mut v = base.to_vec();
                v[0] |= 0x40;
                v
            }
            _ => return Err(format!("unknown g2c class {c}")),
        };
        let accept = matches!(c, "valid" | "other" | "identity");
        if g2c_ok(&out) != accept {
            return Err(format!("g2c representative of {c} is not in its class"));
        }
        Ok(out)
    }

    /// Representative of raw-G1 class `c` derived from the valid raw point
    /// `base` (97 bytes); self-tested with `raw_class`.
    pub fn raw(&self, base: &[u8], c: &str) -> Result<Vec<u8>, String> {
        if raw_class(base) != "valid" && raw_class(base) != "identity" {
            return Err(format!("raw base point is {}", raw_class(base)));
        }
        let nonid = if raw_class(base) == "valid" { base.to_vec() } else { self.raw_other.to_vec() };
        let (out, want): (Vec<u8>, &str) = match c {
            "valid" => (base.to_vec(), if raw_class(base) == "valid" { "valid" } else { "identity" }),
            "other" => (self.raw_other.to_vec(), "valid"),
            "identity" => (self.raw_identity.to_vec(), "identity"),
            "wrongsub" => (self.raw_wrongsub.to_vec(), "wrongsub"),
            "offcurve" => {
                let mut v = nonid.clone();
                v[48] ^= 1;
                (v, "offcurve")
            }
            "unredx" | "unredy" => {
                let off = if c == "unredx" { 0 } else { 48 };
                let l = limbs_of(&nonid[off..off + 48]);
                let m = limbs_plus_p(&l).ok_or("limbs + p overflows 384 bits")?;
                let mut v = nonid.clone();
                for i in 0..6 {
                    v[off + 8 * i..off + 8 * i + 8].copy_from_slice(&m[i].to_le_bytes());
                }
                // same group element, different encoding
                let a = unsafe { G1Affine::from_slice_unchecked(&v) };
                let b = unsafe { G1Affine::from_slice_unchecked(&nonid) };
                if a.to_bytes() != b.to_bytes() || v == nonid {
                    return Err("unreduced representative is not the same group element".into());
                }
                (v, "unreduced")
            }
            "flag2" | "flag3" | "flag255" => {
                let mut v = nonid.clone();
                v[96] = match c {
                    "flag2" => 2,
                    "flag3" => 3,
                    _ => 255,
                };
                (v, "flag")
            }
            "flag1xy" => {
                let mut v = nonid.clone();
                v[96] = 1;
                (v, "identity-with-coordinates")
            }
            _ => return Err(format!("unknown raw class {c}")),
        };
        let got = raw_class(&out);
        if got != want {
            return Err(format!("raw representative of {c} classified {got}, wanted {want}"));
        }
        Ok(out)
    }

    pub fn scalar(&self, base: &[u8], c: &str) -> Result<Vec<u8>, String> {
        let out = match c {
            "canon" => base.to_vec(),
            "ger" => self.sc_ger.to_vec(),
            "max" => self.sc_max.to_vec(),
            "zero" => vec![0u8; 32],
            _ => return Err(format!("unknown scalar class {c}")),
        };
        let accept = matches!(c, "canon" | "zero");
        if scalar_ok(&out) != accept {
            return Err(format!("scalar representative of {c} is not in its class"));
        }
        Ok(out)
    }
}
