//! Smoke probe: compile/prove/verify one scripted circuit given on stdin.
use std::io::Read;

use dusk_plonk::prelude::*;
use plonk_conf::prog::*;
use plonk_conf::rng::ScriptRng;
use plonk_conf::util::*;

fn main() {
    let mut s = String::new();
    std::io::stdin().read_to_string(&mut s).unwrap();
    let v: serde_json::Value = serde_json::from_str(&s).unwrap();
    let prog = Program::from_json(&v).unwrap();
    let mut rng = ScriptRng::seeded(1);
    let pp = PublicParameters::setup(1 << 10, &mut rng).unwrap();
    let circ = ScriptedCircuit::new(prog);
    let r = guarded(|| Compiler::compile_with_circuit(&pp, b"probe", &circ));
    println!("compile: {}", outcome(&r));
    let (prover, verifier) = r.unwrap().unwrap();
    let mut rng = ScriptRng::seeded(2);
    let r = guarded(|| prover.prove(&mut rng, &circ));
    println!("prove: {} draws={}", outcome(&r), rng.draws());
    if let Ok(Ok((proof, pis))) = r {
        let r = guarded(|| verifier.verify(&proof, &pis));
        println!("verify: {}", outcome(&r));
    }
}
