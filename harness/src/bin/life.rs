//! Lifecycle scenario executor (C01 / C02 / C04).
//!
//! stdin: NDJSON, one scenario per line: `{"id":.., "steps":[STEP..]}`.
//! Every step is `{"a": <action>, ...parameters..., "pred": {...}}`; the
//! `pred` object (the specification's prediction) is ignored here and only
//! compared by the driver. stdout: one line per scenario
//! `{"id":.., "obs":[OBS..], "ms":..}` with one observation per step.
//! With `--trace FILE`, every `ForceProve` step additionally appends a
//! `base` + `prove` event pair (format of `prover_trace`) so that TLC decides
//! with `ConstraintSystem!Satisfied` whether the forced statement was false.
//!
//! Actions
//!   Setup{cap}                         PublicParameters::setup (cached per cap)
//!   Compose{prog}                      runs the program on a fresh composer
//!   Compile{route,label}               direct | default | compressed
//!   SwapVerifier{prog,label,route?}    compiles `prog`, keeps only its verifier
//!   RoundTripProver / RoundTripVerifier  try_from_bytes(to_bytes())
//!   Prove{version,seed,slot?,prog?}    prove_with_version; PI vector := returned
//!   ForceProve{version,seed,prog,slot?} unforced outcome, then forced proof
//!   SetPI{pis}                         replaces the PI vector handed to verify
//!   UseProof{slot}                     makes a stored proof current
//!   Splice{from,fields}                current proof takes `fields` of slot `from`
//!   MutateProof{kind,i,j?}             field-level edit of the current proof
//!   Degenerate{kind}                   default | identity_commitments | zero_evals | zero_bytes
//!   Verify{version}                    verify_with_version
//!
//! No protocol logic lives here. Consecutive scenarios sharing a prefix of
//! steps reuse the state reached after that prefix.

use std::collections::HashMap;
use std::io::{BufRead, Write};
use std::rc::Rc;
use std::time::Instant;

use dusk_bls12_381::{BlsScalar, G1Affine};
use dusk_bytes::Serializable;
use dusk_plonk::prelude::*;
use plonk_conf::fe::*;
use plonk_conf::prog::*;
use plonk_conf::rng::ScriptRng;
use plonk_conf::util::*;
use serde_json::{json, Value};

const NG1: usize = 11;
const NSC: usize = 15;
const PROOF_LEN: usize = NG1 * 48 + NSC * 32;

#[derive(Clone, Default)]
struct State {
    cap: usize,
    pp: Option<Rc<PublicParameters>>,
    prog: Option<Program>,
    prover: Option<Rc<Prover>>,
    verifier: Option<Rc<Verifier>>,
    proof: Option<Vec<u8>>,
    slots: HashMap<String, (Vec<u8>, Vec<BlsScalar>)>,
    pis: Vec<BlsScalar>,
}

fn version_of(step: &Value) -> PlonkVersion {
    match step.get("version").and_then(|v| v.as_u64()).unwrap_or(3) {
        1 => PlonkVersion::V1,
        2 => PlonkVersion::V2,
        _ => PlonkVersion::V3,
    }
}

fn label_of(step: &Value) -> Vec<u8> {
    match step.get("label") {
        Some(Value::String(s)) => bytes_from_hex(s).unwrap_or_else(|_| s.as_bytes().to_vec()),
        _ => b"life".to_vec(),
    }
}

fn field_range(i: usize) -> std::ops::Range<usize> {
    if i < NG1 {
        i * 48..(i + 1) * 48
    } else {
        let o = NG1 * 48 + (i - NG1) * 32;
        o..o + 32
    }
}

fn compose(p: &Program) -> Result<Composer, String> {
    let r = guarded(|| {
        let mut c = Composer::initialized();
        run_program(p, &mut c, None).map(|_| c)
    });
    match r {
        Ok(Ok(c)) => Ok(c),
        Ok(Err(RunError::Lib(e))) => Err(format!("err:{}", err_class(&e))),
        Ok(Err(RunError::Bad(s))) => Err(format!("bad:{s}")),
        Err(p) => Err(format!("panic:{p}")),
    }
}

fn pis_json(p: &[BlsScalar]) -> Value {
    Value::Array(p.iter().map(|x| Value::String(fe_hex(x))).collect())
}

fn compile(
    pp: &PublicParameters,
    prog: &Program,
    route: &str,
    label: &[u8],
) -> Result<Result<(Prover, Verifier), Error>, String> {
    match route {
        "compressed" => {
            set_default_program(prog.clone());
            guarded(|| {
                let bytes = ScriptedCircuit::compress()?;
                Compiler::compile_with_compressed(pp, label, &bytes)
            })
        }
        "default" => {
            set_default_program(prog.clone());
            guarded(|| Compiler::compile::<ScriptedCircuit>(pp, label))
        }
        _ => {
            let circ = ScriptedCircuit::new(prog.clone());
            guarded(|| Compiler::compile_with_circuit(pp, label, &circ))
        }
    }
}

/// `base` + `prove` events in the format of `prover_trace` (TraceProver.tla).
fn trace_events(
    id: &Value,
    k: usize,
    compiled: &Program,
    instance: &Program,
    res: &str,
    verify: &str,
    extra: Value,
) -> Option<(Value, Value)> {
    let ccomp = compose(compiled).ok()?;
    let inst = compose(instance).ok()?;
    let csnap = ccomp.verif_snapshot();
    let isnap = inst.verif_snapshot();
    let mut map: HashMap<[u8; 32], usize> = HashMap::new();
    let mut vals: Vec<BlsScalar> = Vec::new();
    let mut idf = |x: &BlsScalar| -> usize {
        let key = x.to_bytes();
        if let Some(i) = map.get(&key) {
            return *i;
        }
        vals.push(*x);
        map.insert(key, vals.len());
        vals.len()
    };
    let sel: Vec<Vec<usize>> = csnap
        .rows
        .iter()
        .map(|r| r.selectors.iter().map(&mut idf).collect())
        .collect();
    let cls: Vec<Vec<usize>> = csnap
        .rows
        .iter()
        .map(|r| r.wires.iter().map(|w| w + 1).collect())
        .collect();
    let cpi: Vec<usize> = csnap.public_inputs.iter().map(|(i, _)| i + 1).collect();
    let tab: Vec<usize> = csnap.witnesses.iter().map(&mut idf).collect();
    let base = json!({
        "ev": "base", "id": id,
        "c": csnap.rows.len(),
        "size": csnap.rows.len().next_power_of_two(),
        "sel": sel, "cls": cls, "cpi": cpi, "tab": tab,
        "dict": vals.iter().map(fe_to_json).collect::<Vec<_>>(),
    });
    let iw: Vec<Vec<usize>> = isnap
        .rows
        .iter()
        .map(|r| r.wires.iter().map(|w| w + 1).collect())
        .collect();
    let ipi: Vec<Value> = isnap
        .public_inputs
        .iter()
        .map(|(i, v)| json!({"row": i + 1, "v": fe_to_json(v)}))
        .collect();
    let mut ev = json!({
        "ev": "prove", "id": id, "k": k, "what": extra,
        "n": isnap.rows.len(), "ipi": ipi, "res": res, "verify": verify,
        "full": fes_to_json(&isnap.witnesses),
    });
    if iw != cls {
        ev["iw"] = json!(iw);
    }
    Some((base, ev))
}

struct Ctx {
    pps: HashMap<usize, Rc<PublicParameters>>,
    trace: Option<std::fs::File>,
    n_forced: usize,
}

fn exec(ctx: &mut Ctx, st: &mut State, id: &Value, step: &Value) -> Value {
    let a = step.get("a").and_then(|a| a.as_str()).unwrap_or("");
    match a {
        "Setup" => {
            let cap = step.get("cap").and_then(|c| c.as_u64()).unwrap_or(0) as usize;
            st.cap = cap;
            if let Some(pp) = ctx.pps.get(&cap) {
                st.pp = Some(pp.clone());
                return json!({"res": "ok"});
            }
            let r = guarded(|| {
                let mut rng = ScriptRng::seeded(0x5e7u64 ^ ((cap as u64) << 16));
                PublicParameters::setup(cap, &mut rng)
            });
            let res = outcome(&r);
            if let Ok(Ok(pp)) = r {
                let pp = Rc::new(pp);
                ctx.pps.insert(cap, pp.clone());
                st.pp = Some(pp);
            } else {
                st.pp = None;
            }
            json!({"res": res})
        }
        "Compose" => {
            let prog = match Program::from_json(&step["prog"]) {
                Ok(p) => p,
                Err(e) => return json!({"res": format!("bad:{e}")}),
            };
            let r = compose(&prog);
            st.prog = Some(prog);
            match r {
                Ok(c) => {
                    let s = c.verif_snapshot();
                    json!({
                        "res": "ok", "c": s.rows.len(), "nw": s.witnesses.len(),
                        "pirows": s.public_inputs.iter().map(|(i, _)| *i).collect::<Vec<_>>(),
                        "pis": pis_json(&s.public_inputs.iter().map(|(_, v)| *v).collect::<Vec<_>>()),
                    })
                }
                Err(e) => json!({"res": e}),
            }
        }
        "Compile" | "SwapVerifier" => {
            let pp = match &st.pp {
                Some(pp) => pp.clone(),
                None => return json!({"res": "skip:no-pp"}),
            };
            let prog = if let Some(p) = step.get("prog") {
                match Program::from_json(p) {
                    Ok(p) => p,
                    Err(e) => return json!({"res": format!("bad:{e}")}),
                }
            } else {
                match &st.prog {
                    Some(p) => p.clone(),
                    None => return json!({"res": "skip:no-prog"}),
                }
            };
            let route = step.get("route").and_then(|r| r.as_str()).unwrap_or("direct");
            let label = label_of(step);
            let r = compile(&pp, &prog, route, &label);
            let res = outcome(&r);
            match r {
                Ok(Ok((p, v))) => {
                    let vb = v.to_bytes();
                    let mut o = json!({"res": res, "verifier": digest(&vb), "vlen": vb.len()});
                    if a == "Compile" {
                        let pb = p.to_bytes();
                        o["prover"] = json!(digest(&pb));
                        st.prover = Some(Rc::new(p));
                        st.proof = None;
                        st.slots.clear();
                    }
                    st.verifier = Some(Rc::new(v));
                    o
                }
                _ => {
                    if a == "Compile" {
                        st.prover = None;
                    }
                    st.verifier = None;
                    json!({"res": res})
                }
            }
        }
        "RoundTripProver" => {
            let p = match &st.prover {
                Some(p) => p.clone(),
                None => return json!({"res": "skip:no-prover"}),
            };
            let bytes = p.to_bytes();
            let r = guarded(|| Prover::try_from_bytes(&bytes));
            let res = outcome(&r);
            match r {
                Ok(Ok(q)) => {
                    let b2 = q.to_bytes();
                    st.prover = Some(Rc::new(q));
                    json!({"res": res, "prover": digest(&b2), "same": b2 == bytes})
                }
                _ => {
                    st.prover = None;
                    json!({"res": res})
                }
            }
        }
        "RoundTripVerifier" => {
            let v = match &st.verifier {
                Some(v) => v.clone(),
                None => return json!({"res": "skip:no-verifier"}),
            };
            let bytes = v.to_bytes();
            let r = guarded(|| Verifier::try_from_bytes(&bytes));
            let res = outcome(&r);
            match r {
                Ok(Ok(q)) => {
                    let b2 = q.to_bytes();
                    st.verifier = Some(Rc::new(q));
                    json!({"res": res, "verifier": digest(&b2), "same": b2 == bytes})
                }
                _ => {
                    st.verifier = None;
                    json!({"res": res})
                }
            }
        }
        "Prove" | "ForceProve" => {
            let p = match &st.prover {
                Some(p) => p.clone(),
                None => return json!({"res": "skip:no-prover"}),
            };
            let prog = if let Some(pj) = step.get("prog") {
                match Program::from_json(pj) {
                    Ok(p) => p,
                    Err(e) => return json!({"res": format!("bad:{e}")}),
                }
            } else {
                match &st.prog {
                    Some(p) => p.clone(),
                    None => return json!({"res": "skip:no-prog"}),
                }
            };
            let mut prog = prog;
            if let Some(pt) = step.get("perturb") {
                // instance = program followed by one witness override (+delta)
                let w = pt.get("w").and_then(|w| w.as_u64()).unwrap_or(0) as usize;
                let delta = pt.get("delta").map(|d| fe_from_json(d).unwrap_or(BlsScalar::one()))
                    .unwrap_or(BlsScalar::one());
                let base = match compose(&prog) {
                    Ok(c) => c.verif_snapshot(),
                    Err(e) => return json!({"res": format!("skip:compose:{e}")}),
                };
                if w >= base.witnesses.len() {
                    return json!({"res": "bad:perturb index"});
                }
                let nv = base.witnesses[w] + delta;
                prog.ops.push(json!({"op": "set_witness", "w": w, "v": fe_hex(&nv)}));
            }
            let version = version_of(step);
            let seed = step.get("seed").and_then(|s| s.as_u64()).unwrap_or(1);
            let slot = step.get("slot").and_then(|s| s.as_str()).unwrap_or("p").to_string();
            let circ = ScriptedCircuit::new(prog.clone());
            let mut out = json!({});
            if a == "ForceProve" {
                let mut rng = ScriptRng::seeded(seed);
                let r = guarded(|| p.prove_with_version(&mut rng, &circ, version));
                let unforced = outcome(&r);
                out["unforced"] = json!(unforced);
                // an assignment the prover accepts must also verify (C05 side)
                let unforced_verify = match (&r, &st.verifier) {
                    (Ok(Ok((proof, pis))), Some(v)) => {
                        outcome(&guarded(|| v.verify_with_version(proof, pis, version)))
                    }
                    _ => "n/a".to_string(),
                };
                out["unforced_verify"] = json!(unforced_verify);
                if let (Some(f), Some(compiled)) = (ctx.trace.as_mut(), st.prog.as_ref()) {
                    ctx.n_forced += 1;
                    let what = step.get("what").cloned().unwrap_or(json!({}));
                    if let Some((b, e)) =
                        trace_events(id, ctx.n_forced, compiled, &prog, &unforced, &unforced_verify, what)
                    {
                        writeln!(f, "{}", b).unwrap();
                        writeln!(f, "{}", e).unwrap();
                        out["traced"] = json!(ctx.n_forced);
                    }
                }
                dusk_plonk::verif::set_force_prove(true);
            }
            let mut rng = ScriptRng::seeded(seed);
            let r = guarded(|| p.prove_with_version(&mut rng, &circ, version));
            dusk_plonk::verif::set_force_prove(false);
            out["res"] = json!(outcome(&r));
            out["draws"] = json!(rng.draws());
            match r {
                Ok(Ok((proof, pis))) => {
                    let b = proof.to_bytes().to_vec();
                    out["proof"] = json!(digest(&b));
                    out["pis"] = pis_json(&pis);
                    st.slots.insert(slot, (b.clone(), pis.clone()));
                    st.proof = Some(b);
                    st.pis = pis;
                }
                _ => {
                    st.proof = None;
                }
            }
            out
        }
        "SetPI" => {
            let arr = step.get("pis").and_then(|p| p.as_array()).cloned().unwrap_or_default();
            let mut v = Vec::new();
            for x in arr.iter() {
                match fe_from_json(x) {
                    Ok(s) => v.push(s),
                    Err(e) => return json!({"res": format!("bad:{e}")}),
                }
            }
            st.pis = v;
            json!({"res": "ok", "pis": pis_json(&st.pis)})
        }
        "UseProof" => {
            let slot = step.get("slot").and_then(|s| s.as_str()).unwrap_or("p");
            match st.slots.get(slot) {
                Some((b, pis)) => {
                    st.proof = Some(b.clone());
                    st.pis = pis.clone();
                    json!({"res": "ok", "proof": digest(b)})
                }
                None => json!({"res": "skip:no-slot"}),
            }
        }
        "Splice" => {
            let from = step.get("from").and_then(|s| s.as_str()).unwrap_or("q");
            let (cur, other) = match (&st.proof, st.slots.get(from)) {
                (Some(c), Some((o, _))) => (c.clone(), o.clone()),
                _ => return json!({"res": "skip:no-proof"}),
            };
            let mut cur = cur;
            let mut differing = 0;
            for f in step.get("fields").and_then(|f| f.as_array()).cloned().unwrap_or_default() {
                let i = f.as_u64().unwrap_or(0) as usize;
                if i >= NG1 + NSC {
                    return json!({"res": "bad:field"});
                }
                let r = field_range(i);
                if cur[r.clone()] != other[r.clone()] {
                    differing += 1;
                }
                cur[r.clone()].copy_from_slice(&other[r]);
            }
            let d = digest(&cur);
            st.proof = Some(cur);
            json!({"res": "ok", "proof": d, "differing": differing})
        }
        "MutateProof" => {
            let mut cur = match &st.proof {
                Some(c) => c.clone(),
                None => return json!({"res": "skip:no-proof"}),
            };
            let kind = step.get("kind").and_then(|k| k.as_str()).unwrap_or("");
            let i = step.get("i").and_then(|k| k.as_u64()).unwrap_or(0) as usize;
            let j = step.get("j").and_then(|k| k.as_u64()).unwrap_or(0) as usize;
            if i >= NG1 + NSC || j >= NG1 + NSC {
                return json!({"res": "bad:field"});
            }
            let ri = field_range(i);
            match kind {
                "scalar_add1" | "scalar_zero" if i >= NG1 => {
                    let mut b = [0u8; 32];
                    b.copy_from_slice(&cur[ri.clone()]);
                    let s: Option<BlsScalar> = BlsScalar::from_bytes(&b).into();
                    let s = match s {
                        Some(s) => s,
                        None => return json!({"res": "bad:scalar"}),
                    };
                    let t = if kind == "scalar_zero" { BlsScalar::zero() } else { s + BlsScalar::one() };
                    cur[ri].copy_from_slice(&t.to_bytes());
                }
                "point_neg" | "point_identity" | "point_generator" if i < NG1 => {
                    let mut b = [0u8; 48];
                    b.copy_from_slice(&cur[ri.clone()]);
                    let p = match G1Affine::from_bytes(&b) {
                        Ok(p) => p,
                        Err(_) => return json!({"res": "bad:point"}),
                    };
                    let q = match kind {
                        "point_neg" => -p,
                        "point_identity" => G1Affine::identity(),
                        _ => G1Affine::generator(),
                    };
                    cur[ri].copy_from_slice(&q.to_bytes());
                }
                "swap" if (i < NG1) == (j < NG1) => {
                    let rj = field_range(j);
                    let a = cur[ri.clone()].to_vec();
                    let b = cur[rj.clone()].to_vec();
                    cur[ri].copy_from_slice(&b);
                    cur[rj].copy_from_slice(&a);
                }
                "bit" => {
                    // flips bit `j` (0..8) of byte `i` (absolute offset given as `byte`)
                    let pos = step.get("byte").and_then(|k| k.as_u64()).unwrap_or(0) as usize;
                    if pos >= PROOF_LEN {
                        return json!({"res": "bad:byte"});
                    }
                    cur[pos] ^= 1 << (j % 8);
                }
                _ => return json!({"res": "bad:kind"}),
            }
            let changed = Some(&cur) != st.proof.as_ref();
            let d = digest(&cur);
            st.proof = Some(cur);
            json!({"res": "ok", "proof": d, "changed": changed})
        }
        "Degenerate" => {
            let kind = step.get("kind").and_then(|k| k.as_str()).unwrap_or("default");
            let base = st.proof.clone().unwrap_or_else(|| Proof::default().to_bytes().to_vec());
            let mut cur = base;
            match kind {
                "default" => cur = Proof::default().to_bytes().to_vec(),
                "identity_commitments" => {
                    let idb = G1Affine::identity().to_bytes();
                    for i in 0..NG1 {
                        cur[field_range(i)].copy_from_slice(&idb);
                    }
                }
                "zero_evals" => {
                    for i in NG1..NG1 + NSC {
                        cur[field_range(i)].fill(0);
                    }
                }
                "zero_bytes" => cur = vec![0u8; PROOF_LEN],
                _ => return json!({"res": "bad:kind"}),
            }
            let d = digest(&cur);
            st.proof = Some(cur);
            json!({"res": "ok", "proof": d})
        }
        "Verify" => {
            let v = match &st.verifier {
                Some(v) => v.clone(),
                None => return json!({"res": "skip:no-verifier"}),
            };
            let bytes = match &st.proof {
                Some(b) => b.clone(),
                None => return json!({"res": "skip:no-proof"}),
            };
            let mut arr = [0u8; PROOF_LEN];
            arr.copy_from_slice(&bytes);
            let dec = guarded(|| Proof::from_bytes(&arr));
            let proof = match dec {
                Ok(Ok(p)) => p,
                Ok(Err(e)) => return json!({"res": format!("err:decode:{:?}", e)}),
                Err(p) => return json!({"res": format!("panic:decode:{p}")}),
            };
            let version = version_of(step);
            let pis = st.pis.clone();
            let r = guarded(|| v.verify_with_version(&proof, &pis, version));
            json!({"res": outcome(&r), "npi": pis.len()})
        }
        other => json!({"res": format!("bad:unknown action {other}")}),
    }
}

fn main() {
    quiet_panics();
    let args: Vec<String> = std::env::args().collect();
    let mut trace = None;
    let mut i = 1;
    while i < args.len() {
        if args[i] == "--trace" && i + 1 < args.len() {
            trace = Some(std::fs::File::create(&args[i + 1]).expect("trace file"));
            i += 1;
        }
        i += 1;
    }
    let mut ctx = Ctx { pps: HashMap::new(), trace, n_forced: 0 };
    let stdin = std::io::stdin();
    let out = std::io::stdout();
    let mut out = out.lock();

    let mut prev_steps: Vec<Value> = Vec::new();
    let mut prev_states: Vec<State> = Vec::new();
    let mut prev_obs: Vec<Value> = Vec::new();

    for line in stdin.lock().lines() {
        let line = line.unwrap();
        if !line.trim_start().starts_with('{') {
            continue;
        }
        let sc: Value = serde_json::from_str(&line).expect("scenario json");
        let id = sc.get("id").cloned().unwrap_or(json!(0));
        let steps: Vec<Value> = sc.get("steps").and_then(|s| s.as_array()).cloned().unwrap_or_default();
        let t0 = Instant::now();

        // longest shared prefix with the previous scenario (ignoring predictions)
        let strip = |s: &Value| -> Value {
            let mut s = s.clone();
            if let Some(o) = s.as_object_mut() {
                o.remove("pred");
            }
            s
        };
        let stripped: Vec<Value> = steps.iter().map(strip).collect();
        let mut k = 0;
        while k < stripped.len() && k < prev_steps.len() && stripped[k] == prev_steps[k] {
            // ForceProve steps write trace events: never reuse them
            if stripped[k].get("a").and_then(|a| a.as_str()) == Some("ForceProve") {
                break;
            }
            k += 1;
        }
        let mut st = if k == 0 { State::default() } else { prev_states[k - 1].clone() };
        let mut obs: Vec<Value> = prev_obs[..k].to_vec();
        let mut states: Vec<State> = prev_states[..k].to_vec();
        for step in steps.iter().skip(k) {
            let o = exec(&mut ctx, &mut st, &id, step);
            obs.push(o);
            states.push(st.clone());
        }
        writeln!(
            out,
            "{}",
            json!({"id": id, "obs": obs, "reused": k, "ms": t0.elapsed().as_millis() as u64})
        )
        .unwrap();
        prev_steps = stripped;
        prev_states = states;
        prev_obs = obs;
    }
}
