//! Generic scenario executor: runs a scripted program through the PUBLIC
//! pipeline (compose, compile, prove, verify) and reports what happened.
//!
//! stdin: NDJSON `{"id":..,"ops":[...], "cap": <srs degree, optional>}`
//! stdout: NDJSON `{"id","res","verify","ret":[values of the witnesses the LAST
//!          op returned],"rows","nw"}`
//!   res = outcome of the first failing stage, or "ok":
//!         compose error class / compile error class / prove outcome.

use std::collections::HashMap;
use std::io::{BufRead, Write};

use dusk_plonk::prelude::*;
use plonk_conf::fe::*;
use plonk_conf::prog::*;
use plonk_conf::rng::ScriptRng;
use plonk_conf::util::*;
use serde_json::{json, Value};

fn main() {
    quiet_panics();
    let seed: u64 = std::env::var("VERIF_SEED").ok().and_then(|s| s.parse().ok()).unwrap_or(1);
    let stdin = std::io::stdin();
    let out = std::io::stdout();
    let mut out = out.lock();
    let mut pps: HashMap<usize, PublicParameters> = HashMap::new();
    for line in stdin.lock().lines() {
        let line = line.unwrap();
        if !line.trim_start().starts_with('{') {
            continue;
        }
        let sc: Value = serde_json::from_str(&line).expect("scenario json");
        let id = sc.get("id").cloned().unwrap_or(json!(0));
        let prog = Program::from_json(&sc).expect("program");
        // optional: a different program for the proving instance (compile `ops`,
        // prove `prove_ops`): adversarial instances composed from seams
        let prove_prog = match sc.get("prove_ops") {
            Some(p) if p.is_array() => Some(Program { ops: p.as_array().unwrap().clone() }),
            _ => None,
        };
        let cap = sc.get("cap").and_then(|c| c.as_u64()).unwrap_or(1 << 12) as usize;

        // honest composition: outcome of circuit() and the returned witnesses
        let mut c = Composer::initialized();
        let mut last: Option<CallRecord> = None;
        let shown = prove_prog.as_ref().unwrap_or(&prog);
        let composed = guarded(|| run_program_cb(shown, &mut c, &mut |r, _| last = Some(r.clone())));
        let snap = c.verif_snapshot();
        let ret: Vec<Value> = match &last {
            Some(r) if r.outcome == "ok" => r.ret.iter().map(|w| fe_to_json(&snap.witnesses[*w])).collect(),
            _ => vec![],
        };
        let mut ev = json!({"id": id, "rows": snap.rows.len(), "nw": snap.witnesses.len(), "ret": ret,
                            "verify": "n/a"});
        let mut keys: Option<(Prover, Verifier)> = None;
        // "sweep": perturb-and-propagate adversary over the witnesses the LAST op
        // allocated (sampled by the seed): one extra output line per variant
        let mut variants: Vec<(usize, Program)> = Vec::new();
        if let (Some(sw), Some(r), Ok(Ok(()))) = (sc.get("sweep"), &last, &composed) {
            let max = sw.get("max").and_then(|m| m.as_u64()).unwrap_or(16) as usize;
            let all: Vec<usize> = (r.wit_before..r.wit_after).collect();
            let mut pick: Vec<usize> = if all.len() <= max {
                all.clone()
            } else {
                let mut s = seed ^ 0x5bd1e995u64.wrapping_mul(all.len() as u64 + 1);
                let mut p: Vec<usize> = (0..max)
                    .map(|_| {
                        s = s.wrapping_mul(6364136223846793005).wrapping_add(1442695040888963407);
                        all[((s >> 33) as usize) % all.len()]
                    })
                    .collect();
                // always include the first and the last few (helpers / outputs)
                p.extend(all.iter().take(3));
                p.extend(all.iter().rev().take(3));
                p
            };
            pick.sort();
            pick.dedup();
            for w in pick {
                let mut p = shown.clone();
                let nv = snap.witnesses[w] + dusk_bls12_381::BlsScalar::from(5u64);
                p.ops.push(json!({"op": "set_witness_opt", "w": w, "v": fe_to_json(&nv)}));
                p.ops.push(json!({"op": "propagate", "from": r.wit_before, "pinned": [w]}));
                if !r.ret.is_empty() {
                    p.ops.push(json!({"op": "ret", "w": r.ret}));
                }
                variants.push((w, p));
            }
        }
        match composed {
            Err(p) => {
                ev["res"] = json!(format!("panic:{}", p.chars().take(160).collect::<String>()));
            }
            Ok(Err(RunError::Bad(s))) => {
                ev["res"] = json!("bad");
                ev["why"] = json!(s);
            }
            Ok(Err(RunError::Lib(e))) => {
                ev["res"] = json!(format!("err:{}", err_class(&e)));
            }
            Ok(Ok(())) => {
                let pp = pps.entry(cap).or_insert_with(|| {
                    let mut rng = ScriptRng::seeded(0xABCD ^ cap as u64);
                    PublicParameters::setup(cap, &mut rng).expect("setup")
                });
                let circ_c = ScriptedCircuit::new(prog.clone());
                let circ = ScriptedCircuit::new(shown.clone());
                let compiled = guarded(|| Compiler::compile_with_circuit(pp, b"gadget", &circ_c));
                match compiled {
                    Ok(Ok((prover, verifier))) => {
                        let mut rng = ScriptRng::seeded(seed);
                        let r = guarded(|| prover.prove(&mut rng, &circ));
                        ev["res"] = json!(outcome(&r));
                        if let Ok(Ok((proof, pis))) = &r {
                            let v = guarded(|| verifier.verify(proof, pis));
                            ev["verify"] = json!(outcome(&v));
                        }
                        keys = Some((prover, verifier));
                    }
                    other => {
                        ev["res"] = json!(format!("compile:{}", outcome(&other)));
                    }
                }
            }
        }
        writeln!(out, "{}", ev).unwrap();

        for (w, vp) in variants {
            let mut c = Composer::initialized();
            let mut lastv: Option<CallRecord> = None;
            let composed = guarded(|| run_program_cb(&vp, &mut c, &mut |r, _| lastv = Some(r.clone())));
            let snapv = c.verif_snapshot();
            let retv: Vec<Value> = match &lastv {
                Some(r) => r.ret.iter().map(|x| fe_to_json(&snapv.witnesses[*x])).collect(),
                None => vec![],
            };
            let mut ev = json!({"id": id, "variant": w, "ret": retv, "verify": "n/a"});
            match composed {
                Ok(Ok(())) => {
                    // the keys compiled for the honest instance of the same program
                    let circ = ScriptedCircuit::new(vp.clone());
                    match &keys {
                        Some((prover, verifier)) => {
                            let mut rng = ScriptRng::seeded(seed);
                            let r = guarded(|| prover.prove(&mut rng, &circ));
                            ev["res"] = json!(outcome(&r));
                            if let Ok(Ok((proof, pis))) = &r {
                                let v = guarded(|| verifier.verify(proof, pis));
                                ev["verify"] = json!(outcome(&v));
                            }
                        }
                        None => ev["res"] = json!("compile:none"),
                    }
                }
                Ok(Err(RunError::Lib(e))) => ev["res"] = json!(format!("err:{}", err_class(&e))),
                Ok(Err(RunError::Bad(s))) => {
                    ev["res"] = json!("bad");
                    ev["why"] = json!(s);
                }
                Err(p) => ev["res"] = json!(format!("panic:{}", p.chars().take(160).collect::<String>())),
            }
            writeln!(out, "{}", ev).unwrap();
        }
    }
}
