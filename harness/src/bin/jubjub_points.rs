//! Prints named JubJub points as limb tuples for the specification
//! (which verifies their claimed properties itself before using them):
//! G, G_NUMS and a point T8 of order exactly 8.
use dusk_bls12_381::BlsScalar;
use dusk_bytes::Serializable;
use ff::Field;
use dusk_jubjub::{JubJubAffine, JubJubExtended, JubJubScalar, GENERATOR, GENERATOR_NUMS};
use plonk_conf::fe::fe_limbs;

fn show(name: &str, p: &JubJubAffine) {
    println!("{name} == << <<{}>>, <<{}>> >>",
        fe_limbs(&p.get_u()).iter().map(|x| x.to_string()).collect::<Vec<_>>().join(", "),
        fe_limbs(&p.get_v()).iter().map(|x| x.to_string()).collect::<Vec<_>>().join(", "));
}

fn main() {
    show("JubJubG", &GENERATOR);
    show("JubJubGNums", &GENERATOR_NUMS);
    // 8^-1 mod r_J
    let eight_inv = JubJubScalar::from(8u64).invert().unwrap();
    // search a curve point with full 8-torsion component: v = 2, 3, ... solve u
    let d = dusk_jubjub::EDWARDS_D;
    for v in 2u64..200 {
        let v = BlsScalar::from(v);
        let v2 = v.square();
        // u^2 = (v^2 - 1) / (1 + d v^2)
        let u2 = (v2 - BlsScalar::one()) * (BlsScalar::one() + d * v2).invert().unwrap();
        let u: Option<BlsScalar> = u2.sqrt().into();
        if let Some(u) = u {
            let p = JubJubAffine::from_raw_unchecked(u, v);
            if !bool::from(p.is_on_curve()) { continue; }
            let e = JubJubExtended::from(p);
            let s = (e * eight_inv).mul_by_cofactor();   // subgroup component
            let t = JubJubAffine::from(e - s);           // torsion component
            let te = JubJubExtended::from(t);
            let t4 = te.double().double();
            if !bool::from(t4.is_identity()) {
                show("JubJubT8", &t);
                let mixed = JubJubAffine::from(JubJubExtended::from(GENERATOR) + te);
                show("JubJubMixed", &mixed);
                return;
            }
        }
    }
    let _ = JubJubAffine::SIZE;
}
