//! C15 binding: compressed circuit descriptions.
//!
//! stdin: NDJSON scenarios
//!   {"id":.., "program":PROGRAM, "caps":[d, ...] (absent = around the padded size), "label":"..",
//!    "hostile":true|false, "hostile_cap":d}
//! stdout: NDJSON events for `spec/TraceCompress.tla`
//!   {"ev":"table", "table":[SCALAR..]}                 built-in constant table
//!   {"ev":"packed", id, "snap":COMPOSER, "container":CONTAINER, "inflated":n,
//!    "consumed":n, "len":n}                            honest description, unpacked
//!   {"ev":"route", id, "cap":d, "rows":c, "direct":OUT, "compressed":OUT,
//!    "same_prover":b, "same_verifier":b, ...}          both compilation routes
//!   {"ev":"hostile", id, "class":.., "cap":d, "container":CONTAINER,
//!    "res":OUT, "peak":bytes, "direct_peak":bytes}     edited description
//! SCALAR = [hex, packed size in bytes, canonical?]; the specification only
//! compares scalars for equality. COMPOSER = {"dict":[SCALAR..],
//! "rows":[{"q":[dict index x 11],"w":[a,b,c,d]}], "nw":n, "pis":[row..]}.
//! CONTAINER = {"stream":"ok"|"garbage", "tail":n, "payload":{hades, pis, nw,
//! scalars, polys, cons, extra, decl:{pis,scalars,polys,cons}}}.
//!
//! The harness holds no opinion on what the right answer is: it unpacks /
//! re-packs MessagePack and deflate, runs the two public routes and reports.

use std::alloc::{GlobalAlloc, Layout, System};
use std::collections::HashMap;
use std::io::{BufRead, Write};
use std::sync::atomic::{AtomicUsize, Ordering};

use dusk_bls12_381::BlsScalar;
use dusk_plonk::prelude::*;
use plonk_conf::fe::*;
use plonk_conf::prog::*;
use plonk_conf::rng::ScriptRng;
use plonk_conf::util::*;
use serde_json::{json, Value};
use sha2::{Digest, Sha256, Sha512};

// ---------------------------------------------------------------- allocator

struct Counting;
static CUR: AtomicUsize = AtomicUsize::new(0);
static PEAK: AtomicUsize = AtomicUsize::new(0);

fn bump(n: usize) {
    let c = CUR.fetch_add(n, Ordering::Relaxed) + n;
    PEAK.fetch_max(c, Ordering::Relaxed);
}

unsafe impl GlobalAlloc for Counting {
    unsafe fn alloc(&self, l: Layout) -> *mut u8 {
        let p = System.alloc(l);
        if !p.is_null() {
            bump(l.size());
        }
        p
    }
    unsafe fn alloc_zeroed(&self, l: Layout) -> *mut u8 {
        let p = System.alloc_zeroed(l);
        if !p.is_null() {
            bump(l.size());
        }
        p
    }
    unsafe fn dealloc(&self, p: *mut u8, l: Layout) {
        System.dealloc(p, l);
        CUR.fetch_sub(l.size(), Ordering::Relaxed);
    }
    unsafe fn realloc(&self, p: *mut u8, l: Layout, new: usize) -> *mut u8 {
        // worst case of a moving realloc: old and new block alive together
        bump(new);
        let q = System.realloc(p, l, new);
        if q.is_null() {
            CUR.fetch_sub(new, Ordering::Relaxed);
        } else {
            CUR.fetch_sub(l.size(), Ordering::Relaxed);
        }
        q
    }
}

#[global_allocator]
static ALLOC: Counting = Counting;

/// Runs `f`; returns its result and the peak of live heap bytes above the
/// level at entry.
fn measured<T>(f: impl FnOnce() -> T) -> (T, usize) {
    let base = CUR.load(Ordering::Relaxed);
    PEAK.store(base, Ordering::Relaxed);
    let r = f();
    let peak = PEAK.load(Ordering::Relaxed);
    (r, peak.saturating_sub(base))
}

// ------------------------------------------------------------ built-in table

/// The scalar table of `compress.rs::scalar_map(true)` in construction order
/// (0, 1, -1, the 335 Hades round constants, the 25 MDS entries), recomputed
/// here from the published recipe (Poseidon252 HOWTO): duplicates included.
fn builtin_table() -> Vec<BlsScalar> {
    let mut t = vec![BlsScalar::zero(), BlsScalar::one(), -BlsScalar::one()];
    let mut p = BlsScalar::one();
    let mut bytes = b"poseidon-for-plonk".to_vec();
    for _ in 0..(59 + 8) * 5 {
        bytes = Sha512::digest(bytes.as_slice()).to_vec();
        let mut v = [0u8; 64];
        v.copy_from_slice(&bytes[0..64]);
        let c = BlsScalar::from_bytes_wide(&v) + p;
        p = c;
        t.push(c);
    }
    for i in 0..5u64 {
        for j in 0..5u64 {
            t.push((BlsScalar::from(i) + BlsScalar::from(j + 5)).invert().unwrap());
        }
    }
    t
}

fn packed_scalar_len(b: &[u8; 32]) -> usize {
    b.iter().map(|x| if *x <= 127 { 1 } else { 2 }).sum()
}

/// SCALAR token of 32 raw bytes.
fn tok_bytes(b: &[u8; 32]) -> Value {
    let canonical: Option<BlsScalar> = BlsScalar::from_bytes(b).into();
    let mut be = *b;
    be.reverse();
    json!([format!("0x{}", hex_bytes(&be)), packed_scalar_len(b), canonical.is_some()])
}

fn tok(s: &BlsScalar) -> Value {
    tok_bytes(&s.to_bytes())
}

// ------------------------------------------------------------- MessagePack

#[derive(Clone, Debug, Default)]
struct Payload {
    hades: bool,
    pis: Vec<u64>,
    nw: u64,
    scalars: Vec<[u8; 32]>,
    polys: Vec<[u64; 11]>,
    cons: Vec<[u64; 5]>,
    /// bytes after the last field (inside the deflate stream)
    extra: usize,
    /// declared collection lengths (None = the real ones)
    decl: [Option<u64>; 4],
}

fn w_uint(b: &mut Vec<u8>, v: u64) {
    if v <= 127 {
        b.push(v as u8);
    } else if v <= 0xff {
        b.extend([0xcc, v as u8]);
    } else if v <= 0xffff {
        b.push(0xcd);
        b.extend((v as u16).to_be_bytes());
    } else if v <= 0xffff_ffff {
        b.push(0xce);
        b.extend((v as u32).to_be_bytes());
    } else {
        b.push(0xcf);
        b.extend(v.to_be_bytes());
    }
}

fn w_arr(b: &mut Vec<u8>, n: u64) {
    if n <= 15 {
        b.push(0x90 | n as u8);
    } else if n <= 0xffff {
        b.push(0xdc);
        b.extend((n as u16).to_be_bytes());
    } else {
        b.push(0xdd);
        b.extend((n as u32).to_be_bytes());
    }
}

impl Payload {
    fn declared(&self) -> [u64; 4] {
        [
            self.decl[0].unwrap_or(self.pis.len() as u64),
            self.decl[1].unwrap_or(self.scalars.len() as u64),
            self.decl[2].unwrap_or(self.polys.len() as u64),
            self.decl[3].unwrap_or(self.cons.len() as u64),
        ]
    }

    fn pack(&self) -> Vec<u8> {
        let d = self.declared();
        let mut b = Vec::new();
        b.push(if self.hades { 0xc3 } else { 0xc2 });
        w_arr(&mut b, d[0]);
        for p in &self.pis {
            w_uint(&mut b, *p);
        }
        w_uint(&mut b, self.nw);
        w_arr(&mut b, d[1]);
        for s in &self.scalars {
            for x in s {
                w_uint(&mut b, *x as u64);
            }
        }
        w_arr(&mut b, d[2]);
        for p in &self.polys {
            for x in p {
                w_uint(&mut b, *x);
            }
        }
        w_arr(&mut b, d[3]);
        for c in &self.cons {
            for x in c {
                w_uint(&mut b, *x);
            }
        }
        b.resize(b.len() + self.extra, 0);
        b
    }

    fn to_json(&self) -> Value {
        let d = self.declared();
        json!({
            "hades": self.hades,
            "pis": self.pis,
            "nw": self.nw,
            "scalars": self.scalars.iter().map(tok_bytes).collect::<Vec<_>>(),
            "polys": self.polys.iter().map(|p| p.to_vec()).collect::<Vec<_>>(),
            "cons": self.cons.iter().map(|p| p.to_vec()).collect::<Vec<_>>(),
            "extra": self.extra,
            "decl": {"pis": d[0], "scalars": d[1], "polys": d[2], "cons": d[3]},
        })
    }
}

struct Reader<'a> {
    b: &'a [u8],
    at: usize,
}

impl<'a> Reader<'a> {
    fn byte(&mut self) -> Result<u8, String> {
        let x = *self.b.get(self.at).ok_or("short")?;
        self.at += 1;
        Ok(x)
    }
    fn be(&mut self, n: usize) -> Result<u64, String> {
        let mut v = 0u64;
        for _ in 0..n {
            v = (v << 8) | self.byte()? as u64;
        }
        Ok(v)
    }
    fn uint(&mut self) -> Result<u64, String> {
        match self.byte()? {
            t @ 0..=0x7f => Ok(t as u64),
            0xcc => self.be(1),
            0xcd => self.be(2),
            0xce => self.be(4),
            0xcf => self.be(8),
            t => Err(format!("uint tag {t:#x}")),
        }
    }
    fn arr(&mut self) -> Result<u64, String> {
        match self.byte()? {
            t @ 0x90..=0x9f => Ok((t & 0x0f) as u64),
            0xdc => self.be(2),
            0xdd => self.be(4),
            t => Err(format!("array tag {t:#x}")),
        }
    }
}

fn unpack(b: &[u8]) -> Result<Payload, String> {
    let mut r = Reader { b, at: 0 };
    let mut p = Payload::default();
    p.hades = match r.byte()? {
        0xc3 => true,
        0xc2 => false,
        t => return Err(format!("bool tag {t:#x}")),
    };
    for _ in 0..r.arr()? {
        p.pis.push(r.uint()?);
    }
    p.nw = r.uint()?;
    for _ in 0..r.arr()? {
        let mut s = [0u8; 32];
        for x in s.iter_mut() {
            *x = r.uint()? as u8;
        }
        p.scalars.push(s);
    }
    for _ in 0..r.arr()? {
        let mut s = [0u64; 11];
        for x in s.iter_mut() {
            *x = r.uint()?;
        }
        p.polys.push(s);
    }
    for _ in 0..r.arr()? {
        let mut s = [0u64; 5];
        for x in s.iter_mut() {
            *x = r.uint()?;
        }
        p.cons.push(s);
    }
    p.extra = b.len() - r.at;
    Ok(p)
}

/// Inflates a raw deflate stream; returns (output, input bytes consumed).
fn inflate(input: &[u8]) -> Result<(Vec<u8>, usize), String> {
    use miniz_oxide::inflate::core::{decompress, inflate_flags, DecompressorOxide};
    use miniz_oxide::inflate::TINFLStatus;
    let mut d = Box::<DecompressorOxide>::default();
    let mut out = vec![0u8; (input.len() * 4).max(1 << 16)];
    let mut inp = 0usize;
    let mut outp = 0usize;
    loop {
        let (st, i, o) = decompress(
            &mut d,
            &input[inp..],
            &mut out,
            outp,
            inflate_flags::TINFL_FLAG_USING_NON_WRAPPING_OUTPUT_BUF,
        );
        inp += i;
        outp += o;
        match st {
            TINFLStatus::Done => {
                out.truncate(outp);
                return Ok((out, inp));
            }
            TINFLStatus::HasMoreOutput => {
                let n = out.len() * 2;
                out.resize(n, 0);
            }
            other => return Err(format!("{other:?}")),
        }
    }
}

fn deflate(b: &[u8]) -> Vec<u8> {
    miniz_oxide::deflate::compress_to_vec(b, 6)
}

// ----------------------------------------------------------------- helpers

fn sha(b: &[u8]) -> String {
    let d = Sha256::digest(b);
    format!("{}:{}", hex_bytes(&d[..16]), b.len())
}

fn compose(p: &Program) -> Result<Composer, String> {
    let mut c = Composer::initialized();
    match run_program(p, &mut c, None) {
        Ok(()) => Ok(c),
        Err(RunError::Lib(e)) => Err(format!("err:{}", err_class(&e))),
        Err(RunError::Bad(s)) => Err(format!("bad:{s}")),
    }
}

fn snap_json(c: &Composer) -> Value {
    let s = c.verif_snapshot();
    let mut ids: HashMap<[u8; 32], usize> = HashMap::new();
    let mut dict: Vec<Value> = Vec::new();
    let rows: Vec<Value> = s
        .rows
        .iter()
        .map(|r| {
            let q: Vec<usize> = r
                .selectors
                .iter()
                .map(|x| {
                    let k = x.to_bytes();
                    *ids.entry(k).or_insert_with(|| {
                        dict.push(tok(x));
                        dict.len()
                    })
                })
                .collect();
            json!({"q": q, "w": r.wires})
        })
        .collect();
    let pis: Vec<usize> = s.public_inputs.iter().map(|(i, _)| *i).collect();
    json!({"dict": dict, "rows": rows, "nw": s.witnesses.len(), "pis": pis})
}

struct Pps {
    map: HashMap<usize, Result<PublicParameters, String>>,
}

impl Pps {
    fn get(&mut self, cap: usize) -> &Result<PublicParameters, String> {
        self.map.entry(cap).or_insert_with(|| {
            let mut rng = ScriptRng::seeded(0xC15 ^ cap as u64);
            match guarded(|| PublicParameters::setup(cap, &mut rng)) {
                Ok(Ok(pp)) => Ok(pp),
                other => Err(outcome(&other)),
            }
        })
    }
}

type Keys = Result<Result<(Prover, Verifier), Error>, String>;

fn key_bytes(k: &Keys) -> Option<(Vec<u8>, Vec<u8>)> {
    match k {
        Ok(Ok((p, v))) => Some((p.to_bytes(), v.to_bytes())),
        _ => None,
    }
}

// ---------------------------------------------------------- hostile edits

fn container_json(stream: &str, p: &Payload, tail: usize) -> Value {
    json!({"stream": stream, "tail": tail, "payload": p.to_json()})
}

/// (class, container as JSON, bytes)
fn hostile_set(honest: &Payload, honest_bytes: &[u8], table_len: usize, max: usize) -> Vec<(String, Value, Vec<u8>)> {
    let mut out: Vec<(String, Value, Vec<u8>)> = Vec::new();
    let mut push = |class: &str, p: Payload, tail: usize| {
        let mut bytes = deflate(&p.pack());
        bytes.extend(std::iter::repeat(0xA5u8).take(tail));
        out.push((class.to_string(), container_json("ok", &p, tail), bytes));
    };
    let h = honest.clone();
    let scalar_count = (table_len + h.scalars.len()) as u64;

    push("reencoded", h.clone(), 0);
    for t in [1usize, 3, 100] {
        push(&format!("tail-{t}"), h.clone(), t);
    }
    {
        let mut p = h.clone();
        p.extra = 1;
        push("payload-trailing-1", p, 0);
        let mut p = h.clone();
        p.extra = 9;
        push("payload-trailing-9", p, 0);
    }
    {
        let mut p = h.clone();
        p.pis.push(p.cons.len() as u64);
        push("pi-out-of-range", p, 0);
    }
    if let Some(last) = h.pis.last().copied() {
        let mut p = h.clone();
        p.pis.push(last);
        push("pi-repeated", p, 0);
    }
    if h.pis.len() >= 2 {
        let mut p = h.clone();
        p.pis.swap(0, 1);
        push("pi-swapped", p, 0);
    }
    if !h.polys.is_empty() {
        for j in [0usize, 5, 10] {
            let mut p = h.clone();
            p.polys[0][j] = scalar_count;
            push(&format!("scalar-index-{j}"), p, 0);
        }
    }
    if !h.cons.is_empty() {
        let mut p = h.clone();
        let l = p.cons.len() - 1;
        p.cons[l][0] = p.polys.len() as u64;
        push("polynomial-index", p, 0);
        for k in 1..5usize {
            let mut p = h.clone();
            p.cons[0][k] = p.nw;
            push(&format!("witness-index-{k}"), p, 0);
        }
        // unusual but well formed: sparse labels
        let mut p = h.clone();
        p.nw = 1_000_000;
        p.cons[0][4] = p.nw - 1;
        push("sparse-labels", p, 0);
    }
    for (i, name) in ["pis", "scalars", "polys", "cons"].iter().enumerate() {
        let mut p = h.clone();
        p.decl[i] = Some(2_000_000_000);
        push(&format!("declared-huge-{name}"), p, 0);
        let mut p = h.clone();
        p.decl[i] = Some(h.declared()[i] + 1);
        push(&format!("declared-plus-one-{name}"), p, 0);
    }
    {
        // more unreferenced scalars than 11 per allowed constraint
        let mut p = h.clone();
        while p.scalars.len() <= 11 * max {
            let mut s = [0u8; 32];
            s[..8].copy_from_slice(&(p.scalars.len() as u64 + 0x1234_5678).to_le_bytes());
            p.scalars.push(s);
        }
        push("too-many-scalars", p, 0);
    }
    {
        let mut p = h.clone();
        p.scalars.push([0xff; 32]);
        push("noncanonical-scalar", p, 0);
    }
    for mb in [1usize, 64] {
        let mut p = h.clone();
        p.extra = mb << 20;
        push(&format!("deflate-bomb-{mb}MiB"), p, 0);
    }
    // not a deflate stream at all
    let g = |class: &str, bytes: Vec<u8>, out: &mut Vec<(String, Value, Vec<u8>)>| {
        out.push((class.to_string(), container_json("garbage", honest, 0), bytes));
    };
    let mut out2 = Vec::new();
    g("empty-input", Vec::new(), &mut out2);
    g("truncated-stream", honest_bytes[..honest_bytes.len().saturating_sub(3)].to_vec(), &mut out2);
    g("reserved-block-type", vec![0x07, 0xff, 0xff, 0xff], &mut out2);
    out.extend(out2);
    out
}

// -------------------------------------------------------------------- main

fn main() {
    quiet_panics();
    let stdin = std::io::stdin();
    let out = std::io::stdout();
    let mut out = out.lock();
    let mut pps = Pps { map: HashMap::new() };

    let table = builtin_table();
    writeln!(out, "{}", json!({"ev": "table", "table": table.iter().map(tok).collect::<Vec<_>>()})).unwrap();
    // number of distinct entries = base of the scalar dictionary
    let table_len = {
        let mut seen = std::collections::HashSet::new();
        table.iter().filter(|s| seen.insert(s.to_bytes())).count()
    };

    for line in stdin.lock().lines() {
        let line = line.unwrap();
        if !line.trim_start().starts_with('{') {
            continue;
        }
        let sc: Value = serde_json::from_str(&line).expect("scenario json");
        let id = sc.get("id").cloned().unwrap_or(json!(0));
        let program = Program::from_json(&sc["program"]).expect("program");
        let label: Vec<u8> = sc.get("label").and_then(|l| l.as_str()).unwrap_or("c15").as_bytes().to_vec();
        let caps_given: Option<Vec<usize>> = sc
            .get("caps")
            .and_then(|c| c.as_array())
            .map(|a| a.iter().filter_map(|x| x.as_u64()).map(|x| x as usize).collect());

        // ---- the composer the direct route sees, and the public compress()
        let direct_composer = match compose(&program) {
            Ok(c) => c,
            Err(e) => {
                set_default_program(program.clone());
                let r = guarded(ScriptedCircuit::compress);
                writeln!(out, "{}", json!({"ev": "circuit-error", "id": id, "direct": e, "compress": outcome(&r)})).unwrap();
                continue;
            }
        };
        let rows = direct_composer.constraints();
        // "from too small to ample": around the padded size of this circuit
        let caps: Vec<usize> = caps_given.unwrap_or_else(|| {
            let n = (rows + 6).next_power_of_two();
            let mut v = vec![1, 2, n / 2 - 1, n / 2, n - 1, n, n + 1, 2 * n - 1, 2 * n];
            v.retain(|x| *x >= 1);
            v.sort();
            v.dedup();
            v
        });
        set_default_program(program.clone());
        let compressed = match guarded(ScriptedCircuit::compress) {
            Ok(Ok(b)) => b,
            other => {
                writeln!(out, "{}", json!({"ev": "compress-failed", "id": id, "res": outcome(&other)})).unwrap();
                continue;
            }
        };
        // second call: same bytes? (hash maps are re-seeded per map)
        let again = guarded(ScriptedCircuit::compress);
        let repeat_same = matches!(&again, Ok(Ok(b)) if *b == compressed);

        let (inflated, consumed) = match inflate(&compressed) {
            Ok(x) => x,
            Err(e) => {
                writeln!(out, "{}", json!({"ev": "inflate-failed", "id": id, "why": e})).unwrap();
                continue;
            }
        };
        let honest = match unpack(&inflated) {
            Ok(p) => p,
            Err(e) => {
                writeln!(out, "{}", json!({"ev": "unpack-failed", "id": id, "why": e})).unwrap();
                continue;
            }
        };
        writeln!(
            out,
            "{}",
            json!({"ev": "packed", "id": id, "snap": snap_json(&direct_composer),
                   "container": container_json("ok", &honest, compressed.len() - consumed),
                   "inflated": inflated.len(), "consumed": consumed, "len": compressed.len(),
                   "repacked_same": honest.pack() == inflated, "repeat_same": repeat_same,
                   "digest": sha(&compressed)})
        )
        .unwrap();

        // ---- both routes over the capacities
        let circuit = ScriptedCircuit::new(program.clone());
        for cap in &caps {
            let pp = match pps.get(*cap) {
                Ok(pp) => pp,
                Err(e) => {
                    writeln!(out, "{}", json!({"ev": "setup-failed", "id": id, "cap": cap, "res": e})).unwrap();
                    continue;
                }
            };
            let (direct, dpeak): (Keys, usize) =
                measured(|| guarded(|| Compiler::compile_with_circuit(pp, &label, &circuit)));
            let (comp, cpeak): (Keys, usize) =
                measured(|| guarded(|| Compiler::compile_with_compressed(pp, &label, &compressed)));
            let db = key_bytes(&direct);
            let cb = key_bytes(&comp);
            let (same_p, same_v) = match (&db, &cb) {
                (Some(a), Some(b)) => (a.0 == b.0, a.1 == b.1),
                _ => (false, false),
            };
            writeln!(
                out,
                "{}",
                json!({"ev": "route", "id": id, "cap": cap, "maxdeg": pp.max_degree(), "rows": rows,
                       "direct": outcome(&direct), "compressed": outcome(&comp),
                       "same_prover": same_p, "same_verifier": same_v,
                       "prover": db.as_ref().map(|x| sha(&x.0)).unwrap_or_default(), "verifier": db.as_ref().map(|x| sha(&x.1)).unwrap_or_default(),
                       "cprover": cb.as_ref().map(|x| sha(&x.0)).unwrap_or_default(), "cverifier": cb.as_ref().map(|x| sha(&x.1)).unwrap_or_default(),
                       "direct_peak": dpeak, "compressed_peak": cpeak, "label": String::from_utf8_lossy(&label)})
            )
            .unwrap();
        }

        // ---- hostile descriptions
        if sc.get("hostile").and_then(|h| h.as_bool()).unwrap_or(false) {
            let cap = sc.get("hostile_cap").and_then(|c| c.as_u64()).unwrap_or(64) as usize;
            let pp = match pps.get(cap) {
                Ok(pp) => pp,
                Err(_) => continue,
            };
            let maxdeg = pp.max_degree();
            // Compiler::max_constraints is private; only used to size the
            // "too many scalars" input (the verdict is the specification's)
            let avail = maxdeg.saturating_sub(6);
            let max = if avail == 0 { 0 } else { (1usize << (usize::BITS - 1 - avail.leading_zeros())).saturating_sub(6) };
            let (direct, dpeak): (Keys, usize) =
                measured(|| guarded(|| Compiler::compile_with_circuit(pp, &label, &circuit)));
            let db = key_bytes(&direct);
            for (class, cont, bytes) in hostile_set(&honest, &compressed, table_len, max) {
                let (r, peak): (Keys, usize) =
                    measured(|| guarded(|| Compiler::compile_with_compressed(pp, &label, &bytes)));
                let kb = key_bytes(&r);
                let same = match (&db, &kb) {
                    (Some(a), Some(b)) => a == b,
                    _ => false,
                };
                writeln!(
                    out,
                    "{}",
                    json!({"ev": "hostile", "id": id, "class": class, "cap": cap, "maxdeg": maxdeg, "rows": rows,
                           "container": cont, "len": bytes.len(), "res": outcome(&r), "same_keys": same,
                           "peak": peak, "direct_peak": dpeak, "direct": outcome(&direct)})
                )
                .unwrap();
            }
        }
        out.flush().unwrap();
    }
}
