//! C20 recorder: KZG setup / trim / commit / aggregate witness / flatten /
//! batch_check of the real library with a KNOWN secret.
//!
//! `PublicParameters::setup` is run with a scripted RNG (`ScriptRng`): its
//! three 64-byte draws are the secret tau, the scalar s_g of the G1 generator
//! g and the scalar s_h of the G2 generator h, so every group element the
//! library produces has a discrete logarithm that `spec/TraceKzg.tla` can
//! compute from the logged inputs (commitment to f = [f(tau) s_g] G1).
//!
//! Two passes (the harness never computes an expected value):
//!   kzg record --tier quick|thorough --out TRACE
//!       runs the scenarios, logs inputs, outcomes and the bytes of every
//!       group element the library returned;
//!   [TLC TraceKzg: predicts outcomes / verdicts and prints the discrete
//!    logarithm of every logged group element]
//!   kzg verify-dlogs --trace TRACE --dlogs DLOGS
//!       multiplies the G1 (G2) generator by each predicted scalar with the
//!       library's scalar multiplication and compares with the logged bytes.
//!
//! Batch-challenge binding probes: the library derives the batch challenge
//! u from a transcript that must bind the batch length and every point,
//! commitment, evaluation and witness. For each of those items the harness
//! derives the challenge u' a verifier WOULD use if it forgot that item
//! (same merlin calls, item left out) and crafts a batch that satisfies the
//! verification equation under u' while claiming a false evaluation. The real
//! verifier must reject it. (TLC checks that the crafted batch is what it
//! claims to be.)

use std::collections::HashMap;
use std::fs::File;
use std::io::{BufRead, BufReader, BufWriter, Write};

use dusk_bls12_381::{BlsScalar, G1Affine, G1Projective, G2Affine, G2Projective};
use dusk_bytes::Serializable;
use dusk_plonk::prelude::{Error, PublicParameters};
use dusk_plonk::verif as V;
use merlin::Transcript;
use plonk_conf::fe::*;
use plonk_conf::rng::ScriptRng;
use plonk_conf::util::*;
use serde_json::{json, Value};

struct Sm(u64);
impl Sm {
    fn next(&mut self) -> u64 {
        self.0 = self.0.wrapping_add(0x9e3779b97f4a7c15);
        let mut z = self.0;
        z = (z ^ (z >> 30)).wrapping_mul(0xbf58476d1ce4e5b9);
        z = (z ^ (z >> 27)).wrapping_mul(0x94d049bb133111eb);
        z ^ (z >> 31)
    }
    fn fe(&mut self) -> BlsScalar {
        let mut b = [0u8; 64];
        for c in b.chunks_mut(8) {
            c.copy_from_slice(&self.next().to_le_bytes());
        }
        BlsScalar::from_bytes_wide(&b)
    }
    fn poly(&mut self, len: usize) -> Vec<BlsScalar> {
        (0..len).map(|_| self.fe()).collect()
    }
}

fn fes(v: &[BlsScalar]) -> Value {
    Value::Array(v.iter().map(fe_to_json).collect())
}

fn err_s(e: &Error) -> String {
    format!("err:{}", err_class(e))
}

fn out_g1(r: Result<Result<[u8; 48], Error>, String>) -> (String, Option<String>) {
    match r {
        Ok(Ok(b)) => ("ok".into(), Some(hex_bytes(&b))),
        Ok(Err(e)) => (err_s(&e), None),
        Err(p) => (format!("panic:{}", p.chars().take(100).collect::<String>()), None),
    }
}

fn with_c(mut e: Value, c: Option<String>) -> Value {
    if let Some(c) = c {
        e["c"] = json!(c);
    }
    e
}

struct Rec {
    w: BufWriter<File>,
    id: usize,
}

impl Rec {
    fn emit(&mut self, mut e: Value) -> usize {
        self.id += 1;
        e["id"] = json!(self.id);
        writeln!(self.w, "{}", e).unwrap();
        self.id
    }
}

/// A setup with known scalars.
struct Known {
    sid: usize,
    pp: PublicParameters,
    tau: BlsScalar,
    sg: BlsScalar,
    max: usize,
}

fn eval(p: &[BlsScalar], x: &BlsScalar) -> BlsScalar {
    // used only to build honest / crafted INPUTS (claimed evaluations)
    let mut acc = BlsScalar::zero();
    for c in p.iter().rev() {
        acc = acc * x + c;
    }
    acc
}

/// The library's own challenge derivation, re-done with merlin; `omit`
/// leaves out one kind of item (0 point, 1 commitment, 2 evaluation,
/// 3 witness) for entry `omit_at` (None: for every entry).
fn batch_challenge(
    label: &'static [u8],
    points: &[BlsScalar],
    proofs: &[([u8; 48], BlsScalar, [u8; 48])],
    omit: Option<(usize, Option<usize>)>,
    labels: &mut Vec<String>,
) -> BlsScalar {
    let mut t = Transcript::new(label);
    t.append_message(b"dom-sep", b"kzg10-batch-check-v1");
    labels.push("dom-sep".into());
    t.append_u64(b"batch-len", proofs.len() as u64);
    labels.push("batch-len".into());
    let skip = |kind: usize, i: usize| match omit {
        Some((k, None)) => k == kind,
        Some((k, Some(j))) => k == kind && j == i,
        None => false,
    };
    for (i, (z, (c, e, w))) in points.iter().zip(proofs).enumerate() {
        if !skip(0, i) {
            t.append_message(b"batch-point", &z.to_bytes());
            labels.push("batch-point".into());
        }
        if !skip(1, i) {
            t.append_message(b"batch-polynomial-commitment", c);
            labels.push("batch-polynomial-commitment".into());
        }
        if !skip(2, i) {
            t.append_message(b"batch-evaluation", &e.to_bytes());
            labels.push("batch-evaluation".into());
        }
        if !skip(3, i) {
            t.append_message(b"batch-witness-commitment", w);
            labels.push("batch-witness-commitment".into());
        }
    }
    let mut buf = [0u8; 64];
    t.challenge_bytes(b"batch-challenge", &mut buf);
    BlsScalar::from_bytes_wide(&buf)
}

/// One entry of a batch: the polynomials whose commitments are used as
/// commitment and witness, the point and the claimed evaluation.
#[derive(Clone)]
struct Entry {
    cpoly: Vec<BlsScalar>,
    wpoly: Vec<BlsScalar>,
    z: BlsScalar,
    e: BlsScalar,
}

fn honest(p: &[BlsScalar], z: BlsScalar) -> Entry {
    Entry {
        cpoly: p.to_vec(),
        wpoly: V::aggregate_witness(&[p.to_vec()], &z, &BlsScalar::one()),
        z,
        e: eval(p, &z),
    }
}

fn commit_bytes(k: &Known, p: &[BlsScalar]) -> [u8; 48] {
    V::commit(&k.pp, None, p).expect("commit within degree")
}

const LABEL: &[u8] = b"verif-kzg";

fn run_batch(r: &mut Rec, k: &Known, what: &str, entries: &[Entry], points: &[BlsScalar], probe: Option<(usize, Option<usize>, BlsScalar)>) {
    let proofs: Vec<([u8; 48], BlsScalar, [u8; 48])> =
        entries.iter().map(|e| (commit_bytes(k, &e.cpoly), e.e, commit_bytes(k, &e.wpoly))).collect();
    let res = guarded(|| V::batch_check(&k.pp, LABEL, points, &proofs));
    let mut labels = Vec::new();
    let u = batch_challenge(LABEL, points, &proofs, None, &mut labels);
    let mut ev = json!({
        "ev": "batch", "sid": k.sid, "what": what,
        "points": fes(points),
        "entries": entries.iter().zip(&proofs).map(|(e, (c, _, w))| json!({
            "cpoly": fes(&e.cpoly), "wpoly": fes(&e.wpoly), "z": fe_to_json(&e.z), "e": fe_to_json(&e.e),
            "c": hex_bytes(c), "w": hex_bytes(w)})).collect::<Vec<_>>(),
        "res": outcome(&res), "u": fe_to_json(&u), "labels": labels,
    });
    if let Some((kind, at, up)) = probe {
        ev["probe"] = json!({"kind": kind, "at": at.map(|x| x as i64).unwrap_or(-1), "u": fe_to_json(&up)});
    }
    r.emit(ev);
}

/// dlog (w.r.t. the G1 generator) of the commitment to p: used ONLY to craft
/// the adversarial inputs of the binding probes.
fn dlog(k: &Known, p: &[BlsScalar]) -> BlsScalar {
    eval(p, &k.tau) * k.sg
}

fn probes(r: &mut Rec, k: &Known, s: &mut Sm, size: usize) {
    // honest base batch
    let base: Vec<Entry> = (0..size).map(|i| honest(&s.poly(3 + i), s.fe())).collect();
    for kind in 0..4usize {
        let mut ats: Vec<Option<usize>> = (0..size).map(Some).collect();
        ats.push(None);
        for at in ats {
            let j = at.unwrap_or(size - 1); // the entry that is adjusted last
            let mut es = base.clone();
            // make some OTHER claim false first (when there is another entry), else entry j itself
            let delta = s.fe();
            if size > 1 {
                let o = (j + 1) % size;
                es[o].e += delta;
            }
            // everything except item (kind, j) is now fixed; derive u' without it
            let pts: Vec<BlsScalar> = es.iter().map(|e| e.z).collect();
            let proofs: Vec<([u8; 48], BlsScalar, [u8; 48])> =
                es.iter().map(|e| (commit_bytes(k, &e.cpoly), e.e, commit_bytes(k, &e.wpoly))).collect();
            let mut l = Vec::new();
            let up = batch_challenge(LABEL, &pts, &proofs, Some((kind, at)), &mut l);
            // residual of the verification equation under u', without entry j's adjustable item
            // sum_i u'^i (c_i + z_i w_i - e_i s_g - tau w_i) = 0
            let mut pow = BlsScalar::one();
            let mut rest = BlsScalar::zero();
            let mut pow_j = BlsScalar::one();
            for (i, e) in es.iter().enumerate() {
                let c = dlog(k, &e.cpoly);
                let w = dlog(k, &e.wpoly);
                let term = c + e.z * w - e.e * k.sg - k.tau * w;
                if i == j {
                    pow_j = pow;
                } else {
                    rest += pow * term;
                }
                pow *= up;
            }
            let ej = es[j].clone();
            let cj = dlog(k, &ej.cpoly);
            let wj = dlog(k, &ej.wpoly);
            let inv = |x: BlsScalar| x.invert().unwrap();
            // term_j must equal -rest / u'^j
            let target = -rest * inv(pow_j);
            let sg_inv = inv(k.sg);
            match kind {
                0 => {
                    // point: c + z w - e sg - tau w = target  =>  z = (target - c + e sg + tau w) / w
                    if wj == BlsScalar::zero() {
                        continue;
                    }
                    es[j].z = (target - cj + ej.e * k.sg + k.tau * wj) * inv(wj);
                }
                1 => {
                    // commitment: replace by the commitment to a constant with the needed dlog
                    let c = target - ej.z * wj + ej.e * k.sg + k.tau * wj;
                    es[j].cpoly = vec![c * sg_inv];
                }
                2 => {
                    // evaluation: e = (c + z w - tau w - target) / sg
                    es[j].e = (cj + ej.z * wj - k.tau * wj - target) * sg_inv;
                }
                _ => {
                    // witness: c - e sg + w (z - tau) = target
                    let w = (target - cj + ej.e * k.sg) * inv(ej.z - k.tau);
                    es[j].wpoly = vec![w * sg_inv];
                }
            }
            let pts: Vec<BlsScalar> = es.iter().map(|e| e.z).collect();
            let names = ["point", "commitment", "evaluation", "witness"];
            let what = format!(
                "binding probe: size {size}, {} of {} left out of the challenge",
                names[kind],
                at.map(|a| format!("entry {a}")).unwrap_or("every entry".into())
            );
            run_batch(r, k, &what, &es, &pts, Some((kind, at, up)));
        }
    }
}

fn record(tier: &str, out: &str) {
    let thorough = tier == "thorough";
    let seed: u64 = std::env::var("VERIF_SEED").ok().and_then(|s| s.parse().ok()).unwrap_or(1);
    let mut s = Sm(seed.wrapping_mul(0x9E3779B97F4A7C15) ^ 0xC20);
    let mut r = Rec { w: BufWriter::new(File::create(out).expect("create")), id: 0 };
    let g2h = |b: &[u8]| hex_bytes(b);

    // ---- setup with scripted draws ------------------------------------------
    let mut degrees: Vec<usize> = vec![0, 1, 2, 5, 10, 26];
    if thorough {
        degrees.extend([58, 122, 250]);
    }
    let mut knowns: Vec<Known> = Vec::new();
    for (n, &d) in degrees.iter().enumerate() {
        let (tau, sg, sh) = (s.fe(), s.fe(), s.fe());
        // every second setup first offers a zero draw: the secret must be re-sampled
        let script = if n % 2 == 1 { vec![BlsScalar::zero(), tau, sg, sh] } else { vec![tau, sg, sh] };
        let mut rng = ScriptRng::new(seed ^ d as u64, script.clone());
        let res = guarded(|| PublicParameters::setup(d, &mut rng));
        let mut ev = json!({"ev": "setup", "d": d, "tau": fe_to_json(&tau), "sg": fe_to_json(&sg), "sh": fe_to_json(&sh),
                            "zero_first": n % 2 == 1, "draws": rng.draws(), "res": outcome(&res)});
        if let Ok(Ok(pp)) = res {
            let len = V::srs_len(&pp);
            let powers: Vec<String> = (0..len).map(|i| hex_bytes(&V::srs_power(&pp, i).unwrap())).collect();
            let bytes = pp.to_var_bytes();
            ev["powers"] = json!(powers);
            ev["g"] = json!(hex_bytes(&bytes[0..48]));
            ev["h"] = json!(g2h(&bytes[48..144]));
            ev["xh"] = json!(g2h(&bytes[144..240]));
            ev["max_degree"] = json!(pp.max_degree());
            let sid = r.emit(ev);
            knowns.push(Known { sid, max: pp.max_degree(), pp, tau, sg });
        } else {
            r.emit(ev);
        }
    }

    // ---- large setups, sampled: powers around every multiple of 2^12 and the ends ------
    for &d in (if thorough { &[8200usize, 16400][..] } else { &[8200usize][..] }) {
        let (tau, sg, sh) = (s.fe(), s.fe(), s.fe());
        let mut rng = ScriptRng::new(seed ^ d as u64, vec![tau, sg, sh]);
        let res = guarded(|| PublicParameters::setup(d, &mut rng));
        let mut ev = json!({"ev": "setup-sample", "d": d, "tau": fe_to_json(&tau), "sg": fe_to_json(&sg),
                            "sh": fe_to_json(&sh), "res": outcome(&res)});
        if let Ok(Ok(pp)) = res {
            let len = V::srs_len(&pp);
            let mut idx: Vec<usize> = vec![0, 1, 2, 3, len / 3, len - 2, len - 1];
            let mut m = 4096usize;
            while m < len {
                for j in [m - 2, m - 1, m, m + 1, m + 2] {
                    if j < len {
                        idx.push(j);
                    }
                }
                m += 4096;
            }
            idx.sort();
            idx.dedup();
            ev["len"] = json!(len);
            ev["idx"] = json!(idx);
            ev["powers"] = json!(idx.iter().map(|i| hex_bytes(&V::srs_power(&pp, *i).unwrap())).collect::<Vec<_>>());
        }
        r.emit(ev);
    }

    // ---- trim and commit ----------------------------------------------------
    for k in &knowns {
        let max = k.max;
        // trims around every boundary; the trimmed key is observed through commitments to monomials
        let mut trims: Vec<usize> = vec![0, 1, 2, max.saturating_sub(7), max.saturating_sub(6), max - 5, max + 1];
        trims.sort();
        trims.dedup();
        for &n in &trims {
            let res = guarded(|| V::trim(&k.pp, n));
            let (o, cnt) = match &res {
                Ok(Ok((_, c))) => ("ok".to_string(), Some(*c)),
                Ok(Err(e)) => (err_s(e), None),
                Err(p) => (format!("panic:{p}"), None),
            };
            let mut ev = json!({"ev": "trim", "sid": k.sid, "n": n, "res": o});
            if let Some(c) = cnt {
                ev["count"] = json!(c);
            }
            r.emit(ev);
            if cnt.is_none() {
                continue;
            }
            let keydeg = n + 6;
            // monomials X^i through the trimmed key: i around both ends (all of them for small keys)
            let mut idx: Vec<usize> = (0..=keydeg + 2).collect();
            if keydeg > 40 {
                idx = vec![0, 1, 2, keydeg / 2, keydeg - 1, keydeg, keydeg + 1, keydeg + 2];
            }
            for i in idx {
                let mut coeffs = vec![BlsScalar::zero(); i + 1];
                coeffs[i] = BlsScalar::one();
                let (o, c) = out_g1(guarded(|| V::commit(&k.pp, Some(n), &coeffs)));
                r.emit(with_c(json!({"ev": "commit", "sid": k.sid, "trim": n, "coeffs": fes(&coeffs), "res": o,
                              "what": format!("monomial X^{i} through trim({n})")}), c));
            }
        }
        // commitments with the full key: degrees up to and just beyond the key
        let mut degs: Vec<usize> = vec![0, 1, 2, 3, max / 2, max - 1, max, max + 1, max + 2];
        degs.sort();
        degs.dedup();
        for &deg in &degs {
            let p = s.poly(deg + 1);
            let (o, c) = out_g1(guarded(|| V::commit(&k.pp, None, &p)));
            r.emit(with_c(json!({"ev": "commit", "sid": k.sid, "coeffs": fes(&p), "res": o,
                          "what": format!("dense degree {deg}, key degree {max}")}), c));
        }
        // zero polynomial (written three ways) and trailing zeros beyond the key length
        let mut tz = s.poly(3);
        tz.extend(vec![BlsScalar::zero(); max + 3]);
        for (what, p) in [("empty", vec![]), ("[0]", vec![BlsScalar::zero()]), ("[0,0,0]", vec![BlsScalar::zero(); 3]),
                          ("degree 2 with trailing zeros beyond the key", tz)] {
            let (o, c) = out_g1(guarded(|| V::commit(&k.pp, None, &p)));
            r.emit(with_c(json!({"ev": "commit", "sid": k.sid, "coeffs": fes(&p), "res": o, "what": what}), c));
        }
        // linearity on the points themselves (library group operations)
        for len in [1usize, 2, max.min(6) + 1] {
            let a = s.poly(len);
            let b = s.poly((len + 1).min(max + 1));
            let kf = s.fe();
            let sum = V::poly_add(&a, &b);
            let scaled = V::poly_scale(&a, &kf);
            let ca = commit_bytes(k, &a);
            let cb = commit_bytes(k, &b);
            let cs = commit_bytes(k, &sum);
            let ck = commit_bytes(k, &scaled);
            let pa = G1Projective::from(G1Affine::from_bytes(&ca).unwrap());
            let pb = G1Projective::from(G1Affine::from_bytes(&cb).unwrap());
            let add_ok = G1Affine::from(pa + pb).to_bytes() == cs;
            let scale_ok = G1Affine::from(pa * kf).to_bytes() == ck;
            r.emit(json!({"ev": "linear", "sid": k.sid, "a": fes(&a), "b": fes(&b), "k": fe_to_json(&kf),
                          "sum": fes(&sum), "scaled": fes(&scaled),
                          "ca": hex_bytes(&ca), "cb": hex_bytes(&cb), "csum": hex_bytes(&cs), "cscaled": hex_bytes(&ck),
                          "add_ok": add_ok, "scale_ok": scale_ok}));
        }
    }

    // ---- aggregate witness, flatten, openings ---------------------------------
    let k = knowns.iter().find(|k| k.max >= 16).expect("a key of degree >= 16");
    for npoly in [0usize, 1, 2, 3, 5] {
        let polys: Vec<Vec<BlsScalar>> = (0..npoly).map(|i| s.poly(2 + 3 * i % 7)).collect();
        let mut variants = vec![("dense", polys.clone())];
        if npoly >= 2 {
            let mut p2 = polys.clone();
            p2[0] = vec![];
            p2[1] = vec![s.fe()];
            variants.push(("with zero and constant polynomials", p2));
        }
        for (vn, polys) in variants {
            let (z, v) = (s.fe(), s.fe());
            let w = guarded(|| V::aggregate_witness(&polys, &z, &v));
            let (o, wv) = match w {
                Ok(w) => ("ok".to_string(), Some(w)),
                Err(p) => (format!("panic:{p}"), None),
            };
            let mut ev = json!({"ev": "aggwit", "polys": polys.iter().map(|p| fes(p)).collect::<Vec<_>>(),
                          "z": fe_to_json(&z), "v": fe_to_json(&v), "res": o,
                          "what": format!("{npoly} polynomials, {vn}")});
            if let Some(w) = &wv {
                ev["out"] = fes(w);
            }
            r.emit(ev);
            // aggregated opening at one point: true values, then one wrong value at each position
            let Some(wv) = wv else { continue };
            let truth: Vec<BlsScalar> = polys.iter().map(|p| eval(p, &z)).collect();
            let wc = commit_bytes(k, &wv);
            let comms: Vec<[u8; 48]> = polys.iter().map(|p| commit_bytes(k, p)).collect();
            let mut claims: Vec<(String, Vec<BlsScalar>)> = vec![("all values true".into(), truth.clone())];
            for j in 0..npoly {
                let mut c = truth.clone();
                c[j] += s.fe();
                claims.push((format!("value {j} wrong"), c));
            }
            if npoly >= 2 && truth[0] != truth[1] {
                let mut c = truth.clone();
                c.swap(0, 1);
                claims.push(("values 0 and 1 swapped".into(), c));
            }
            for (cn, evals) in claims {
                let parts: Vec<(BlsScalar, [u8; 48])> = evals.iter().copied().zip(comms.iter().copied()).collect();
                let fl = guarded(|| V::flatten(&wc, &parts, &v));
                let mut ev = json!({"ev": "aggopen", "sid": k.sid, "polys": polys.iter().map(|p| fes(p)).collect::<Vec<_>>(),
                                    "wpoly": fes(&wv), "z": fe_to_json(&z), "v": fe_to_json(&v), "evals": fes(&evals),
                                    "what": format!("{npoly} polynomials ({vn}), {cn}")});
                match fl {
                    Ok(Ok((fc, fe))) => {
                        ev["flat"] = json!("ok");
                        ev["fc"] = json!(hex_bytes(&fc));
                        ev["fe"] = fe_to_json(&fe);
                        let res = guarded(|| V::batch_check(&k.pp, LABEL, &[z], &[(fc, fe, wc)]));
                        ev["res"] = json!(outcome(&res));
                    }
                    Ok(Err(e)) => ev["flat"] = json!(err_s(&e)),
                    Err(p) => ev["flat"] = json!(format!("panic:{}", p.chars().take(60).collect::<String>())),
                }
                r.emit(ev);
            }
        }
    }

    // ---- batched openings -------------------------------------------------------
    let sizes: Vec<usize> = if thorough { vec![1, 2, 3, 4, 6] } else { vec![1, 2, 3, 4] };
    for &size in &sizes {
        let rounds = if thorough { 3 } else { 1 };
        for _ in 0..rounds {
            let base: Vec<Entry> = (0..size).map(|i| honest(&s.poly(1 + (i * 5 + size) % 9), s.fe())).collect();
            let pts = |es: &[Entry]| es.iter().map(|e| e.z).collect::<Vec<_>>();
            run_batch(&mut r, k, &format!("size {size}: honest"), &base, &pts(&base), None);
            for j in 0..size {
                let mut es = base.clone();
                es[j].e += s.fe();
                run_batch(&mut r, k, &format!("size {size}: evaluation {j} wrong"), &es, &pts(&es), None);
                let mut es = base.clone();
                es[j].e += BlsScalar::one();
                run_batch(&mut r, k, &format!("size {size}: evaluation {j} off by one"), &es, &pts(&es), None);
                let mut es = base.clone();
                es[j].wpoly = s.poly(2);
                run_batch(&mut r, k, &format!("size {size}: witness {j} wrong"), &es, &pts(&es), None);
                let mut es = base.clone();
                es[j].wpoly = vec![];
                run_batch(&mut r, k, &format!("size {size}: witness {j} = identity"), &es, &pts(&es), None);
                let mut es = base.clone();
                es[j].cpoly = s.poly(es[j].cpoly.len().max(1));
                run_batch(&mut r, k, &format!("size {size}: commitment {j} of another polynomial"), &es, &pts(&es), None);
                let mut es = base.clone();
                es[j].z += BlsScalar::one();
                run_batch(&mut r, k, &format!("size {size}: point {j} moved"), &es, &pts(&es), None);
            }
            // two false evaluations whose differences cancel, and every pair of evaluations
            // exchanged: rejected only if every item has its own power of the challenge
            for i in 0..size {
                for j in (i + 1)..size {
                    let d = s.fe();
                    let mut es = base.clone();
                    es[i].e += d;
                    es[j].e -= d;
                    run_batch(&mut r, k, &format!("size {size}: evaluations {i} and {j} off by +d / -d"), &es, &pts(&es), None);
                    if i > 0 || j < size - 1 {
                        let mut es = base.clone();
                        let t = es[i].e;
                        es[i].e = es[j].e;
                        es[j].e = t;
                        run_batch(&mut r, k, &format!("size {size}: evaluations {i} and {j} swapped"), &es, &pts(&es), None);
                    }
                }
            }
            if size >= 2 {
                let last = size - 1;
                let mut es = base.clone();
                let t = es[0].e;
                es[0].e = es[last].e;
                es[last].e = t;
                run_batch(&mut r, k, &format!("size {size}: evaluations 0 and {last} swapped"), &es, &pts(&es), None);
                let mut es = base.clone();
                let t = es[0].wpoly.clone();
                es[0].wpoly = es[last].wpoly.clone();
                es[last].wpoly = t;
                run_batch(&mut r, k, &format!("size {size}: witnesses 0 and {last} swapped"), &es, &pts(&es), None);
                let mut p = pts(&base);
                p.swap(0, last);
                run_batch(&mut r, k, &format!("size {size}: points 0 and {last} swapped"), &base, &p, None);
                let mut es = base.clone();
                es.swap(0, last);
                run_batch(&mut r, k, &format!("size {size}: proofs 0 and {last} swapped, points not"), &es, &pts(&base), None);
                run_batch(&mut r, k, &format!("size {size}: proofs and points swapped together"), &es, &pts(&es), None);
            }
            // mismatched lengths
            let mut p = pts(&base);
            p.push(s.fe());
            run_batch(&mut r, k, &format!("size {size}: one point too many"), &base, &p, None);
            let p = pts(&base)[..size - 1].to_vec();
            run_batch(&mut r, k, &format!("size {size}: one point missing"), &base, &p, None);
            run_batch(&mut r, k, &format!("size {size}: no proofs"), &[], &pts(&base), None);
        }
        if size >= 2 {
            // with a single entry the challenge does not enter the equation
            probes(&mut r, k, &mut s, size);
        }
    }
    run_batch(&mut r, k, "empty batch", &[], &[], None);

    r.w.flush().unwrap();
    println!("{}", json!({"events": r.id, "out": out, "tier": tier, "seed": seed}));
}

/// Second pass: [dlog] generator == logged bytes?
fn verify_dlogs(trace: &str, dlogs: &str, out: &str) {
    let mut ev: HashMap<u64, Value> = HashMap::new();
    for l in BufReader::new(File::open(trace).expect("trace")).lines() {
        let v: Value = serde_json::from_str(&l.unwrap()).unwrap();
        ev.insert(v["id"].as_u64().unwrap(), v);
    }
    let mut w = BufWriter::new(File::create(out).expect("create"));
    let mut n = 0;
    for l in BufReader::new(File::open(dlogs).expect("dlogs")).lines() {
        let d: Value = serde_json::from_str(&l.unwrap()).unwrap();
        let id = d["id"].as_u64().unwrap();
        let slot = d["slot"].as_str().unwrap();
        let scalar = fe_from_json(&d["dlog"]).unwrap();
        let e = &ev[&id];
        // slot: field name, optionally field/index or entries/i/field
        let mut cur = e;
        for part in slot.split('/') {
            cur = match part.parse::<usize>() {
                Ok(i) => &cur[i],
                Err(_) => &cur[part],
            };
        }
        let logged = cur.as_str().unwrap_or("");
        let got = if logged.len() == 96 {
            hex_bytes(&G1Affine::from(G1Projective::from(G1Affine::generator()) * scalar).to_bytes())
        } else {
            hex_bytes(&G2Affine::from(G2Projective::from(G2Affine::generator()) * scalar).to_bytes())
        };
        writeln!(w, "{}", json!({"id": id, "slot": slot, "match": got == logged && !logged.is_empty()})).unwrap();
        n += 1;
    }
    w.flush().unwrap();
    println!("{}", json!({"checked": n, "out": out}));
}

fn main() {
    quiet_panics();
    let args: Vec<String> = std::env::args().collect();
    let get = |name: &str| args.iter().position(|a| a == name).map(|i| args[i + 1].clone());
    match args.get(1).map(|s| s.as_str()) {
        Some("record") => record(&get("--tier").unwrap_or("quick".into()), &get("--out").expect("--out")),
        Some("verify-dlogs") => verify_dlogs(&get("--trace").expect("--trace"), &get("--dlogs").expect("--dlogs"), &get("--out").expect("--out")),
        _ => {
            eprintln!("usage: kzg record --tier T --out F | kzg verify-dlogs --trace F --dlogs F --out F");
            std::process::exit(2);
        }
    }
}
