//! C19 recorder: drives the real FFT / polynomial / closed-form kernels
//! through `dusk_plonk::verif::*` with seeded inputs and logs every call as
//! one NDJSON event (inputs, outputs, thread counts). The expected values
//! are NOT computed here: `spec/TraceKernels.tla` recomputes every call with
//! the definitions of `spec/Poly.tla`.
//!
//! usage: kernels record --tier quick|thorough --out FILE
//!        kernels replay --event EVENT.json --out FILE   (re-executes one event)
//!
//! Every case runs under rayon pools of 1..=17 threads. Outputs are compared
//! bytewise; one event is written per DISTINCT output, carrying the list of
//! thread counts that produced it (so a schedule-dependent kernel yields two
//! events with the same `case`).
//!
//! Event fields (all optional except ev/id/case/kern/threads/res):
//!   nc    num_coeffs argument (the domain is `EvaluationDomain::new(nc)`)
//!   a, b  input vectors: {"s":[small ints]} or {"l":[[20 limbs]..]}
//!   k, x  scalar arguments (limbs); rows: public-input rows; deg: u64
//!   out   output vector {"l":..}; y, y2 output scalars
//!   res   "ok" | "none" | "err:<Class>" | "panic:<msg>"
//!   rho, idx  a field element and 0-based indices derived from the digest
//!             of the OUTPUT (i.e. chosen after the output is fixed): TLC
//!             compares large outputs at `idx` and through the functional
//!             at `rho`
//!   cls   free-text label of the input class (for reports only)

use std::fs::File;
use std::io::{BufWriter, Write};

use dusk_bls12_381::BlsScalar;
use dusk_plonk::verif as V;
use plonk_conf::fe::*;
use plonk_conf::util::*;
use serde_json::{json, Map, Value};

#[derive(Clone, PartialEq)]
enum Out {
    Vec(Vec<BlsScalar>),
    Scalar(BlsScalar),
    Pair(BlsScalar, BlsScalar),
    Int(u64),
    None,
    Fail(String),
}

struct Sm(u64);
impl Sm {
    fn next(&mut self) -> u64 {
        self.0 = self.0.wrapping_add(0x9e3779b97f4a7c15);
        let mut z = self.0;
        z = (z ^ (z >> 30)).wrapping_mul(0xbf58476d1ce4e5b9);
        z = (z ^ (z >> 27)).wrapping_mul(0x94d049bb133111eb);
        z ^ (z >> 31)
    }
    fn fe(&mut self) -> BlsScalar {
        let mut b = [0u8; 64];
        for c in b.chunks_mut(8) {
            c.copy_from_slice(&self.next().to_le_bytes());
        }
        BlsScalar::from_bytes_wide(&b)
    }
    fn small(&mut self) -> BlsScalar {
        BlsScalar::from(self.next() % (1 << 30))
    }
    fn below(&mut self, n: usize) -> usize {
        (self.next() % n.max(1) as u64) as usize
    }
}

fn is_small(x: &BlsScalar) -> Option<u64> {
    let b = x.to_bytes();
    if b[4..].iter().all(|v| *v == 0) {
        let v = u32::from_le_bytes([b[0], b[1], b[2], b[3]]);
        if v < (1 << 31) {
            return Some(v as u64);
        }
    }
    None
}

/// {"s":[ints]} when every entry is below 2^31, else {"l":[[limbs]..]}.
fn vec_json(v: &[BlsScalar]) -> Value {
    let small: Option<Vec<u64>> = v.iter().map(is_small).collect();
    match small {
        Some(s) if !v.is_empty() => json!({ "s": s }),
        _ => json!({ "l": v.iter().map(fe_to_json).collect::<Vec<_>>() }),
    }
}

fn vec_json_l(v: &[BlsScalar]) -> Value {
    json!({ "l": v.iter().map(fe_to_json).collect::<Vec<_>>() })
}

/// Arguments of one kernel call, decoded from the event fields (so that a
/// recorded event can be re-executed verbatim by `replay`).
#[derive(Default)]
struct Args {
    nc: usize,
    a: Vec<BlsScalar>,
    b: Vec<BlsScalar>,
    k: BlsScalar,
    x: BlsScalar,
    rows: Vec<usize>,
    deg: u64,
}

fn vec_from_json(v: &Value) -> Vec<BlsScalar> {
    if let Some(s) = v.get("s") {
        s.as_array().unwrap().iter().map(|x| fe_from_json(x).unwrap()).collect()
    } else if let Some(l) = v.get("l") {
        l.as_array().unwrap().iter().map(|x| fe_from_json(x).unwrap()).collect()
    } else {
        Vec::new()
    }
}

impl Args {
    fn from_fields(f: &Map<String, Value>) -> Args {
        let mut a = Args::default();
        if let Some(v) = f.get("nc") {
            a.nc = v.as_u64().unwrap() as usize;
        }
        if let Some(v) = f.get("a") {
            a.a = vec_from_json(v);
        }
        if let Some(v) = f.get("b") {
            a.b = vec_from_json(v);
        }
        if let Some(v) = f.get("k") {
            a.k = fe_from_json(v).unwrap();
        }
        if let Some(v) = f.get("x") {
            a.x = fe_from_json(v).unwrap();
        }
        if let Some(v) = f.get("rows") {
            a.rows = v.as_array().unwrap().iter().map(|x| x.as_u64().unwrap() as usize).collect();
        }
        if let Some(v) = f.get("deg") {
            a.deg = v.as_u64().unwrap();
        }
        a
    }
}

/// The one place where the library is called.
fn exec(kern: &str, g: &Args) -> Out {
    match kern {
        "fft" => res_vec(V::fft(g.nc, &g.a)),
        "ifft" => res_vec(V::ifft(g.nc, &g.a)),
        "coset_fft" => res_vec(V::coset_fft(g.nc, &g.a)),
        "coset_ifft" => res_vec(V::coset_ifft(g.nc, &g.a)),
        "serial_fft" => res_vec(V::serial_fft(&g.a)),
        "poly_normalize" => Out::Vec(V::poly_normalize(&g.a)),
        "poly_degree" => Out::Int(V::poly_degree(&g.a) as u64),
        "poly_add" => Out::Vec(V::poly_add(&g.a, &g.b)),
        "poly_add_assign" => Out::Vec(V::poly_add_assign(&g.a, &g.b)),
        "poly_add_assign_scaled" => Out::Vec(V::poly_add_assign_scaled(&g.a, g.k, &g.b)),
        "poly_sub" => Out::Vec(V::poly_sub(&g.a, &g.b)),
        "poly_sub_assign" => Out::Vec(V::poly_sub_assign(&g.a, &g.b)),
        "poly_neg" => Out::Vec(V::poly_neg(&g.a)),
        "poly_mul" => Out::Vec(V::poly_mul(&g.a, &g.b)),
        "poly_scale" => Out::Vec(V::poly_scale(&g.a, &g.k)),
        "poly_add_scalar" => Out::Vec(V::poly_add_scalar(&g.a, &g.k)),
        "poly_sub_scalar" => Out::Vec(V::poly_sub_scalar(&g.a, &g.k)),
        "poly_evaluate" => Out::Scalar(V::poly_evaluate(&g.a, &g.x)),
        "poly_ruffini" => Out::Vec(V::poly_ruffini(&g.a, g.x)),
        "batch_inversion" => Out::Vec(V::batch_inversion(&g.a)),
        "lagrange_coefficients" => res_vec(V::lagrange_coefficients(g.nc, g.x)),
        "vanishing_eval" => res_scalar(V::vanishing_eval(g.nc, &g.x)),
        "vanishing_over_coset" => match V::vanishing_over_coset(g.nc, g.deg) {
            Ok(Some(v)) => Out::Vec(v),
            Ok(None) => Out::None,
            Err(e) => Out::Fail(format!("err:{}", err_class(&e))),
        },
        "barycentric_eval" => res_scalar(V::barycentric_eval(g.nc, &g.a, &g.x)),
        "fused_lagrange_pi" => match V::fused_lagrange_pi(g.nc, &g.rows, &g.b, &g.x) {
            Ok((l1, pi)) => Out::Pair(l1, pi),
            Err(e) => Out::Fail(format!("err:{}", err_class(&e))),
        },
        other => Out::Fail(format!("unknown-kernel:{other}")),
    }
}

struct Rec {
    pools: Vec<rayon::ThreadPool>,
    w: BufWriter<File>,
    id: usize,
    case: usize,
    seed: u64,
    events: usize,
}

impl Rec {
    /// Runs the kernel under every pool, groups identical outcomes, writes events.
    fn call(&mut self, kern: &str, cls: &str, mut fields: Map<String, Value>) {
        self.case += 1;
        let args = Args::from_fields(&fields);
        let mut groups: Vec<(Out, Vec<usize>)> = Vec::new();
        for pool in self.pools.iter() {
            let t = pool.current_num_threads();
            let r = pool.install(|| guarded(|| exec(kern, &args)));
            let o = match r {
                Ok(o) => o,
                Err(p) => Out::Fail(format!("panic:{}", p.chars().take(120).collect::<String>())),
            };
            match groups.iter_mut().find(|(g, _)| *g == o) {
                Some((_, ts)) => ts.push(t),
                None => groups.push((o, vec![t])),
            }
        }
        fields.insert("kern".into(), json!(kern));
        fields.insert("cls".into(), json!(cls));
        fields.insert("case".into(), json!(self.case));
        for (o, ts) in groups {
            self.id += 1;
            let mut e = fields.clone();
            e.insert("ev".into(), json!("call"));
            e.insert("id".into(), json!(self.id));
            e.insert("threads".into(), json!(ts));
            let mut bytes: Vec<u8> = Vec::new();
            match &o {
                Out::Vec(v) => {
                    for x in v {
                        bytes.extend_from_slice(&x.to_bytes());
                    }
                    e.insert("out".into(), vec_json_l(v));
                    e.insert("res".into(), json!("ok"));
                }
                Out::Scalar(y) => {
                    bytes.extend_from_slice(&y.to_bytes());
                    e.insert("y".into(), fe_to_json(y));
                    e.insert("res".into(), json!("ok"));
                }
                Out::Pair(y, y2) => {
                    bytes.extend_from_slice(&y.to_bytes());
                    bytes.extend_from_slice(&y2.to_bytes());
                    e.insert("y".into(), fe_to_json(y));
                    e.insert("y2".into(), fe_to_json(y2));
                    e.insert("res".into(), json!("ok"));
                }
                Out::Int(d) => {
                    e.insert("d".into(), json!(d));
                    e.insert("res".into(), json!("ok"));
                }
                Out::None => {
                    e.insert("res".into(), json!("none"));
                }
                Out::Fail(s) => {
                    e.insert("res".into(), json!(s));
                }
            }
            // seeded AFTER the output is fixed: derived from its digest
            let mut h: u64 = 0xcbf29ce484222325;
            for b in &bytes {
                h ^= *b as u64;
                h = h.wrapping_mul(0x100000001b3);
            }
            e.insert("digest".into(), json!(format!("{:016x}", h)));
            let mut s = Sm(self.seed ^ h ^ 0xC19);
            e.insert("rho".into(), fe_to_json(&s.fe()));
            if let Out::Vec(v) = &o {
                let n = v.len().max(1);
                let idx: Vec<usize> = (0..4).map(|_| s.below(n)).collect();
                e.insert("idx".into(), json!(idx));
            }
            writeln!(self.w, "{}", Value::Object(e)).unwrap();
            self.events += 1;
        }
    }
}

fn fields(pairs: Vec<(&str, Value)>) -> Map<String, Value> {
    pairs.into_iter().map(|(k, v)| (k.to_string(), v)).collect()
}

fn res_vec(r: Result<Vec<BlsScalar>, dusk_plonk::prelude::Error>) -> Out {
    match r {
        Ok(v) => Out::Vec(v),
        Err(e) => Out::Fail(format!("err:{}", err_class(&e))),
    }
}

fn res_scalar(r: Result<BlsScalar, dusk_plonk::prelude::Error>) -> Out {
    match r {
        Ok(v) => Out::Scalar(v),
        Err(e) => Out::Fail(format!("err:{}", err_class(&e))),
    }
}

#[derive(Clone, Copy, PartialEq)]
enum Shape {
    Dense,
    Small,
    Zeros,
    TrailingZeros,
    LeadingZeros,
    Spike,
}

fn shape_name(s: Shape) -> &'static str {
    match s {
        Shape::Dense => "dense",
        Shape::Small => "small",
        Shape::Zeros => "zeros",
        Shape::TrailingZeros => "trailing-zeros",
        Shape::LeadingZeros => "leading-zeros",
        Shape::Spike => "spike",
    }
}

fn gen(s: &mut Sm, len: usize, shape: Shape) -> Vec<BlsScalar> {
    let mut v: Vec<BlsScalar> = match shape {
        Shape::Small => (0..len).map(|_| s.small()).collect(),
        Shape::Zeros => vec![BlsScalar::zero(); len],
        _ => (0..len).map(|_| s.fe()).collect(),
    };
    match shape {
        Shape::TrailingZeros => {
            for x in v.iter_mut().skip(len - len / 4 - (len > 0) as usize) {
                *x = BlsScalar::zero();
            }
        }
        Shape::LeadingZeros => {
            for x in v.iter_mut().take(len / 4 + 1) {
                *x = BlsScalar::zero();
            }
        }
        Shape::Spike => {
            let p = s.below(len);
            for (i, x) in v.iter_mut().enumerate() {
                if i != p {
                    *x = BlsScalar::zero();
                }
            }
        }
        _ => {}
    }
    v
}

fn pow(x: &BlsScalar, e: u64) -> BlsScalar {
    x.pow(&[e, 0, 0, 0])
}

fn main() {
    quiet_panics();
    let args: Vec<String> = std::env::args().collect();
    let mut tier = "quick".to_string();
    let mut out = None;
    let mut event: Option<String> = None;
    let mut i = 1;
    while i < args.len() {
        match args[i].as_str() {
            "--tier" => {
                tier = args[i + 1].clone();
                i += 1;
            }
            "--out" => {
                out = Some(args[i + 1].clone());
                i += 1;
            }
            "--event" => {
                event = Some(args[i + 1].clone());
                i += 1;
            }
            _ => {}
        }
        i += 1;
    }
    let out = out.expect("--out FILE");
    let thorough = tier == "thorough";
    let seed: u64 = std::env::var("VERIF_SEED").ok().and_then(|s| s.parse().ok()).unwrap_or(1);
    // 1..=17 and the first counts beyond the next powers of two (thresholds of the form
    // ceil(m / threads) < c bite first just above a power of two)
    let pools = (1..=17usize)
        .chain([33usize, 65])
        .map(|t| rayon::ThreadPoolBuilder::new().num_threads(t).build().unwrap())
        .collect();
    let mut r = Rec {
        pools,
        w: BufWriter::new(File::create(&out).expect("create out")),
        id: 0,
        case: 0,
        seed,
        events: 0,
    };
    if args.get(1).map(|s| s.as_str()) == Some("replay") {
        // re-execute one recorded event on the current tree
        let ev: Value = serde_json::from_str(&std::fs::read_to_string(event.expect("--event FILE")).unwrap()).unwrap();
        let kern = ev["kern"].as_str().expect("kern").to_string();
        let cls = ev.get("cls").and_then(|c| c.as_str()).unwrap_or("replay").to_string();
        let mut f = Map::new();
        for k in ["nc", "a", "b", "k", "x", "rows", "deg"] {
            if let Some(v) = ev.get(k) {
                f.insert(k.to_string(), v.clone());
            }
        }
        r.call(&kern, &cls, f);
        r.w.flush().unwrap();
        println!("{}", json!({"events": r.events, "cases": r.case, "out": out, "tier": "replay", "seed": seed}));
        return;
    }
    let mut s = Sm(seed.wrapping_mul(0x2545F4914F6CDD1D) ^ 0xC19C19);
    let max_log: u32 = if thorough { 14 } else { 12 };

    // ---- domain parameters -------------------------------------------------
    for k in 0..=max_log.max(13) {
        let n = 1usize << k;
        for nc in [n, n - n / 4] {
            let nc = nc.max(if k == 0 { 0 } else { n / 2 + 1 });
            match V::domain_params(nc) {
                Ok((size, w, winv, ninv, g)) => {
                    r.id += 1;
                    writeln!(
                        r.w,
                        "{}",
                        json!({"ev":"domain","id":r.id,"nc":nc,"size":size,"w":fe_to_json(&w),
                               "winv":fe_to_json(&winv),"ninv":fe_to_json(&ninv),"g":fe_to_json(&g)})
                    )
                    .unwrap();
                    r.events += 1;
                }
                Err(e) => panic!("domain_params({nc}): {:?}", e),
            }
        }
    }

    // ---- FFT family --------------------------------------------------------
    let ffts = ["fft", "ifft", "coset_fft", "coset_ifft"];
    let mut logs: Vec<u32> = (0..=max_log).collect();
    if !thorough {
        logs.push(13); // one case beyond 2^12 with a different stage split
    }
    for &k in &logs {
        let n = 1usize << k;
        let extra13 = !thorough && k == 13;
        let mut plan: Vec<(usize, usize, Shape)> = Vec::new(); // (nc, len, shape)
        if k <= 6 {
            let mut lens = vec![0, 1, n / 2, n.saturating_sub(1), n, n + 1, n + 3, 2 * n + 3];
            lens.sort();
            lens.dedup();
            for &len in &lens {
                plan.push((n, len, Shape::Dense));
            }
            for sh in [Shape::Small, Shape::Zeros, Shape::TrailingZeros, Shape::LeadingZeros, Shape::Spike] {
                plan.push((n, n, sh));
            }
            plan.push((n, n + 2, Shape::TrailingZeros)); // longer, but the tail is zero
            plan.push((n, n + 2, Shape::Spike));
            if n >= 4 {
                plan.push((n - 1, n - 1, Shape::Dense)); // num_coeffs not a power of two
                plan.push((n / 2 + 1, n, Shape::Dense));
            }
        } else if extra13 {
            plan.push((n, n, Shape::Small));
        } else {
            plan.push((n, n - 3, Shape::Dense));
            plan.push((n, n, if k >= 11 { Shape::Small } else { Shape::Dense }));
            plan.push((n, n, Shape::TrailingZeros));
            plan.push((n, n + 5, Shape::Small));
            plan.push((n - 1, n / 2 + 7, Shape::Small));
        }
        for name in ffts.iter() {
            if extra13 && (*name == "coset_ifft" || *name == "ifft") {
                continue;
            }
            for &(nc, len, sh) in &plan {
                let a = gen(&mut s, len, sh);
                let cls = format!(
                    "n=2^{k} len{}n {}",
                    if len < n { "<" } else if len == n { "=" } else { ">" },
                    shape_name(sh)
                );
                let fl = fields(vec![("nc", json!(nc)), ("a", vec_json(&a))]);
                r.call(name, &cls, fl);
            }
        }
        // the serial reference transform
        if k <= 12 {
            for len in [n, n - n / 4] {
                if len == 0 {
                    continue;
                }
                let a = gen(&mut s, len, if k >= 11 { Shape::Small } else { Shape::Dense });
                let fl = fields(vec![("a", vec_json(&a))]);
                r.call("serial_fft", &format!("n=2^{k} len={len}"), fl);
            }
        }
    }

    // ---- polynomial arithmetic --------------------------------------------
    let mut pairs: Vec<(usize, usize)> = vec![
        (0, 0), (0, 3), (3, 0), (1, 1), (1, 4), (2, 2), (5, 3), (3, 5), (8, 8), (9, 8),
        (33, 31), (33, 32), (100, 28), (64, 64), (300, 212), (1025, 1023), (1500, 1200), (2049, 2047),
    ];
    pairs.push((3000, 2000));
    // short x long and long x short: the product's length must come from BOTH operands
    // (seeded C19-3 sized the FFT domain from the left operand alone)
    pairs.extend([(2, 4), (4, 2), (3, 7), (7, 3), (2, 9), (5, 60), (60, 5), (7, 200), (1, 129), (17, 500)]);
    if thorough {
        pairs.push((4097, 4095));
        pairs.push((7000, 6000));
        pairs.push((8193, 8190));
    }
    for &(la, lb) in &pairs {
        let big = la + lb > 1000;
        let sh = if big { Shape::Small } else { Shape::Dense };
        let a = gen(&mut s, la, sh);
        let b = gen(&mut s, lb, sh);
        let cls = format!("len {la},{lb}");
        let fl = || fields(vec![("a", vec_json(&a)), ("b", vec_json(&b))]);
        r.call("poly_mul", &cls, fl());
        if la + lb <= 1000 || la == 1500 {
            r.call("poly_add", &cls, fl());
            r.call("poly_sub", &cls, fl());
            r.call("poly_add_assign", &cls, fl());
            r.call("poly_sub_assign", &cls, fl());
            for f in [s.fe(), BlsScalar::zero(), -BlsScalar::one()] {
                let mut m = fl();
                m.insert("k".into(), fe_to_json(&f));
                r.call("poly_add_assign_scaled", &cls, m);
            }
        }
    }
    // cancellations, trailing zeros, zero operands
    for len in [1usize, 2, 7, 40] {
        let a = gen(&mut s, len, Shape::Dense);
        let neg: Vec<BlsScalar> = a.iter().map(|x| -x).collect();
        let mut top = gen(&mut s, len, Shape::Dense);
        top[len - 1] = -a[len - 1]; // the leading coefficients cancel in a + top
        let mut same_top = top.clone();
        same_top[len - 1] = a[len - 1]; // ... and in a - same_top
        let mut tz = a.clone();
        tz.extend(vec![BlsScalar::zero(); 3]);
        let zeros = vec![BlsScalar::zero(); len];
        let variants: Vec<(&str, Vec<BlsScalar>)> = vec![
            ("b=-a", neg.clone()),
            ("b=a", a.clone()),
            ("top cancels in sum", top),
            ("top cancels in difference", same_top),
            ("b=a with trailing zeros", tz),
            ("b=zeros", zeros),
        ];
        for (what, b) in &variants {
            let cls = format!("len {len} {what}");
            let fl = || fields(vec![("a", vec_json(&a)), ("b", vec_json(b))]);
            r.call("poly_add", &cls, fl());
            r.call("poly_sub", &cls, fl());
            r.call("poly_add_assign", &cls, fl());
            r.call("poly_sub_assign", &cls, fl());
            r.call("poly_add", &format!("{cls} (swapped)"), fields(vec![("a", vec_json(b)), ("b", vec_json(&a))]));
            r.call("poly_sub", &format!("{cls} (swapped)"), fields(vec![("a", vec_json(b)), ("b", vec_json(&a))]));
            r.call("poly_mul", &cls, fl());
            let f = s.fe();
            let mut m = fl();
            m.insert("k".into(), fe_to_json(&f));
            r.call("poly_add_assign_scaled", &cls, m);
        }
    }
    // unary / scalar operations, evaluation, division by a linear factor
    let ulen: Vec<usize> = if thorough {
        vec![0, 1, 2, 3, 17, 63, 64, 65, 66, 100, 128, 129, 1000, 5000, 16384]
    } else {
        vec![0, 1, 2, 3, 17, 63, 64, 65, 66, 100, 128, 129, 1000, 5000]
    };
    for &len in &ulen {
        for sh in [Shape::Dense, Shape::TrailingZeros, Shape::Zeros] {
            if len > 130 && sh != Shape::Dense {
                continue;
            }
            let sh = if len >= 1000 && sh == Shape::Dense { Shape::Small } else { sh };
            let a = gen(&mut s, len, sh);
            let cls = format!("len {len} {}", shape_name(sh));
            let fa = || fields(vec![("a", vec_json(&a))]);
            r.call("poly_normalize", &cls, fa());
            r.call("poly_degree", &cls, fa());
            r.call("poly_neg", &cls, fa());
            let c0 = if len > 0 { -a[0] } else { BlsScalar::one() };
            for (kn, k) in [("random", s.fe()), ("zero", BlsScalar::zero()), ("one", BlsScalar::one()), ("-a0", c0)] {
                let cls = format!("{cls} k={kn}");
                let fk = || fields(vec![("a", vec_json(&a)), ("k", fe_to_json(&k))]);
                if len <= 130 || kn == "random" {
                    r.call("poly_scale", &cls, fk());
                    r.call("poly_add_scalar", &cls, fk());
                    r.call("poly_sub_scalar", &cls, fk());
                }
            }
            // evaluation points: random, 0, 1, a root of unity
            let w64 = V::domain_params(64).unwrap().1;
            for (xn, x) in [("random", s.fe()), ("zero", BlsScalar::zero()), ("one", BlsScalar::one()), ("root-of-unity", w64)] {
                if len > 130 && xn != "random" && xn != "root-of-unity" {
                    continue;
                }
                let cls = format!("{cls} x={xn}");
                let fx = || fields(vec![("a", vec_json(&a)), ("x", fe_to_json(&x))]);
                r.call("poly_evaluate", &cls, fx());
                r.call("poly_ruffini", &cls, fx());
            }
            // exact division: a * (X - z) divided by (X - z)
            if len > 0 && len <= 130 && sh == Shape::Dense {
                let z = s.fe();
                let prod = V::poly_mul(&a, &[-z, BlsScalar::one()]);
                let fx = fields(vec![("a", vec_json(&prod)), ("x", fe_to_json(&z))]);
                r.call("poly_ruffini", &format!("{cls} exact multiple"), fx);
            }
        }
    }

    // ---- batch inversion ---------------------------------------------------
    for &len in &[0usize, 1, 2, 3, 5, 16, 64, 65, 1000, 5000] {
        let base = gen(&mut s, len, if len >= 1000 { Shape::Small } else { Shape::Dense });
        let mut variants: Vec<(&str, Vec<BlsScalar>)> = vec![("no zeros", base.clone())];
        if len > 0 {
            let z = BlsScalar::zero();
            let mut v = base.clone();
            v[0] = z;
            variants.push(("zero first", v));
            let mut v = base.clone();
            v[len - 1] = z;
            variants.push(("zero last", v));
            let mut v = base.clone();
            v[len / 2] = z;
            variants.push(("zero middle", v));
            variants.push(("all zeros", vec![z; len]));
            let v: Vec<BlsScalar> = base.iter().enumerate().map(|(i, x)| if i % 2 == 1 { z } else { *x }).collect();
            variants.push(("alternating zeros", v));
            let mut v = base.clone();
            for x in v.iter_mut().skip(len - (len / 3).max(1)) {
                *x = z;
            }
            variants.push(("trailing zeros", v));
            let mut v = vec![z; len];
            v[len - 1] = base[len - 1];
            variants.push(("only last non-zero", v));
            let mut v = base.clone();
            v[0] = BlsScalar::one();
            v[len - 1] = -BlsScalar::one();
            variants.push(("units", v));
        }
        for (what, v) in &variants {
            if len >= 1000 && !["no zeros", "trailing zeros", "alternating zeros"].contains(what) {
                continue;
            }
            let fl = fields(vec![("a", vec_json(v))]);
            r.call("batch_inversion", &format!("len {len} {what}"), fl);
        }
    }

    // ---- closed forms: vanishing polynomial, Lagrange basis ---------------
    for k in 0..=max_log {
        let n = 1usize << k;
        let w = V::domain_params(n).unwrap().1;
        let mut pts: Vec<(String, BlsScalar)> = vec![
            ("outside".into(), s.fe()),
            ("zero".into(), BlsScalar::zero()),
            ("inside w^0".into(), BlsScalar::one()),
            ("inside w^1".into(), w),
            ("inside w^(n-1)".into(), pow(&w, n as u64 - 1)),
        ];
        let j = s.below(n);
        pts.push((format!("inside w^{j}"), pow(&w, j as u64)));
        // a 2n-th root of unity that is not in the domain: tau^n = -1
        pts.push(("outside, tau^n=-1".into(), V::domain_params(2 * n).unwrap().1));
        let heavy = k > 6;
        for (pn, tau) in &pts {
            let cls = format!("n=2^{k} {pn}");
            let fl = || fields(vec![("nc", json!(n)), ("x", fe_to_json(tau))]);
            r.call("vanishing_eval", &cls, fl());
            if heavy && !(pn == "outside" || pn.starts_with("inside w^(n-1)") || (k % 4 == 0 && pn == "outside, tau^n=-1")) {
                continue;
            }
            if heavy && k > 10 && pn != "outside" && !(k == max_log) {
                continue;
            }
            r.call("lagrange_coefficients", &cls, fl());
        }
        // vanishing polynomial of degree `deg` over the coset
        let mut degs: Vec<u64> = if k <= 6 {
            vec![0, 1, (n / 2) as u64, (n as u64).saturating_sub(1), n as u64, n as u64 + 5]
        } else if k % 2 == 0 {
            vec![(n / 8) as u64]
        } else {
            vec![]
        };
        degs.sort();
        degs.dedup();
        for deg in degs {
            let fl = fields(vec![("nc", json!(n)), ("deg", json!(deg))]);
            r.call("vanishing_over_coset", &format!("n=2^{k} deg={deg}"), fl);
        }
    }

    // ---- barycentric evaluation and the fused L_1 / PI evaluation ----------
    for k in 0..=max_log {
        let n = 1usize << k;
        if k > 6 && k % 2 == 1 && k != max_log {
            continue;
        }
        let w = V::domain_params(n).unwrap().1;
        let evs: Vec<(String, Vec<BlsScalar>)> = if k <= 6 {
            vec![
                ("dense".into(), gen(&mut s, n, Shape::Dense)),
                ("half".into(), gen(&mut s, n / 2, Shape::Dense)),
                ("leading zeros".into(), gen(&mut s, n, Shape::LeadingZeros)),
                ("zeros".into(), vec![BlsScalar::zero(); n]),
                ("empty".into(), vec![]),
            ]
        } else {
            // sparse, like a public-input vector
            let mut v = vec![BlsScalar::zero(); n];
            v[0] = s.fe();
            v[n - 1] = s.fe();
            for _ in 0..4 {
                let p = s.below(n);
                v[p] = s.fe();
            }
            vec![("sparse".into(), v)]
        };
        for (en, e) in &evs {
            let nzpos: Vec<usize> = (0..e.len()).filter(|i| e[*i] != BlsScalar::zero()).collect();
            let zpos: Vec<usize> = (0..n).filter(|i| *i >= e.len() || e[*i] == BlsScalar::zero()).collect();
            let mut pts: Vec<(String, BlsScalar)> = vec![("outside".into(), s.fe()), ("zero".into(), BlsScalar::zero())];
            if let Some(&p) = nzpos.first() {
                pts.push((format!("inside w^{p} (non-zero value)"), pow(&w, p as u64)));
            }
            if let Some(&p) = nzpos.last() {
                pts.push((format!("inside w^{p} (non-zero value)"), pow(&w, p as u64)));
            }
            if let Some(&p) = zpos.first() {
                pts.push((format!("inside w^{p} (zero value)"), pow(&w, p as u64)));
            }
            for (pn, x) in &pts {
                let fl = fields(vec![("nc", json!(n)), ("a", vec_json(e)), ("x", fe_to_json(x))]);
                r.call("barycentric_eval", &format!("n=2^{k} {en} {pn}"), fl);
            }
        }
        // fused: public inputs at rows, some of them zero
        let mut rows: Vec<usize> = vec![0, n / 2, n - 1, n / 3, (2 * n) / 3];
        rows.sort();
        rows.dedup();
        let mut vals: Vec<BlsScalar> = rows.iter().map(|_| s.fe()).collect();
        if vals.len() > 2 {
            vals[1] = BlsScalar::zero(); // a zero public input is skipped by the kernel
        }
        let mut pts: Vec<(String, BlsScalar)> = vec![
            ("outside".into(), s.fe()),
            ("zero".into(), BlsScalar::zero()),
            ("x=1".into(), BlsScalar::one()),
        ];
        for (i, row) in rows.iter().enumerate() {
            pts.push((
                format!("inside w^{row} ({} public input)", if vals[i] == BlsScalar::zero() { "zero" } else { "non-zero" }),
                pow(&w, *row as u64),
            ));
        }
        if n > 8 {
            pts.push(("inside, no public input".into(), pow(&w, 1)));
        }
        for (pn, x) in &pts {
            let fl = fields(vec![("nc", json!(n)), ("rows", json!(rows)), ("b", vec_json_l(&vals)), ("x", fe_to_json(x))]);
            r.call("fused_lagrange_pi", &format!("n=2^{k} {pn}"), fl);
        }
        // no public inputs at all
        let x = s.fe();
        let fl = fields(vec![("nc", json!(n)), ("rows", json!([])), ("b", vec_json_l(&[])), ("x", fe_to_json(&x))]);
        r.call("fused_lagrange_pi", &format!("n=2^{k} no public inputs"), fl);
    }

    r.w.flush().unwrap();
    println!("{}", json!({"events": r.events, "cases": r.case, "out": out, "tier": tier, "seed": seed}));
}
