//! C03: executor half of the specification-driven reference verifier.
//!
//! This binary contains NO protocol logic. It
//!   * parses `Verifier::to_bytes()`, `Proof::to_bytes()` and public inputs
//!     (byte layouts only),
//!   * drives a fresh merlin transcript from the item list exported by TLC
//!     (`Transcript!VerifierItems(version, #pi)`), obtaining the challenges,
//!   * hands (version, circuit size, public-input rows and values, the 15
//!     evaluations, the challenges) to TLC as NDJSON events,
//!   * receives from TLC (`TraceVerifier` = `Protocol!VerifierScalars` over
//!     the BLS12-381 scalar field) the point->scalar maps of the two pairing
//!     inputs, performs the MSMs and the two pairings with dusk-bls12_381,
//!   * compares the reference verdict with `Verifier::verify_with_version`.
//!
//! refverify gen   --tier quick|thorough --items ITEMS.json --out DIR
//!     builds the triples (verifier, proof, public inputs, version) and writes
//!     DIR/verifiers.ndjson, DIR/proofs.ndjson, DIR/triples.ndjson,
//!     DIR/events.ndjson (one event per triple whose proof decodes)
//! refverify programs --items ITEMS.json --out DIR   (stdin: NDJSON programs
//!     {"id":..,"ops":[..]} for `prog::ScriptedCircuit`) same tables, built from
//!     the caller's honest programs: honest triple + cheap mutations each
//! refverify events --items ITEMS.json --dir DIR
//!     (re)computes DIR/events.ndjson from the tables of DIR (used by replay)
//! refverify judge --dir DIR [--items ITEMS.json]  (needs DIR/scalars.ndjson from TLC)
//!     prints one NDJSON result per triple. With --items ("Binding 2") the
//!     transcript operations the real verifier records through the library's
//!     trace hook (`dusk_plonk::verif::transcript_trace_*`) are compared
//!     EXACTLY - kind, label, payload bytes, squeezed challenges, nothing
//!     extra, nothing missing - with the operations the exported item list
//!     performs on the same data.
//! refverify one   --items ITEMS.json  (stdin: {"verifier":hex,"proof":hex,
//!     "pis":[hex],"version":n}) prints the event of a single triple (replay)

use std::collections::HashMap;
use std::fs::File;
use std::io::{BufRead, BufReader, BufWriter, Write};
use std::sync::Mutex;

use dusk_bls12_381::multiscalar_mul::msm_variable_base;
use dusk_bls12_381::{
    multi_miller_loop, BlsScalar, G1Affine, G1Projective, G2Affine, G2Prepared, Gt,
};
use dusk_bytes::{DeserializableSlice, Serializable};
use dusk_plonk::prelude::*;
use merlin::Transcript;
use plonk_conf::families;
use plonk_conf::fe::*;
use plonk_conf::prog::*;
use plonk_conf::rng::ScriptRng;
use plonk_conf::util::*;
use rayon::prelude::*;
use serde_json::{json, Value};

// ---------------------------------------------------------------- parsing ---

/// Verifier-key commitments in the order of `VerifierKey::to_bytes`.
const VK_FIELDS: [&str; 15] = [
    "q_m", "q_l", "q_r", "q_o", "q_f", "q_c", "q_arith", "q_logic", "q_range",
    "q_fixed_group_add", "q_variable_group_add", "s_sigma_1", "s_sigma_2", "s_sigma_3",
    "s_sigma_4",
];
/// Proof commitments / evaluations in the order of `Proof::to_bytes`.
const PROOF_POINTS: [&str; 11] = [
    "a_comm", "b_comm", "c_comm", "d_comm", "z_comm", "t_low_comm", "t_mid_comm",
    "t_high_comm", "t_fourth_comm", "w_z_chall_comm", "w_z_chall_w_comm",
];
const PROOF_SCALARS: [&str; 15] = [
    "a_eval", "b_eval", "c_eval", "d_eval", "a_w_eval", "b_w_eval", "d_w_eval",
    "q_arith_eval", "q_c_eval", "q_l_eval", "q_r_eval", "s_sigma_1_eval",
    "s_sigma_2_eval", "s_sigma_3_eval", "z_eval",
];
const VK_SIZE: usize = 968;

struct ParsedVerifier {
    label: Vec<u8>,
    constraints: u64,
    vk_n: u64,
    points: HashMap<String, G1Affine>, // "vk.<name>", "ok.g"
    h: G2Affine,
    x_h: G2Affine,
    rows: Vec<u64>,
}

struct ParsedProof {
    points: HashMap<String, G1Affine>,   // "proof.<name>"
    scalars: HashMap<String, BlsScalar>, // "proof.<name>" and bare "<name>"
}

fn be64(b: &[u8]) -> u64 {
    u64::from_be_bytes(b.try_into().unwrap())
}

fn g1(b: &[u8]) -> Result<G1Affine, String> {
    let a: [u8; 48] = b.try_into().map_err(|_| "g1 length")?;
    G1Affine::from_bytes(&a).map_err(|e| format!("g1: {e:?}"))
}

fn g2(b: &[u8]) -> Result<G2Affine, String> {
    let a: [u8; 96] = b.try_into().map_err(|_| "g2 length")?;
    G2Affine::from_bytes(&a).map_err(|e| format!("g2: {e:?}"))
}

fn parse_verifier(bytes: &[u8]) -> Result<ParsedVerifier, String> {
    if bytes.len() < 48 {
        return Err("short header".into());
    }
    let label_len = be64(&bytes[0..8]) as usize;
    let vk_len = be64(&bytes[8..16]) as usize;
    let ok_len = be64(&bytes[16..24]) as usize;
    let n_pi = be64(&bytes[24..32]) as usize;
    let _size = be64(&bytes[32..40]);
    let constraints = be64(&bytes[40..48]);
    if vk_len != VK_SIZE || ok_len != 48 + 96 + 96 {
        return Err("unexpected key lengths".into());
    }
    if bytes.len() != 48 + label_len + vk_len + ok_len + 8 * n_pi {
        return Err("length mismatch".into());
    }
    let mut at = 48;
    let label = bytes[at..at + label_len].to_vec();
    at += label_len;
    let vk = &bytes[at..at + vk_len];
    at += vk_len;
    let ok = &bytes[at..at + ok_len];
    at += ok_len;
    let vk_n = u64::from_le_bytes(vk[0..8].try_into().unwrap());
    let mut points = HashMap::new();
    for (i, name) in VK_FIELDS.iter().enumerate() {
        points.insert(format!("vk.{name}"), g1(&vk[8 + 48 * i..8 + 48 * (i + 1)])?);
    }
    points.insert("ok.g".to_string(), g1(&ok[0..48])?);
    let h = g2(&ok[48..144])?;
    let x_h = g2(&ok[144..240])?;
    let rows = (0..n_pi).map(|i| be64(&bytes[at + 8 * i..at + 8 * i + 8])).collect();
    Ok(ParsedVerifier { label, constraints, vk_n, points, h, x_h, rows })
}

fn parse_proof(bytes: &[u8]) -> Result<ParsedProof, String> {
    if bytes.len() != 11 * 48 + 15 * 32 {
        return Err("proof length".into());
    }
    let mut points = HashMap::new();
    let mut scalars = HashMap::new();
    for (i, name) in PROOF_POINTS.iter().enumerate() {
        points.insert(format!("proof.{name}"), g1(&bytes[48 * i..48 * (i + 1)])?);
    }
    for (i, name) in PROOF_SCALARS.iter().enumerate() {
        let b: [u8; 32] = bytes[528 + 32 * i..528 + 32 * (i + 1)].try_into().unwrap();
        let s = <BlsScalar as Serializable<32>>::from_bytes(&b).map_err(|e| format!("scalar: {e:?}"))?;
        scalars.insert(format!("proof.{name}"), s);
    }
    Ok(ParsedProof { points, scalars })
}

// ------------------------------------------------- transcript executor ---

static LABELS: Mutex<Option<HashMap<Vec<u8>, &'static [u8]>>> = Mutex::new(None);

fn static_label(l: &[u8]) -> &'static [u8] {
    let mut g = LABELS.lock().unwrap();
    let m = g.get_or_insert_with(HashMap::new);
    if let Some(s) = m.get(l) {
        return s;
    }
    let leaked: &'static [u8] = Box::leak(l.to_vec().into_boxed_slice());
    m.insert(l.to_vec(), leaked);
    leaked
}

/// One transcript operation, in the vocabulary of the library's trace hook
/// (`dusk_plonk::verif::TranscriptOp`): kind in new | message | u64 |
/// commitment | scalar | challenge.
#[derive(Clone, Debug, PartialEq, Eq)]
struct Op {
    kind: String,
    label: Vec<u8>,
    data: Vec<u8>,
}

fn op_json(o: &Op) -> Value {
    json!({"kind": o.kind, "label": String::from_utf8_lossy(&o.label), "data": hex_bytes(&o.data)})
}

fn take_real_ops() -> Vec<Op> {
    dusk_plonk::verif::transcript_trace_take()
        .into_iter()
        .map(|o| Op { kind: o.kind.to_string(), label: o.label, data: o.data })
        .collect()
}

/// Runs the exported item list; returns the squeezed challenges by name and
/// the operations performed (for the comparison with the implementation's
/// recorded transcript).
fn run_items(
    items: &[Value],
    v: &ParsedVerifier,
    p: &ParsedProof,
    pis: &[BlsScalar],
) -> Result<(HashMap<String, BlsScalar>, Vec<Op>), String> {
    let mut t: Option<Transcript> = None;
    let mut ch: HashMap<String, BlsScalar> = HashMap::new();
    let mut ops: Vec<Op> = Vec::new();
    for it in items {
        let kind = it["kind"].as_str().ok_or("item kind")?;
        let label = static_label(it["label"].as_str().ok_or("item label")?.as_bytes());
        let src = it["src"].as_str().ok_or("item src")?;
        let idx = it["idx"].as_u64().unwrap_or(0) as usize;
        if kind == "label-init" {
            if src != "label" {
                return Err(format!("unknown label source {src}"));
            }
            t = Some(Transcript::new(static_label(&v.label)));
            ops.push(Op { kind: "new".into(), label: v.label.clone(), data: vec![] });
            continue;
        }
        let tr = t.as_mut().ok_or("item before label-init")?;
        match kind {
            "append-message" => {
                let lit = src.strip_prefix("lit:").ok_or("append-message needs a literal")?;
                tr.append_message(label, lit.as_bytes());
                ops.push(Op { kind: "message".into(), label: label.to_vec(), data: lit.as_bytes().to_vec() });
            }
            "append-u64" => {
                let x = match src {
                    "constraints" => v.constraints,
                    "vk.n" => v.vk_n,
                    _ => return Err(format!("unknown u64 source {src}")),
                };
                tr.append_u64(label, x);
                ops.push(Op { kind: "u64".into(), label: label.to_vec(), data: x.to_le_bytes().to_vec() });
            }
            "append-point" => {
                let pt = v
                    .points
                    .get(src)
                    .or_else(|| p.points.get(src))
                    .ok_or_else(|| format!("unknown point source {src}"))?;
                tr.append_message(label, &pt.to_bytes());
                ops.push(Op { kind: "commitment".into(), label: label.to_vec(), data: pt.to_bytes().to_vec() });
            }
            "append-scalar" => {
                let s = if src == "pi" {
                    *pis.get(idx.wrapping_sub(1)).ok_or("public input index")?
                } else if let Some(name) = src.strip_prefix("ch.") {
                    *ch.get(name).ok_or_else(|| format!("challenge {name} not yet squeezed"))?
                } else {
                    *p.scalars.get(src).ok_or_else(|| format!("unknown scalar source {src}"))?
                };
                tr.append_message(label, &s.to_bytes());
                ops.push(Op { kind: "scalar".into(), label: label.to_vec(), data: s.to_bytes().to_vec() });
            }
            "challenge" => {
                let mut buf = [0u8; 64];
                tr.challenge_bytes(label, &mut buf);
                let c = BlsScalar::from_bytes_wide(&buf);
                ch.insert(src.to_string(), c);
                ops.push(Op { kind: "challenge".into(), label: label.to_vec(), data: c.to_bytes().to_vec() });
            }
            other => return Err(format!("unknown item kind {other}")),
        }
    }
    Ok((ch, ops))
}

/// Item list of a role ("verifier" | "prover") for a version and #pi.
fn items_for<'a>(items_all: &'a Value, role: &str, version: u64, npi: usize) -> Result<&'a Vec<Value>, String> {
    items_all[role][version_name(version)]
        .as_array()
        .ok_or("items: no list")?
        .get(npi)
        .and_then(|x| x.as_array())
        .ok_or_else(|| format!("items: no list for {npi} public inputs"))
}

/// Exact comparison of the implementation's recorded operations with the
/// specification's; `None` = identical.
fn diff_ops(expected: &[Op], observed: &[Op]) -> Option<Value> {
    let n = expected.len().max(observed.len());
    for i in 0..n {
        let (e, o) = (expected.get(i), observed.get(i));
        if e != o {
            let label = e.or(o).map(|x| String::from_utf8_lossy(&x.label).to_string()).unwrap_or_default();
            return Some(json!({
                "at": i, "label": label,
                "expected": e.map(op_json), "observed": o.map(op_json),
                "expected_len": expected.len(), "observed_len": observed.len(),
            }));
        }
    }
    None
}

/// The statement seeding the legacy constructors perform (first 20 items of
/// the V2 list): what `Prover::new` / `Verifier::new` record.
fn legacy_seed_ops(items_all: &Value, v: &ParsedVerifier) -> Result<Vec<Op>, String> {
    let items = items_for(items_all, "verifier", 2, 0)?;
    let none = ParsedProof { points: HashMap::new(), scalars: HashMap::new() };
    let (_, ops) = run_items(&items[..20], v, &none, &[])?;
    Ok(ops)
}

fn version_name(v: u64) -> &'static str {
    match v {
        1 => "V1",
        2 => "V2",
        _ => "V3",
    }
}

fn plonk_version(v: u64) -> PlonkVersion {
    match v {
        1 => PlonkVersion::V1,
        2 => PlonkVersion::V2,
        _ => PlonkVersion::V3,
    }
}

/// The event handed to TLC for one triple, or why there is none.
fn make_event(
    items_all: &Value,
    id: u64,
    vbytes: &[u8],
    pbytes: &[u8],
    pis: &[BlsScalar],
    version: u64,
) -> Result<Value, String> {
    let v = parse_verifier(vbytes)?;
    let p = parse_proof(pbytes)?;
    let vn = version_name(version);
    let per_npi = items_all["verifier"][vn].as_array().ok_or("items: no verifier list")?;
    let items = per_npi
        .get(pis.len())
        .and_then(|x| x.as_array())
        .ok_or_else(|| format!("items: no list for {} public inputs", pis.len()))?;
    let (ch, _) = run_items(items, &v, &p, pis)?;
    if v.vk_n >= (1 << 30) || v.rows.iter().any(|r| *r >= (1 << 30)) {
        return Err("size out of TLC integer range".into());
    }
    let mut ev = serde_json::Map::new();
    for name in PROOF_SCALARS {
        ev.insert(name.to_string(), fe_to_json(&p.scalars[&format!("proof.{name}")]));
    }
    let mut chj = serde_json::Map::new();
    for (k, x) in &ch {
        chj.insert(k.clone(), fe_to_json(x));
    }
    Ok(json!({
        "id": id, "version": vn, "vkn": v.vk_n, "rows": v.rows,
        "pis": pis.iter().map(fe_to_json).collect::<Vec<_>>(),
        "ev": ev, "ch": chj,
    }))
}

// ------------------------------------------------------------ scenarios ---

struct Rnd(u64);
impl Rnd {
    fn next(&mut self) -> u64 {
        self.0 = self.0.wrapping_add(0x9e3779b97f4a7c15);
        let mut z = self.0;
        z = (z ^ (z >> 30)).wrapping_mul(0xbf58476d1ce4e5b9);
        z = (z ^ (z >> 27)).wrapping_mul(0x94d049bb133111eb);
        z ^ (z >> 31)
    }
}

struct Fam {
    name: String,
    vid: usize,
    npi: usize,
    // honest proofs: (pid, version, salt, rng stream)
    proofs: Vec<(usize, u64, u64, u64)>,
    pis: HashMap<u64, Vec<BlsScalar>>, // by salt
}

fn hexs(pis: &[BlsScalar]) -> Vec<String> {
    pis.iter().map(fe_hex).collect()
}

fn gen(tier: &str, items_path: &str, out: &str) {
    let seed: u64 = std::env::var("VERIF_SEED").ok().and_then(|s| s.parse().ok()).unwrap_or(1);
    std::fs::create_dir_all(out).unwrap();
    let thorough = tier == "thorough";

    let mut rng = ScriptRng::seeded(0xC03);
    let pp = PublicParameters::setup(1 << 13, &mut rng).expect("setup");

    let mut verifiers: Vec<(Vec<u8>, String)> = Vec::new(); // bytes, family/label
    let mut proofs: Vec<Vec<u8>> = Vec::new();
    let mut fams: Vec<Fam> = Vec::new();

    // "big" (domain 4096) sits on the far side of the 2^12 FFT switch
    let fam_names: Vec<&str> = if thorough {
        let mut v = families::FAMILIES.to_vec();
        v.push("big");
        v
    } else {
        vec!["tiny", "arith", "widgets", "ecc", "big"]
    };
    let items_all: Value =
        serde_json::from_reader(BufReader::new(File::open(items_path).expect("items file")))
            .expect("items json");
    // prover-side transcript comparison ("Binding 2"), one record per honest proof
    let mut ptrace: Vec<Value> = Vec::new();

    for name in &fam_names {
        let prog0 = families::family(name, 0).unwrap();
        let circ0 = ScriptedCircuit::new(prog0.clone());
        let label = format!("c03-{name}");
        dusk_plonk::verif::transcript_trace_start();
        let compiled = Compiler::compile_with_circuit(&pp, label.as_bytes(), &circ0);
        let ops_compile = take_real_ops();
        let (prover, verifier) = compiled.unwrap_or_else(|e| panic!("compile {name}: {e:?}"));
        let vid = verifiers.len();
        let vbytes = verifier.to_bytes();
        verifiers.push((vbytes.clone(), name.to_string()));
        // compilation builds the legacy base transcript twice (prover, verifier)
        let pv = parse_verifier(&vbytes).expect("own verifier bytes");
        let seed_ops = legacy_seed_ops(&items_all, &pv).expect("seed items");
        let twice: Vec<Op> = seed_ops.iter().chain(seed_ops.iter()).cloned().collect();
        let d = diff_ops(&twice, &ops_compile);
        ptrace.push(json!({"family": name, "phase": "compile", "ok": d.is_none(), "diff": d}));
        let mut f = Fam { name: name.to_string(), vid, npi: 0, proofs: vec![], pis: HashMap::new() };
        // honest proofs: V3 x (salt 0, stream 1), (salt 0, stream 2), (salt 1, stream 3); V2 x (salt 0)
        for (version, salt, stream) in [(3u64, 0u64, 1u64), (3, 0, 2), (3, 1, 3), (2, 0, 4)] {
            let circ = ScriptedCircuit::new(families::family(name, salt).unwrap());
            let mut r = ScriptRng::seeded(seed.wrapping_mul(1000) + stream);
            dusk_plonk::verif::transcript_trace_start();
            let proved = prover.prove_with_version(&mut r, &circ, plonk_version(version));
            let ops_prove = take_real_ops();
            let (proof, pis) = proved.unwrap_or_else(|e| panic!("prove {name} v{version}: {e:?}"));
            let pbytes = proof.to_bytes().to_vec();
            // the prover's recorded transcript against Transcript!ProverItems
            let rec = (|| -> Result<Value, String> {
                let pp_ = parse_proof(&pbytes)?;
                let items = items_for(&items_all, "prover", version, pis.len())?;
                let (_, expected) = run_items(items, &pv, &pp_, &pis)?;
                let observed: Vec<Op> = if version == 3 {
                    ops_prove.clone()
                } else {
                    seed_ops.iter().chain(ops_prove.iter()).cloned().collect()
                };
                let d = diff_ops(&expected, &observed);
                // prover and verifier squeeze the same challenges
                let (_, _, ops_verify, _) = real_verdict_traced(&vbytes, &pbytes, &pis, version);
                let chal = |ops: &[Op]| -> Vec<(Vec<u8>, Vec<u8>)> {
                    ops.iter().filter(|o| o.kind == "challenge").map(|o| (o.label.clone(), o.data.clone())).collect()
                };
                let (cp, cv) = (chal(&ops_prove), chal(&ops_verify));
                let same = cp.len() == 10 && cv.len() == 11 && cp[..] == cv[..10];
                Ok(json!({"family": name, "phase": "prove", "version": version, "salt": salt,
                          "ok": d.is_none() && same, "diff": d, "challenges_agree": same,
                          "prover_challenges": cp.len(), "verifier_challenges": cv.len(),
                          "ops": ops_prove.len()}))
            })();
            ptrace.push(rec.unwrap_or_else(|e| json!({"family": name, "phase": "prove", "ok": false, "error": e})));
            f.npi = pis.len();
            f.pis.insert(salt, pis);
            f.proofs.push((proofs.len(), version, salt, stream));
            proofs.push(pbytes);
        }
        fams.push(f);
    }
    {
        let mut w = BufWriter::new(File::create(format!("{out}/prover_trace.ndjson")).unwrap());
        for r in &ptrace {
            writeln!(w, "{}", r).unwrap();
        }
    }
    // a second verifier of the first family under another label (C04 flavour)
    {
        let name = fam_names[0];
        let circ0 = ScriptedCircuit::new(families::family(name, 0).unwrap());
        let (_, verifier) =
            Compiler::compile_with_circuit(&pp, b"c03-other-label", &circ0).expect("compile");
        verifiers.push((verifier.to_bytes(), format!("{name}/other-label")));
    }
    let relabel_vid = verifiers.len() - 1;

    // triples: (kind, family, vid, proof spec, pis, version)
    let mut triples: Vec<Value> = Vec::new();
    let mut push = |kind: &str, fam: &str, vid: usize, proof: Value, pis: &[BlsScalar], version: u64| {
        let id = triples.len();
        triples.push(json!({"id": id, "kind": kind, "family": fam, "vid": vid,
                            "proof": proof, "pis": hexs(pis), "version": version}));
    };

    let mut rnd = Rnd(seed ^ 0xC03C03);
    for (fi, f) in fams.iter().enumerate() {
        // (a) honest proofs under all three verification versions
        for (pid, _pv, salt, _) in &f.proofs {
            for version in [1u64, 2, 3] {
                push("honest", &f.name, f.vid, json!({"base": pid}), &f.pis[salt], version);
            }
        }
        let (pid0, _, _, _) = f.proofs[0];
        let (pid1, _, _, _) = f.proofs[1];
        let (pid_s1, _, _, _) = f.proofs[2];
        let (pid_v2, _, _, _) = f.proofs[3];
        let pis0 = f.pis[&0].clone();

        // (b) single-bit flips of the proof bytes
        let flip_all = thorough && fi < 3;
        let flip_some = !thorough && fi == 1;
        if flip_all || flip_some || fi == 0 {
            for bit in 0..(1008 * 8) {
                let take = flip_all || (rnd.next() % if flip_some || thorough { 10 } else { 40 } == 0);
                if take {
                    push("bitflip", &f.name, f.vid, json!({"base": pid0, "flip": bit}), &pis0, 3);
                }
            }
        }
        if thorough && fi == 0 {
            for bit in 0..(1008 * 8) {
                push("bitflip", &f.name, f.vid, json!({"base": pid_v2, "flip": bit}), &pis0, 2);
            }
        }
        // (c) every field replaced by another valid element
        //     same position from a second proof (other randomness / other witness)
        for i in 0..26 {
            push("field-from-second", &f.name, f.vid,
                 json!({"base": pid0, "field": i, "from": [pid1, i]}), &pis0, 3);
            if thorough || fi < 2 {
                push("field-from-other-witness", &f.name, f.vid,
                     json!({"base": pid0, "field": i, "from": [pid_s1, i]}), &pis0, 3);
                push("field-from-second", &f.name, f.vid,
                     json!({"base": pid_v2, "field": i, "from": [pid0, i]}), &pis0, 2);
            }
        }
        //     another position of the same kind, same proof
        if thorough || fi == 1 {
            for i in 0..26usize {
                for j in 0..26usize {
                    if i != j && ((i < 11) == (j < 11)) {
                        push("field-swap", &f.name, f.vid,
                             json!({"base": pid0, "field": i, "from": [pid0, j]}), &pis0, 3);
                    }
                }
            }
        }
        // (c') two-step forgery of both opening commitments: shift [W_z] by
        //      c([x] - z w [1]), ask the verifier for the resulting u, then shift
        //      [W_zw] by -(c/u)([x] - z [1]). The two shifts cancel in the pairing
        //      equation iff u does not depend on [W_zw] (it must, so: rejected).
        if fi < 2 || f.name == "big" {
            for (pid, version) in [(pid0, 3u64), (pid_v2, 2u64)] {
                match forge_two_step(&pp, &items_all, &verifiers[f.vid].0, &proofs[pid], &pis0, version) {
                    Ok(hex) => push("forgery-two-step", &f.name, f.vid, json!(hex), &pis0, version),
                    Err(e) => eprintln!("forgery-two-step {}: {e}", f.name),
                }
            }
        }
        // (d) proofs shown to verifiers of other circuits
        for g in fams.iter() {
            if g.vid != f.vid {
                let gp: Vec<BlsScalar> = if g.npi == f.npi { pis0.clone() } else { g.pis[&0].clone() };
                for version in [2u64, 3] {
                    push("other-circuit", &f.name, g.vid, json!({"base": pid0}), &gp, version);
                }
            }
        }
        if fi == 0 {
            for version in [1u64, 2, 3] {
                push("other-label", &f.name, relabel_vid, json!({"base": pid0}), &pis0, version);
                push("other-label", &f.name, relabel_vid, json!({"base": pid_v2}), &pis0, version);
            }
        }
        // (e) wrong / permuted / missing / extra public inputs
        for k in 0..pis0.len() {
            let mut w = pis0.clone();
            w[k] += BlsScalar::one();
            push("pi-plus-one", &f.name, f.vid, json!({"base": pid0}), &w, 3);
            let mut w = pis0.clone();
            w[k] = BlsScalar::zero();
            push("pi-zeroed", &f.name, f.vid, json!({"base": pid0}), &w, 3);
            let mut w = pis0.clone();
            w[k] = -w[k];
            push("pi-negated", &f.name, f.vid, json!({"base": pid_v2}), &w, 2);
            for j in (k + 1)..pis0.len() {
                if pis0[j] != pis0[k] {
                    let mut w = pis0.clone();
                    w.swap(j, k);
                    push("pi-swapped", &f.name, f.vid, json!({"base": pid0}), &w, 3);
                }
            }
        }
        if !pis0.is_empty() {
            push("pi-dropped", &f.name, f.vid, json!({"base": pid0}), &pis0[..pis0.len() - 1], 3);
        }
        let mut w = pis0.clone();
        w.push(BlsScalar::from(5u64));
        push("pi-extra", &f.name, f.vid, json!({"base": pid0}), &w, 3);
        // the other witness' public inputs with this proof and vice versa
        push("pi-of-other-witness", &f.name, f.vid, json!({"base": pid0}), &f.pis[&1], 3);
        push("pi-of-other-witness", &f.name, f.vid, json!({"base": pid_s1}), &pis0, 3);
    }

    // write tables
    {
        let mut w = BufWriter::new(File::create(format!("{out}/verifiers.ndjson")).unwrap());
        for (vid, (b, fam)) in verifiers.iter().enumerate() {
            writeln!(w, "{}", json!({"vid": vid, "family": fam, "hex": hex_bytes(b)})).unwrap();
        }
    }
    {
        let mut w = BufWriter::new(File::create(format!("{out}/proofs.ndjson")).unwrap());
        for (pid, b) in proofs.iter().enumerate() {
            writeln!(w, "{}", json!({"pid": pid, "hex": hex_bytes(b)})).unwrap();
        }
    }
    {
        let mut w = BufWriter::new(File::create(format!("{out}/triples.ndjson")).unwrap());
        for t in &triples {
            writeln!(w, "{}", t).unwrap();
        }
    }

    let stats = events(items_path, out);
    println!("{}", json!({"triples": triples.len(), "verifiers": verifiers.len(), "prover_traces": ptrace.len(),
                          "proofs": proofs.len(), "events": stats["events"], "no_event": stats["no_event"]}));
}

/// `refverify programs`: the same tables as `gen`, built from caller-supplied
/// scripted programs (stdin NDJSON {"id":.., "ops":[..]}; honest, satisfiable)
/// instead of the built-in families. Per program: compile, prove (V3,
/// `ScriptRng`), record the prover's transcript against `ProverItems`, and
/// emit the honest triple plus cheap mutations (first public input + 1, a_eval
/// replaced by b_eval, a_comm replaced by b_comm).
fn programs(items_path: &str, out: &str) {
    quiet_panics();
    let seed: u64 = std::env::var("VERIF_SEED").ok().and_then(|s| s.parse().ok()).unwrap_or(1);
    std::fs::create_dir_all(out).unwrap();
    let items_all: Value =
        serde_json::from_reader(BufReader::new(File::open(items_path).expect("items file")))
            .expect("items json");
    let mut pps: HashMap<usize, PublicParameters> = HashMap::new();
    let mut verifiers: Vec<(Vec<u8>, String)> = Vec::new();
    let mut proofs: Vec<Vec<u8>> = Vec::new();
    let mut triples: Vec<Value> = Vec::new();
    let mut ptrace: Vec<Value> = Vec::new();
    let mut skipped: Vec<Value> = Vec::new();

    let stdin = std::io::stdin();
    for (k, line) in stdin.lock().lines().enumerate() {
        let line = line.unwrap();
        if !line.trim_start().starts_with('{') {
            continue;
        }
        let sc: Value = serde_json::from_str(&line).expect("program json");
        let id = sc.get("id").map(|v| v.as_str().map(|s| s.to_string()).unwrap_or_else(|| v.to_string()))
            .unwrap_or_else(|| format!("program-{k}"));
        let prog = match Program::from_json(&sc) {
            Ok(p) => p,
            Err(e) => {
                skipped.push(json!({"program": id, "why": format!("bad program: {e}")}));
                continue;
            }
        };
        // size the SRS from the program's own constraint count
        let mut c = Composer::initialized();
        if let Err(e) = run_program(&prog, &mut c, None) {
            let why = match e {
                RunError::Lib(e) => format!("compose: err:{}", err_class(&e)),
                RunError::Bad(s) => format!("compose: bad:{s}"),
            };
            skipped.push(json!({"program": id, "why": why}));
            continue;
        }
        let cap = (c.constraints() + 6).next_power_of_two().max(1 << 10);
        let pp = pps.entry(cap).or_insert_with(|| {
            let mut rng = ScriptRng::seeded(0xC03 ^ cap as u64);
            PublicParameters::setup(cap, &mut rng).expect("setup")
        });
        let circ = ScriptedCircuit::new(prog.clone());
        let label = format!("ref-{id}");
        let compiled = guarded(|| Compiler::compile_with_circuit(pp, label.as_bytes(), &circ));
        let (prover, verifier) = match compiled {
            Ok(Ok(pv)) => pv,
            other => {
                skipped.push(json!({"program": id, "why": format!("compile: {}", outcome(&other))}));
                continue;
            }
        };
        let vbytes = verifier.to_bytes();
        let mut rng = ScriptRng::seeded(seed.wrapping_mul(7919).wrapping_add(k as u64));
        dusk_plonk::verif::transcript_trace_start();
        let proved = guarded(|| prover.prove_with_version(&mut rng, &circ, PlonkVersion::V3));
        let ops_prove = take_real_ops();
        let (proof, pis) = match proved {
            Ok(Ok(pp_)) => pp_,
            other => {
                skipped.push(json!({"program": id, "why": format!("prove: {}", outcome(&other))}));
                continue;
            }
        };
        let pbytes = proof.to_bytes().to_vec();
        let rec = (|| -> Result<Value, String> {
            let pv = parse_verifier(&vbytes)?;
            let pp_ = parse_proof(&pbytes)?;
            let items = items_for(&items_all, "prover", 3, pis.len())?;
            let (_, expected) = run_items(items, &pv, &pp_, &pis)?;
            let d = diff_ops(&expected, &ops_prove);
            Ok(json!({"family": id, "phase": "prove", "version": 3, "salt": 0,
                      "ok": d.is_none(), "diff": d, "ops": ops_prove.len()}))
        })();
        ptrace.push(rec.unwrap_or_else(|e| json!({"family": id, "phase": "prove", "ok": false, "error": e})));

        let vid = verifiers.len();
        verifiers.push((vbytes, id.clone()));
        let pid = proofs.len();
        proofs.push(pbytes);
        let mut push = |kind: &str, proof: Value, pis: &[BlsScalar]| {
            let tid = triples.len();
            triples.push(json!({"id": tid, "kind": kind, "family": id, "vid": vid,
                                "proof": proof, "pis": hexs(pis), "version": 3}));
        };
        push("honest", json!({"base": pid}), &pis);
        if !pis.is_empty() {
            let mut w = pis.clone();
            w[0] += BlsScalar::one();
            push("pi-plus-one", json!({"base": pid}), &w);
        }
        push("field-swap", json!({"base": pid, "field": 11, "from": [pid, 12]}), &pis);
        push("field-swap", json!({"base": pid, "field": 0, "from": [pid, 1]}), &pis);
    }
    {
        let mut w = BufWriter::new(File::create(format!("{out}/verifiers.ndjson")).unwrap());
        for (vid, (b, fam)) in verifiers.iter().enumerate() {
            writeln!(w, "{}", json!({"vid": vid, "family": fam, "hex": hex_bytes(b)})).unwrap();
        }
        let mut w = BufWriter::new(File::create(format!("{out}/proofs.ndjson")).unwrap());
        for (pid, b) in proofs.iter().enumerate() {
            writeln!(w, "{}", json!({"pid": pid, "hex": hex_bytes(b)})).unwrap();
        }
        let mut w = BufWriter::new(File::create(format!("{out}/triples.ndjson")).unwrap());
        for t in &triples {
            writeln!(w, "{}", t).unwrap();
        }
        let mut w = BufWriter::new(File::create(format!("{out}/prover_trace.ndjson")).unwrap());
        for r in &ptrace {
            writeln!(w, "{}", r).unwrap();
        }
    }
    let stats = events(items_path, out);
    println!("{}", json!({"triples": triples.len(), "verifiers": verifiers.len(), "proofs": proofs.len(),
                          "prover_traces": ptrace.len(), "events": stats["events"],
                          "no_event": stats["no_event"], "skipped": skipped}));
}

/// Writes DIR/events.ndjson for the triples of DIR (tables on disk).
fn events(items_path: &str, dir: &str) -> Value {
    let items_all: Value =
        serde_json::from_reader(BufReader::new(File::open(items_path).expect("items file")))
            .expect("items json");
    let vb: Vec<Vec<u8>> = read_ndjson(&format!("{dir}/verifiers.ndjson"))
        .iter()
        .map(|v| bytes_from_hex(v["hex"].as_str().unwrap()).unwrap())
        .collect();
    let proofs: Vec<Vec<u8>> = read_ndjson(&format!("{dir}/proofs.ndjson"))
        .iter()
        .map(|v| bytes_from_hex(v["hex"].as_str().unwrap()).unwrap())
        .collect();
    let triples = read_ndjson(&format!("{dir}/triples.ndjson"));
    let events: Vec<(u64, Result<Value, String>)> = triples
        .par_iter()
        .map(|t| {
            let id = t["id"].as_u64().unwrap();
            let pb = match resolve_proof(&t["proof"], &proofs) {
                Ok(b) => b,
                Err(e) => return (id, Err(e)),
            };
            let pis: Vec<BlsScalar> =
                t["pis"].as_array().unwrap().iter().map(|h| fe_from_json(h).unwrap()).collect();
            let vid = t["vid"].as_u64().unwrap() as usize;
            (id, make_event(&items_all, id, &vb[vid], &pb, &pis, t["version"].as_u64().unwrap()))
        })
        .collect();
    let mut w = BufWriter::new(File::create(format!("{dir}/events.ndjson")).unwrap());
    let mut n_ev = 0usize;
    let mut skipped: HashMap<String, usize> = HashMap::new();
    for (_, e) in &events {
        match e {
            Ok(ev) => {
                writeln!(w, "{}", ev).unwrap();
                n_ev += 1;
            }
            Err(why) => *skipped.entry(why.clone()).or_default() += 1,
        }
    }
    json!({"events": n_ev, "no_event": skipped})
}

/// Adversarial triple: see (c') in `gen`. Uses the SRS element [x]_1, the
/// challenge z of the reference transcript and, as the adversary's oracle, the
/// u the real verifier squeezes on the half-forged proof.
fn forge_two_step(
    pp: &PublicParameters,
    items_all: &Value,
    vbytes: &[u8],
    pbytes: &[u8],
    pis: &[BlsScalar],
    version: u64,
) -> Result<String, String> {
    let v = parse_verifier(vbytes)?;
    let p = parse_proof(pbytes)?;
    let items = items_for(items_all, "verifier", version, pis.len())?;
    let (ch, _) = run_items(items, &v, &p, pis)?;
    let z = *ch.get("z").ok_or("no z")?;
    let omega = dusk_plonk::verif::domain_params(v.vk_n as usize).map_err(|e| format!("{e:?}"))?.1;
    let p0 = g1(&dusk_plonk::verif::srs_power(pp, 0).ok_or("srs[0]")?)?;
    let p1 = g1(&dusk_plonk::verif::srs_power(pp, 1).ok_or("srs[1]")?)?;
    let c = BlsScalar::from(7u64);
    let w_z = p.points["proof.w_z_chall_comm"];
    let w_zw = p.points["proof.w_z_chall_w_comm"];
    let shift1 = (G1Projective::from(p1) - p0 * (z * omega)) * c;
    let w_z2 = G1Affine::from(G1Projective::from(w_z) + shift1);
    let mut b = pbytes.to_vec();
    b[48 * 9..48 * 10].copy_from_slice(&w_z2.to_bytes());
    let (_, _, ops, _) = real_verdict_traced(vbytes, &b, pis, version);
    let u = ops.iter().rev().find(|o| o.kind == "challenge").ok_or("no challenge recorded")?;
    let ub: [u8; 32] = u.data.clone().try_into().map_err(|_| "challenge bytes")?;
    let u = <BlsScalar as Serializable<32>>::from_bytes(&ub).map_err(|e| format!("{e:?}"))?;
    let uinv: Option<BlsScalar> = u.invert().into();
    let d = -(c * uinv.ok_or("u = 0")?);
    let shift2 = (G1Projective::from(p1) - p0 * z) * d;
    let w_zw2 = G1Affine::from(G1Projective::from(w_zw) + shift2);
    b[48 * 10..48 * 11].copy_from_slice(&w_zw2.to_bytes());
    Ok(hex_bytes(&b))
}

/// Proof bytes of a triple's proof spec.
fn resolve_proof(spec: &Value, proofs: &[Vec<u8>]) -> Result<Vec<u8>, String> {
    if let Some(h) = spec.as_str() {
        return bytes_from_hex(h);
    }
    let base = spec["base"].as_u64().ok_or("proof spec without base")? as usize;
    let mut b = proofs.get(base).ok_or("bad base proof")?.clone();
    if let Some(bit) = spec.get("flip").and_then(|x| x.as_u64()) {
        let bit = bit as usize;
        b[bit / 8] ^= 1 << (bit % 8);
    }
    if let Some(i) = spec.get("field").and_then(|x| x.as_u64()) {
        let from = spec["from"].as_array().ok_or("field without from")?;
        let src = proofs.get(from[0].as_u64().unwrap() as usize).ok_or("bad from proof")?;
        let j = from[1].as_u64().unwrap() as usize;
        let range = |k: usize| if k < 11 { 48 * k..48 * (k + 1) } else { 528 + 32 * (k - 11)..528 + 32 * (k - 10) };
        let (ri, rj) = (range(i as usize), range(j));
        if ri.len() != rj.len() {
            return Err("field kinds differ".into());
        }
        let s = src[rj].to_vec();
        b[ri].copy_from_slice(&s);
    }
    Ok(b)
}

// ---------------------------------------------------------------- judge ---

fn read_ndjson(path: &str) -> Vec<Value> {
    BufReader::new(File::open(path).unwrap_or_else(|e| panic!("{path}: {e}")))
        .lines()
        .map(|l| l.unwrap())
        .filter(|l| l.trim_start().starts_with('{'))
        .map(|l| serde_json::from_str(&l).expect("ndjson"))
        .collect()
}

fn msm_named(
    terms: &Value,
    v: &ParsedVerifier,
    p: &ParsedProof,
) -> Result<G1Projective, String> {
    let mut pts = Vec::new();
    let mut scs = Vec::new();
    for t in terms.as_array().ok_or("terms")? {
        let name = t[0].as_str().ok_or("term name")?;
        let pt = v
            .points
            .get(name)
            .or_else(|| p.points.get(name))
            .ok_or_else(|| format!("unknown point {name}"))?;
        pts.push(*pt);
        scs.push(fe_from_json(&t[1])?);
    }
    Ok(msm_variable_base(&pts, &scs))
}

/// Reference verdict from the specification's scalar maps.
fn reference_verdict(sc: &Value, vbytes: &[u8], pbytes: &[u8]) -> String {
    let status = sc["status"].as_str().unwrap_or("?");
    if status != "ok" {
        return status.to_string();
    }
    let v = match parse_verifier(vbytes) {
        Ok(v) => v,
        Err(e) => return format!("error:{e}"),
    };
    let p = match parse_proof(pbytes) {
        Ok(p) => p,
        Err(e) => return format!("error:{e}"),
    };
    let right = match msm_named(&sc["right"], &v, &p) {
        Ok(x) => x,
        Err(e) => return format!("error:{e}"),
    };
    let left = match msm_named(&sc["left"], &v, &p) {
        Ok(x) => x,
        Err(e) => return format!("error:{e}"),
    };
    let left = G1Affine::from(left);
    let right = G1Affine::from(right);
    let x_h = G2Prepared::from(v.x_h);
    let h = G2Prepared::from(v.h);
    let r = multi_miller_loop(&[(&left, &x_h), (&right, &h)]).final_exponentiation();
    if r == Gt::identity() {
        "accept".to_string()
    } else {
        "reject:pairing".to_string()
    }
}

fn real_verdict(vbytes: &[u8], pbytes: &[u8], pis: &[BlsScalar], version: u64) -> String {
    real_verdict_traced(vbytes, pbytes, pis, version).0
}

/// The implementation's verdict together with the transcript operations it
/// recorded while constructing the verifier and while verifying (the trace
/// hook is process-wide: call from one thread at a time).
fn real_verdict_traced(
    vbytes: &[u8],
    pbytes: &[u8],
    pis: &[BlsScalar],
    version: u64,
) -> (String, Vec<Op>, Vec<Op>, bool) {
    let mut ops_new = Vec::new();
    let mut ops_verify = Vec::new();
    let mut reached = false;
    let r = guarded(|| {
        dusk_plonk::verif::transcript_trace_start();
        let verifier = Verifier::try_from_bytes(vbytes);
        ops_new = take_real_ops();
        let verifier = verifier?;
        let proof = Proof::from_slice(pbytes).map_err(Error::from)?;
        reached = true;
        dusk_plonk::verif::transcript_trace_start();
        let r = verifier.verify_with_version(&proof, pis, plonk_version(version));
        ops_verify = take_real_ops();
        r
    });
    if r.is_err() {
        let _ = dusk_plonk::verif::transcript_trace_take();
    }
    let verdict = match &r {
        Ok(Ok(())) => "accept".to_string(),
        Ok(Err(e)) => format!("reject:{}", err_class(e)),
        Err(p) => format!("panic:{}", p.chars().take(120).collect::<String>()),
    };
    (verdict, ops_new, ops_verify, reached)
}

/// Compares what the real verifier did to its transcript with the
/// specification's item list executed on the same data. `Ok(None)` = the
/// comparison does not apply (the verifier rejects before any transcript use).
fn compare_verifier_transcript(
    items_all: &Value,
    vbytes: &[u8],
    pbytes: &[u8],
    pis: &[BlsScalar],
    version: u64,
    ops_new: &[Op],
    ops_verify: &[Op],
) -> Result<Option<Value>, String> {
    let v = parse_verifier(vbytes)?;
    let p = parse_proof(pbytes)?;
    let seed = legacy_seed_ops(items_all, &v)?;
    // construction always seeds the legacy base transcript
    if let Some(d) = diff_ops(&seed, ops_new) {
        return Ok(Some(json!({"phase": "construction", "diff": d})));
    }
    if pis.len() != v.rows.len() {
        return Ok(None);
    }
    let items = items_for(items_all, "verifier", version, pis.len())?;
    let (_, expected) = run_items(items, &v, &p, pis)?;
    // V1/V2 verify on a clone of the transcript built at construction
    let observed: Vec<Op> = if version == 3 {
        ops_verify.to_vec()
    } else {
        ops_new.iter().chain(ops_verify.iter()).cloned().collect()
    };
    Ok(diff_ops(&expected, &observed).map(|d| json!({"phase": "verify", "diff": d})))
}

fn judge(dir: &str, items_path: Option<&str>) {
    quiet_panics();
    let verifiers: Vec<Vec<u8>> = read_ndjson(&format!("{dir}/verifiers.ndjson"))
        .iter()
        .map(|v| bytes_from_hex(v["hex"].as_str().unwrap()).unwrap())
        .collect();
    let proofs: Vec<Vec<u8>> = read_ndjson(&format!("{dir}/proofs.ndjson"))
        .iter()
        .map(|v| bytes_from_hex(v["hex"].as_str().unwrap()).unwrap())
        .collect();
    let triples = read_ndjson(&format!("{dir}/triples.ndjson"));
    let mut scalars: HashMap<u64, Value> = HashMap::new();
    for s in read_ndjson(&format!("{dir}/scalars.ndjson")) {
        scalars.insert(s["id"].as_u64().unwrap(), s);
    }
    // pass 1 (sequential: the trace hook is process-wide): the implementation's
    // verdict and its transcript, compared with the specification's item list
    let items_all: Option<Value> = items_path.map(|p| {
        serde_json::from_reader(BufReader::new(File::open(p).expect("items file"))).expect("items json")
    });
    let real_pass: Vec<(String, Value)> = triples
        .iter()
        .map(|t| {
            let vid = t["vid"].as_u64().unwrap() as usize;
            let version = t["version"].as_u64().unwrap();
            let pis: Vec<BlsScalar> =
                t["pis"].as_array().unwrap().iter().map(|h| fe_from_json(h).unwrap()).collect();
            let pb = resolve_proof(&t["proof"], &proofs).expect("proof spec");
            let (real, ops_new, ops_verify, reached) =
                real_verdict_traced(&verifiers[vid], &pb, &pis, version);
            let tr = match (&items_all, reached) {
                (Some(items), true) => match compare_verifier_transcript(
                    items, &verifiers[vid], &pb, &pis, version, &ops_new, &ops_verify,
                ) {
                    Ok(None) => json!({"compared": pis.len() == parse_verifier(&verifiers[vid]).map(|v| v.rows.len()).unwrap_or(0), "ok": true}),
                    Ok(Some(d)) => json!({"compared": true, "ok": false, "phase": d["phase"], "diff": d["diff"]}),
                    Err(e) => json!({"compared": false, "ok": true, "why": e}),
                },
                _ => json!({"compared": false, "ok": true}),
            };
            (real, tr)
        })
        .collect();

    let results: Vec<Value> = triples
        .par_iter()
        .zip(real_pass.par_iter())
        .map(|(t, (real, tr))| {
            let id = t["id"].as_u64().unwrap();
            let vid = t["vid"].as_u64().unwrap() as usize;
            let version = t["version"].as_u64().unwrap();
            let pis: Vec<BlsScalar> =
                t["pis"].as_array().unwrap().iter().map(|h| fe_from_json(h).unwrap()).collect();
            let pb = resolve_proof(&t["proof"], &proofs).expect("proof spec");
            let real = real.clone();
            let reference = match scalars.get(&id) {
                Some(sc) => reference_verdict(sc, &verifiers[vid], &pb),
                None => match parse_proof(&pb) {
                    Err(_) => "reject:decode".to_string(),
                    Ok(_) => "error:no-scalars".to_string(),
                },
            };
            let acc = |s: &str| s == "accept";
            let decided = |s: &str| s == "accept" || s.starts_with("reject:");
            let agree = decided(&real) && decided(&reference) && acc(&real) == acc(&reference);
            // a mutation that reproduces the base proof is not a mutation
            let unchanged = t["proof"].get("flip").is_some() || t["proof"].get("field").is_some();
            let unchanged = unchanged
                && t["proof"]["base"].as_u64().map(|b| proofs[b as usize] == pb).unwrap_or(false);
            let mut r = json!({"id": id, "kind": t["kind"], "family": t["family"], "version": version,
                               "real": real, "ref": reference, "agree": agree,
                               "proof": t["proof"], "npi": pis.len(), "vid": vid,
                               "same_as_base": unchanged, "tr": tr});
            if !agree || tr["ok"] == json!(false) {
                r["replay"] = json!({"verifier": hex_bytes(&verifiers[vid]), "proof": hex_bytes(&pb),
                                     "pis": hexs(&pis), "version": version});
            }
            r
        })
        .collect();
    let out = std::io::stdout();
    let mut out = BufWriter::new(out.lock());
    for r in results {
        writeln!(out, "{}", r).unwrap();
    }
}

fn one(items_path: &str) {
    let items_all: Value =
        serde_json::from_reader(BufReader::new(File::open(items_path).expect("items file")))
            .expect("items json");
    let mut s = String::new();
    std::io::Read::read_to_string(&mut std::io::stdin(), &mut s).unwrap();
    let t: Value = serde_json::from_str(&s).expect("triple json");
    let vb = bytes_from_hex(t["verifier"].as_str().unwrap()).unwrap();
    let pb = bytes_from_hex(t["proof"].as_str().unwrap()).unwrap();
    let pis: Vec<BlsScalar> =
        t["pis"].as_array().unwrap().iter().map(|h| fe_from_json(h).unwrap()).collect();
    let version = t["version"].as_u64().unwrap();
    match make_event(&items_all, 0, &vb, &pb, &pis, version) {
        Ok(ev) => println!("{}", ev),
        Err(e) => println!("{}", json!({"no_event": e})),
    }
    println!("{}", json!({"real": real_verdict(&vb, &pb, &pis, version)}));
}

fn arg(args: &[String], name: &str) -> Option<String> {
    args.iter().position(|a| a == name).and_then(|i| args.get(i + 1)).cloned()
}

fn main() {
    let args: Vec<String> = std::env::args().collect();
    match args.get(1).map(|s| s.as_str()) {
        Some("gen") => gen(
            &arg(&args, "--tier").unwrap_or_else(|| "quick".into()),
            &arg(&args, "--items").expect("--items"),
            &arg(&args, "--out").expect("--out"),
        ),
        Some("programs") => programs(
            &arg(&args, "--items").expect("--items"),
            &arg(&args, "--out").expect("--out"),
        ),
        Some("judge") => judge(&arg(&args, "--dir").expect("--dir"), arg(&args, "--items").as_deref()),
        Some("events") => println!(
            "{}",
            events(&arg(&args, "--items").expect("--items"), &arg(&args, "--dir").expect("--dir"))
        ),
        Some("one") => one(&arg(&args, "--items").expect("--items")),
        _ => {
            eprintln!("usage: refverify gen|judge|one ...");
            std::process::exit(2);
        }
    }
}
