//! C05 recorder: runs prove scenarios against the real prover and records,
//! for each, the compiled description, the instance and the outcome.
//!
//! stdin: NDJSON scenarios
//!   {"id":..,"cap":1024?, "compile":PROGRAM, "prove":PROGRAM?|null,
//!    "perturb": null | {"mode":"each"|"sample"|"rewire","n":k,"delta":FE?},
//!    "version":3}
//! stdout: NDJSON events (see DESIGN C.1 `prove`), one per proved instance.
//!
//! Perturbation: for `each`/`sample`, the instance program is the prove
//! program followed by one `set_witness` on witness w (value += delta,
//! default 1), for every (resp. n seeded) witness index w >= 2.
//!
//! `rewire`: the instance is the prove program's composer replayed row by row
//! as raw gates (same selectors, same public-input rows) with ONE wire
//! position wired to a fresh witness -- of the same value (`rewire-equal`), or
//! of the value + delta with the row's public input re-solved so that the row
//! itself still holds (`rewire-shift`).  Every wire of every public-input row
//! is a target, plus n seeded positions elsewhere.  The copy constraints of
//! the COMPILED description decide what the prover must answer.

use std::collections::HashMap;
use std::io::{BufRead, Write};

use dusk_bls12_381::BlsScalar;
use dusk_plonk::prelude::*;
use dusk_plonk::verif::VerifSnapshot;
use plonk_conf::fe::*;
use plonk_conf::prog::*;
use plonk_conf::rng::ScriptRng;
use plonk_conf::util::*;
use serde_json::{json, Value};

struct Dict {
    map: HashMap<[u8; 32], usize>,
    vals: Vec<BlsScalar>,
}

impl Dict {
    fn new() -> Self {
        Self { map: HashMap::new(), vals: Vec::new() }
    }
    fn id(&mut self, x: &BlsScalar) -> usize {
        let k = x.to_bytes();
        if let Some(i) = self.map.get(&k) {
            return *i;
        }
        self.vals.push(*x);
        let i = self.vals.len();
        self.map.insert(k, i);
        i
    }
}

fn compose(p: &Program) -> Result<Composer, String> {
    let mut c = Composer::initialized();
    match run_program(p, &mut c, None) {
        Ok(()) => Ok(c),
        Err(RunError::Lib(e)) => Err(format!("err:{}", err_class(&e))),
        Err(RunError::Bad(s)) => Err(format!("bad:{s}")),
    }
}

/// The composer state `snap` as a program of raw rows on top of
/// `Composer::initialized()` (`init`), optionally with wire `k` of row `r`
/// wired to a fresh witness of value `v` and that row's public input set to
/// `pi`.
fn raw_program(
    snap: &VerifSnapshot,
    init: &VerifSnapshot,
    rewire: Option<(usize, usize, BlsScalar, Option<BlsScalar>)>,
) -> Program {
    let mut ops: Vec<Value> = Vec::new();
    for w in init.witnesses.len()..snap.witnesses.len() {
        ops.push(json!({"op":"witness","v":fe_hex(&snap.witnesses[w])}));
    }
    if let Some((_, _, v, _)) = &rewire {
        ops.push(json!({"op":"witness","v":fe_hex(v)}));
    }
    let fresh = snap.witnesses.len();
    for (i, row) in snap.rows.iter().enumerate().skip(init.rows.len()) {
        let mut wires: Vec<usize> = row.wires.to_vec();
        let mut pi = snap.public_inputs.iter().find(|(r, _)| *r == i).map(|(_, v)| *v);
        if let Some((r, k, _, npi)) = &rewire {
            if *r == i {
                wires[*k] = fresh;
                if npi.is_some() {
                    pi = *npi;
                }
            }
        }
        let mut op = json!({
            "op": "raw",
            "sel": row.selectors.iter().map(fe_hex).collect::<Vec<_>>(),
            "w": wires,
        });
        if let Some(pi) = pi {
            op["pi"] = json!(fe_hex(&pi));
        }
        ops.push(op);
    }
    Program::from_json(&json!({"ops": ops})).expect("raw program")
}

fn main() {
    quiet_panics();
    let seed: u64 = std::env::var("VERIF_SEED").ok().and_then(|s| s.parse().ok()).unwrap_or(1);
    let stdin = std::io::stdin();
    let out = std::io::stdout();
    let mut out = out.lock();
    let mut pps: HashMap<usize, PublicParameters> = HashMap::new();
    let mut n_events = 0usize;

    for line in stdin.lock().lines() {
        let line = line.unwrap();
        if !line.trim_start().starts_with('{') {
            continue;
        }
        let sc: Value = serde_json::from_str(&line).expect("scenario json");
        let id = sc.get("id").cloned().unwrap_or(json!(0));
        let cap = sc.get("cap").and_then(|c| c.as_u64()).unwrap_or(1 << 12) as usize;
        let version = match sc.get("version").and_then(|v| v.as_u64()).unwrap_or(3) {
            1 => PlonkVersion::V1,
            2 => PlonkVersion::V2,
            _ => PlonkVersion::V3,
        };
        let compile_prog = Program::from_json(&sc["compile"]).expect("compile program");
        let prove_prog = match sc.get("prove") {
            Some(p) if !p.is_null() => Program::from_json(p).expect("prove program"),
            _ => compile_prog.clone(),
        };

        let pp = pps.entry(cap).or_insert_with(|| {
            let mut rng = ScriptRng::seeded(0xC05 ^ cap as u64);
            PublicParameters::setup(cap, &mut rng).expect("setup")
        });

        // compiled description
        let ccomp = match compose(&compile_prog) {
            Ok(c) => c,
            Err(e) => {
                writeln!(out, "{}", json!({"ev":"skip","id":id,"why":format!("compile program: {e}")})).unwrap();
                continue;
            }
        };
        let csnap = ccomp.verif_snapshot();
        let circ_c = ScriptedCircuit::new(compile_prog.clone());
        let compiled = guarded(|| Compiler::compile_with_circuit(pp, b"c05", &circ_c));
        let (prover, verifier) = match compiled {
            Ok(Ok(pv)) => pv,
            other => {
                writeln!(out, "{}", json!({"ev":"skip","id":id,"why":format!("compile: {}", outcome(&other))})).unwrap();
                continue;
            }
        };

        // instance programs
        let mut instances: Vec<(Value, Program)> = Vec::new();
        match sc.get("perturb") {
            Some(p) if !p.is_null() => {
                let base = match compose(&prove_prog) {
                    Ok(c) => c,
                    Err(e) => {
                        writeln!(out, "{}", json!({"ev":"skip","id":id,"why":format!("prove program: {e}")})).unwrap();
                        continue;
                    }
                };
                let bsnap = base.verif_snapshot();
                let nw = bsnap.witnesses.len();
                let delta = p.get("delta").map(|d| fe_from_json(d).unwrap()).unwrap_or(BlsScalar::one());
                let mode = p.get("mode").and_then(|m| m.as_str()).unwrap_or("each");
                if mode == "rewire" {
                    let init = Composer::initialized().verif_snapshot();
                    let n = p.get("n").and_then(|n| n.as_u64()).unwrap_or(8) as usize;
                    let first = init.rows.len();
                    let rows = bsnap.rows.len();
                    let mut pos: Vec<(usize, usize)> = Vec::new();
                    for (r, _) in bsnap.public_inputs.iter() {
                        if *r >= first {
                            for k in 0..4 {
                                pos.push((*r, k));
                            }
                        }
                    }
                    // every wire of the rows that activate no selector (the accumulator rows the
                    // range / logic / fixed-base widgets read as "next row"): only the copy
                    // constraints bind them
                    let mut anchors = 0usize;
                    for r in first..rows {
                        if bsnap.rows[r].selectors.iter().all(|q| *q == BlsScalar::zero()) && anchors < 3 * n {
                            anchors += 1;
                            for k in 0..4 {
                                pos.push((r, k));
                            }
                        }
                    }
                    if rows > first {
                        let mut s = seed ^ 0x51ed270b7f4a7c15u64.wrapping_mul(n_events as u64 + 1);
                        for _ in 0..n {
                            s = s.wrapping_mul(6364136223846793005).wrapping_add(1442695040888963407);
                            let r = first + ((s >> 33) as usize) % (rows - first);
                            let k = ((s >> 13) as usize) % 4;
                            pos.push((r, k));
                        }
                    }
                    pos.sort();
                    pos.dedup();
                    instances.push((json!({"kind":"raw-honest"}), raw_program(&bsnap, &init, None)));
                    for (r, k) in pos {
                        let old = bsnap.witnesses[bsnap.rows[r].wires[k]];
                        instances.push((
                            json!({"kind":"rewire-equal","row":r,"wire":k}),
                            raw_program(&bsnap, &init, Some((r, k, old, None))),
                        ));
                        // shifted value; a public-input row is re-solved so that it still holds
                        let nv = old + delta;
                        let q = &bsnap.rows[r].selectors;
                        let mut v: Vec<BlsScalar> =
                            bsnap.rows[r].wires.iter().map(|w| bsnap.witnesses[*w]).collect();
                        v[k] = nv;
                        let has_pi = bsnap.public_inputs.iter().any(|(pr, _)| *pr == r);
                        let npi = if has_pi {
                            let sum = q[0] * v[0] * v[1] + q[1] * v[0] + q[2] * v[1] + q[3] * v[2] + q[4] * v[3] + q[5];
                            Some(-(q[6] * sum))
                        } else {
                            None
                        };
                        instances.push((
                            json!({"kind":"rewire-shift","row":r,"wire":k}),
                            raw_program(&bsnap, &init, Some((r, k, nv, npi))),
                        ));
                    }
                }
                let targets: Vec<usize> = if mode == "rewire" {
                    Vec::new()
                } else if mode == "each" {
                    (2..nw).collect()
                } else {
                    let n = p.get("n").and_then(|n| n.as_u64()).unwrap_or(8) as usize;
                    let mut s = seed ^ 0x9e3779b97f4a7c15u64.wrapping_mul(n_events as u64 + 1);
                    let mut t: Vec<usize> = (0..n)
                        .map(|_| {
                            s = s.wrapping_mul(6364136223846793005).wrapping_add(1442695040888963407);
                            2 + ((s >> 33) as usize) % (nw.max(3) - 2)
                        })
                        .collect();
                    t.sort();
                    t.dedup();
                    t
                };
                if mode != "rewire" {
                    instances.push((json!({"kind":"honest"}), prove_prog.clone()));
                }
                for w in targets {
                    let mut pr = prove_prog.clone();
                    let nv = bsnap.witnesses[w] + delta;
                    pr.ops.push(json!({"op":"set_witness","w":w,"v":fe_hex(&nv)}));
                    instances.push((json!({"kind":"set","w":w}), pr));
                }
            }
            _ => instances.push((json!({"kind":"as-given"}), prove_prog.clone())),
        }

        // base event: compiled description + honest table of the prove program
        let mut d = Dict::new();
        let sel: Vec<Vec<usize>> = csnap
            .rows
            .iter()
            .map(|r| r.selectors.iter().map(|s| d.id(s)).collect())
            .collect();
        let cls: Vec<Vec<usize>> = csnap
            .rows
            .iter()
            .map(|r| r.wires.iter().map(|w| w + 1).collect())
            .collect();
        let cpi: Vec<usize> = csnap.public_inputs.iter().map(|(i, _)| i + 1).collect();
        let base_tab: Vec<BlsScalar> = match compose(&prove_prog) {
            Ok(c) => c.verif_snapshot().witnesses,
            Err(_) => csnap.witnesses.clone(),
        };
        let tab: Vec<usize> = base_tab.iter().map(|w| d.id(w)).collect();
        let ev = json!({
            "ev": "base", "id": id,
            "c": csnap.rows.len(),
            "size": csnap.rows.len().next_power_of_two(),
            "sel": sel, "cls": cls, "cpi": cpi, "tab": tab,
            "dict": d.vals.iter().map(fe_to_json).collect::<Vec<_>>(),
        });
        writeln!(out, "{}", ev).unwrap();

        for (k, (what, prog)) in instances.iter().enumerate() {
            let inst = match compose(prog) {
                Ok(c) => c,
                Err(e) => {
                    writeln!(out, "{}", json!({"ev":"skip","id":id,"why":format!("instance: {e}")})).unwrap();
                    continue;
                }
            };
            let isnap = inst.verif_snapshot();
            let circ = ScriptedCircuit::new(prog.clone());
            let mut rng = ScriptRng::seeded(seed.wrapping_add(k as u64));
            let r = guarded(|| prover.prove_with_version(&mut rng, &circ, version));
            let res = outcome(&r);
            let ver = match &r {
                Ok(Ok((proof, pis))) => {
                    let v = guarded(|| verifier.verify_with_version(proof, pis, version));
                    outcome(&v)
                }
                _ => "n/a".to_string(),
            };

            let iw: Vec<Vec<usize>> = isnap
                .rows
                .iter()
                .map(|r| r.wires.iter().map(|w| w + 1).collect())
                .collect();
            let same_wiring = iw == cls;
            // witness table: overrides relative to the base table when possible
            let mut ext: Vec<Value> = Vec::new();
            let (full, over): (Value, Value) = if isnap.witnesses.len() >= base_tab.len()
                && isnap.witnesses.len() <= base_tab.len() + 4
            {
                ext = isnap.witnesses[base_tab.len()..].iter().map(fe_to_json).collect();
                let o: Vec<Value> = isnap
                    .witnesses
                    .iter()
                    .zip(base_tab.iter())
                    .enumerate()
                    .filter(|(_, (a, b))| a != b)
                    .map(|(i, (a, _))| json!([i + 1, fe_to_json(a)]))
                    .collect();
                (Value::Null, Value::Array(o))
            } else {
                (fes_to_json(&isnap.witnesses), Value::Null)
            };
            let ipi: Vec<Value> = isnap
                .public_inputs
                .iter()
                .map(|(i, v)| json!({"row": i + 1, "v": fe_to_json(v)}))
                .collect();
            let mut ev = json!({
                "ev": "prove", "id": id, "k": k, "what": what,
                "n": isnap.rows.len(),
                "ipi": ipi,
                "res": res, "verify": ver,
            });
            // optional keys are omitted rather than null (TLC-side presence test)
            if !same_wiring {
                ev["iw"] = json!(iw);
            }
            if !full.is_null() {
                ev["full"] = full;
            } else {
                ev["over"] = over;
                if !ext.is_empty() {
                    ev["ext"] = json!(ext);
                }
            }
            writeln!(out, "{}", ev).unwrap();
            n_events += 1;
        }
    }
}
