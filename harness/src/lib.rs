//! Conformance harness for dusk-plonk: shared pieces (field-element JSON
//! codec, scripted RNG, scripted circuit interpreter, panic capture).
//!
//! The harness contains no protocol or gadget logic of its own: expected
//! values come from the TLA+ specification (evaluated by TLC), this crate only
//! drives the real library and reports what it did.

pub mod fe;
pub mod prog;
pub mod rng;
pub mod util;

pub use fe::{fe_from_json, fe_hex, fe_limbs, fe_to_json};
pub use prog::{run_program, CallRecord, Program, ScriptedCircuit};
pub use rng::ScriptRng;
pub mod families;
