//! Panic capture and small helpers.

use std::panic::{catch_unwind, AssertUnwindSafe};
use std::sync::Once;

use dusk_plonk::prelude::Error;

static QUIET: Once = Once::new();

/// Installs a panic hook that keeps stderr quiet (panics are data here).
pub fn quiet_panics() {
    QUIET.call_once(|| {
        std::panic::set_hook(Box::new(|_| {}));
    });
}

/// Runs `f`, turning a panic into `Err(message)`.
pub fn guarded<T>(f: impl FnOnce() -> T) -> Result<T, String> {
    quiet_panics();
    catch_unwind(AssertUnwindSafe(f)).map_err(|e| {
        if let Some(s) = e.downcast_ref::<&str>() {
            s.to_string()
        } else if let Some(s) = e.downcast_ref::<String>() {
            s.clone()
        } else {
            "panic".to_string()
        }
    })
}

/// Variant name of a library error (stable class label for reports).
pub fn err_class(e: &Error) -> String {
    let d = format!("{:?}", e);
    d.split(|c: char| !(c.is_alphanumeric() || c == '_'))
        .next()
        .unwrap_or("Error")
        .to_string()
}

/// `ok` / `err:<Class>` / `panic:<msg>` for a guarded library call.
pub fn outcome<T>(r: &Result<Result<T, Error>, String>) -> String {
    match r {
        Ok(Ok(_)) => "ok".to_string(),
        Ok(Err(e)) => format!("err:{}", err_class(e)),
        Err(p) => format!("panic:{}", p.chars().take(120).collect::<String>()),
    }
}
