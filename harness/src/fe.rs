//! JSON codec for field elements.
//!
//! Towards TLC a field element is a tuple of 20 little-endian limbs in base
//! 2^13 (the representation of the `BigF` module). From scenarios we also
//! accept small integers (negative = field negation) and hex strings.

use dusk_bls12_381::BlsScalar;
use serde_json::{json, Value};

pub const LIMB_BITS: usize = 13;
pub const LIMBS: usize = 20;

/// Little-endian canonical bytes -> 20 limbs of 13 bits.
pub fn bytes_to_limbs(bytes: &[u8; 32]) -> Vec<u32> {
    let mut out = Vec::with_capacity(LIMBS);
    for i in 0..LIMBS {
        let mut v = 0u32;
        for b in 0..LIMB_BITS {
            let bit = i * LIMB_BITS + b;
            if bit < 256 && (bytes[bit / 8] >> (bit % 8)) & 1 == 1 {
                v |= 1 << b;
            }
        }
        out.push(v);
    }
    out
}

/// 20 limbs -> 256-bit little-endian bytes; `None` if it does not fit.
pub fn limbs_to_bytes(limbs: &[u64]) -> Option<[u8; 32]> {
    let mut bytes = [0u8; 32];
    for (i, l) in limbs.iter().enumerate() {
        if *l >= (1 << LIMB_BITS) {
            return None;
        }
        for b in 0..LIMB_BITS {
            if (l >> b) & 1 == 1 {
                let bit = i * LIMB_BITS + b;
                if bit >= 256 {
                    return None;
                }
                bytes[bit / 8] |= 1 << (bit % 8);
            }
        }
    }
    Some(bytes)
}

pub fn fe_limbs(x: &BlsScalar) -> Vec<u32> {
    bytes_to_limbs(&x.to_bytes())
}

pub fn fe_to_json(x: &BlsScalar) -> Value {
    json!(fe_limbs(x))
}

pub fn fes_to_json(xs: &[BlsScalar]) -> Value {
    Value::Array(xs.iter().map(fe_to_json).collect())
}

/// Big-endian hex of the canonical integer.
pub fn fe_hex(x: &BlsScalar) -> String {
    let mut b = x.to_bytes();
    b.reverse();
    let mut s = String::with_capacity(66);
    s.push_str("0x");
    for byte in b {
        s.push_str(&format!("{:02x}", byte));
    }
    s
}

/// Reduces a 256-bit little-endian integer modulo r.
pub fn fe_from_le_bytes_reduced(bytes: &[u8; 32]) -> BlsScalar {
    let mut wide = [0u8; 64];
    wide[..32].copy_from_slice(bytes);
    BlsScalar::from_bytes_wide(&wide)
}

pub fn fe_from_json(v: &Value) -> Result<BlsScalar, String> {
    match v {
        Value::Number(n) => {
            if let Some(u) = n.as_u64() {
                Ok(BlsScalar::from(u))
            } else if let Some(i) = n.as_i64() {
                Ok(-BlsScalar::from(i.unsigned_abs()))
            } else {
                Err(format!("bad number {n}"))
            }
        }
        Value::String(s) => {
            let h = s.strip_prefix("0x").ok_or_else(|| format!("bad hex {s}"))?;
            if h.len() > 64 {
                return Err(format!("hex too long {s}"));
            }
            let h = format!("{:0>64}", h);
            let mut bytes = [0u8; 32];
            for i in 0..32 {
                bytes[31 - i] = u8::from_str_radix(&h[2 * i..2 * i + 2], 16)
                    .map_err(|e| format!("bad hex {s}: {e}"))?;
            }
            Ok(fe_from_le_bytes_reduced(&bytes))
        }
        Value::Array(a) => {
            let limbs: Option<Vec<u64>> = a.iter().map(|x| x.as_u64()).collect();
            let limbs = limbs.ok_or("bad limb array")?;
            let bytes = limbs_to_bytes(&limbs).ok_or("limbs exceed 256 bits")?;
            Ok(fe_from_le_bytes_reduced(&bytes))
        }
        _ => Err(format!("bad field element {v}")),
    }
}

pub fn hex_bytes(b: &[u8]) -> String {
    let mut s = String::with_capacity(2 * b.len());
    for byte in b {
        s.push_str(&format!("{:02x}", byte));
    }
    s
}

pub fn bytes_from_hex(s: &str) -> Result<Vec<u8>, String> {
    let s = s.strip_prefix("0x").unwrap_or(s);
    if s.len() % 2 != 0 {
        return Err("odd hex length".into());
    }
    (0..s.len() / 2)
        .map(|i| u8::from_str_radix(&s[2 * i..2 * i + 2], 16).map_err(|e| e.to_string()))
        .collect()
}

/// FNV-1a 64-bit digest, used as a cheap identity of byte strings in reports.
pub fn digest(b: &[u8]) -> String {
    let mut h: u64 = 0xcbf29ce484222325;
    for x in b {
        h ^= *x as u64;
        h = h.wrapping_mul(0x100000001b3);
    }
    format!("{:016x}:{}", h, b.len())
}
