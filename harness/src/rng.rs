//! Scripted random number generator.
//!
//! Every draw is logged (method, length). The first draws are taken from a
//! script (each scripted scalar is delivered as its 32 canonical bytes
//! followed by 32 zero bytes, so that `from_bytes_wide` yields exactly that
//! scalar); once the script is exhausted, bytes come from a deterministic
//! counter stream derived from `seed`.

use dusk_bls12_381::BlsScalar;
use rand_core::{CryptoRng, Error, RngCore};

#[derive(Clone, Debug)]
pub struct ScriptRng {
    script: Vec<BlsScalar>,
    next: usize,
    seed: u64,
    counter: u64,
    pub log: Vec<(&'static str, usize)>,
}

fn splitmix(x: &mut u64) -> u64 {
    *x = x.wrapping_add(0x9e3779b97f4a7c15);
    let mut z = *x;
    z = (z ^ (z >> 30)).wrapping_mul(0xbf58476d1ce4e5b9);
    z = (z ^ (z >> 27)).wrapping_mul(0x94d049bb133111eb);
    z ^ (z >> 31)
}

impl ScriptRng {
    pub fn new(seed: u64, script: Vec<BlsScalar>) -> Self {
        Self {
            script,
            next: 0,
            seed,
            counter: 0,
            log: Vec::new(),
        }
    }

    pub fn seeded(seed: u64) -> Self {
        Self::new(seed, Vec::new())
    }

    /// Scalars a sequence of `n` 64-byte draws of a fresh generator with this
    /// seed and script would produce.
    pub fn preview(seed: u64, script: &[BlsScalar], n: usize) -> Vec<BlsScalar> {
        let mut r = Self::new(seed, script.to_vec());
        (0..n)
            .map(|_| {
                let mut b = [0u8; 64];
                r.fill_bytes(&mut b);
                BlsScalar::from_bytes_wide(&b)
            })
            .collect()
    }

    pub fn draws(&self) -> usize {
        self.log.len()
    }

    fn stream(&mut self, dest: &mut [u8]) {
        let mut state = self.seed ^ self.counter.wrapping_mul(0xd6e8feb86659fd93);
        self.counter += 1;
        for chunk in dest.chunks_mut(8) {
            let v = splitmix(&mut state).to_le_bytes();
            chunk.copy_from_slice(&v[..chunk.len()]);
        }
    }
}

impl RngCore for ScriptRng {
    fn next_u32(&mut self) -> u32 {
        self.log.push(("next_u32", 4));
        let mut b = [0u8; 4];
        self.stream(&mut b);
        u32::from_le_bytes(b)
    }

    fn next_u64(&mut self) -> u64 {
        self.log.push(("next_u64", 8));
        let mut b = [0u8; 8];
        self.stream(&mut b);
        u64::from_le_bytes(b)
    }

    fn fill_bytes(&mut self, dest: &mut [u8]) {
        self.log.push(("fill_bytes", dest.len()));
        if dest.len() == 64 && self.next < self.script.len() {
            let s = self.script[self.next];
            self.next += 1;
            dest[..32].copy_from_slice(&s.to_bytes());
            dest[32..].fill(0);
        } else {
            self.stream(dest);
        }
    }

    fn try_fill_bytes(&mut self, dest: &mut [u8]) -> Result<(), Error> {
        self.fill_bytes(dest);
        Ok(())
    }
}

impl CryptoRng for ScriptRng {}
