//! Circuit families (scripted programs) shared by the protocol-level
//! conformance binaries (`refverify`, `masks`). Each family is a program for
//! `prog::ScriptedCircuit`; `salt` varies witness and public-input values
//! without changing the circuit shape.
//!
//! tiny   : arithmetic gates only, 2 public inputs                (n = 8)
//! arith  : arithmetic gates, boolean/select components, 3 public inputs
//!          (one of value zero, one on a constrained gate)        (n = 32)
//! widgets: range + logic (AND, XOR) widgets, public inputs       (n = 256..512)
//! ecc    : variable-base addition and fixed-base multiplication,
//!          a public point                                        (n = 1024)
//! mixed  : all five widgets and public inputs on several rows

use serde_json::{json, Value};

use crate::prog::Program;

pub const FAMILIES: [&str; 5] = ["tiny", "arith", "widgets", "ecc", "mixed"];
/// Families on the far side of the 2^12 switch of the FFT / parallel paths:
/// big  : `arith` padded to 2100 constraints (domain 4096)
/// huge : `arith` padded to 4200 constraints (domain 8192)
pub const LARGE_FAMILIES: [&str; 2] = ["big", "huge"];

fn ops_tiny(s: u64) -> Vec<Value> {
    vec![
        json!({"op":"witness","v":3 + s,"out":"x"}),
        json!({"op":"public","v":11 + 2 * s,"out":"p"}),
        json!({"op":"gate_add","q":{"l":1,"r":1},"w":["x","p"],"out":"s"}),
        json!({"op":"public","v":14 + 3 * s,"out":"q"}),
        json!({"op":"assert_equal","a":"s","b":"q"}),
    ]
}

fn ops_arith(s: u64) -> Vec<Value> {
    vec![
        json!({"op":"witness","v":5 + s,"out":"x"}),
        json!({"op":"witness","v":9,"out":"y"}),
        json!({"op":"public","v":0,"out":"zero_pi"}),
        json!({"op":"gate_mul","q":{"m":1},"w":["x","y"],"out":"xy"}),
        json!({"op":"public","v":(5 + s) * 9,"out":"p"}),
        json!({"op":"assert_equal","a":"xy","b":"p"}),
        json!({"op":"gate_add","q":{"r":3,"c":7},"w":["x","y"],"out":"lin"}),
        // a public input of value zero on a gate with a circuit constant
        json!({"op":"assert_equal_constant","a":"lin","c":34,"pi":0}),
        json!({"op":"witness","v":1,"out":"bit"}),
        json!({"op":"boolean","a":"bit"}),
        json!({"op":"select","bit":"bit","a":"x","b":"y","out":"sel"}),
        json!({"op":"assert_equal","a":"sel","b":"x"}),
        json!({"op":"gate","q":{"m":1,"o":-1,"f":1,"c":0},"w":["x","y","xy",0]}),
        json!({"op":"pad","to":20}),
    ]
}

fn ops_widgets(s: u64) -> Vec<Value> {
    let a = 0xb3u64 ^ (s & 0xf);
    let b = 0x5du64;
    vec![
        json!({"op":"witness","v":a,"out":"a"}),
        json!({"op":"witness","v":b,"out":"b"}),
        json!({"op":"range_bits","w":"a","bits":8}),
        json!({"op":"range_bits","w":"b","bits":7}),
        json!({"op":"logic","a":"a","b":"b","pairs":4,"xor":false,"out":"and"}),
        json!({"op":"logic","a":"a","b":"b","pairs":4,"xor":true,"out":"xor"}),
        json!({"op":"public","v":a & b,"out":"p_and"}),
        json!({"op":"assert_equal","a":"and","b":"p_and"}),
        json!({"op":"assert_equal_constant","a":"xor","c":0,"pi":a ^ b}),
    ]
}

fn ops_ecc(s: u64) -> Vec<Value> {
    vec![
        json!({"op":"append_point","pt":{"of":{"name":"G"},"mul":5 + s},"out":"P"}),
        json!({"op":"append_point","pt":{"of":{"name":"G_NUMS"},"mul":7},"out":"Q"}),
        json!({"op":"assert_torsion_free","p":"P","out":"Pt"}),
        json!({"op":"assert_torsion_free","p":"Q","out":"Qt"}),
        json!({"op":"add_point","a":"Pt","b":"Qt","out":"R"}),
        json!({"op":"witness","v":1000 + s,"out":"k"}),
        json!({"op":"mul_generator","s":"k","pt":{"name":"G"},"out":"K"}),
        json!({"op":"assert_equal_public_point","p":"K","pt":{"of":{"name":"G"},"mul":1000 + s}}),
    ]
}

fn ops_mixed(s: u64) -> Vec<Value> {
    let mut v = ops_arith(s);
    v.pop(); // pad
    v.extend(ops_widgets(s + 1));
    v.extend(ops_ecc(s + 2));
    v
}

pub fn family_ops(name: &str, salt: u64) -> Option<Vec<Value>> {
    Some(match name {
        "tiny" => ops_tiny(salt),
        "arith" => ops_arith(salt),
        "widgets" => ops_widgets(salt),
        "ecc" => ops_ecc(salt),
        "mixed" => ops_mixed(salt),
        "big" | "huge" => {
            let mut v = ops_arith(salt);
            v.pop(); // pad
            v.push(json!({"op":"pad","to": if name == "big" { 2100 } else { 4200 }}));
            v
        }
        _ => return None,
    })
}

pub fn family(name: &str, salt: u64) -> Option<Program> {
    family_ops(name, salt).map(|ops| Program { ops })
}
