SPECIFICATION Spec
CONSTANT Family = "arith"
CONSTANT Tier = "thorough"
INVARIANT Emit
CHECK_DEADLOCK FALSE
