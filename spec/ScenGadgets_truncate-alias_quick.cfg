SPECIFICATION Spec
CONSTANT Family = "truncate-alias"
CONSTANT Tier = "quick"
INVARIANT Emit
CHECK_DEADLOCK FALSE
