------------------------------ MODULE Masking ------------------------------
(***************************************************************************)
(* Zero-knowledge masking of the prover's rounds 1-3 (C06).                *)
(*                                                                         *)
(* The prover draws 14 scalars S[1..14] from the caller's generator, in    *)
(* this order and nothing else:                                            *)
(*    S[1], S[2]    mask the a-wire polynomial   (degree-1 multiple of Z_H)*)
(*    S[3], S[4]    the b-wire polynomial                                  *)
(*    S[5], S[6]    the c-wire polynomial                                  *)
(*    S[7], S[8]    the d-wire polynomial                                  *)
(*    S[9..11]      mask the permutation polynomial z (degree-2 multiple)  *)
(*    S[12..14]     re-randomise the four quotient shares                  *)
(*                                                                         *)
(* Polynomials are coefficient sequences (index 1 = constant term).  n is  *)
(* the size of the evaluation domain H, w its generator, Z_H = X^n - 1.    *)
(*                                                                         *)
(*   Blind(coeffs, <<b_0..b_k>>) = coeffs + (SUM b_i X^i) (X^n - 1),       *)
(*       computed as the prover does: subtract b_i from coefficient i and  *)
(*       append b_i as coefficient n+i                                     *)
(*   Split(t, b12, b13, b14): t_low  = t[0..n)   + b12 X^n                 *)
(*                            t_mid  = t[n..2n)  - b12 + b13 X^n           *)
(*                            t_high = t[2n..3n) - b13 + b14 X^n           *)
(*                            t_4th  = t[3n..)   - b14                     *)
(*                                                                         *)
(* ExpectedDelta(k, delta, n) states, for a change of draw k by delta,     *)
(* which committed polynomial moves and by which polynomial; the same      *)
(* operator evaluated at the SRS secret gives the group-element difference *)
(* the conformance check demands of the real commitments (TraceMasks).     *)
(*                                                                         *)
(* Parametric in the field (operator constants).                           *)
(***************************************************************************)
EXTENDS Naturals, Sequences, TLC

CONSTANTS FAdd(_, _), FSub(_, _), FMul(_, _), FNeg(_), FInt(_), FInv(_)

(* TLC keeps [i \in S |-> e] lazy (every application re-evaluates e): the
   coefficient vectors built below are forced with TLCEval. *)

Zero == FInt(0)
One == FInt(1)

RECURSIVE Pow(_, _)
Pow(a, k) == IF k = 0 THEN One
             ELSE IF k % 2 = 0 THEN LET h == Pow(a, k \div 2) IN FMul(h, h)
             ELSE FMul(a, Pow(a, k - 1))

(* ------------------------- polynomials --------------------------------- *)
Coef(p, i) == IF i + 1 <= Len(p) THEN p[i + 1] ELSE Zero      \* i = exponent

RECURSIVE HornerRec(_, _, _, _)
HornerRec(p, x, i, acc) ==
  IF i = 0 THEN acc ELSE HornerRec(p, x, i - 1, FAdd(FMul(acc, x), p[i]))
Eval(p, x) == HornerRec(p, x, Len(p), Zero)

\* degree (0 for the zero polynomial)
RECURSIVE DegRec(_, _)
DegRec(p, i) == IF i <= 1 THEN 0 ELSE IF p[i] # Zero THEN i - 1 ELSE DegRec(p, i - 1)
Degree(p) == DegRec(p, Len(p))

PolySub(p, q) ==
  LET m == IF Len(p) > Len(q) THEN Len(p) ELSE Len(q)
  IN TLCEval([i \in 1..m |-> FSub(Coef(p, i - 1), Coef(q, i - 1))])

\* inverse DFT over H = <w>, |H| = n: c_j = (1/n) SUM_i v_i w^(-i j)
RECURSIVE SumTo(_, _, _)
SumTo(f, i, m) == IF i > m THEN Zero ELSE FAdd(f[i], SumTo(f, i + 1, m))
IDFT(vals, n, w) ==
  LET winv == FInv(w)
      ninv == FInv(FInt(n))
      wp == TLCEval([e \in 1..n |-> Pow(winv, e - 1)])         \* w^-(e-1)
  IN TLCEval([j \in 1..n |->
        FMul(ninv, SumTo(TLCEval([i \in 1..n |->
                                   FMul(vals[i], wp[(((i - 1) * (j - 1)) % n) + 1])]), 1, n))])

(* --------------------------- the prover -------------------------------- *)
\* coefficients[i] -= b_i ; push b_i        (blinders = <<b_0, .., b_k>>)
Blind(coeffs, blinders) ==
  LET n == Len(coeffs)
      k == Len(blinders)
  IN TLCEval([i \in 1..(n + k) |->
        IF i <= k THEN FSub(coeffs[i], blinders[i])
        ELSE IF i <= n THEN coeffs[i]
        ELSE blinders[i - n]])

BlindEvals(vals, blinders, n, w) ==
  LET c == TLCEval(IDFT(vals, n, w)) IN Blind(c, blinders)

\* t: quotient coefficients (at least 3n of them)
Split(t, n, b12, b13, b14) ==
  LET lo == SubSeq(t, 1, n)
      mi == SubSeq(t, n + 1, 2 * n)
      hi == SubSeq(t, 2 * n + 1, 3 * n)
      fo == SubSeq(t, 3 * n + 1, Len(t))
      subFirst(p, b) == TLCEval([i \in 1..Len(p) |-> IF i = 1 THEN FSub(p[1], b) ELSE p[i]])
  IN [t_low |-> Append(lo, b12),
      t_mid |-> Append(subFirst(mi, b12), b13),
      t_high |-> Append(subFirst(hi, b13), b14),
      t_fourth |-> subFirst(fo, b14)]

\* t_low + X^n t_mid + X^2n t_high + X^3n t_fourth, coefficient by coefficient
Recombine(sh, n) ==
  LET m == 3 * n + Len(sh.t_fourth)
  IN TLCEval([i \in 1..m |->
        LET e == i - 1 IN
        FAdd(FAdd(IF e <= n THEN Coef(sh.t_low, e) ELSE Zero,
                  IF e >= n /\ e <= 2 * n THEN Coef(sh.t_mid, e - n) ELSE Zero),
             FAdd(IF e >= 2 * n /\ e <= 3 * n THEN Coef(sh.t_high, e - 2 * n) ELSE Zero,
                  IF e >= 3 * n THEN Coef(sh.t_fourth, e - 3 * n) ELSE Zero))])

(* Rounds 1-3 as far as masking is concerned.  wires: the four columns of
   wire values on H; zvals: the grand product on H; t: the quotient (computed
   by the prover from the blinded polynomials; here any coefficient vector);
   S: the 14 draws. *)
CommittedNames == << "a_comm", "b_comm", "c_comm", "d_comm", "z_comm",
                     "t_low_comm", "t_mid_comm", "t_high_comm", "t_fourth_comm" >>

\* (the ...C forms take the interpolated coefficient vectors = IDFT of the values)
Round1C(wc, S) ==
  [a_comm |-> Blind(wc[1], << S[1], S[2] >>),
   b_comm |-> Blind(wc[2], << S[3], S[4] >>),
   c_comm |-> Blind(wc[3], << S[5], S[6] >>),
   d_comm |-> Blind(wc[4], << S[7], S[8] >>)]
Round2C(zc, S) == Blind(zc, << S[9], S[10], S[11] >>)
Round1(wires, n, w, S) == Round1C(TLCEval([c \in 1..4 |-> IDFT(wires[c], n, w)]), S)
Round2(zvals, n, w, S) == Round2C(TLCEval(IDFT(zvals, n, w)), S)
Round3(t, n, S) == Split(t, n, S[12], S[13], S[14])

(* ------------------- what one draw is allowed to touch ------------------ *)
\* a sparse polynomial: sequence of <<exponent, coefficient>>
Mask(delta, n, j) == << << n + j, delta >>, << j, FNeg(delta) >> >>     \* delta (X^(n+j) - X^j)

(* For draw k changed by delta: the committed polynomials that move and the
   polynomial each moves by.  Every other polynomial committed no later than
   the round of draw k is unchanged (Unchanged). *)
ExpectedDelta(k, delta, n) ==
  CASE k \in 1..8 ->
         << << CommittedNames[(k + 1) \div 2], Mask(delta, n, (k - 1) % 2) >> >>
    [] k \in 9..11 -> << << "z_comm", Mask(delta, n, k - 9) >> >>
    [] k = 12 -> << << "t_low_comm", << << n, delta >> >> >>,
                    << "t_mid_comm", << << 0, FNeg(delta) >> >> >> >>
    [] k = 13 -> << << "t_mid_comm", << << n, delta >> >> >>,
                    << "t_high_comm", << << 0, FNeg(delta) >> >> >> >>
    [] k = 14 -> << << "t_high_comm", << << n, delta >> >> >>,
                    << "t_fourth_comm", << << 0, FNeg(delta) >> >> >> >>

\* round in which a draw is used / a polynomial is committed
DrawRound(k) == IF k <= 8 THEN 1 ELSE IF k <= 11 THEN 2 ELSE 3
CommitRound(name) ==
  IF name \in {"a_comm", "b_comm", "c_comm", "d_comm"} THEN 1
  ELSE IF name = "z_comm" THEN 2 ELSE 3

Moved(k, delta, n) ==
  LET ed == ExpectedDelta(k, delta, n) IN {ed[i][1] : i \in 1..Len(ed)}
\* committed in a round <= the draw's round and not masked by it: must not move
Unchanged(k, delta, n) ==
  {nm \in {CommittedNames[i] : i \in 1..9} :
     nm \notin Moved(k, delta, n) /\ CommitRound(nm) <= DrawRound(k)}

\* dense form of a sparse polynomial, length m
Dense(sp, m) ==
  TLCEval([i \in 1..m |->
     IF \E t \in 1..Len(sp) : sp[t][1] = i - 1
     THEN sp[CHOOSE t \in 1..Len(sp) : sp[t][1] = i - 1][2] ELSE Zero])

\* value of a sparse polynomial at x
RECURSIVE SparseEvalRec(_, _, _)
SparseEvalRec(sp, x, i) ==
  IF i > Len(sp) THEN Zero
  ELSE FAdd(FMul(sp[i][2], Pow(x, sp[i][1])), SparseEvalRec(sp, x, i + 1))
SparseEval(sp, x) == SparseEvalRec(sp, x, 1)

(* The commitment of a polynomial p under an SRS with secret tau and
   generator  sg * G  is  [sg p(tau)] G.  For a change of draw k by delta the
   commitment of each moved polynomial therefore changes by this multiple of
   the group generator G: *)
ExpectedScalars(k, delta, n, tau, sg) ==
  LET ed == ExpectedDelta(k, delta, n) IN
  [i \in 1..Len(ed) |-> << ed[i][1], FMul(sg, SparseEval(ed[i][2], tau)) >>]
=============================================================================
