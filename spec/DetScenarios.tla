---------------------------- MODULE DetScenarios ----------------------------
(***************************************************************************)
(* MBT scenario generator for C18.  A scenario is one lifecycle            *)
(*   Setup(cap, scripted rng) -> Compile(circuit, label) ->                *)
(*   Prove(scripted rng per seed)* -> Verify*                              *)
(* executed under a CONFIGURATION: (build, process, rayon pool size,       *)
(* repeat count, concurrent callers).  The specification's lifecycle has   *)
(* no configuration-dependent step: its projected state after every action *)
(* (public parameters, prover, verifier, proof per seed, verdict) is a     *)
(* function of (circuit, label, cap, seeds) only -- FftPar, LabelCache and *)
(* HashOrder are the reasons.  Hence the prediction carried by every       *)
(* scenario: its projection equals that of the reference configuration     *)
(* (std build, one process, pool of 1) of the same circuit.                *)
(* Every reachable configuration is printed once as JSON (SCEN|...);       *)
(* harness/bin/determinism executes them; checks/c18.py compares.          *)
(***************************************************************************)
EXTENDS Naturals, Sequences, FiniteSets, TLC, Json

CONSTANTS Circuits,      \* names; sizes are given by the driver
          AllPools,      \* pool sizes for the in-process sweep
          SmallPools,    \* pool sizes for circuits below the FFT switch
          FreshPools,    \* pool sizes replayed in fresh processes (0 = default pool)
          FreshProcs,    \* number of fresh processes per (circuit, pool)
          ConcPools,     \* pools under which 16 callers share the keys
          BelowSwitch    \* circuits whose quotient domain is below 2^12

VARIABLES cfg, step
vars == <<cfg, step>>

Configs ==
       {[mode |-> "in-process", circuit |-> c, build |-> "std", pool |-> p, proc |-> 0,
         runs |-> IF p \in {1, 4, 5} THEN 2 ELSE 1, concurrent |-> 0] :
            c \in Circuits \ BelowSwitch, p \in AllPools}
  \cup {[mode |-> "in-process", circuit |-> c, build |-> "std", pool |-> p, proc |-> 0,
         runs |-> 2, concurrent |-> 0] : c \in BelowSwitch, p \in SmallPools}
  \cup {[mode |-> "fresh-process", circuit |-> c, build |-> "std", pool |-> p, proc |-> k,
         runs |-> 1, concurrent |-> 0] : c \in Circuits, p \in FreshPools, k \in 1..FreshProcs}
  \cup {[mode |-> "concurrent", circuit |-> c, build |-> "std", pool |-> p, proc |-> 0,
         runs |-> 1, concurrent |-> 16] : c \in Circuits \ BelowSwitch, p \in ConcPools}
  \cup {[mode |-> "serial-build", circuit |-> c, build |-> "serial", pool |-> 0, proc |-> k,
         runs |-> 2, concurrent |-> 0] : c \in Circuits, k \in 1..2}

Steps == <<"setup", "compile", "prove", "verify", "done">>

Init == cfg \in Configs /\ step = 1
Next == step < Len(Steps) /\ step' = step + 1 /\ cfg' = cfg
Spec == Init /\ [][Next]_vars

\* the projection the specification predicts does not mention cfg at all
Projection(c) == [circuit |-> c.circuit]
Predicted == \A c1, c2 \in Configs : c1.circuit = c2.circuit => Projection(c1) = Projection(c2)

Emit == step = 1 => PrintT("SCEN|" \o ToJson(cfg))
=============================================================================
