---------------------------- MODULE TranscriptMC ----------------------------
(***************************************************************************)
(* Model checking of the transcript design (C03a) and export of the item   *)
(* lists for the specification-driven reference verifier.                  *)
(*                                                                         *)
(* State machine: a party (role, version, number of public inputs) walks   *)
(* through its item list; `absorbed` is the set of sources bound so far,   *)
(* `squeezed` the challenges drawn so far.  Invariants:                    *)
(*   BindsBefore    at the moment a challenge is squeezed, everything it   *)
(*                  must depend on has been absorbed (statement, public    *)
(*                  inputs, every proof field of an earlier-or-equal       *)
(*                  round); checked dynamically in every state, and        *)
(*                  statically for all 26 proof fields x 11 challenges     *)
(*   NotBefore      a proof field of a later round is never absorbed       *)
(*                  before an earlier challenge is squeezed (the messages  *)
(*                  keep the order of the interactive protocol)            *)
(*   SameSequence   prover list = verifier list up to v_w; the verifier    *)
(*                  then binds exactly the two opening commitments and     *)
(*                  squeezes u                                             *)
(*   LegacyQuirk    V1 = V2; V2 differs from V3 in exactly one item, the   *)
(*                  15th verifier-key item, and there only in the source   *)
(*   AbsorbedOnce   no source is absorbed twice, except s_sigma_1 by the   *)
(*                  legacy seeding                                         *)
(*   Complete       at the end the eleven challenges were squeezed in the  *)
(*                  protocol's order and every proof field was absorbed    *)
(***************************************************************************)
EXTENDS Transcript, TLC, Json, IOUtils

CONSTANTS MaxPI,        \* public-input counts explored by the state machine
          MaxExport     \* public-input counts exported to the harness

VARIABLES role, ver, npi, pc, absorbed, squeezed
vars == <<role, ver, npi, pc, absorbed, squeezed>>

My == Items(role, ver, npi)

\* export: [version |-> sequence indexed by npi+1 of the verifier's list]
ExportValue ==
  [v \in Versions |-> [k \in 1..(MaxExport + 1) |-> VerifierItems(v, k - 1)]]
ExportProver ==
  [v \in Versions |-> [k \in 1..(MaxExport + 1) |-> ProverItems(v, k - 1)]]
DoExport ==
  IF "ITEMS_OUT" \in DOMAIN IOEnv
  THEN JsonSerialize(IOEnv.ITEMS_OUT,
                     [verifier |-> ExportValue, prover |-> ExportProver,
                      challenges |-> ChallengeOrder])
  ELSE TRUE

Init == /\ role \in Roles /\ ver \in Versions /\ npi \in 0..MaxPI
        /\ pc = 1 /\ absorbed = {} /\ squeezed = << >>

Step ==
  /\ pc <= Len(My)
  /\ LET it == My[pc] IN
       IF it.kind = "challenge"
       THEN /\ squeezed' = Append(squeezed, it.src)
            /\ absorbed' = absorbed
       ELSE /\ squeezed' = squeezed
            /\ absorbed' = absorbed \cup {<<it.src, it.idx>>}
  /\ pc' = pc + 1
  /\ UNCHANGED <<role, ver, npi>>

Next == Step
Spec == Init /\ [][Next]_vars

Done == pc = Len(My) + 1

(* -------------------------------------------------------------------- *)
\* the static invariants talk about whole lists: judged once per behaviour
AtStart == pc = 1

TypeOK ==
  AtStart => \A k \in 1..Len(My) :
       My[k].kind \in {"label-init", "append-message", "append-u64",
                       "append-scalar", "append-point", "challenge"}

\* dynamic: judged in the state right after a squeeze
BindsBefore ==
  (pc > 1 /\ My[pc - 1].kind = "challenge")
    => Required(role, ver, npi, My[pc - 1].src)
         \ (IF role = "prover" THEN {<<"proof." \o OpeningNames[i], 0>> : i \in 1..2} ELSE {})
       \subseteq absorbed

\* static: 26 proof fields x 11 challenges, on the verifier's list (all 26
\* fields) and on the prover's list (24 fields, 10 challenges)
BindsBeforeStatic ==
  AtStart => \A f \in ProofFields : \A c \in Challenges :
    LET pf == PosOf(My, f, 0)
        pch == PosOfChallenge(My, c)
    IN (pf # 0 /\ pch # 0) =>
         /\ (MustBind(f, c) => pf < pch)
         /\ (~MustBind(f, c) => pch < pf)

\* every public input and every statement item precedes the first challenge
StatementFirst ==
  AtStart => \A s \in StatementSources(ver, npi) :
    LET p == PosOf(My, s[1], s[2]) IN p # 0 /\ p < PosOfChallenge(My, "beta")

SameSequence ==
  AtStart =>
  LET P == ProverItems(ver, npi)
      V == VerifierItems(ver, npi)
  IN /\ Len(V) = Len(P) + 3
     /\ SubSeq(V, 1, Len(P)) = P
     /\ SubSeq(V, Len(P) + 1, Len(V)) =
          << ProofPoint("w_z_chall_comm"), ProofPoint("w_z_chall_w_comm"),
             Squeeze("u_challenge", "u") >>

LegacyQuirk ==
  AtStart => \A r \in Roles :
    LET A == Items(r, "V1", npi)
        B == Items(r, "V2", npi)
        C == Items(r, "V3", npi)
        diff == {k \in 1..Len(B) : B[k] # C[k]}
    IN /\ A = B
       /\ Len(B) = Len(C)
       /\ diff = {18}
       /\ B[18] = Point("s_sigma_4", "vk.s_sigma_1")
       /\ C[18] = Point("s_sigma_4", "vk.s_sigma_4")

AbsorbedOnce ==
  AtStart => \A j, k \in 1..Len(My) :
    (j < k /\ My[j].kind # "challenge" /\ My[k].kind # "challenge"
       /\ My[j].src = My[k].src /\ My[j].idx = My[k].idx)
    => \/ My[j].src = "lit:circuit_size"
       \/ (ver # "V3" /\ My[j].src = "vk.s_sigma_1" /\ j = 15 /\ k = 18)

\* labels are unique per absorbed source as well (a label never names two
\* different sources), except the legacy quirk
LabelNamesSource ==
  AtStart => \A k \in 1..Len(My) :
    My[k].kind \in {"append-point", "append-scalar"} =>
      \/ My[k].src = "pi" /\ My[k].label = "pi"
      \/ My[k].src = "ch.beta" /\ My[k].label = "beta"
      \/ My[k].src = "vk." \o My[k].label
      \/ My[k].src = "proof." \o My[k].label
      \/ (ver # "V3" /\ k = 18 /\ My[k].label = "s_sigma_4" /\ My[k].src = "vk.s_sigma_1")

Complete ==
  Done =>
    /\ squeezed = (IF role = "verifier" THEN ChallengeOrder ELSE SubSeq(ChallengeOrder, 1, 10))
    /\ StatementSources(ver, npi) \subseteq absorbed
    /\ \A f \in ProofFields :
         (role = "verifier" \/ FieldRound(f) < 5) => <<f, 0>> \in absorbed
    /\ Len(My) = 20 + npi + 35 + (IF role = "verifier" THEN 3 ELSE 0)

\* export happens once, when the first behaviour finishes
Exported == (Done /\ role = "verifier" /\ ver = "V3" /\ npi = 0) => DoExport
=============================================================================
