SPECIFICATION Spec
CONSTANT Family = "curve"
CONSTANT Tier = "thorough"
INVARIANT Emit
INVARIANT PointsInv
CHECK_DEADLOCK FALSE
