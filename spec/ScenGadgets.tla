---------------------------- MODULE ScenGadgets ----------------------------
(***************************************************************************)
(* MBT scenario generator for the gadget properties C08-C14 over the REAL  *)
(* field: every state is one call of a public component on chosen input    *)
(* values, together with what the documented relation PREDICTS:            *)
(*   res  "ok" (provable, proof verifies) | "err:CircuitUnsatisfied" |      *)
(*        the error class an entry point must return                        *)
(*   ret  the values the returned witnesses must hold (when res = "ok")     *)
(* The relations are stated here from the property texts (integers /       *)
(* group law), independently of the gate layouts in Components.tla; the    *)
(* group law itself is the affine Edwards addition of Components.          *)
(***************************************************************************)
EXTENDS JubJub, Sequences, FiniteSets, TLC, Json

CONSTANTS Family, Tier

BitsOf(x, n) == [i \in 1..n |-> BigBit(x, i - 1)]
RJBits == BitsOf(RJ, 252)
EightInvB == BitsOf(BigInvMod(BigFromInt(8), RJ), 252)

C == INSTANCE Components WITH
       FAdd <- BAdd, FSub <- BSub, FMul <- BMul, FNeg <- BNeg, FInv <- BInv,
       FInt <- BInt, FBit <- BBit, FShr <- BShr, FLow <- BLow, FPow2 <- BPow2,
       NB <- 255, EdD <- BEdwardsD, ScalarBits <- 252,
       OrderM1 <- BigSub(RJ, BigOne), OrderBits <- RJBits, EightInvBits <- EightInvB, AdvMode <- "honest"

\* the same composer with the adversarial range generator
CB == INSTANCE Components WITH
       FAdd <- BAdd, FSub <- BSub, FMul <- BMul, FNeg <- BNeg, FInv <- BInv,
       FInt <- BInt, FBit <- BBit, FShr <- BShr, FLow <- BLow, FPow2 <- BPow2,
       NB <- 255, EdD <- BEdwardsD, ScalarBits <- 252,
       OrderM1 <- BigSub(RJ, BigOne), OrderBits <- RJBits, EightInvBits <- EightInvB,
       AdvMode <- "closing-first"

CS == INSTANCE Components WITH
       FAdd <- BAdd, FSub <- BSub, FMul <- BMul, FNeg <- BNeg, FInv <- BInv,
       FInt <- BInt, FBit <- BBit, FShr <- BShr, FLow <- BLow, FPow2 <- BPow2,
       NB <- 255, EdD <- BEdwardsD, ScalarBits <- 252,
       OrderM1 <- BigSub(RJ, BigOne), OrderBits <- RJBits, EightInvBits <- EightInvB,
       AdvMode <- "shift-split"

Quick == Tier = "quick"
Map(s, Op(_)) == [i \in 1..Len(s) |-> Op(s[i])]
RECURSIVE Flat(_)
Flat(ss) == IF ss = << >> THEN << >> ELSE Head(ss) \o Flat(Tail(ss))

(* ---- values ---------------------------------------------------------- *)
Zero == BigZero
One == BigOne
M1 == BNeg(BigOne)                       \* r - 1
Rnd(i) == BPow(BInt(7), BigFromInt(1000003 + 7919 * i))   \* fixed pseudo-random 255-bit values
P2(k) == BigPowMod(BigFromInt(2), BigFromInt(k), R)        \* 2^k mod r
\* integer 2^k for k <= 254 (below r): same limbs
IntLt2k(x, k) == BigShr(x, k) = BigZero                    \* canonical x < 2^k

\* boundary values around 2^w, plus the global ones
Around(w) == IF w = 0 THEN << Zero, One >>
             ELSE IF w >= 255 THEN << M1, BSub(M1, One) >>
             ELSE << BSub(P2(w), One), P2(w), BAdd(P2(w), One) >>
Globals == << Zero, One, M1, BigSub(RJ, BigOne), RJ, Rnd(1), Rnd(2) >>

(* ---- relations (what must be satisfiable, what must be returned) ------- *)
Ok(ret) == [res |-> "ok", ret |-> ret]
Unsat == [res |-> "err:CircuitUnsatisfied", ret |-> << >>]
\* adversarial overrides keyed by the specification's layout: the property demands that
\* NO assignment is accepted with a returned value other than `ret`; so the outcome is
\* CircuitUnsatisfied or -- if the overrides did not take effect -- `ret` itself
NotOther(ret) == [res |-> "unsat-or", ret |-> ret]
ErrC(c) == [res |-> c, ret |-> << >>]

RangeRel(n, x) == IF n >= 255 \/ IntLt2k(x, n) THEN Ok(<< >>) ELSE Unsat
DecompRel(n, x) == IF n >= 256 \/ IntLt2k(x, n) THEN Ok([i \in 1..n |-> BInt(BigBit(x, i - 1))]) ELSE Unsat
TruncRel(n, x) == Ok(<< BigLow(x, n) >>)

RECURSIVE BitwiseRec(_, _, _, _, _)
BitwiseRec(x, y, n, xor, i) ==
  IF i = n THEN BigZero
  ELSE LET b == IF xor THEN (IF BigBit(x, i) # BigBit(y, i) THEN 1 ELSE 0)
                       ELSE (IF BigBit(x, i) = 1 /\ BigBit(y, i) = 1 THEN 1 ELSE 0)
           rest == BitwiseRec(x, y, n, xor, i + 1)
       IN IF b = 1 THEN BigAdd(rest, P2(i)) ELSE rest
LogicRel(pairs, xor, x, y) == Ok(<< BitwiseRec(x, y, 2 * pairs, xor, 0) >>)

SelectRel(b, x, y) == Ok(<< BAdd(BMul(b, x), BMul(BSub(One, b), y)) >>)
SelectOneRel(b, x) == Ok(<< BAdd(BSub(One, b), BMul(b, x)) >>)
SelectZeroRel(b, x) == Ok(<< BMul(b, x) >>)
BoolRel(x) == IF x = Zero \/ x = One THEN Ok(<< >>) ELSE Unsat

\* general arithmetic gate q = <<m,l,r,o,f,c>> on wires (x,y,-,z), output solved
EvalOutRel(q, x, y, z, haspi, pi) ==
  LET s == BAdd(BAdd(BAdd(BMul(q[1], BMul(x, y)), BMul(q[2], x)), BAdd(BMul(q[3], y), BMul(q[5], z))),
                BAdd(q[6], IF haspi THEN pi ELSE Zero))
  IN IF q[4] = Zero THEN (IF s = Zero THEN Ok(<< >>) ELSE Unsat)
     ELSE Ok(<< BNeg(BMul(s, BInv(q[4]))) >>)

PtMulInt(p, x, n) == C!PtMul(p, BitsOf(x, n))
InSubgroup(p) == C!PtOnCurve(p) /\ C!TorsionFree(p)

(* ---- programs (what the harness executes through the public API) -------- *)
Wt(v, out) == [op |-> "witness", v |-> v, out |-> out]
P1(x, op) == << Wt(x, "x"), op >>
P2w(x, y, op) == << Wt(x, "x"), Wt(y, "y"), op >>
P3w(x, y, z, op) == << Wt(x, "x"), Wt(y, "y"), Wt(z, "z"), op >>

(* ---- cases -------------------------------------------------------------- *)
Cs(g) == [g |-> g]
\* ranges of widths
RangeW == IF Quick THEN <<0, 1, 2, 7, 8, 9, 63, 64, 65, 128, 192, 253, 254, 255, 256>>
          ELSE [i \in 1..257 |-> i - 1]
PairsW == IF Quick THEN <<0, 1, 2, 32, 64, 96, 127>> ELSE [i \in 1..128 |-> i - 1]
TruncW == IF Quick THEN <<0, 1, 8, 64, 128, 192, 253, 254>> ELSE [i \in 1..255 |-> i - 1]
DecW == IF Quick THEN <<1, 2, 8, 64, 252, 254, 255, 256>> ELSE [i \in 1..256 |-> i]

WithVals(w) == Around(w) \o (IF Quick THEN << Rnd(w) >> ELSE Globals \o << Rnd(w) >>)

RangeWQ == <<0, 1, 2, 7, 8, 9, 63, 64, 65, 128, 192, 253, 254, 255, 256>>
\* quick tier: EVERY width / pair count once with the two values straddling the bound
\* (the full value sets are used at the listed widths only; thorough uses them everywhere)
Upto(n) == [i \in 1..(n + 1) |-> i - 1]
Straddle(w) == IF w = 0 THEN << Zero, One >> ELSE IF w >= 255 THEN << M1 >> ELSE << BSub(P2(w), One), P2(w) >>
RangeCasesW(entry, widths) ==
  Flat(Map(widths, LAMBDA w : Map(WithVals(w),
        LAMBDA x : [g |-> entry, n |-> w, x |-> x, expect |-> RangeRel(w, x),
                    ops |-> P1(x, [op |-> entry, w |-> "x", bits |-> w])])))
RangePairCases ==
  Flat(Map(IF Quick THEN <<0, 1, 4, 64, 127, 128, 130>> ELSE [i \in 1..131 |-> i - 1],
        LAMBDA p : Map(WithVals(IF 2 * p > 256 THEN 256 ELSE 2 * p),
          LAMBDA x : [g |-> "range_pairs", n |-> p, x |-> x,
                      expect |-> RangeRel(IF 2 * p > 256 THEN 256 ELSE 2 * p, x),
                      ops |-> P1(x, [op |-> "range_pairs", w |-> "x", pairs |-> p])])))
DecompCases ==
  Flat(Map(DecW, LAMBDA w : Map(WithVals(w),
        LAMBDA x : [g |-> "decomposition", n |-> w, x |-> x, expect |-> DecompRel(w, x),
                    ops |-> P1(x, [op |-> "decomposition", w |-> "x", n |-> w, out |-> "bits"])])))
  \o (IF Quick THEN Flat(Map(Tail(Upto(256)), LAMBDA w : Map(<< BigLow(Rnd(w), w) >>,
        LAMBDA x : [g |-> "decomposition", n |-> w, x |-> x, every |-> TRUE, expect |-> DecompRel(w, x),
                    ops |-> P1(x, [op |-> "decomposition", w |-> "x", n |-> w, out |-> "bits"])]))) ELSE << >>)
RangeEveryWidth ==
  IF Quick THEN Flat(Map(Upto(256), LAMBDA w : Map(Straddle(w),
        LAMBDA x : [g |-> "range_bits", n |-> w, x |-> x, expect |-> RangeRel(w, x),
                    ops |-> P1(x, [op |-> "range_bits", w |-> "x", bits |-> w])]))) ELSE << >>
TruncCases ==
  Flat(Map(TruncW, LAMBDA w : Map(WithVals(w) \o << M1, Rnd(3) >>,
        LAMBDA x : [g |-> "truncate", n |-> w, x |-> x, expect |-> TruncRel(w, x),
                    ops |-> P1(x, [op |-> "truncate", w |-> "x", n |-> w, out |-> "t"])])))
  \o (IF Quick THEN Flat(Map(Upto(254), LAMBDA w : Map(<< Rnd(w + 300) >>,
        LAMBDA x : [g |-> "truncate", n |-> w, x |-> x, every |-> TRUE, expect |-> TruncRel(w, x),
                    ops |-> P1(x, [op |-> "truncate", w |-> "x", n |-> w, out |-> "t"])]))) ELSE << >>)
LogicVals(p) == << <<M1, M1>>, <<Rnd(p), Rnd(p + 1)>>, <<BSub(P2(2 * p), One), Rnd(p)>>,
                   <<Rnd(5), BAdd(Rnd(5), P2(IF 2 * p < 254 THEN 2 * p ELSE 0))>>, <<Zero, M1>> >>
LogicCases ==
  Flat(Map(PairsW, LAMBDA p : Flat(Map(<<TRUE, FALSE>>, LAMBDA o : Map(LogicVals(p),
        LAMBDA v : [g |-> "logic", n |-> p, xor |-> o, x |-> v[1], y |-> v[2],
                    expect |-> LogicRel(p, o, v[1], v[2]),
                    ops |-> P2w(v[1], v[2], [op |-> "logic", a |-> "x", b |-> "y", pairs |-> p, xor |-> o, out |-> "o"])])))))
  \o (IF Quick THEN Flat(Map(Upto(127), LAMBDA p : Map(<<TRUE, FALSE>>,
        LAMBDA o : [g |-> "logic", n |-> p, xor |-> o, x |-> Rnd(p + 500), y |-> Rnd(p + 700), every |-> TRUE,
                    expect |-> LogicRel(p, o, Rnd(p + 500), Rnd(p + 700)),
                    ops |-> P2w(Rnd(p + 500), Rnd(p + 700),
                                [op |-> "logic", a |-> "x", b |-> "y", pairs |-> p, xor |-> o, out |-> "o"])]))) ELSE << >>)

\* operand handles for the bitwise components: one handle for both operands, constant
\* witnesses (0 = ZERO, 1 = ONE) as operands
HandleLogicCases ==
  Flat(Map(IF Quick THEN <<1, 8, 64, 127>> ELSE <<1, 2, 8, 32, 64, 96, 126, 127>>, LAMBDA p :
    Flat(Map(<<TRUE, FALSE>>, LAMBDA o : Flat(Map(<< Rnd(p + 40), M1 >>, LAMBDA x :
      << [g |-> "logic/same-handle", n |-> p, xor |-> o, expect |-> LogicRel(p, o, x, x),
          ops |-> << Wt(x, "x"), [op |-> "logic", a |-> "x", b |-> "x", pairs |-> p, xor |-> o, out |-> "o"] >>],
         [g |-> "logic/const-b-0", n |-> p, xor |-> o, expect |-> LogicRel(p, o, x, Zero),
          ops |-> << Wt(x, "x"), [op |-> "logic", a |-> "x", b |-> 0, pairs |-> p, xor |-> o, out |-> "o"] >>],
         [g |-> "logic/const-a-1", n |-> p, xor |-> o, expect |-> LogicRel(p, o, One, x),
          ops |-> << Wt(x, "x"), [op |-> "logic", a |-> 1, b |-> "x", pairs |-> p, xor |-> o, out |-> "o"] >>] >>))))))

Bits4 == << Zero, One, BInt(2), M1 >>
Vals3 == << Zero, BInt(5), M1, Rnd(9) >>
ArithCases ==
     Map(Bits4 \o << Rnd(4) >>, LAMBDA x : [g |-> "boolean", x |-> x, expect |-> BoolRel(x),
                                                     ops |-> P1(x, [op |-> "boolean", a |-> "x"])])
  \o Flat(Map(Bits4, LAMBDA b : Flat(Map(Vals3, LAMBDA x : Map(<<Zero, Rnd(8)>>,
        LAMBDA y : [g |-> "select", x |-> b, y |-> x, z |-> y, expect |-> SelectRel(b, x, y),
                    ops |-> P3w(b, x, y, [op |-> "select", bit |-> "x", a |-> "y", b |-> "z", out |-> "s"])])))))
  \o Flat(Map(Bits4, LAMBDA b : Map(Vals3,
        LAMBDA x : [g |-> "select_one", x |-> b, y |-> x, expect |-> SelectOneRel(b, x),
                    ops |-> P2w(b, x, [op |-> "select_one", bit |-> "x", a |-> "y", out |-> "s"])])))
  \o Flat(Map(Bits4, LAMBDA b : Map(Vals3,
        LAMBDA x : [g |-> "select_zero", x |-> b, y |-> x, expect |-> SelectZeroRel(b, x),
                    ops |-> P2w(b, x, [op |-> "select_zero", bit |-> "x", a |-> "y", out |-> "s"])])))
  \o Flat(Map(<< <<Zero, Zero>>, <<Rnd(1), Rnd(1)>>, <<Rnd(1), Rnd(2)>>, <<Zero, M1>> >>,
        LAMBDA v : << [g |-> "assert_equal", x |-> v[1], y |-> v[2],
                       expect |-> IF v[1] = v[2] THEN Ok(<< >>) ELSE Unsat,
                       ops |-> P2w(v[1], v[2], [op |-> "assert_equal", a |-> "x", b |-> "y"])] >>))
  \o Flat(Map(<< <<Rnd(1), Rnd(1), Zero>>, <<BAdd(Rnd(1), Rnd(2)), Rnd(1), Rnd(2)>>, <<Rnd(1), Rnd(2), Zero>>, <<Zero, M1, One>> >>,
        LAMBDA v : << [g |-> "assert_equal_constant", x |-> v[1], k |-> v[2], pi |-> v[3],
                       expect |-> IF v[1] = BAdd(v[2], v[3]) THEN Ok(<< >>) ELSE Unsat,
                       ops |-> P1(v[1], [op |-> "assert_equal_constant", a |-> "x", c |-> v[2], pi |-> v[3]])] >>))
  \o Flat(Map(<< <<One, Zero, Zero, M1, Zero, Zero>>, <<Zero, One, One, One, Zero, BInt(3)>>,
                 <<Rnd(1), Rnd(2), Rnd(3), Rnd(4), Rnd(5), Rnd(6)>>, <<One, One, Zero, Zero, Zero, Zero>>,
                 <<Zero, One, Zero, Zero, Zero, BNeg(BInt(5))>>, <<One, M1, Zero, BInt(2), One, BInt(7)>> >>,
        LAMBDA q : Flat(Map(<< <<BInt(5), Zero, Zero>>, <<BInt(5), BInt(9), Rnd(1)>>, <<Zero, M1, Rnd(2)>> >>,
          LAMBDA v : Map(<<FALSE, TRUE>>,
            LAMBDA hp : [g |-> "evalout", q |-> q, x |-> v[1], y |-> v[2], z |-> v[3], haspi |-> hp,
                         expect |-> EvalOutRel(q, v[1], v[2], v[3], hp, BInt(4)),
                         ops |-> P3w(v[1], v[2], v[3],
                                    IF hp THEN [op |-> "evaluated_output", w |-> <<"x", "y", 0, "z">>, out |-> "e", pi |-> BInt(4),
                                                q |-> [m |-> q[1], l |-> q[2], r |-> q[3], o |-> q[4], f |-> q[5], c |-> q[6]]]
                                    ELSE [op |-> "evaluated_output", w |-> <<"x", "y", 0, "z">>, out |-> "e",
                                          q |-> [m |-> q[1], l |-> q[2], r |-> q[3], o |-> q[4], f |-> q[5], c |-> q[6]]])])))))

SSub1(x) == BSub(One, x)
\* operand handles for the arithmetic family
HandleArithCases ==
     Flat(Map(Vals3, LAMBDA x :
        << [g |-> "select/const-bit-1", expect |-> SelectRel(One, x, Rnd(8)),
            ops |-> << Wt(x, "x"), Wt(Rnd(8), "y"), [op |-> "select", bit |-> 1, a |-> "x", b |-> "y", out |-> "s"] >>],
           [g |-> "select/const-bit-0", expect |-> SelectRel(Zero, x, Rnd(8)),
            ops |-> << Wt(x, "x"), Wt(Rnd(8), "y"), [op |-> "select", bit |-> 0, a |-> "x", b |-> "y", out |-> "s"] >>],
           [g |-> "select/same-handle", expect |-> SelectRel(One, x, x),
            ops |-> << Wt(One, "b"), Wt(x, "x"), [op |-> "select", bit |-> "b", a |-> "x", b |-> "x", out |-> "s"] >>],
           [g |-> "select/all-one-handle", expect |-> SelectRel(x, x, x),   \* component_select does not constrain its bit
            ops |-> << Wt(x, "x"), [op |-> "select", bit |-> "x", a |-> "x", b |-> "x", out |-> "s"] >>],
           [g |-> "select_one/const-bit-0", expect |-> SelectOneRel(Zero, x),
            ops |-> << Wt(x, "x"), [op |-> "select_one", bit |-> 0, a |-> "x", out |-> "s"] >>],
           [g |-> "select_zero/const-bit-1", expect |-> SelectZeroRel(One, x),
            ops |-> << Wt(x, "x"), [op |-> "select_zero", bit |-> 1, a |-> "x", out |-> "s"] >>],
           [g |-> "assert_equal/same-handle", expect |-> Ok(<< >>),
            ops |-> << Wt(x, "x"), [op |-> "assert_equal", a |-> "x", b |-> "x"] >>],
           [g |-> "assert_equal/const-0", expect |-> IF x = Zero THEN Ok(<< >>) ELSE Unsat,
            ops |-> << Wt(x, "x"), [op |-> "assert_equal", a |-> "x", b |-> 0] >>],
           [g |-> "assert_equal/const-1", expect |-> IF x = One THEN Ok(<< >>) ELSE Unsat,
            ops |-> << Wt(x, "x"), [op |-> "assert_equal", a |-> 1, b |-> "x"] >>],
           [g |-> "gate_add/same-handle", expect |-> Ok(<< BAdd(BAdd(BMul(Rnd(2), x), BMul(Rnd(3), x)), BAdd(BMul(Rnd(5), x), Rnd(6))) >>),
            ops |-> << Wt(x, "x"), [op |-> "gate_add", w |-> <<"x", "x", 0, "x">>, out |-> "s",
                                    q |-> [l |-> Rnd(2), r |-> Rnd(3), f |-> Rnd(5), c |-> Rnd(6)]] >>],
           [g |-> "gate_mul/same-handle", expect |-> Ok(<< BAdd(BMul(Rnd(1), BMul(x, x)), BAdd(BMul(Rnd(5), One), Rnd(6))) >>),
            ops |-> << Wt(x, "x"), [op |-> "gate_mul", w |-> <<"x", "x", 0, 1>>, out |-> "s",
                                    q |-> [m |-> Rnd(1), f |-> Rnd(5), c |-> Rnd(6)]] >>] >>))
  \* every VALUE operand position with the constant handles 0 / 1
  \o Flat(Map(Bits4, LAMBDA b : Flat(Map(<< <<0, Zero>>, <<1, One>> >>, LAMBDA k :
        << [g |-> "select_one/const-value", expect |-> SelectOneRel(b, k[2]),
            ops |-> << Wt(b, "b"), [op |-> "select_one", bit |-> "b", a |-> k[1], out |-> "s"] >>],
           [g |-> "select_zero/const-value", expect |-> SelectZeroRel(b, k[2]),
            ops |-> << Wt(b, "b"), [op |-> "select_zero", bit |-> "b", a |-> k[1], out |-> "s"] >>],
           [g |-> "select/const-a", expect |-> SelectRel(b, k[2], Rnd(8)),
            ops |-> << Wt(b, "b"), Wt(Rnd(8), "y"), [op |-> "select", bit |-> "b", a |-> k[1], b |-> "y", out |-> "s"] >>],
           [g |-> "select/const-b", expect |-> SelectRel(b, Rnd(8), k[2]),
            ops |-> << Wt(b, "b"), Wt(Rnd(8), "y"), [op |-> "select", bit |-> "b", a |-> "y", b |-> k[1], out |-> "s"] >>],
           [g |-> "select/const-a-b", expect |-> SelectRel(b, k[2], SSub1(k[2])),
            ops |-> << Wt(b, "b"), [op |-> "select", bit |-> "b", a |-> k[1], b |-> 1 - k[1], out |-> "s"] >>] >>))))
  \o Flat(Map(<< <<0, Zero>>, <<1, One>> >>, LAMBDA k :
        << [g |-> "gate_add/const-operands", expect |-> Ok(<< BAdd(BAdd(BMul(Rnd(2), k[2]), BMul(Rnd(3), Rnd(9))), BAdd(BMul(Rnd(5), k[2]), Rnd(6))) >>),
            ops |-> << Wt(Rnd(9), "y"), [op |-> "gate_add", w |-> <<k[1], "y", 0, k[1]>>, out |-> "s",
                                         q |-> [l |-> Rnd(2), r |-> Rnd(3), f |-> Rnd(5), c |-> Rnd(6)]] >>],
           [g |-> "gate_mul/const-operands", expect |-> Ok(<< BAdd(BMul(Rnd(1), BMul(k[2], Rnd(9))), Rnd(6)) >>),
            ops |-> << Wt(Rnd(9), "y"), [op |-> "gate_mul", w |-> <<k[1], "y", 0, 0>>, out |-> "s",
                                         q |-> [m |-> Rnd(1), f |-> Rnd(5), c |-> Rnd(6)]] >>],
           [g |-> "boolean-then-select_one/const-value", expect |-> SelectOneRel(One, k[2]),
            ops |-> << Wt(One, "b"), [op |-> "boolean", a |-> "b"], [op |-> "select_one", bit |-> "b", a |-> k[1], out |-> "s"] >>] >>))
  \o << [g |-> "assert_equal/const-0-1", expect |-> Unsat, ops |-> << [op |-> "assert_equal", a |-> 0, b |-> 1] >>],
        [g |-> "boolean/const-1", expect |-> Ok(<< >>), ops |-> << [op |-> "boolean", a |-> 1] >>],
        [g |-> "boolean/const-0", expect |-> Ok(<< >>), ops |-> << [op |-> "boolean", a |-> 0] >>] >>

\* ---- curve ----------------------------------------------------------------
Id == C!PtId
Dbl(p) == C!PtAdd(p, p)
T4 == Dbl(JubJubT8)
T2 == Dbl(T4)
GMul(x) == PtMulInt(JubJubG, x, 252)

\* the named points have the properties the scenarios rely on
PointsOK ==
  /\ C!PtOnCurve(JubJubG) /\ C!PrimeOrder(JubJubG)
  /\ C!PtOnCurve(JubJubGNums) /\ C!PrimeOrder(JubJubGNums)
  /\ C!PtOnCurve(JubJubT8) /\ Dbl(T2) = Id /\ T2 # Id /\ T2 = << Zero, M1 >>
  /\ C!PtOnCurve(JubJubMixed) /\ ~C!TorsionFree(JubJubMixed)
  /\ JubJubMixed = C!PtAdd(JubJubG, JubJubT8)

PtJ(p) == [u |-> p[1], v |-> p[2]]
ExtJ(e) == [ext |-> e]
PtOp(p, out) == [op |-> "point", u |-> p[1], v |-> p[2], out |-> out]

SubPtsS == << Id, JubJubG, GMul(BInt(2)), C!PtNeg(JubJubG), GMul(Rnd(21)), JubJubGNums >>
PairsS == << <<Id, Id>>, <<JubJubG, Id>>, <<JubJubG, JubJubG>>, <<JubJubG, C!PtNeg(JubJubG)>>,
             <<GMul(Rnd(21)), GMul(Rnd(22))>>, <<JubJubGNums, GMul(BInt(2))>>, <<Id, GMul(Rnd(23))>> >>

CurveCases ==
     Flat(Map(PairsS, LAMBDA pq :
        << [g |-> "add_point", expect |-> Ok(C!PtAdd(pq[1], pq[2])),
            ops |-> << PtOp(pq[1], "P"), PtOp(pq[2], "Q"), [op |-> "add_point", a |-> "P", b |-> "Q", out |-> "R"] >>],
           [g |-> "sub_point", expect |-> Ok(C!PtAdd(pq[1], C!PtNeg(pq[2]))),
            ops |-> << PtOp(pq[1], "P"), PtOp(pq[2], "Q"), [op |-> "sub_point", a |-> "P", b |-> "Q", out |-> "R"] >>] >>))
  \o Map(SubPtsS, LAMBDA p :
        [g |-> "neg_point", expect |-> Ok(C!PtNeg(p)),
         ops |-> << PtOp(p, "P"), [op |-> "neg_point", a |-> "P", out |-> "R"] >>])
  \o Flat(Map(Bits4, LAMBDA b : Map(<< JubJubG, Id, GMul(Rnd(24)) >>, LAMBDA p :
        [g |-> "select_identity",
         expect |-> IF b = One THEN Ok(p) ELSE IF b = Zero THEN Ok(Id) ELSE Unsat,
         ops |-> << Wt(b, "b"), PtOp(p, "P"), [op |-> "select_identity", bit |-> "b", a |-> "P", out |-> "R"] >>])))
  \o Flat(Map(<<Zero, One>>, LAMBDA b : Map(PairsS, LAMBDA pq :
        [g |-> "select_point", expect |-> Ok(IF b = One THEN pq[1] ELSE pq[2]),
         ops |-> << Wt(b, "b"), PtOp(pq[1], "P"), PtOp(pq[2], "Q"),
                    [op |-> "select_point", bit |-> "b", a |-> "P", b |-> "Q", out |-> "R"] >>])))

\* ---- operand handles: the constant witnesses (indices 0 = ZERO, 1 = ONE, hence the
\* IDENTITY constant point <<0, 1>>) and one handle used for several operands.  The
\* relation is the same as for freshly allocated operands of the same value.
IdC == << 0, 1 >>
HandleCurveCases ==
     Flat(Map(<< JubJubG, Id, GMul(Rnd(25)) >>, LAMBDA p :
        << [g |-> "add_point/const-b", expect |-> Ok(p),
            ops |-> << PtOp(p, "P"), [op |-> "add_point", a |-> "P", b |-> IdC, out |-> "R"] >>],
           [g |-> "add_point/const-a", expect |-> Ok(p),
            ops |-> << PtOp(p, "P"), [op |-> "add_point", a |-> IdC, b |-> "P", out |-> "R"] >>],
           [g |-> "sub_point/const-b", expect |-> Ok(p),
            ops |-> << PtOp(p, "P"), [op |-> "sub_point", a |-> "P", b |-> IdC, out |-> "R"] >>],
           [g |-> "sub_point/const-a", expect |-> Ok(C!PtNeg(p)),
            ops |-> << PtOp(p, "P"), [op |-> "sub_point", a |-> IdC, b |-> "P", out |-> "R"] >>],
           [g |-> "add_point/same-handle", expect |-> Ok(Dbl(p)),
            ops |-> << PtOp(p, "P"), [op |-> "add_point", a |-> "P", b |-> "P", out |-> "R"] >>],
           [g |-> "sub_point/same-handle", expect |-> Ok(Id),
            ops |-> << PtOp(p, "P"), [op |-> "sub_point", a |-> "P", b |-> "P", out |-> "R"] >>],
           [g |-> "select_point/same-handle", expect |-> Ok(p),
            ops |-> << Wt(One, "b"), PtOp(p, "P"), [op |-> "select_point", bit |-> "b", a |-> "P", b |-> "P", out |-> "R"] >>],
           [g |-> "select_point/const-bit-1", expect |-> Ok(p),
            ops |-> << PtOp(p, "P"), PtOp(JubJubGNums, "Q"), [op |-> "select_point", bit |-> 1, a |-> "P", b |-> "Q", out |-> "R"] >>],
           [g |-> "select_point/const-bit-0", expect |-> Ok(JubJubGNums),
            ops |-> << PtOp(p, "P"), PtOp(JubJubGNums, "Q"), [op |-> "select_point", bit |-> 0, a |-> "P", b |-> "Q", out |-> "R"] >>],
           [g |-> "select_identity/const-bit-1", expect |-> Ok(p),
            ops |-> << PtOp(p, "P"), [op |-> "select_identity", bit |-> 1, a |-> "P", out |-> "R"] >>],
           [g |-> "select_identity/const-bit-0", expect |-> Ok(Id),
            ops |-> << PtOp(p, "P"), [op |-> "select_identity", bit |-> 0, a |-> "P", out |-> "R"] >>] >>))
  \o Flat(Map(<< Zero, One >>, LAMBDA b :
        << [g |-> "select_point/const-b", expect |-> Ok(IF b = One THEN JubJubG ELSE Id),
            ops |-> << Wt(b, "b"), PtOp(JubJubG, "P"), [op |-> "select_point", bit |-> "b", a |-> "P", b |-> IdC, out |-> "R"] >>],
           [g |-> "select_point/const-a", expect |-> Ok(IF b = One THEN Id ELSE JubJubG),
            ops |-> << Wt(b, "b"), PtOp(JubJubG, "P"), [op |-> "select_point", bit |-> "b", a |-> IdC, b |-> "P", out |-> "R"] >>],
           [g |-> "select_identity/const-point", expect |-> Ok(Id),
            ops |-> << Wt(b, "b"), [op |-> "select_identity", bit |-> "b", a |-> IdC, out |-> "R"] >>] >>))
  \o << [g |-> "add_point/const-both", expect |-> Ok(Id),
         ops |-> << [op |-> "add_point", a |-> IdC, b |-> IdC, out |-> "R"] >>],
        [g |-> "neg_point/const", expect |-> Ok(Id),
         ops |-> << [op |-> "neg_point", a |-> IdC, out |-> "R"] >>],
        [g |-> "mul_point/const-point", expect |-> Ok(Id),
         ops |-> << Wt(Rnd(26), "s0"), [op |-> "truncate", w |-> "s0", n |-> 250, out |-> "s"],
                    [op |-> "mul_point", s |-> "s", p |-> IdC, out |-> "R"] >>],
        [g |-> "mul_point/const-scalar-1", expect |-> Ok(JubJubG),
         ops |-> << PtOp(JubJubG, "P"), [op |-> "mul_point", s |-> 1, p |-> "P", out |-> "R"] >>],
        [g |-> "mul_point/const-scalar-0", expect |-> Ok(Id),
         ops |-> << PtOp(JubJubG, "P"), [op |-> "mul_point", s |-> 0, p |-> "P", out |-> "R"] >>] >>

MulScalars == IF Quick THEN << Zero, BigSub(RJ, BigOne), BSub(P2(252), One), P2(252) >>
              ELSE << Zero, One, BigSub(RJ, BigOne), RJ, BSub(P2(252), One), P2(252), BigLow(Rnd(31), 252), BigLow(Rnd(32), 252), M1 >>
MulPointCases ==
  Flat(Map(MulScalars, LAMBDA x : Map(IF Quick THEN << JubJubG >> ELSE << JubJubG, Id, JubJubGNums >>, LAMBDA p :
        [g |-> "mul_point",
         expect |-> IF IntLt2k(x, 252) THEN Ok(PtMulInt(p, x, 252)) ELSE Unsat,
         ops |-> << Wt(x, "s"), PtOp(p, "P"), [op |-> "mul_point", s |-> "s", p |-> "P", out |-> "R"] >>])))

\* ---- subgroup boundary -------------------------------------------------------
OffCurve == << One, One >>
Origin == << Zero, Zero >>
Candidates == << Id, JubJubG, GMul(Rnd(41)), JubJubGNums, JubJubT8, T4, T2, JubJubMixed,
                 C!PtAdd(JubJubGNums, T4), C!PtAdd(GMul(Rnd(42)), T2), OffCurve, Origin, << Rnd(43), Rnd(44) >> >>
EightInvPt(p) == C!PtMul(p, EightInvB)
Eight(q) == Dbl(Dbl(Dbl(q)))

ExtOf(p) == << p[1], p[2], One, p[1], p[2] >>
\* same affine point, scaled representation (Z = 3)
ExtScaled(p) == << BMul(BInt(3), p[1]), BMul(BInt(3), p[2]), BInt(3), p[1], BMul(BInt(3), p[2]) >>
ExtZ0(p) == << p[1], p[2], Zero, p[1], p[2] >>
ExtBadT(p) == << p[1], p[2], One, BAdd(p[1], One), p[2] >>
Reps(p) == << ExtOf(p), ExtScaled(p), ExtZ0(p), ExtBadT(p) >>

ConstPointRes(e) == IF e[3] = Zero THEN ErrC("err:JubJubPointDegenerate")
                    ELSE IF ~(C!ExtOnCurve(e) /\ C!TorsionFree(C!ExtAffine(e))) THEN ErrC("err:JubJubPointNotTorsionFree")
                    ELSE Ok(C!ExtAffine(e))
AnyPointRes(e) == IF e[3] = Zero THEN ErrC("err:JubJubPointDegenerate") ELSE Ok(C!ExtAffine(e))
GeneratorRes(e, x) ==
  IF e[3] = Zero \/ ~C!ExtOnCurve(e) \/ ~C!PrimeOrder(C!ExtAffine(e)) THEN ErrC("err:JubJubGeneratorNotPrimeOrder")
  ELSE IF ~C!ScalarCanonical(x) THEN ErrC("err:JubJubScalarMalformed")
  ELSE Ok(PtMulInt(C!ExtAffine(e), x, 252))

SubgroupCases ==
     Map(Candidates, LAMBDA p :
        [g |-> "assert_torsion_free", expect |-> IF InSubgroup(p) THEN Ok(<< >>) ELSE Unsat,
         ops |-> << PtOp(p, "P"), [op |-> "assert_torsion_free", p |-> "P", out |-> "T"] >>])
  \o Flat(Map(<< JubJubG, Id, JubJubMixed, T4, T2, C!PtAdd(JubJubG, T2) >>, LAMBDA p :
        Map(<< EightInvPt(p), C!PtAdd(EightInvPt(p), JubJubT8), C!PtAdd(EightInvPt(p), T2), OffCurve, Origin, Id, p,
               JubJubT8, T4, C!PtAdd(PtMulInt(p, BigInvMod(BigFromInt(4), RJ), 252), JubJubT8),
               C!PtAdd(PtMulInt(p, BigInvMod(BigFromInt(2), RJ), 252), T4) >>, LAMBDA q :
          [g |-> "torsion_free_gates",
           expect |-> IF C!PtOnCurve(q) /\ Eight(q) = p THEN Ok(<< >>) ELSE Unsat,
           ops |-> << PtOp(p, "P"), [op |-> "torsion_free_gates", p |-> "P", qu |-> q[1], qv |-> q[2]] >>])))
  \o Flat(Map(<< JubJubG, Id, JubJubT8, T2, JubJubMixed, OffCurve, Origin >>, LAMBDA p : Flat(Map(Reps(p), LAMBDA e :
        << [g |-> "append_constant_point", expect |-> ConstPointRes(e),
            ops |-> << [op |-> "append_constant_point", pt |-> ExtJ(e), out |-> "P"] >>],
           [g |-> "append_point", expect |-> AnyPointRes(e),
            ops |-> << [op |-> "append_point", pt |-> ExtJ(e), out |-> "P"] >>],
           [g |-> "append_public_point", expect |-> AnyPointRes(e),
            ops |-> << [op |-> "append_public_point", pt |-> ExtJ(e), out |-> "P"] >>],
           [g |-> "assert_equal_public_point",
            expect |-> IF e[3] = Zero THEN ErrC("err:JubJubPointDegenerate")
                       ELSE IF C!ExtAffine(e) = JubJubG THEN Ok(<< >>) ELSE Unsat,
            ops |-> << PtOp(JubJubG, "P"), [op |-> "assert_equal_public_point", p |-> "P", pt |-> ExtJ(e)] >>],
           [g |-> "mul_generator-validation", expect |-> GeneratorRes(e, BInt(5)),
            ops |-> << Wt(BInt(5), "s"), [op |-> "mul_generator", s |-> "s", pt |-> ExtJ(e), out |-> "R"] >>] >>))))

\* ---- fixed base ------------------------------------------------------------------
FixedScalars == IF Quick THEN << Zero, One, BigSub(RJ, BigOne), RJ, BSub(P2(252), One), BigLow(Rnd(51), 251) >>
                ELSE << Zero, One, BInt(2), BigSub(RJ, BigOne), RJ, BAdd(RJ, One), BSub(P2(252), One), P2(252), M1,
                        BigLow(Rnd(51), 251), BigLow(Rnd(52), 251), BigLow(Rnd(53), 250) >>
FixedCases ==
  Flat(Map(FixedScalars, LAMBDA x : Map(IF Quick THEN << JubJubG >> ELSE << JubJubG, JubJubGNums, GMul(Rnd(54)) >>, LAMBDA p :
        [g |-> "mul_generator", expect |-> GeneratorRes(ExtOf(p), x),
         ops |-> << Wt(x, "s"), [op |-> "mul_generator", s |-> "s", pt |-> PtJ(p), out |-> "R"] >>])))

\* constant-witness handles (0 = ZERO, 1 = ONE) as the operand of the bit-level and
\* fixed-base components
HandleRangeCases ==
  Flat(Map(<<0, 1, 2, 64, 253, 256>>, LAMBDA w :
    << [g |-> "range_bits/const-1", n |-> w, expect |-> RangeRel(w, One),
        ops |-> << [op |-> "range_bits", w |-> 1, bits |-> w] >>],
       [g |-> "range_bits/const-0", n |-> w, expect |-> RangeRel(w, Zero),
        ops |-> << [op |-> "range_bits", w |-> 0, bits |-> w] >>] >>))
HandleTruncCases ==
  Flat(Map(<<0, 1, 2, 64, 254>>, LAMBDA w :
    << [g |-> "truncate/const-1", n |-> w, expect |-> TruncRel(w, One),
        ops |-> << [op |-> "truncate", w |-> 1, n |-> w, out |-> "t"] >>],
       [g |-> "truncate/const-0", n |-> w, expect |-> TruncRel(w, Zero),
        ops |-> << [op |-> "truncate", w |-> 0, n |-> w, out |-> "t"] >>] >>))
HandleDecompCases ==
  Flat(Map(<<1, 2, 64, 256>>, LAMBDA w :
    << [g |-> "decomposition/const-1", n |-> w, expect |-> DecompRel(w, One),
        ops |-> << [op |-> "decomposition", w |-> 1, n |-> w, out |-> "bits"] >>],
       [g |-> "decomposition/const-0", n |-> w, expect |-> DecompRel(w, Zero),
        ops |-> << [op |-> "decomposition", w |-> 0, n |-> w, out |-> "bits"] >>] >>))
HandleFixedCases ==
  << [g |-> "mul_generator/const-1", expect |-> Ok(JubJubG),
      ops |-> << [op |-> "mul_generator", s |-> 1, pt |-> PtJ(JubJubG), out |-> "R"] >>],
     [g |-> "mul_generator/const-0", expect |-> Ok(Id),
      ops |-> << [op |-> "mul_generator", s |-> 0, pt |-> PtJ(JubJubG), out |-> "R"] >>] >>
HandleSubgroupCases ==
  << [g |-> "assert_torsion_free/const-identity", expect |-> Ok(<< >>),
      ops |-> << [op |-> "assert_torsion_free", p |-> IdC, out |-> "T"] >>],
     [g |-> "assert_equal_point/same-handle", expect |-> Ok(<< >>),
      ops |-> << PtOp(JubJubG, "P"), [op |-> "assert_equal_point", a |-> "P", b |-> "P"] >>],
     [g |-> "assert_equal_point/const-identity", expect |-> Unsat,
      ops |-> << PtOp(JubJubG, "P"), [op |-> "assert_equal_point", a |-> "P", b |-> IdC] >>],
     [g |-> "assert_equal_point/const-identity-eq", expect |-> Ok(<< >>),
      ops |-> << PtOp(Id, "P"), [op |-> "assert_equal_point", a |-> IdC, b |-> "P"] >>] >>

\* ---- decomposition alias (C11 "no other bit vector satisfies it") -----------
\* the bit and accumulator witnesses of component_decomposition::<N>(x) overridden
\* with the bits / running sums of the INTEGER x + r; x is witness 6 (0-based), bit i
\* is witness 7 + 2i, its running sum 8 + 2i
AliasOps(x, n) ==
  LET y == BigAdd(x, R)
  IN << Wt(x, "x"), [op |-> "decomposition", w |-> "x", n |-> n, out |-> "bits"] >>
     \o Flat([i \in 1..n |->
           << [op |-> "set_witness_opt", w |-> 7 + 2 * (i - 1), v |-> BInt(BigBit(y, i - 1))],
              [op |-> "set_witness_opt", w |-> 8 + 2 * (i - 1), v |-> BigMod(BigLow(y, i), R)] >>])
AliasCases ==
  Flat(Map(<<254, 255, 256>>, LAMBDA n : Map(<< BInt(5), Zero, Rnd(61) >>, LAMBDA x :
        [g |-> "decomposition-alias", n |-> n, x |-> x,
         expect |-> NotOther([i \in 1..n |-> BInt(BigBit(x, i - 1))]), ops |-> AliasOps(x, n)])))

\* ---- alias adversaries (C10 / C11): the specification's own honest generators are
\* run on the INTEGER x + r in place of the input (all derived witnesses are then the
\* consistent "wrapped" decomposition); the differing witnesses become overrides.
\* The returned value differs from the canonical one, so the relation says: no
\* satisfying assignment -> CircuitUnsatisfied.
InState(x) == C!Alloc(C!Initialized, x)                 \* the input is witness 7
InState2(x, y) == C!Alloc(C!Alloc(C!Initialized, x), y)  \* inputs are witnesses 7, 8
Overrides(honest, aliased, fixed) ==
  LET idx == {w \in 1..Len(honest) : w \notin fixed /\ honest[w] # aliased[w]}
      RECURSIVE toSeq(_)
      toSeq(S) == IF S = {} THEN << >>
                  ELSE LET m == CHOOSE a \in S : \A b \in S : a <= b
                       IN << [op |-> "set_witness_opt", w |-> m - 1, v |-> aliased[m]] >> \o toSeq(S \ {m})
  IN toSeq(idx)

TruncAlias(n, x) ==
  LET honest == C!Truncate(InState(x), 7, n).st.vals
      aliased == C!Truncate(InState(BigAdd(x, R)), 7, n).st.vals
  IN [g |-> "truncate-alias", n |-> n, x |-> x, expect |-> NotOther(<< BigLow(x, n) >>),
      ops |-> << Wt(x, "x"), [op |-> "truncate", w |-> "x", n |-> n, out |-> "t"] >>
              \o Overrides(honest, aliased, {7})]
LogicAlias(p, xor, x, y) ==
  LET honest == C!Logic(InState2(x, y), 7, 8, p, xor).st.vals
      aliased == C!Logic(InState2(BigAdd(x, R), y), 7, 8, p, xor).st.vals
  IN [g |-> "logic-alias", n |-> p, xor |-> xor, x |-> x,
      expect |-> NotOther(<< BitwiseRec(x, y, 2 * p, xor, 0) >>),
      ops |-> << Wt(x, "x"), Wt(y, "y"),
                 [op |-> "logic", a |-> "x", b |-> "y", pairs |-> p, xor |-> xor, out |-> "o"] >>
              \o Overrides(honest, aliased, {7, 8})]
\* ---- the same aliases as PROGRAMS (compile the public component, prove an instance
\* composed from the seams with explicit adversarial witnesses): every downstream
\* witness is then generated by the IMPLEMENTATION from the adversarial (high, low)
\* with its own constants, so the adversary stays consistent even when the constants
\* or the tail of the layout have drifted.  Shape mismatch => InvalidCircuitSize =>
\* no verdict (never an alarm).
RC(w, n) == [op |-> "range_check", w |-> w, bits |-> n]
\* `skip` leaves one sub-block out: an implementation whose layout lacks that block
\* (e.g. a range check "optimised away") is then attacked with a matching shape; on a
\* layout that has the block the variant is an InvalidCircuitSize no-op
BindB(inp, acc, hreg, rreg, h, n, skip) ==
  << Wt(h, hreg) >>
  \o (IF skip = "rc-high" THEN << >> ELSE << RC(hreg, 255 - n) >>)
  \o << [op |-> "gate_add", q |-> [l |-> P2(n), r |-> One], w |-> <<hreg, acc>>, out |-> rreg],
        [op |-> "assert_equal", a |-> rreg, b |-> inp] >>
  \o (IF skip = "canonical" THEN << >>
      ELSE << [op |-> "assert_canonical_truncation", high |-> hreg, low |-> acc, n |-> n] >>)
TruncAliasB(n, x, skip) ==
  LET y == BigAdd(x, R)
  IN [g |-> "truncate-alias-seams", n |-> n, x |-> x, skip |-> skip, expect |-> NotOther(<< BigLow(x, n) >>),
      ops |-> << Wt(x, "x"), [op |-> "truncate", w |-> "x", n |-> n, out |-> "t"] >>,
      prove_ops |-> << Wt(x, "x"), Wt(BigLow(y, n), "l") >>
                    \o (IF skip = "rc-low" THEN << >> ELSE << RC("l", n) >>)
                    \o BindB("x", "l", "h", "rec", BigMod(BigShr(y, n), R), n, skip)
                    \o << [op |-> "ret", w |-> <<"l">>] >>]
Skips == << "none", "rc-low", "rc-high", "canonical" >>
\* small inputs (alias high part small) and inputs close to the modulus (alias high part
\* beyond 2^(255-n): only the range check of the high part rejects those)
AliasXL == << BInt(5), BigLow(Rnd(81), 250), BSub(M1, One), BSub(BSub(M1, BInt(3)), P2(200)) >>

LogicSelS(xor) == IF xor THEN << Zero, Zero, Zero, Zero, Zero, M1, Zero, Zero, M1, Zero, Zero >>
                  ELSE << Zero, Zero, Zero, Zero, Zero, One, Zero, Zero, One, Zero, Zero >>
NoSelS == << Zero, Zero, Zero, Zero, Zero, Zero, Zero, Zero, Zero, Zero, Zero >>
DigitAt(v, kk) == BigBit(v, 2 * kk) + 2 * BigBit(v, 2 * kk + 1)
AndDg(a, b) == (IF a \in {1, 3} /\ b \in {1, 3} THEN 1 ELSE 0) + (IF a \in {2, 3} /\ b \in {2, 3} THEN 2 ELSE 0)
XorDg(a, b) == (IF (a \in {1, 3}) # (b \in {1, 3}) THEN 1 ELSE 0) + (IF (a \in {2, 3}) # (b \in {2, 3}) THEN 2 ELSE 0)
Nm(pfx, j) == pfx \o ToString(j)
\* logic rows with explicit accumulators taken from the digits of xa (an integer) and yb
RECURSIVE LogicRowsB(_, _, _, _, _, _, _, _)
LogicRowsB(xa, yb, p, xor, j, la, ra, oa) ==
  IF j > p THEN << [op |-> "raw", sel |-> NoSelS,
                    w |-> << IF p = 0 THEN 0 ELSE Nm("a", p), IF p = 0 THEN 0 ELSE Nm("b", p), 0,
                             IF p = 0 THEN 0 ELSE Nm("d", p) >>] >>
  ELSE LET kk == p - j
           lq == DigitAt(xa, kk)
           rq == DigitAt(yb, kk)
           oq == IF xor THEN XorDg(lq, rq) ELSE AndDg(lq, rq)
           la2 == BAdd(BMul(BInt(4), la), BInt(lq))
           ra2 == BAdd(BMul(BInt(4), ra), BInt(rq))
           oa2 == BAdd(BMul(BInt(4), oa), BInt(oq))
           prev(pfx) == IF j = 1 THEN 0 ELSE Nm(pfx, j - 1)
       IN << Wt(la2, Nm("a", j)), Wt(ra2, Nm("b", j)), Wt(BInt(lq * rq), Nm("c", j)), Wt(oa2, Nm("d", j)),
             [op |-> "raw", sel |-> LogicSelS(xor), w |-> << prev("a"), prev("b"), Nm("c", j), prev("d") >>] >>
          \o LogicRowsB(xa, yb, p, xor, j + 1, la2, ra2, oa2)
LogicAliasB(p, xor, x, y, skip) ==
  LET xa == BigAdd(x, R)
      n == 2 * p
  IN [g |-> "logic-alias-seams", n |-> p, xor |-> xor, x |-> x, skip |-> skip,
      expect |-> NotOther(<< BitwiseRec(x, y, n, xor, 0) >>),
      ops |-> << Wt(x, "x"), Wt(y, "y"),
                 [op |-> "logic", a |-> "x", b |-> "y", pairs |-> p, xor |-> xor, out |-> "o"] >>,
      prove_ops |-> << Wt(x, "x"), Wt(y, "y") >>
                    \o LogicRowsB(xa, y, p, xor, 1, Zero, Zero, Zero)
                    \o BindB("x", Nm("a", p), "hx", "recx", BigMod(BigShr(xa, n), R), n, skip)
                    \o BindB("y", Nm("b", p), "hy", "recy", BigShr(y, n), n, skip)
                    \o << [op |-> "ret", w |-> << Nm("d", p) >>] >>]

\* the split moved by one unit: low + 2^n, high - 1 (all other witnesses regenerated)
TruncShift(n, x) ==
  LET honest == C!Truncate(InState(x), 7, n).st.vals
      adv == CS!Truncate(InState(x), 7, n).st.vals
  IN [g |-> "truncate-shift", n |-> n, x |-> x, expect |-> NotOther(<< BigLow(x, n) >>),
      ops |-> << Wt(x, "x"), [op |-> "truncate", w |-> "x", n |-> n, out |-> "t"] >>
              \o Overrides(honest, adv, {7})]
TruncShiftCases ==
  Flat(Map(IF Quick THEN <<1, 8, 64, 128, 253>> ELSE [i \in 1..253 |-> i],
           LAMBDA n : Map(<< M1, Rnd(83) >>, LAMBDA x : TruncShift(n, x))))

AliasX == << BInt(5), BigLow(Rnd(81), 250) >>
TruncAliasCases ==
  Flat(Map(IF Quick THEN <<1, 64, 128, 192, 254>> ELSE [i \in 1..254 |-> i],
           LAMBDA n : Map(AliasX, LAMBDA x : TruncAlias(n, x))))
LogicAliasCases ==
  Flat(Map(IF Quick THEN <<1, 32, 64, 96, 127>> ELSE [i \in 1..127 |-> i],
           LAMBDA p : Flat(Map(<<TRUE, FALSE>>, LAMBDA o : Map(AliasX, LAMBDA x : LogicAlias(p, o, x, Rnd(82)))))))

\* ---- closing-first adversary for the range gadget (C09): for an out-of-range value the
\* accumulators are chosen to satisfy the closing equalities; a digit constraint must fail
RangeClosing(entry, n, x) ==
  LET honest == C!RangeCheck(InState(x), 7, n).vals
      adv == CB!RangeCheck(InState(x), 7, n).vals
  IN [g |-> "range-closing", n |-> n, x |-> x, expect |-> RangeRel(n, x),
      ops |-> << Wt(x, "x"), [op |-> entry, w |-> "x", bits |-> n] >> \o Overrides(honest, adv, {7})]
RangeClosingCases ==
  Flat(Map(IF Quick THEN <<0, 1, 2, 3, 8, 9, 64, 65, 254>> ELSE [i \in 1..255 |-> i - 1], LAMBDA w :
       Map(<< P2(w), BAdd(P2(w), One), M1, BAdd(Rnd(w), P2(254)) >>, LAMBDA x : RangeClosing("range_bits", w, x))))

\* ---- signed-digit adversaries (C14): digit vectors encoding s + q, s + r, q, through
\* the seam over append_fixed_base_signed_digits (honest accumulators FOR THOSE DIGITS)
RECURSIVE NafIntRec(_, _, _)
\* non-adjacent form of the INTEGER k < 2^259 (no modular reduction), n digits
NafIntRec(kk, n, acc) ==
  IF n = 0 THEN acc
  ELSE IF BigBit(kk, 0) = 0 THEN NafIntRec(BigShr(kk, 1), n - 1, Append(acc, 0))
  ELSE IF BigBit(kk, 1) = 1 THEN NafIntRec(BigShr(BigAdd(kk, BigOne), 1), n - 1, Append(acc, -1))
  ELSE NafIntRec(BigShr(BigSub(kk, BigOne), 1), n - 1, Append(acc, 1))
NafInt(kk) == NafIntRec(kk, 256, << >>)
DigitCase(name, s, kk) ==
  [g |-> "fixed-digits/" \o name, expect |-> Unsat,
   ops |-> << Wt(s, "s"), [op |-> "fixed_base_digits", s |-> "s", pt |-> PtJ(JubJubG), digits |-> NafInt(kk), out |-> "R"] >>]
DigitCases ==
  Flat(Map(<< BInt(5), BigLow(Rnd(91), 250), Zero >>, LAMBDA s :
    << DigitCase("s+q", s, BigAdd(s, RJ)), DigitCase("s+2q", s, BigAdd(s, BigAdd(RJ, RJ))),
       DigitCase("s+r", s, BigAdd(s, R)), DigitCase("s+1", s, BigAdd(s, BigOne)) >>))
  \o << DigitCase("noncanonical-own-digits", RJ, RJ),
        DigitCase("noncanonical-own-digits", BSub(P2(252), One), BSub(P2(252), One)),
        DigitCase("noncanonical-own-digits", BAdd(RJ, BInt(5)), BAdd(RJ, BInt(5))) >>
  \o << [g |-> "fixed-digits/honest", expect |-> Ok(GMul(BInt(77))),
         ops |-> << Wt(BInt(77), "s"), [op |-> "fixed_base_digits", s |-> "s", pt |-> PtJ(JubJubG), digits |-> NafInt(BInt(77)), out |-> "R"] >>] >>

\* ---- C07: one template (component + constant parameters), many value vectors ----
ShapeVals == << Zero, One, M1, BInt(2), BigSub(RJ, BigOne), RJ, BSub(P2(252), One), P2(252), P2(254),
                BSub(P2(254), One), Rnd(71), Rnd(72) >>
\* field pairs used as (possibly malformed) point witnesses
ShapePts == << Id, JubJubG, JubJubT8, JubJubMixed, Origin, OffCurve, << Rnd(73), Rnd(74) >>,
               << One, Zero >>, << Zero, M1 >>,
               \* a pole of the addition law against G: x with 1 + d x1 x2 y1 y2 = 0 has no
               \* curve solution, so use an off-curve pair that makes a denominator vanish
               << BInv(BMul(BEdwardsD, BMul(JubJubG[1], JubJubG[2]))), M1 >>,
               \* ... and the other pole (1 - d x1 x2 y1 y2 = 0)
               << BInv(BMul(BEdwardsD, BMul(JubJubG[1], JubJubG[2]))), One >> >>
ShV == IF Quick THEN SubSeq(ShapeVals, 1, 8) ELSE ShapeVals
ShP == IF Quick THEN SubSeq(ShapePts, 1, 7) \o << ShapePts[10], ShapePts[11] >> ELSE ShapePts

Sh(shape, ops) == [g |-> "shape", shape |-> shape, ops |-> ops]
OneW(name, op) == Map(ShV, LAMBDA x : Sh(name, P1(x, op)))
TwoW(name, op) == Map(ShV, LAMBDA x : Sh(name, P2w(x, BAdd(x, Rnd(75)), op)))
     \o Map(ShV, LAMBDA x : Sh(name, P2w(Rnd(76), x, op)))
OnePt(name, op) == Map(ShP, LAMBDA p : Sh(name, << PtOp(p, "P"), op >>))
TwoPt(name, op) == Map(ShP, LAMBDA p : Sh(name, << PtOp(p, "P"), PtOp(JubJubG, "Q"), op >>))
     \o Map(ShP, LAMBDA p : Sh(name, << PtOp(JubJubGNums, "P"), PtOp(p, "Q"), op >>))
     \o Map(ShP, LAMBDA p : Sh(name, << PtOp(p, "P"), PtOp(p, "Q"), op >>))
BitPt(name, op) == Flat(Map(<< Zero, One, BInt(2), M1 >>, LAMBDA b :
                      Map(ShP, LAMBDA p : Sh(name, << Wt(b, "b"), PtOp(p, "P"), PtOp(JubJubG, "Q"), op >>))))
NumS(n) == ToString(n)

ShapeW == IF Quick THEN <<0, 1, 2, 7, 8, 9, 63, 64, 254, 255, 256>> ELSE [i \in 1..257 |-> i - 1]
\* quick tier: every width of the bit-level components once, with the two value vectors that
\* set every bit of every slice (2^254 - 1) and only the top bit of the width (2^(w-1)): a
\* width-specific slip in witness generation (word-sized fast paths, limb boundaries) needs
\* exactly one width and a set top bit (seeded C07-3: width 65, bit 64)
EveryW(name, op, w) == << Sh(name, P1(BSub(P2(254), One), op)), Sh(name, P1(P2(IF w = 0 THEN 0 ELSE w - 1), op)) >>
ShapeEveryWidth ==
     Flat([i \in 1..255 |-> EveryW("truncate/" \o NumS(i - 1), [op |-> "truncate", w |-> "x", n |-> i - 1, out |-> "t"], i - 1)])
  \o Flat([i \in 1..256 |-> EveryW("decomposition/" \o NumS(i), [op |-> "decomposition", w |-> "x", n |-> i, out |-> "b"], i)])
  \o Flat([i \in 1..257 |-> EveryW("range_bits/" \o NumS(i - 1), [op |-> "range_bits", w |-> "x", bits |-> i - 1], i - 1)])
ShapeCases ==
     Flat(Map(ShapeW, LAMBDA w : OneW("range_bits/" \o NumS(w), [op |-> "range_bits", w |-> "x", bits |-> w])))
  \o Flat(Map(IF Quick THEN <<0, 1, 4, 128, 130>> ELSE [i \in 1..131 |-> i - 1],
           LAMBDA w : OneW("range_pairs/" \o NumS(w), [op |-> "range_pairs", w |-> "x", pairs |-> w])))
  \o Flat(Map(IF Quick THEN <<0, 1, 8, 127, 254>> ELSE [i \in 1..255 |-> i - 1],
           LAMBDA w : OneW("truncate/" \o NumS(w), [op |-> "truncate", w |-> "x", n |-> w, out |-> "t"])))
  \o Flat(Map(IF Quick THEN <<1, 8, 252, 255, 256>> ELSE [i \in 1..256 |-> i],
           LAMBDA w : OneW("decomposition/" \o NumS(w), [op |-> "decomposition", w |-> "x", n |-> w, out |-> "b"])))
  \o (IF Quick THEN ShapeEveryWidth ELSE << >>)
  \o Flat(Map(IF Quick THEN <<0, 1, 3, 64, 127>> ELSE [i \in 1..128 |-> i - 1], LAMBDA w :
           TwoW("logic-xor/" \o NumS(w), [op |-> "logic", a |-> "x", b |-> "y", pairs |-> w, xor |-> TRUE, out |-> "o"])
        \o TwoW("logic-and/" \o NumS(w), [op |-> "logic", a |-> "x", b |-> "y", pairs |-> w, xor |-> FALSE, out |-> "o"])))
  \o OneW("boolean", [op |-> "boolean", a |-> "x"])
  \o TwoW("select_one", [op |-> "select_one", bit |-> "x", a |-> "y", out |-> "s"])
  \o TwoW("select_zero", [op |-> "select_zero", bit |-> "x", a |-> "y", out |-> "s"])
  \o TwoW("select", [op |-> "select", bit |-> "x", a |-> "y", b |-> "x", out |-> "s"])
  \o TwoW("assert_equal", [op |-> "assert_equal", a |-> "x", b |-> "y"])
  \o OneW("assert_equal_constant", [op |-> "assert_equal_constant", a |-> "x", c |-> BInt(77), pi |-> BInt(3)])
  \o TwoW("gate", [op |-> "gate", w |-> <<"x", "y", "x", "y">>, pi |-> BInt(9),
                   q |-> [m |-> Rnd(1), l |-> Rnd(2), r |-> Rnd(3), o |-> Rnd(4), f |-> Rnd(5), c |-> Rnd(6)]])
  \o TwoW("gate_add", [op |-> "gate_add", w |-> <<"x", "y", 0, "x">>, out |-> "s",
                       q |-> [l |-> Rnd(2), r |-> Rnd(3), f |-> Rnd(5), c |-> Rnd(6)]])
  \o TwoW("gate_mul", [op |-> "gate_mul", w |-> <<"x", "y", 0, "x">>, out |-> "s",
                       q |-> [m |-> Rnd(1), f |-> Rnd(5), c |-> Rnd(6)]])
  \o TwoW("evaluated_output", [op |-> "evaluated_output", w |-> <<"x", "y", 0, "x">>, out |-> "s",
                               q |-> [m |-> Rnd(1), l |-> Rnd(2), o |-> Rnd(4), c |-> Rnd(6)]])
  \o TwoW("evaluated_output-q_o=0", [op |-> "evaluated_output", w |-> <<"x", "y", 0, "x">>, out |-> "s",
                               q |-> [m |-> Rnd(1), l |-> Rnd(2), c |-> Rnd(6)]])
  \o OnePt("assert_torsion_free", [op |-> "assert_torsion_free", p |-> "P", out |-> "T"])
  \o OnePt("neg_point", [op |-> "neg_point", a |-> "P", out |-> "R"])
  \o TwoPt("add_point", [op |-> "add_point", a |-> "P", b |-> "Q", out |-> "R"])
  \o TwoPt("sub_point", [op |-> "sub_point", a |-> "P", b |-> "Q", out |-> "R"])
  \o TwoPt("assert_equal_point", [op |-> "assert_equal_point", a |-> "P", b |-> "Q"])
  \o BitPt("select_identity", [op |-> "select_identity", bit |-> "b", a |-> "P", out |-> "R"])
  \o BitPt("select_point", [op |-> "select_point", bit |-> "b", a |-> "P", b |-> "Q", out |-> "R"])
  \o Map(SubSeq(ShP, 1, IF Quick THEN 3 ELSE Len(ShP)), LAMBDA p :
        Sh("mul_point", << Wt(Rnd(77), "s"), PtOp(p, "P"), [op |-> "mul_point", s |-> "s", p |-> "P", out |-> "R"] >>))
  \o Map(ShV, LAMBDA x :
        Sh("mul_point/scalar", << Wt(x, "s"), PtOp(JubJubG, "P"), [op |-> "mul_point", s |-> "s", p |-> "P", out |-> "R"] >>))
  \o Map(ShV, LAMBDA x :
        Sh("mul_generator", << Wt(x, "s"), [op |-> "mul_generator", s |-> "s", pt |-> PtJ(JubJubG), out |-> "R"] >>))
  \o Flat(Map(<< JubJubG, Id, JubJubT8, JubJubMixed, OffCurve, Origin >>, LAMBDA p : Flat(Map(Reps(p), LAMBDA e :
        << Sh("append_point", << [op |-> "append_point", pt |-> ExtJ(e), out |-> "P"] >>),
           Sh("append_public_point", << [op |-> "append_public_point", pt |-> ExtJ(e), out |-> "P"] >>),
           Sh("assert_equal_public_point", << PtOp(JubJubG, "P"), [op |-> "assert_equal_public_point", p |-> "P", pt |-> ExtJ(e)] >>) >>))))

VARIABLE k
AllCases ==
  CASE Family = "range" -> RangeCasesW("range_bits", RangeW) \o RangeCasesW("range_check", RangeWQ) \o RangePairCases \o RangeEveryWidth \o HandleRangeCases
    [] Family = "decomposition" -> DecompCases \o HandleDecompCases
    [] Family = "decomposition-alias" -> AliasCases
    [] Family = "shape" -> ShapeCases
    [] Family = "truncate-alias" -> TruncAliasCases \o TruncShiftCases
         \o Flat(Map(IF Quick THEN <<1, 64, 128, 192, 254>> ELSE [i \in 1..254 |-> i],
                     LAMBDA n : Flat(Map(AliasXL, LAMBDA x : Map(Skips, LAMBDA sk : TruncAliasB(n, x, sk))))))
    [] Family = "logic-alias" -> LogicAliasCases
         \o Flat(Map(IF Quick THEN <<1, 32, 64, 96, 127>> ELSE [i \in 1..127 |-> i],
                     LAMBDA p : Flat(Map(<<TRUE, FALSE>>, LAMBDA o : Flat(Map(AliasXL, LAMBDA x :
                       Map(<< "none", "rc-high", "canonical" >>, LAMBDA sk : LogicAliasB(p, o, x, Rnd(82), sk))))))))
    [] Family = "fixed-digits" -> DigitCases
    [] Family = "range-closing" -> RangeClosingCases
    [] Family = "truncate" -> TruncCases \o HandleTruncCases
    [] Family = "logic" -> LogicCases \o HandleLogicCases
    [] Family = "arith" -> ArithCases \o HandleArithCases
    [] Family = "curve" -> CurveCases \o HandleCurveCases
    [] Family = "mul_point" -> MulPointCases
    [] Family = "subgroup" -> SubgroupCases \o HandleSubgroupCases
    [] Family = "fixed" -> FixedCases \o HandleFixedCases

CasesV == TLCEval(AllCases)
Init == k \in 1..Len(CasesV)
Next == UNCHANGED k
Spec == Init /\ [][Next]_k
Emit == PrintT(<<"SCEN", k, ToJson(CasesV[k] @@ [id |-> k])>>)
PointsInv == (k = 1) => PointsOK
=============================================================================
