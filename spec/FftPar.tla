------------------------------- MODULE FftPar -------------------------------
(***************************************************************************)
(* Concurrent model of one FFT as `fft/domain.rs::best_fft` runs it (C18). *)
(*                                                                         *)
(* After the (serial) bit-reversal the code runs log n stages; stage with  *)
(* half-width m works on n/2m chunks of length 2m.  Per stage it picks     *)
(*   chunks >= MinChunks            : `par_chunks_mut(2m).for_each` -- one *)
(*                                    task per chunk, all concurrent       *)
(*   else n >= MinLen /\ threads >= MinThreads :                           *)
(*                                    chunk after chunk; inside a chunk    *)
(*                                    `parallel_butterfly_chunk`: the m    *)
(*                                    butterflies are split into ranges of *)
(*                                    ceil(m/threads), each range a task   *)
(*                                    that starts from its own seed        *)
(*                                    twiddle (seed_step^k, seed_step =    *)
(*                                    w_m^range_len)                       *)
(*   else                           : serial chunks                        *)
(* and n < MinLen is `serial_fft` altogether.  A ROUND is a set of tasks   *)
(* rayon may run concurrently; rounds are separated by barriers (the       *)
(* parallel iterator returns only when all its tasks are done).  A task is *)
(* a sequence of butterflies; `Step` performs ONE butterfly of ANY pending *)
(* task of the current round, so TLC explores every interleaving (a        *)
(* superset of what a pool of `Threads` workers can produce).              *)
(*                                                                         *)
(* NoOverlap       no two tasks of a round touch a common index (which is  *)
(*                 also what makes butterfly-granular interleaving exact)  *)
(* ResultIsSerial  at termination the vector equals serial_fft's result    *)
(*                 (and the DFT by definition) in EVERY interleaving       *)
(* TilingLemma     for all m, threads: the ranges tile [0, m) exactly,     *)
(*                 there are at most `threads` of them and the k-th seed   *)
(*                 is w_m^(start of range k)                               *)
(* The thresholds (2^12, 4, 4 in the code) are constants scaled into       *)
(* range.  RangeLen = "ceil" is the code; "floor-seed" is a self-test      *)
(* (seed step from floor(m/threads)) that ResultIsSerial must catch.       *)
(***************************************************************************)
EXTENDS Naturals, Sequences, FiniteSets, TLC

CONSTANTS P,            \* prime field F_P
          Omega8,       \* a primitive 8-th root of unity mod P
          Omega16,      \* a primitive 16-th root of unity mod P
          Omega32,      \* a primitive 32-nd root of unity mod P
          LogN,         \* n = 2^LogN
          ThreadSet,    \* values of rayon::current_num_threads() explored
          MinLen, MinChunks, MinThreads,
          Inputs,       \* "basis" | "dense"
          RangeLen      \* "ceil" (code) | "floor-seed" (self-test)

RECURSIVE Pow2(_)
Pow2(k) == IF k = 0 THEN 1 ELSE 2 * Pow2(k - 1)
N == Pow2(LogN)
Omega == IF LogN = 3 THEN Omega8 ELSE IF LogN = 4 THEN Omega16 ELSE Omega32

Mul(a, b) == (a * b) % P
Add(a, b) == (a + b) % P
Sub(a, b) == (a + P - b) % P
RECURSIVE PowM(_, _)
PowM(b, e) == IF e = 0 THEN 1 ELSE Mul(b, PowM(b, e - 1))

CeilDiv(a, b) == (a + b - 1) \div b

\* bitreverse(k, l)
RECURSIVE BitRev(_, _)
BitRev(k, l) == IF l = 0 THEN 0 ELSE (k % 2) * Pow2(l - 1) + BitRev(k \div 2, l - 1)

\* bitreverse_permute: positions are 0-based in the code, 1-based here
Permute(v) == [i \in 1..N |-> v[BitRev(i - 1, LogN) + 1]]

--------------------------------------------------------------------------
(* the schedule: a sequence of rounds; a task is
   [left |-> first left index (1-based), cnt |-> butterflies, m, wm, seed] *)

Wm(m) == PowM(Omega, N \div (2 * m))          \* omega^(n / 2m)

ChunkTask(c, m) == [left |-> c * 2 * m + 1, cnt |-> m, m |-> m, wm |-> Wm(m), seed |-> 1]

\* seeds as the code computes them: seed_0 = 1, seed_{k+1} = seed_k * seed_step
RECURSIVE SeedAt(_, _)
SeedAt(step, k) == IF k = 0 THEN 1 ELSE Mul(SeedAt(step, k - 1), step)

RangeTasks(c, m, th) ==
  LET rl    == CeilDiv(m, th)
      count == CeilDiv(m, rl)
      srl   == IF RangeLen = "ceil" THEN rl ELSE m \div th
      step  == PowM(Wm(m), srl)               \* w_m.pow_vartime(range_len)
  IN {[left |-> c * 2 * m + 1 + k * rl,
       cnt  |-> IF (k + 1) * rl <= m THEN rl ELSE m - k * rl,
       m    |-> m, wm |-> Wm(m), seed |-> SeedAt(step, k)] : k \in 0..(count - 1)}

\* rounds of the stage with half-width m
StageRounds(m, th) ==
  LET chunks == N \div (2 * m)
  IN IF N < MinLen
     THEN [c \in 1..chunks |-> {ChunkTask(c - 1, m)}]                \* serial_fft
     ELSE IF chunks >= MinChunks
     THEN << {ChunkTask(c, m) : c \in 0..(chunks - 1)} >>            \* parallel over chunks
     ELSE IF th >= MinThreads
     THEN [c \in 1..chunks |-> RangeTasks(c - 1, m, th)]                 \* parallel final stages
     ELSE [c \in 1..chunks |-> {ChunkTask(c - 1, m)}]                \* serial chunks

RECURSIVE RoundsFrom(_, _)
RoundsFrom(s, th) == IF s = LogN THEN <<>> ELSE StageRounds(Pow2(s), th) \o RoundsFrom(s + 1, th)
ScheduleOf(th) == RoundsFrom(0, th)

Strategy(m, th) ==
  IF N < MinLen THEN "serial-fft"
  ELSE IF N \div (2 * m) >= MinChunks THEN "par-chunks"
  ELSE IF th >= MinThreads THEN "par-final" ELSE "serial-chunks"

--------------------------------------------------------------------------
(* one butterfly (butterfly_range body) on positions l and l + m *)
Butterfly(v, l, m, w) ==
  LET t == Mul(v[l + m], w)
  IN [v EXCEPT ![l] = Add(v[l], t), ![l + m] = Sub(v[l], t)]

\* serial reference: every task run to completion, round after round
RECURSIVE RunTask(_, _, _, _)
RunTask(v, t, k, w) ==
  IF k = t.cnt THEN v
  ELSE RunTask(Butterfly(v, t.left + k, t.m, w), t, k + 1, Mul(w, t.wm))

RECURSIVE SerialFrom(_, _)
SerialFrom(v, s) ==
  IF s = LogN THEN v
  ELSE LET m == Pow2(s)
           RECURSIVE Chunks(_, _)
           Chunks(x, c) == IF c = N \div (2 * m) THEN x
                           ELSE Chunks(RunTask(x, ChunkTask(c, m), 0, 1), c + 1)
       IN SerialFrom(Chunks(v, 0), s + 1)
SerialFFT(input) == SerialFrom(Permute(input), 0)

\* the discrete Fourier transform by definition
RECURSIVE SumTo(_, _, _)
SumTo(input, k, j) ==
  IF j = N THEN 0 ELSE Add(Mul(input[j + 1], PowM(Omega, (j * k) % N)), SumTo(input, k, j + 1))
DFT(input) == [k \in 1..N |-> SumTo(input, k - 1, 0)]

--------------------------------------------------------------------------
InputSet ==
  IF Inputs = "basis" THEN {[i \in 1..N |-> IF i = j THEN 1 ELSE 0] : j \in 1..N}
  ELSE {[i \in 1..N |-> (i * i + 3 * i + 1) % P], [i \in 1..N |-> (7 * i + 2) % P]}

VARIABLES th,      \* rayon::current_num_threads() of this run
          sched,   \* ScheduleOf(th)
          input,   \* the vector handed to best_fft
          a,       \* the working vector
          round,   \* index of the current round (Len(Schedule)+1 when done)
          pend     \* tasks of the current round not yet finished, with progress:
                   \* [t |-> task, k |-> butterflies done, w |-> current twiddle]

vars == <<th, sched, input, a, round, pend>>

Fresh(sc, r) == IF r > Len(sc) THEN {}
                ELSE {[t |-> t, k |-> 0, w |-> t.seed] : t \in sc[r]}

Init == /\ th \in ThreadSet
        /\ sched = ScheduleOf(th)
        /\ input \in InputSet
        /\ a = Permute(input)
        /\ round = 1
        /\ pend = Fresh(sched, 1)

Step == \E p \in pend :
          /\ a' = Butterfly(a, p.t.left + p.k, p.t.m, p.w)
          /\ pend' = IF p.k + 1 = p.t.cnt THEN pend \ {p}
                     ELSE (pend \ {p}) \cup {[p EXCEPT !.k = @ + 1, !.w = Mul(@, p.t.wm)]}
          /\ UNCHANGED <<th, sched, input, round>>

Barrier == /\ pend = {} /\ round <= Len(sched)
           /\ round' = round + 1
           /\ pend' = Fresh(sched, round + 1)
           /\ UNCHANGED <<th, sched, input, a>>

Next == Step \/ Barrier
Spec == Init /\ [][Next]_vars /\ WF_vars(Next)

--------------------------------------------------------------------------
Touch(t) == (t.left..(t.left + t.cnt - 1)) \cup ((t.left + t.m)..(t.left + t.m + t.cnt - 1))

\* tasks enabled together never touch a common index, in any round
NoOverlap ==
  \A p1, p2 \in pend : p1 # p2 => Touch(p1.t) \cap Touch(p2.t) = {}

\* every stage touches every index exactly once
StageCovers ==
  \A s \in 0..(LogN - 1) :
    LET rs == StageRounds(Pow2(s), th)
        ts == UNION {rs[i] : i \in 1..Len(rs)}
    IN /\ UNION {Touch(t) : t \in ts} = 1..N
       /\ \A t1, t2 \in ts : t1 # t2 => Touch(t1) \cap Touch(t2) = {}

Done == round = Len(sched) + 1

ResultIsSerial == Done => a = SerialFFT(input)
ResultIsDFT    == Done => a = DFT(input)
Terminates     == <>Done

--------------------------------------------------------------------------
(* the range split of parallel_butterfly_chunk, for all m and thread counts;
   twiddles are kept symbolic: a seed is the EXPONENT of w_m it stands for
   (seed_step has exponent range_len, the k-th seed k * range_len) *)
TilingFor(m, t) ==
  LET rl    == CeilDiv(m, t)
      count == CeilDiv(m, rl)
      lo(k) == k * rl
      hi(k) == IF (k + 1) * rl <= m THEN (k + 1) * rl ELSE m     \* par_chunks_mut(rl)
  IN /\ rl >= 1 /\ count >= 1 /\ count <= t
     /\ lo(0) = 0 /\ hi(count - 1) = m
     /\ \A k \in 0..(count - 1) : lo(k) < hi(k) /\ (k > 0 => lo(k) = hi(k - 1))
     /\ \A k \in 0..(count - 1) : k * rl = lo(k)                \* exponent of seed k

TilingLemma == \A m \in 1..64 : \A t \in 1..17 : TilingFor(m, t)
\* evaluated once (it does not depend on the state)
TilingOnce == round > 1 \/ pend = {} \/ TilingLemma
=============================================================================
