------------------------------ MODULE MasksMC ------------------------------
(***************************************************************************)
(* Model checking of the masking design over F_97 (C06), domain size N.    *)
(*                                                                         *)
(* Leaves of kind "pair": two of the 14 draws range over the whole field   *)
(* (exhaustive, 97^2 points), the rest and the witness come from the       *)
(* seeded parameters.  Judged there:                                       *)
(*   AgreesOnH        every blinded polynomial takes the unblinded values  *)
(*                    on H (wire columns, grand product)                   *)
(*   DegreesAndTop    wire polynomials have n+2 coefficients whose top two *)
(*                    are exactly the two blinders (degree n+1 when the    *)
(*                    second is non-zero); z has n+3, top three = its      *)
(*                    blinders; the low coefficients are the unblinded     *)
(*                    ones minus the blinders                              *)
(*   SharesRecombine  t_low + X^n t_mid + X^2n t_high + X^3n t_fourth = t  *)
(*                    (b12..b14 telescope), t_low/mid/high have degree n   *)
(*                    with top coefficient b12/b13/b14                     *)
(* Leaves of kind "diff": draw k takes every value x, for every increment   *)
(* delta of the parameter list (all non-zero values when thorough).        *)
(* Judged there:                                                           *)
(*   OneDrawOnePlace  the prover's committed polynomials under S and under *)
(*                    S[k -> S[k]+delta] differ exactly by                 *)
(*                    Masking!ExpectedDelta(k, delta, n) and nowhere else: *)
(*                    each of the 14 scalars is used, in exactly one       *)
(*                    place, with the prescribed placement                 *)
(*   ExpectedScalarIsCommitmentDelta  with the commitment of p modelled as *)
(*                    sg p(tau), the commitment difference equals          *)
(*                    Masking!ExpectedScalars                              *)
(***************************************************************************)
EXTENDS Naturals, Sequences, FiniteSets, TLC, Json, IOUtils

CONSTANTS P, Gen, N

SAdd(a, b) == (a + b) % P
SSub(a, b) == (a + P - b) % P
SMul(a, b) == (a * b) % P
SNeg(a) == (P - a) % P
SInt(k) == k % P
InvTab == [a \in 1..(P - 1) |-> CHOOSE x \in 1..(P - 1) : (a * x) % P = 1]
SInv(a) == IF a = 0 THEN 0 ELSE InvTab[a]

M == INSTANCE Masking WITH
       FAdd <- SAdd, FSub <- SSub, FMul <- SMul, FNeg <- SNeg, FInt <- SInt, FInv <- SInv

W == M!Pow(Gen, (P - 1) \div N)

(* seeded parameters: stream (14), wires (4 x N), zvals (N), t (4N + 6),
   tau, sg; pairs = list of <<i, j>> draw indices *)
DefaultParams ==
  [stream |-> << 11, 22, 33, 44, 55, 66, 77, 88, 9, 19, 29, 39, 49, 59 >>,
   wires |-> << <<3, 1, 4, 1, 5, 9, 2, 6>>, <<2, 7, 1, 8, 2, 8, 1, 8>>,
                <<1, 4, 1, 4, 2, 1, 3, 5>>, <<1, 7, 3, 2, 0, 5, 0, 8>> >>,
   zvals |-> <<1, 61, 80, 33, 98, 87, 49, 89>>,
   t |-> << 5, 8, 13, 21, 34, 55, 89, 47, 39, 86, 28, 17, 45, 62, 10, 72, 82, 57, 42, 2,
            44, 46, 90, 39, 32, 71, 6, 77, 83, 63, 49, 15, 64, 79, 46, 28, 74, 5 >>,
   tau |-> 29, sg |-> 53,
   pairs |-> << <<1, 2>>, <<8, 9>>, <<10, 11>>, <<12, 13>>, <<13, 14>> >>,
   deltas |-> << 1, 2, 48, 96 >>]
Params == IF "MMC_PARAMS" \in DOMAIN IOEnv THEN JsonDeserialize(IOEnv.MMC_PARAMS)
          ELSE DefaultParams

Wires == TLCEval([c \in 1..4 |-> TLCEval([i \in 1..N |-> Params.wires[c][i] % P])])
ZVals == TLCEval([i \in 1..N |-> Params.zvals[i] % P])
TPoly == TLCEval([i \in 1..(4 * N + 6) |-> Params.t[i] % P])
Stream0 == TLCEval([i \in 1..14 |-> Params.stream[i] % P])
\* interpolated (unblinded) coefficient vectors and the points of H, computed once
WireCoefs == TLCEval([c \in 1..4 |-> M!IDFT(Wires[c], N, W)])
ZCoefs == TLCEval(M!IDFT(ZVals, N, W))
HPoints == TLCEval([i \in 1..N |-> M!Pow(W, i - 1)])
Tau == Params.tau % P
Sg == Params.sg % P
Pairs == Params.pairs
\* increments explored at the diff leaves (non-zero; all of 1..P-1 when thorough)
Deltas == {Params.deltas[i] % P : i \in 1..Len(Params.deltas)} \ {0}

VARIABLES lvl, kind, p, x, y
vars == <<lvl, kind, p, x, y>>

Init == lvl = 0 /\ kind = "none" /\ p = 0 /\ x = 0 /\ y = 0
Next ==
  \/ /\ lvl = 0 /\ kind' = "pair" /\ p' \in 1..Len(Pairs) /\ lvl' = 1 /\ UNCHANGED <<x, y>>
  \/ /\ lvl = 0 /\ kind' = "diff" /\ p' \in 1..14 /\ lvl' = 1 /\ UNCHANGED <<x, y>>
  \/ /\ lvl = 1 /\ x' \in 0..(P - 1) /\ lvl' = 2 /\ UNCHANGED <<kind, p, y>>
  \/ /\ lvl = 2 /\ kind = "pair" /\ y' \in 0..(P - 1) /\ lvl' = 3 /\ UNCHANGED <<kind, p, x>>
  \/ /\ lvl = 2 /\ kind = "diff" /\ y' \in Deltas /\ lvl' = 3 /\ UNCHANGED <<kind, p, x>>
Spec == Init /\ [][Next]_vars

PairLeaf == lvl = 3 /\ kind = "pair"
DiffLeaf == lvl = 3 /\ kind = "diff"

StreamPair == TLCEval([i \in 1..14 |-> IF i = Pairs[p][1] THEN x
                               ELSE IF i = Pairs[p][2] THEN y ELSE Stream0[i]])

Commit(poly) == SMul(Sg, M!Eval(poly, Tau))

Prover(S) ==
  LET r1 == M!Round1C(WireCoefs, S)
      r3 == M!Round3(TPoly, N, S)
  IN [a_comm |-> r1.a_comm, b_comm |-> r1.b_comm, c_comm |-> r1.c_comm, d_comm |-> r1.d_comm,
      z_comm |-> M!Round2C(ZCoefs, S),
      t_low_comm |-> r3.t_low, t_mid_comm |-> r3.t_mid, t_high_comm |-> r3.t_high,
      t_fourth_comm |-> r3.t_fourth]

\* the interpolation used above is the inverse of evaluation on H
IDFTIsInterpolation ==
  lvl = 0 => /\ \A c \in 1..4 : \A i \in 1..N : M!Eval(WireCoefs[c], HPoints[i]) = Wires[c][i]
             /\ \A i \in 1..N : M!Eval(ZCoefs, HPoints[i]) = ZVals[i]
             /\ M!Round1(Wires, N, W, Stream0) = M!Round1C(WireCoefs, Stream0)
             /\ M!Round2(ZVals, N, W, Stream0) = M!Round2C(ZCoefs, Stream0)

AgreesOnH ==
  PairLeaf =>
    LET pr == Prover(StreamPair) IN
    /\ \A c \in 1..4 : \A i \in 1..N :
         M!Eval(pr[M!CommittedNames[c]], HPoints[i]) = Wires[c][i]
    /\ \A i \in 1..N : M!Eval(pr.z_comm, HPoints[i]) = ZVals[i]

DegreesAndTop ==
  PairLeaf =>
    LET S == StreamPair
        pr == Prover(S)
    IN /\ \A c \in 1..4 :
            LET poly == pr[M!CommittedNames[c]]
                base == WireCoefs[c]
            IN /\ Len(poly) = N + 2
               /\ poly[N + 1] = S[2 * c - 1] /\ poly[N + 2] = S[2 * c]
               /\ (S[2 * c] # 0 => M!Degree(poly) = N + 1)
               /\ poly[1] = SSub(base[1], S[2 * c - 1]) /\ poly[2] = SSub(base[2], S[2 * c])
               /\ \A i \in 3..N : poly[i] = base[i]
       /\ LET poly == pr.z_comm
              base == ZCoefs
          IN /\ Len(poly) = N + 3
             /\ poly[N + 1] = S[9] /\ poly[N + 2] = S[10] /\ poly[N + 3] = S[11]
             /\ (S[11] # 0 => M!Degree(poly) = N + 2)
             /\ \A i \in 1..3 : poly[i] = SSub(base[i], S[8 + i])
             /\ \A i \in 4..N : poly[i] = base[i]

SharesRecombine ==
  PairLeaf =>
    LET S == StreamPair
        sh == M!Round3(TPoly, N, S)
    IN /\ M!Recombine(sh, N) = TPoly
       /\ Len(sh.t_low) = N + 1 /\ sh.t_low[N + 1] = S[12]
       /\ Len(sh.t_mid) = N + 1 /\ sh.t_mid[N + 1] = S[13]
       /\ Len(sh.t_high) = N + 1 /\ sh.t_high[N + 1] = S[14]
       /\ Len(sh.t_fourth) = N + 6

\* diff leaves: draw p takes value x, increment y
StreamA == TLCEval([i \in 1..14 |-> IF i = p THEN x ELSE Stream0[i]])
StreamB == TLCEval([i \in 1..14 |-> IF i = p THEN SAdd(x, y) ELSE Stream0[i]])

OneDrawOnePlace ==
  DiffLeaf =>
    LET A == Prover(StreamA)
        B == Prover(StreamB)
        ed == M!ExpectedDelta(p, y, N)
        moved == M!Moved(p, y, N)
    IN /\ \A i \in 1..Len(ed) :
            LET nm == ed[i][1]
                d == M!PolySub(B[nm], A[nm])
            IN d = M!Dense(ed[i][2], Len(d)) /\ \E j \in 1..Len(d) : d[j] # 0
       /\ \A i \in 1..9 :
            LET nm == M!CommittedNames[i] IN nm \notin moved => A[nm] = B[nm]
       \* in this model t does not depend on the blinders, so every polynomial
       \* outside `moved` is unchanged; for the real prover only those
       \* committed no later than the draw's round are (Unchanged)
       /\ M!Unchanged(p, y, N) \subseteq {M!CommittedNames[i] : i \in 1..9} \ moved
       /\ Cardinality(moved) = (IF p >= 12 THEN 2 ELSE 1)

ExpectedScalarIsCommitmentDelta ==
  DiffLeaf =>
    LET A == Prover(StreamA)
        B == Prover(StreamB)
        es == M!ExpectedScalars(p, y, N, Tau, Sg)
    IN \A i \in 1..Len(es) :
         SSub(Commit(B[es[i][1]]), Commit(A[es[i][1]])) = es[i][2]
=============================================================================
