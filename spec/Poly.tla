-------------------------------- MODULE Poly --------------------------------
(***************************************************************************)
(* Polynomials over a field and the FFT / polynomial kernels of the        *)
(* implementation (C19).                                                   *)
(*                                                                         *)
(* PART I  - DEFINITIONS.  What each kernel has to compute, stated the     *)
(*   slow mathematical way: evaluation by Horner, the discrete Fourier     *)
(*   transform as direct evaluation on the subgroup / coset, its inverse   *)
(*   as interpolation, schoolbook add/sub/scale/multiply, division by      *)
(*   (X - z) through the identity q (X - z) + p(z) = p, the vanishing      *)
(*   polynomial as a product of linear factors, the Lagrange basis as a    *)
(*   product of quotients, barycentric / public-input evaluation as sums   *)
(*   of Lagrange terms.  These say what is right.                          *)
(*                                                                         *)
(* PART II - TRANSCRIPTIONS.  The algorithms of src/fft/domain.rs,         *)
(*   src/fft/polynomial.rs, src/util.rs and src/proof_system/proof.rs      *)
(*   written down AS THE CODE HAS THEM (bit reversal, butterflies, the     *)
(*   strategy of best_fft with the range split and seeds of                *)
(*   parallel_butterfly_chunk, `resize` of the input vector, the closed    *)
(*   forms, Montgomery's batch inversion, Ruffini's rule).  Two places     *)
(*   where the code is known to leave the definition are kept, each under  *)
(*   a switch, so that the model checker exhibits the deviation and also   *)
(*   proves the repaired variant right:                                    *)
(*     FoldLonger       FALSE = fft/coset_fft `resize` (truncate) a vector *)
(*                      longer than the domain;  TRUE = fold it mod X^n-1  *)
(*     BaryInDomainFix  FALSE = compute_barycentric_eval yields 0 for a    *)
(*                      point of the domain;  TRUE = yields evals[k]       *)
(*                                                                         *)
(* The module is parametric in the field (operator constants): PolyMC      *)
(* instantiates it with small FFT-friendly primes for exhaustive checking, *)
(* TraceKernels with the BLS12-381 scalar field to judge recorded kernel   *)
(* calls of the real code.  Sequences are 1-based: p[i] is the coefficient *)
(* of X^(i-1), e[i] the value at the (i-1)-th domain point.                *)
(*                                                                         *)
(* Accumulations over a whole vector are written with FoldLeft / FoldRight *)
(* of the community module SequencesExt (evaluated iteratively by TLC):    *)
(* a RECURSIVE operator of depth n costs TLC O(n^2) (measured: 6 s for one *)
(* Horner evaluation of 4096 coefficients), which matters for the trace    *)
(* checker on domains of 2^14 points.                                      *)
(***************************************************************************)
EXTENDS Naturals, Sequences, TLC
LOCAL INSTANCE SequencesExt

CONSTANTS FAdd(_, _), FSub(_, _), FMul(_, _), FNeg(_), FInv(_), FInt(_)

Zero == FInt(0)
One == FInt(1)

(* ------------------------------------------------------------------------ *)
(* small integer helpers                                                    *)
(* ------------------------------------------------------------------------ *)
IMin(a, b) == IF a < b THEN a ELSE b
IMax(a, b) == IF a < b THEN b ELSE a
CeilDiv(a, b) == (a + b - 1) \div b

RECURSIVE Pow2(_)
Pow2(k) == IF k = 0 THEN 1 ELSE 2 * Pow2(k - 1)

RECURSIVE NextPow2Rec(_, _)
NextPow2Rec(k, acc) == IF acc >= k THEN acc ELSE NextPow2Rec(k, 2 * acc)
NextPow2(k) == NextPow2Rec(k, 1)          \* usize::next_power_of_two (0 -> 1)

RECURSIVE Log2(_)
Log2(n) == IF n <= 1 THEN 0 ELSE 1 + Log2(n \div 2)

(* ------------------------------------------------------------------------ *)
(* field helpers                                                            *)
(* ------------------------------------------------------------------------ *)
RECURSIVE PowI(_, _)
PowI(x, k) ==                             \* x^k, k a natural number
  IF k = 0 THEN One
  ELSE LET h == TLCEval(PowI(x, k \div 2))
           s == FMul(h, h)
       IN IF k % 2 = 1 THEN FMul(s, x) ELSE s

Seq1(n, Op(_)) == TLCEval([i \in 1..n |-> Op(i)])
Indices(n) == [i \in 1..n |-> i]

\* <<seed, seed*step, seed*step^2, ...>> of length len.  This is what repeated
\* multiplication by `step` produces; it is computed in blocks of GeomBlock
\* entries (baby steps inside a block, giant steps step^GeomBlock between
\* blocks) so that no accumulation is deeper than a block.
GeomBlock == 128
GeomSmall(seed, step, len) ==
  FoldLeft(LAMBDA acc, i : <<FMul(acc[1], step), Append(acc[2], acc[1])>>,
           <<seed, <<>>>>, Indices(len))[2]
Geom(seed, step, len) ==
  IF len <= GeomBlock THEN GeomSmall(seed, step, len)
  ELSE LET baby == GeomSmall(One, step, GeomBlock)
           giant == GeomSmall(seed, FMul(baby[GeomBlock], step), CeilDiv(len, GeomBlock))
       IN TLCEval([i \in 1..len |->
                    FMul(giant[((i - 1) \div GeomBlock) + 1], baby[((i - 1) % GeomBlock) + 1])])

Powers(x, len) == Geom(One, x, len)       \* <<1, x, ..., x^(len-1)>>

Sum(s) == FoldLeft(FAdd, Zero, s)
Prod(s) == FoldLeft(FMul, One, s)
\* sum of Op(i) for i = lo..hi
SumOver(lo, hi, Op(_)) ==
  IF hi < lo THEN Zero
  ELSE FoldLeft(LAMBDA acc, j : FAdd(acc, Op(lo + j - 1)), Zero, Indices(hi + 1 - lo))

(***************************************************************************)
(*                        PART I  -  DEFINITIONS                           *)
(***************************************************************************)

(* ---------------- polynomials as coefficient sequences ---------------- *)
Coef(p, i) == IF i <= Len(p) THEN p[i] ELSE Zero     \* i >= 1

\* index of the last non-zero entry among the first k (0 if none)
NormLen(p, k) ==
  FoldLeft(LAMBDA acc, i : IF p[i] # Zero THEN i ELSE acc, 0, Indices(k))

\* the same polynomial without trailing (high-order) zero coefficients
Norm(p) == SubSeq(p, 1, NormLen(p, Len(p)))
IsZeroPoly(p) == NormLen(p, Len(p)) = 0
\* two coefficient sequences denote the same polynomial
PEq(a, b) == Norm(a) = Norm(b)
\* degree with the implementation's convention deg(0) = 0
Degree(p) == LET k == NormLen(p, Len(p)) IN IF k = 0 THEN 0 ELSE k - 1

\* p(x) = sum_i p[i] x^(i-1), by Horner: p[1] + x (p[2] + x (p[3] + ...))
Eval(p, x) == FoldRight(LAMBDA c, acc : FAdd(c, FMul(acc, x)), p, Zero)

(* ---------------- schoolbook arithmetic ---------------- *)
PAdd(a, b) == Seq1(IMax(Len(a), Len(b)), LAMBDA i : FAdd(Coef(a, i), Coef(b, i)))
PSub(a, b) == Seq1(IMax(Len(a), Len(b)), LAMBDA i : FSub(Coef(a, i), Coef(b, i)))
PNeg(a) == Seq1(Len(a), LAMBDA i : FNeg(a[i]))
PScale(a, k) == Seq1(Len(a), LAMBDA i : FMul(a[i], k))
PConst(k) == <<k>>

\* coefficient k (1-based) of the product: sum over i + j = k + 1 of a[i] b[j]
ConvCoef(a, b, k) ==
  SumOver(IMax(1, k + 1 - Len(b)), IMin(k, Len(a)), LAMBDA i : FMul(a[i], b[k + 1 - i]))

PMul(a, b) ==
  IF Len(a) = 0 \/ Len(b) = 0 THEN <<>>
  ELSE Seq1(Len(a) + Len(b) - 1, LAMBDA k : ConvCoef(a, b, k))

\* X - z
Linear(z) == <<FNeg(z), One>>

\* q is the quotient of p by (X - z):  q (X - z) + p(z) = p
IsQuotientByLinear(q, p, z) == PEq(PAdd(PMul(q, Linear(z)), PConst(Eval(p, z))), p)

(* ---------------- domains ---------------- *)
\* w is a primitive n-th root of unity (n a power of two)
IsPrimitiveRoot(w, n) ==
  /\ PowI(w, n) = One
  /\ (n > 1 => PowI(w, n \div 2) = FNeg(One))

SubgroupPoints(w, n) == Powers(w, n)                 \* 1, w, ..., w^(n-1)
CosetPoints(g, w, n) == Geom(g, w, n)                \* g, g w, ..., g w^(n-1)

(* ---------------- DFT = direct evaluation, IDFT = interpolation -------- *)
\* values of the polynomial with coefficient sequence p (ANY length) at pts
EvalAt(p, pts) == Seq1(Len(pts), LAMBDA i : Eval(p, pts[i]))

DFT(p, w, n) == EvalAt(p, SubgroupPoints(w, n))
CosetDFT(p, g, w, n) == EvalAt(p, CosetPoints(g, w, n))

\* c (exactly n coefficients) interpolates the values e on the points pts;
\* values missing at the end of e are zero
ValueAt(e, i) == IF i <= Len(e) THEN e[i] ELSE Zero
Interpolates(c, e, pts) ==
  /\ Len(c) = Len(pts)
  /\ \A i \in 1..Len(pts) : Eval(c, pts[i]) = ValueAt(e, i)

\* product of (X - pts[j]) over j in 1..Len(pts), j # skip (skip = 0: all)
RECURSIVE LinProdRec(_, _, _, _)
LinProdRec(pts, skip, j, acc) ==
  IF j > Len(pts) THEN acc
  ELSE IF j = skip THEN LinProdRec(pts, skip, j + 1, acc)
  ELSE LinProdRec(pts, skip, j + 1, TLCEval(PMul(acc, Linear(pts[j]))))
LinProd(pts, skip) == LinProdRec(pts, skip, 1, <<One>>)

\* value at x of prod_{j # skip} (x - pts[j])
LinProdAt(pts, skip, x) ==
  FoldLeft(LAMBDA acc, j : IF j = skip THEN acc ELSE FMul(acc, FSub(x, pts[j])),
           One, Indices(Len(pts)))

\* the i-th Lagrange basis polynomial of pts, as coefficients and as a value
LagrangePoly(pts, i) == PScale(LinProd(pts, i), FInv(LinProdAt(pts, i, pts[i])))
LagrangeAt(pts, i, x) == FMul(LinProdAt(pts, i, x), FInv(LinProdAt(pts, i, pts[i])))

RECURSIVE InterpRec(_, _, _, _)
InterpRec(pts, e, i, acc) ==
  IF i > Len(pts) THEN acc
  ELSE InterpRec(pts, e, i + 1,
                 TLCEval(PAdd(acc, PScale(LagrangePoly(pts, i), ValueAt(e, i)))))

\* Lagrange interpolation (O(n^3)): the coefficients, padded to Len(pts)
Interpolate(e, pts) ==
  LET c == InterpRec(pts, e, 1, <<>>)
  IN Seq1(Len(pts), LAMBDA i : Coef(c, i))

IDFT(e, w, n) == Interpolate(e, SubgroupPoints(w, n))
CosetIDFT(e, g, w, n) == Interpolate(e, CosetPoints(g, w, n))

\* folding modulo X^n - 1: coefficient i goes to i mod n (a LEMMA of the
\* model checker: DFT(p) = DFT(Fold(p)) because w^n = 1)
RECURSIVE FoldCoef(_, _, _, _)
FoldCoef(p, n, i, acc) == IF i > Len(p) THEN acc ELSE FoldCoef(p, n, i + n, TLCEval(FAdd(acc, p[i])))
Fold(p, n) == Seq1(n, LAMBDA i : FoldCoef(p, n, i, Zero))

(* ---------------- vanishing polynomial, Lagrange, barycentric ---------- *)
\* Z_H(x) = prod over the domain of (x - point)
VanishingDef(x, pts) == LinProdAt(pts, 0, x)

\* all Lagrange basis values at x
LagrangeAllDef(x, pts) == Seq1(Len(pts), LAMBDA i : LagrangeAt(pts, i, x))

\* value at x of the polynomial of degree < n taking the values e on pts
\* (Len(e) <= n, missing values are zero): sum_i e_i L_i(x), for EVERY x
\* (terms with e_i = 0 are skipped)
BarycentricDef(e, x, pts) ==
  FoldLeft(LAMBDA acc, i : IF e[i] = Zero THEN acc
                           ELSE FAdd(acc, FMul(e[i], LagrangeAt(pts, i, x))),
           Zero, Indices(Len(e)))

\* public-input polynomial at x: sum_k vals[k] L_{rows[k]}(x), rows 0-based
RECURSIVE PiRec(_, _, _, _, _, _)
PiRec(rows, vals, x, pts, k, acc) ==
  IF k > Len(rows) THEN acc
  ELSE PiRec(rows, vals, x, pts, k + 1,
             TLCEval(FAdd(acc, FMul(vals[k], LagrangeAt(pts, rows[k] + 1, x)))))
PiDef(rows, vals, x, pts) == PiRec(rows, vals, x, pts, 1, Zero)

\* values of X^d - 1 on a coset
VanishingOverCosetDef(d, pts) == Seq1(Len(pts), LAMBDA i : FSub(PowI(pts[i], d), One))

\* element-wise inverse keeping zeros
InvOrZero(x) == IF x = Zero THEN Zero ELSE FInv(x)
IsBatchInverse(out, in) ==
  /\ Len(out) = Len(in)
  /\ \A i \in 1..Len(in) :
       IF in[i] = Zero THEN out[i] = Zero ELSE FMul(in[i], out[i]) = One

(* ---------------- O(n) consequences of the definitions ----------------- *)
(* For a domain of 2^14 points the O(n^2) comparison is out of reach of the *)
(* trace checker.  The following identities (LEMMAS proved by PolyMC for    *)
(* every small instance) compare a whole vector through one random point    *)
(* rho, chosen after the vector is fixed:                                   *)
(*   sum_i rho^i p(s w^i) = sum_j p_j s^j (rho^n - 1)/(rho w^j - 1)         *)
(* (geometric series; s = 1 for the subgroup, s = g for the coset).  Two    *)
(* different vectors agree on it for at most n values of rho.               *)
GeomKernel(rho, w, n) ==                  \* <<(rho^n-1)/(rho w^j - 1)>>, j = 0..n-1
  LET top == FSub(PowI(rho, n), One)
      rw == Geom(rho, w, n)
  IN Seq1(n, LAMBDA j : FMul(top, FInv(FSub(rw[j], One))))

\* right-hand side: from the coefficients p (Len(p) <= n) and the shift s
FunctionalOfCoeffs(p, s, rho, w, n) ==
  LET ker == GeomKernel(rho, w, n)
      spow == Powers(s, Len(p))
  IN SumOver(1, Len(p), LAMBDA j : FMul(FMul(p[j], spow[j]), ker[j]))

\* the same for a coefficient vector of ANY length: p(s X) folded mod X^n - 1
\* (defined further down: DistributePowers multiplies coefficient j by s^j)
FunctionalOfPoly(p, s, rho, w, n) ==
  LET pw == Powers(s, Len(p))
      q == Seq1(Len(p), LAMBDA i : FMul(p[i], pw[i]))
  IN FunctionalOfCoeffs(IF Len(p) > n THEN Fold(q, n) ELSE q, One, rho, w, n)

\* left-hand side: the value vector read as a polynomial in rho
FunctionalOfValues(e, rho) == Eval(e, rho)

\* rho is usable: no denominator vanishes
RhoUsable(rho, w, n) == \A j \in 1..n : FMul(rho, PowI(w, j - 1)) # One

(***************************************************************************)
(*                      PART II  -  TRANSCRIPTIONS                         *)
(***************************************************************************)

(* ---------------- Vec::resize ---------------- *)
Resize(v, n) == Seq1(n, LAMBDA i : Coef(v, i))       \* truncates or zero-pads

(* ---------------- domain.rs: bit reversal ---------------- *)
RECURSIVE BitRevRec(_, _, _)
BitRevRec(k, l, r) == IF l = 0 THEN r ELSE BitRevRec(k \div 2, l - 1, 2 * r + (k % 2))
BitReverse(k, l) == BitRevRec(k, l, 0)

\* `for k in 0..n { rk = bitreverse(k); if k < rk { swap(a[k], a[rk]) } }`:
\* every pair is swapped once, i.e. position k receives a[rk]
BitReversePermute(a, logn) == Seq1(Len(a), LAMBDA k : a[BitReverse(k - 1, logn) + 1])

(* ---------------- domain.rs: butterflies ---------------- *)
\* butterfly_range: the twiddle of the j-th pair is seed * w_m^j, obtained by
\* `w.mul_assign(&w_m)` after every pair
RangeTwiddles(w_m, seed, len) == Geom(seed, w_m, len)

\* butterfly_chunk: one range over the whole half chunk, seed one
SerialTwiddles(m, w_m) == RangeTwiddles(w_m, One, m)

\* parallel_butterfly_chunk: the half chunk is cut into ranges of
\* range_len = ceil(m / threads); range k starts with seed seed_step^k
RangeLen(m, threads) == CeilDiv(m, threads)
RangeCount(m, threads) == CeilDiv(m, RangeLen(m, threads))

RECURSIVE ParTwRec(_, _, _, _, _, _)
ParTwRec(m, w_m, rl, seeds, k, acc) ==
  IF k > Len(seeds) THEN acc
  ELSE LET len == IMin(rl, m - (k - 1) * rl)     \* par_chunks_mut: last may be short
       IN ParTwRec(m, w_m, rl, seeds, k + 1,
                   TLCEval(acc \o RangeTwiddles(w_m, seeds[k], len)))

ParallelTwiddles(m, w_m, threads) ==
  LET rl == RangeLen(m, threads)
      rc == RangeCount(m, threads)
      seedStep == PowI(w_m, rl)
      seeds == Geom(One, seedStep, rc)
  IN ParTwRec(m, w_m, rl, seeds, 1, <<>>)

\* one stage: every chunk of 2m entries is (left | right); pair j uses tw[j]
ButterflyStage(a, m, tw) ==
  Seq1(Len(a), LAMBDA k :
    LET pos == (k - 1) % (2 * m)
    IN IF pos < m
       THEN FAdd(a[k], FMul(a[k + m], tw[pos + 1]))
       ELSE FSub(a[k - m], FMul(a[k], tw[pos - m + 1])))

(* ---------------- domain.rs: serial_fft ---------------- *)
RECURSIVE SerialStages(_, _, _, _)
SerialStages(a, omega, m, n) ==
  IF m >= n THEN a
  ELSE LET w_m == PowI(omega, n \div (2 * m))
       IN SerialStages(ButterflyStage(a, m, SerialTwiddles(m, w_m)), omega, 2 * m, n)

\* precondition (assert_eq!): Len(a) = 2^logn
SerialFft(a, omega, logn) == SerialStages(BitReversePermute(a, logn), omega, 1, Len(a))

(* ---------------- domain.rs: best_fft (feature std) ---------------- *)
\* thresholds of the code: [minLen |-> 2^12, minChunks |-> 4,
\*                          finalMinLen |-> 2^12, finalMinThreads |-> 4]
CodeThresholds == [minLen |-> 4096, minChunks |-> 4, finalMinLen |-> 4096, finalMinThreads |-> 4]

\* which of the three branches a stage takes
StagePath(n, m, threads, th) ==
  IF n \div (2 * m) >= th.minChunks THEN "par-chunks"
  ELSE IF n >= th.finalMinLen /\ threads >= th.finalMinThreads THEN "par-ranges"
  ELSE "serial"

RECURSIVE BestStages(_, _, _, _, _, _)
BestStages(a, omega, m, n, threads, th) ==
  IF m >= n THEN a
  ELSE LET w_m == PowI(omega, n \div (2 * m))
           tw == IF StagePath(n, m, threads, th) = "par-ranges"
                 THEN ParallelTwiddles(m, w_m, threads)
                 ELSE SerialTwiddles(m, w_m)    \* chunks in parallel: same function
       IN BestStages(ButterflyStage(a, m, tw), omega, 2 * m, n, threads, th)

BestFft(a, omega, logn, threads, th) ==
  IF Len(a) < th.minLen THEN SerialFft(a, omega, logn)
  ELSE BestStages(BitReversePermute(a, logn), omega, 1, Len(a), threads, th)

(* ---------------- domain.rs: EvaluationDomain ---------------- *)
\* a domain: [n, logn, w, winv, ninv, g, ginv]; Domain(..) is
\* EvaluationDomain::new for a field whose 2^logn-th root of unity is w
Domain(n, w, g) ==
  [n |-> n, logn |-> Log2(n), w |-> w, winv |-> FInv(w),
   ninv |-> FInv(FInt(n)), g |-> g, ginv |-> FInv(g)]

\* distribute_powers: c[i] *= g^i with a running power
DistributePowers(v, g) ==
  LET pw == Powers(g, Len(v)) IN Seq1(Len(v), LAMBDA i : FMul(v[i], pw[i]))

\* what fft_in_place does with its argument before the transform
FftInput(v, n, foldLonger) == IF foldLonger /\ Len(v) > n THEN Fold(v, n) ELSE Resize(v, n)

FftCode(v, d, threads, th, foldLonger) ==
  BestFft(FftInput(v, d.n, foldLonger), d.w, d.logn, threads, th)

IfftCode(e, d, threads, th) ==
  LET t == BestFft(Resize(e, d.n), d.winv, d.logn, threads, th)
  IN Seq1(d.n, LAMBDA i : FMul(t[i], d.ninv))

\* coset_fft_in_place: distribute_powers over the WHOLE input, then fft_in_place
CosetFftCode(v, d, threads, th, foldLonger) ==
  FftCode(DistributePowers(v, d.g), d, threads, th, foldLonger)

CosetIfftCode(e, d, threads, th) == DistributePowers(IfftCode(e, d, threads, th), d.ginv)

(* ---------------- util.rs: batch_inversion ---------------- *)
\* indices of the non-zero entries from position i on, appended to acc
NonZeroIdx(v, i, acc) == acc \o SelectSeq(Indices(Len(v)), LAMBDA j : j >= i /\ v[j] # Zero)

RECURSIVE PrefixProdRec(_, _, _, _, _)
PrefixProdRec(v, idx, k, tmp, acc) ==
  IF k > Len(idx) THEN acc
  ELSE LET t == TLCEval(FMul(tmp, v[idx[k]]))
       IN PrefixProdRec(v, idx, k + 1, t, TLCEval(Append(acc, t)))

\* second pass, backwards over the non-zero entries; s = previous prefix
\* product (one for the first entry); f := tmp * s, tmp := tmp * f_old
RECURSIVE BackRec(_, _, _, _, _, _)
BackRec(v, idx, prod, k, tmp, out) ==
  IF k = 0 THEN out
  ELSE LET s == IF k = 1 THEN One ELSE prod[k - 1]
           f == v[idx[k]]
       IN BackRec(v, idx, prod, k - 1, TLCEval(FMul(tmp, f)),
                  TLCEval([out EXCEPT ![idx[k]] = FMul(tmp, s)]))

BatchInversionCode(v) ==
  LET idx == NonZeroIdx(v, 1, <<>>)
      prod == PrefixProdRec(v, idx, 1, One, <<>>)
      total == IF Len(prod) = 0 THEN One ELSE prod[Len(prod)]
  IN BackRec(v, idx, prod, Len(idx), FInv(total), v)

(* ---------------- polynomial.rs ---------------- *)
\* from_coefficients_vec / truncate_leading_zeros
FromCoefficients(v) == Norm(v)

\* evaluate: powers_of(value, len) zipped with the coefficients and summed
EvaluateCode(p, x) ==
  IF IsZeroPoly(p) THEN Zero
  ELSE LET pw == Powers(x, Len(p) + 1)
       IN Sum(Seq1(Len(p), LAMBDA i : FMul(pw[i], p[i])))

\* zip-add b into a over the common prefix (a at least as long as needed)
ZipWith(a, b, Op(_, _)) ==
  Seq1(Len(a), LAMBDA i : IF i <= Len(b) THEN Op(a[i], b[i]) ELSE a[i])

\* &a + &b
AddCode(a, b) ==
  Norm(IF IsZeroPoly(a) THEN b
       ELSE IF IsZeroPoly(b) THEN a
       ELSE IF Degree(a) >= Degree(b) THEN ZipWith(a, b, FAdd)
       ELSE ZipWith(b, a, FAdd))

\* a += (f, &b)
AddAssignScaledCode(a, f, b) ==
  Norm(IF IsZeroPoly(a) THEN PScale(b, f)
       ELSE IF IsZeroPoly(b) THEN a
       ELSE IF Degree(a) >= Degree(b)
            THEN ZipWith(a, b, LAMBDA x, y : FAdd(x, FMul(f, y)))
       ELSE ZipWith(Resize(a, Len(b)), b, LAMBDA x, y : FAdd(x, FMul(f, y))))

\* &a - &b
SubCode(a, b) ==
  Norm(IF IsZeroPoly(a) THEN PNeg(b)
       ELSE IF IsZeroPoly(b) THEN a
       ELSE IF Degree(a) >= Degree(b) THEN ZipWith(a, b, FSub)
       ELSE ZipWith(Resize(a, Len(b)), b, FSub))

\* &a * &k
ScaleCode(a, k) == IF IsZeroPoly(a) \/ k = Zero THEN <<>> ELSE Norm(PScale(a, k))

\* &a + &k  (NOT normalised by the code when the constant term cancels)
AddScalarCode(a, k) ==
  IF IsZeroPoly(a) THEN Norm(<<k>>)
  ELSE IF k = Zero THEN a
  ELSE [a EXCEPT ![1] = FAdd(a[1], k)]

\* ruffini: from the leading coefficient down, t = coeff + k, k = z t; the
\* last t (the remainder) is dropped
RECURSIVE RuffiniRec(_, _, _, _, _)
RuffiniRec(p, z, i, k, acc) ==
  IF i = 0 THEN acc
  ELSE LET t == TLCEval(FAdd(p[i], k))
       IN RuffiniRec(p, z, i - 1, TLCEval(FMul(z, t)), TLCEval(<<t>> \o acc))

RuffiniCode(p, z) ==
  LET all == RuffiniRec(p, z, Len(p), Zero, <<>>)      \* all[1] is the remainder
  IN IF Len(all) = 0 THEN <<>> ELSE Norm(SubSeq(all, 2, Len(all)))

\* &a * &b through the FFT on the domain for len(a) + len(b) coefficients;
\* rootOf(n) gives the primitive n-th root of the field's two-adic tower
MulCode(a, b, rootOf(_), g, threads, th) ==
  IF IsZeroPoly(a) \/ IsZeroPoly(b) THEN <<>>
  ELSE LET n == NextPow2(Len(a) + Len(b))
           d == Domain(n, rootOf(n), g)
           ea == FftCode(a, d, threads, th, FALSE)
           eb == FftCode(b, d, threads, th, FALSE)
           prod == Seq1(n, LAMBDA i : FMul(ea[i], eb[i]))
       IN Norm(IfftCode(prod, d, threads, th))

(* ---------------- domain.rs: closed forms ---------------- *)
\* evaluate_vanishing_polynomial
VanishingCode(x, n) == FSub(PowI(x, n), One)

\* vanishing_poly_over_coset(poly_degree): point = g^deg, step = w^deg
VanishingOverCosetCode(d, deg) ==
  LET pts == Geom(PowI(d.g, deg), PowI(d.w, deg), d.n)
  IN Seq1(d.n, LAMBDA i : FSub(pts[i], One))

\* evaluate_all_lagrange_coefficients
\* first index >= i holding x (0 if none)
FirstEq(s, x, i) ==
  FoldLeft(LAMBDA acc, j : IF acc = 0 /\ j >= i /\ s[j] = x THEN j ELSE acc, 0, Indices(Len(s)))

LagrangeAllCode(x, d) ==
  LET n == d.n
      tn == PowI(x, n)
      pts == SubgroupPoints(d.w, n)
  IN IF tn = One
     THEN LET k == FirstEq(pts, x, 1)
          IN Seq1(n, LAMBDA i : IF i = k THEN One ELSE Zero)
     ELSE LET ls == Geom(FMul(FSub(tn, One), d.ninv), d.w, n)
              u == BatchInversionCode(Seq1(n, LAMBDA i : FSub(x, pts[i])))
          IN Seq1(n, LAMBDA i : FMul(ls[i], u[i]))

(* ---------------- proof.rs: barycentric evaluations ---------------- *)
\* compute_barycentric_eval(evaluations, point, domain)
BarycentricCode(e, x, d, inDomainFix) ==
  LET n == d.n
      tn == PowI(x, n)
      numerator == FMul(FSub(tn, One), d.ninv)
      nz == NonZeroIdx(e, 1, <<>>)
      den == Seq1(Len(nz), LAMBDA k : FSub(FMul(PowI(d.winv, nz[k] - 1), x), One))
      inv == BatchInversionCode(den)
      s == Sum(Seq1(Len(nz), LAMBDA k : FMul(inv[k], e[nz[k]])))
      hit == FirstEq(SubgroupPoints(d.w, n), x, 1)
  IN IF inDomainFix /\ tn = One
     THEN ValueAt(e, hit)                     \* the repaired variant
     ELSE FMul(s, numerator)                  \* 0 whenever x is in the domain

\* compute_lagrange_and_barycentric_evaluations with the roots the verifier
\* passes (w^-row), z_h = x^n - 1: <<ok, L_1(x), PI(x)>>, ok = FALSE for Err
FusedCode(rows, vals, x, d) ==
  LET nz == NonZeroIdx(vals, 1, <<>>)
      zh == VanishingCode(x, d.n)
      den == <<FMul(FInt(d.n), FSub(x, One))>> \o
             Seq1(Len(nz), LAMBDA k : FSub(FMul(PowI(d.winv, rows[nz[k]]), x), One))
  IN IF \E k \in 1..Len(den) : den[k] = Zero THEN <<FALSE, Zero, Zero>>
     ELSE LET inv == BatchInversionCode(den)
              s == Sum(Seq1(Len(nz), LAMBDA k : FMul(inv[k + 1], vals[nz[k]])))
          IN <<TRUE, FMul(zh, inv[1]), FMul(FMul(s, zh), d.ninv)>>

\* the inputs on which the fused evaluation refuses: x = 1 or x a domain
\* point carrying a non-zero public input
FusedRefuses(rows, vals, x, d) ==
  \/ x = One
  \/ \E k \in 1..Len(rows) : vals[k] # Zero /\ x = PowI(d.w, rows[k])
=============================================================================
