SPECIFICATION Spec
CONSTANT Family = "truncate"
CONSTANT Tier = "quick"
INVARIANT Emit
CHECK_DEADLOCK FALSE
