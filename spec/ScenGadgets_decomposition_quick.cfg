SPECIFICATION Spec
CONSTANT Family = "decomposition"
CONSTANT Tier = "quick"
INVARIANT Emit
CHECK_DEADLOCK FALSE
