SPECIFICATION Spec
CONSTANT Family = "decomposition"
CONSTANT Tier = "thorough"
INVARIANT Emit
CHECK_DEADLOCK FALSE
