------------------------------ MODULE TraceKzg ------------------------------
(***************************************************************************)
(* Trace validation of the real KZG code (C20) over the BLS12-381 scalar   *)
(* field with a KNOWN secret.                                              *)
(*                                                                         *)
(* harness/src/bin/kzg.rs runs PublicParameters::setup with scripted       *)
(* draws, so the secret tau and the generator scalars s_g, s_h are in the  *)
(* trace.  The operators of Kzg are evaluated with KnownSecret(tau): every *)
(* group element is then the constant polynomial <<discrete logarithm>>,   *)
(* and pairing checks are exact.  For every event TLC                      *)
(*   - predicts the outcome (Ok / Err class / verdict) and compares it     *)
(*     with what the library did            -> VERDICT / MISMATCH lines    *)
(*   - prints the discrete logarithm every logged group element must have  *)
(*     -> DLOG lines; the second pass of the harness (`verify-dlogs`)      *)
(*     multiplies the generator by it with the library's own scalar        *)
(*     multiplication and compares the bytes.                              *)
(* Verdicts of openings are predicted twice: by the exact verification     *)
(* equation with the logged challenge, and by the property ("every claimed *)
(* evaluation is the true one and every witness is the true quotient");    *)
(* the two must agree (they can differ only by an accidental cancellation  *)
(* of probability 2^-250).                                                 *)
(*                                                                         *)
(* Events are independent (each refers to its setup event by line number): *)
(* every event is an initial state with one step.                          *)
(***************************************************************************)
EXTENDS FieldBLS, Json, IOUtils, Sequences, FiniteSets, TLC

K == INSTANCE Kzg WITH FAdd <- BAdd, FSub <- BSub, FMul <- BMul, FNeg <- BNeg,
                       FInv <- BInv, FInt <- BInt
Pl == INSTANCE Poly WITH FAdd <- BAdd, FSub <- BSub, FMul <- BMul, FNeg <- BNeg,
                         FInv <- BInv, FInt <- BInt

Rec == ndJsonDeserialize(IOEnv.TRACE)

VARIABLES l, done

Has(e, k) == k \in DOMAIN e
One == BInt(1)
Zero == BInt(0)

\* discrete logarithm of a (known-secret) group element
Dl(g) == IF g = <<>> THEN Zero ELSE g[1]

\* the parameters of setup event s (event ids are line numbers)
KeyOf(s) == K!Setup(s.d, K!KnownSecret(s.tau), s.sg, s.sh)

Say(kind, e, a, b) == PrintT(kind \o "|" \o ToString(e.id) \o "|" \o e.ev \o "|" \o a \o "|" \o b)
DLog(e, slot, g) == PrintT("DLOG|" \o ToString(e.id) \o "|" \o slot \o "|" \o ToString(Dl(g)))

ResOf(r) == IF r.ok THEN "ok" ELSE "err:" \o r.err

(* ---------------- setup ---------------- *)
JudgeSetup(e) ==
  LET r == KeyOf(e)
  IN IF ~r.ok
     THEN IF e.res = ResOf(r) THEN Say("VERDICT", e, "refused", e.res)
          ELSE Say("MISMATCH", e, "setup-outcome", e.res)
     ELSE LET key == r.val
              n == Len(key.powers)
          IN IF /\ e.res = "ok"
                /\ Len(e.powers) = n /\ e.max_degree = n - 1 /\ n = e.d + 7
                /\ K!SrsConsistent(key.powers, key.g, key.h, key.xh)
                /\ \A i \in 1..n : Dl(key.powers[i]) = BMul(e.sg, Pl!PowI(e.tau, i - 1))
             THEN /\ \A i \in 1..n : DLog(e, "powers/" \o ToString(i - 1), key.powers[i])
                  /\ DLog(e, "g", key.g) /\ DLog(e, "h", key.h) /\ DLog(e, "xh", key.xh)
                  /\ Say("VERDICT", e, "srs-consistent", ToString(n) \o " powers, " \o ToString(e.draws) \o " draws")
             ELSE Say("MISMATCH", e, "setup", e.res)

\* a large setup observed through a sample of its powers (idx = 0-based power indexes):
\* power i of the reference string is [s_g tau^i]
JudgeSetupSample(e) ==
  IF e.res = "ok" /\ Has(e, "len") /\ e.len = e.d + 7 /\ Len(e.idx) = Len(e.powers)
  THEN /\ \A j \in 1..Len(e.idx) :
            DLog(e, "powers/" \o ToString(j - 1), << BMul(e.sg, Pl!PowI(e.tau, e.idx[j])) >>)
       /\ Say("VERDICT", e, "srs-sampled", ToString(Len(e.idx)) \o " of " \o ToString(e.len) \o " powers")
  ELSE Say("MISMATCH", e, "setup-sample", e.res)

(* ---------------- trim ---------------- *)
JudgeTrim(e) ==
  LET key == KeyOf(Rec[e.sid]).val
      r == K!Trim(key, e.n)
  IN IF e.res = ResOf(r) /\ (r.ok => (e.count = Len(r.val) /\ Len(r.val) = e.n + 7))
     THEN Say("VERDICT", e, "trim", e.res)
     ELSE Say("MISMATCH", e, "trim-outcome",
              e.res \o (IF Has(e, "count") THEN " with " \o ToString(e.count) \o " powers" ELSE "")
              \o ", predicted " \o ResOf(r)
              \o (IF r.ok THEN " with " \o ToString(Len(r.val)) \o " powers" ELSE ""))

PowersFor(e) ==
  LET key == KeyOf(Rec[e.sid]).val
  IN IF Has(e, "trim") THEN K!Trim(key, e.trim).val ELSE key.powers

(* ---------------- commit ---------------- *)
JudgeCommit(e) ==
  LET s == Rec[e.sid]
      r == K!Commit(PowersFor(e), e.coeffs)
  IN IF e.res # ResOf(r) THEN Say("MISMATCH", e, "commit-outcome", e.res \o " predicted " \o ResOf(r))
     ELSE IF ~r.ok THEN Say("VERDICT", e, "refused", e.res)
     \* the model's MSM is f(tau) s_g, zero polynomial -> identity
     ELSE IF Dl(r.val) # BMul(Pl!Eval(e.coeffs, s.tau), s.sg) THEN Say("MISMATCH", e, "model", "msm")
     ELSE DLog(e, "c", r.val) /\ Say("VERDICT", e, "commit", IF r.val = <<>> THEN "identity" ELSE "point")

JudgeLinear(e) ==
  LET p == PowersFor(e)
  IN IF /\ e.add_ok /\ e.scale_ok
        /\ Pl!PEq(e.sum, Pl!PAdd(e.a, e.b))
        /\ Pl!PEq(e.scaled, Pl!PScale(e.a, e.k))
     THEN /\ DLog(e, "ca", K!Commit(p, e.a).val) /\ DLog(e, "cb", K!Commit(p, e.b).val)
          /\ DLog(e, "csum", K!Commit(p, e.sum).val) /\ DLog(e, "cscaled", K!Commit(p, e.scaled).val)
          /\ Say("VERDICT", e, "linear", "ok")
     ELSE Say("MISMATCH", e, "commit-linearity", "")

(* ---------------- aggregate witness ---------------- *)
JudgeAggWit(e) ==
  LET w == K!AggregateWitness(e.polys, e.z, e.v)
  IN IF /\ e.res = "ok"
        /\ Pl!PEq(e.out, w)
        \* definition: quotient of sum_i v^i p_i by (X - z)
        /\ Pl!IsQuotientByLinear(e.out, K!Combine(e.polys, e.v), e.z)
     THEN Say("VERDICT", e, "aggregate-witness", ToString(Len(e.polys)))
     ELSE Say("MISMATCH", e, "aggregate-witness", e.res)

(* ---------------- aggregated opening at one point ---------------- *)
JudgeAggOpen(e) ==
  LET key == KeyOf(Rec[e.sid]).val
      k == Len(e.polys)
      comms == [i \in 1..k |-> K!Commit(key.powers, e.polys[i]).val]
      w == K!Commit(key.powers, e.wpoly).val
      f == K!Flatten(w, e.evals, comms, e.v)
  IN IF ~f.ok
     THEN (IF SubSeq(e.flat, 1, 5) = "panic" THEN Say("VERDICT", e, "empty-aggregate-panics", e.flat)
           ELSE Say("MISMATCH", e, "flatten-outcome", e.flat))
     ELSE IF e.flat # "ok" THEN Say("MISMATCH", e, "flatten-outcome", e.flat)
     ELSE LET exact == K!BatchCheck(key, <<e.z>>, <<f.val>>, One)
              allTrue == \A i \in 1..k : e.evals[i] = Pl!Eval(e.polys[i], e.z)
              byProperty == IF allTrue THEN "ok" ELSE "err:PairingCheckFailure"
          IN IF e.fe # f.val.e THEN Say("MISMATCH", e, "flatten-evaluation", "")
             ELSE IF e.res # exact THEN Say("MISMATCH", e, "aggregated-opening-verdict", e.res \o " predicted " \o exact)
             ELSE /\ DLog(e, "fc", f.val.c)
                  /\ IF exact = byProperty THEN Say("VERDICT", e, "aggregated-opening", e.res)
                     ELSE Say("VERDICT", e, "accidental-cancellation", e.res)

(* ---------------- batched openings ---------------- *)
Labels(items) == [i \in 1..Len(items) |-> items[i][1]]

JudgeBatch(e) ==
  LET key == KeyOf(Rec[e.sid]).val
      k == Len(e.entries)
      proofs == [i \in 1..k |-> [w |-> K!Commit(key.powers, e.entries[i].wpoly).val,
                                 e |-> e.entries[i].e,
                                 c |-> K!Commit(key.powers, e.entries[i].cpoly).val]]
      pts == e.points
      exact == K!BatchCheck(key, pts, proofs, e.u)
      wellFormed == k > 0 /\ Len(pts) = k
      allValid == \A i \in 1..k :
                    /\ e.entries[i].e = Pl!Eval(e.entries[i].cpoly, pts[i])
                    /\ Pl!PEq(e.entries[i].wpoly, K!AggregateWitness(<<e.entries[i].cpoly>>, pts[i], One))
      byProperty == IF ~wellFormed THEN "err:ProofVerificationError"
                    ELSE IF allValid THEN "ok" ELSE "err:PairingCheckFailure"
      labelsOk == ~wellFormed \/ e.labels = Labels(K!BatchChallengeItems(pts, proofs))
      dlogs == \A i \in 1..k : /\ DLog(e, "entries/" \o ToString(i - 1) \o "/c", proofs[i].c)
                               /\ DLog(e, "entries/" \o ToString(i - 1) \o "/w", proofs[i].w)
  IN IF ~labelsOk THEN Say("MISMATCH", e, "harness-transcript-items", "")
     ELSE IF Has(e, "probe")
     THEN \* a crafted batch: accepted under the challenge that leaves one item
          \* out, not valid, so the real verifier (binding everything) must reject
          IF ~(wellFormed /\ ~allValid /\ K!BatchCheck(key, pts, proofs, e.probe.u) = "ok")
          THEN Say("MISMATCH", e, "harness-probe-malformed", e.what)
          ELSE IF e.res = "ok" THEN Say("MISMATCH", e, "batch-binding", e.what)
          ELSE IF e.res # exact THEN Say("MISMATCH", e, "batch-verdict", e.res \o " predicted " \o exact)
          ELSE dlogs /\ Say("VERDICT", e, "probe-rejected", e.res)
     ELSE IF e.res # exact THEN Say("MISMATCH", e, "batch-verdict", e.res \o " predicted " \o exact)
     ELSE /\ dlogs
          /\ IF exact = byProperty THEN Say("VERDICT", e, "batch", e.res)
             ELSE Say("VERDICT", e, "accidental-cancellation", e.res)

Judge(e) ==
  IF e.ev = "setup" THEN JudgeSetup(e)
  ELSE IF e.ev = "setup-sample" THEN JudgeSetupSample(e)
  ELSE IF e.ev = "trim" THEN JudgeTrim(e)
  ELSE IF e.ev = "commit" THEN JudgeCommit(e)
  ELSE IF e.ev = "linear" THEN JudgeLinear(e)
  ELSE IF e.ev = "aggwit" THEN JudgeAggWit(e)
  ELSE IF e.ev = "aggopen" THEN JudgeAggOpen(e)
  ELSE IF e.ev = "batch" THEN JudgeBatch(e)
  ELSE Say("MISMATCH", e, "unknown-event", "")

Init == l \in 1..Len(Rec) /\ done = FALSE
Next == /\ ~done
        /\ Rec[l].id = l
        /\ Judge(Rec[l])
        /\ done' = TRUE
        /\ l' = l
Spec == Init /\ [][Next]_<<l, done>>

Accepted == TLCGet("stats").distinct = 2 * Len(Rec)
=============================================================================
