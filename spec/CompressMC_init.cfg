SPECIFICATION Spec
CONSTANTS
  MaxRows = 1
  MaxW = 1
  SelMenu = {1, 2, 3, 4, 5}
  WireMode = "ab"
  InitMode = "initialized"
  SortPI = TRUE
INVARIANTS
  RoundTripKeys
  CompressDeterministic
  DictsBijective
  SigmaIsNextInClass
  CapacityAgrees
  RejectsMalformed
  AcceptsSparse
  Bounded
CHECK_DEADLOCK FALSE
