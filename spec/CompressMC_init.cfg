SPECIFICATION Spec
CONSTANTS
  MaxRows = 1
  MaxW = 1
  SelMenu = {1, 2, 3, 4, 5}
  WireMode = "ab"
  InitMode = "initialized"
  SortPI = TRUE
  TailIgnored = FALSE
INVARIANTS
  RoundTripKeys
  CompressDeterministic
  DictsBijective
  SigmaIsNextInClass
  CapacityAgrees
  RejectsMalformed
  AcceptsSparse
  Bounded
  RejectsTrailing
CHECK_DEADLOCK FALSE
