SPECIFICATION Spec
CONSTANTS
  MaxRows = 2
  MaxW = 2
  SelMenu = {2, 3}
  WireMode = "full"
  InitMode = "empty"
  SortPI = TRUE
INVARIANTS
  RoundTripKeys
  CompressDeterministic
  DictsBijective
  SigmaIsNextInClass
  CapacityAgrees
  RejectsMalformed
  AcceptsSparse
  Bounded
CHECK_DEADLOCK FALSE
