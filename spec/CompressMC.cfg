SPECIFICATION Spec
CONSTANTS
  MaxRows = 2
  MaxW = 2
  SelMenu = {2, 3}
  WireMode = "full"
  InitMode = "empty"
  SortPI = TRUE
  TailIgnored = FALSE
INVARIANTS
  RoundTripKeys
  CompressDeterministic
  DictsBijective
  SigmaIsNextInClass
  CapacityAgrees
  RejectsMalformed
  AcceptsSparse
  Bounded
  RejectsTrailing
CHECK_DEADLOCK FALSE
