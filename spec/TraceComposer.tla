--------------------------- MODULE TraceComposer ---------------------------
(***************************************************************************)
(* Trace validation of the real Composer against Components.tla at the     *)
(* real parameters (NB = 255, BLS12-381 scalar field, JubJub).             *)
(*                                                                         *)
(* The specification's composer state `st` runs in lock-step with the      *)
(* implementation: for every recorded call the specification computes what *)
(* the call must append (rows with selectors and wiring, witnesses with    *)
(* their honest values, public inputs) and what it returns, and compares   *)
(* with what the implementation did.  A difference is reported as          *)
(*   MISMATCH|line|op|what   (what in rows / vals / pis / ret / res)       *)
(* after which the specification adopts the recorded state so that the     *)
(* rest of the trace is still checked.                                     *)
(***************************************************************************)
EXTENDS FieldBLS, Json, IOUtils, Sequences, FiniteSets

BitsOf(x, n) == [i \in 1..n |-> BigBit(x, i - 1)]
RJBits == BitsOf(RJ, 252)
\* 8^-1 modulo the subgroup order
EightInvB == BitsOf(BigInvMod(BigFromInt(8), RJ), 252)

C == INSTANCE Components WITH
       FAdd <- BAdd, FSub <- BSub, FMul <- BMul, FNeg <- BNeg, FInv <- BInv,
       FInt <- BInt, FBit <- BBit, FShr <- BShr, FLow <- BLow, FPow2 <- BPow2,
       NB <- 255, EdD <- BEdwardsD, ScalarBits <- 252,
       OrderM1 <- BigSub(RJ, BigOne), OrderBits <- RJBits, EightInvBits <- EightInvB, AdvMode <- "honest"

Rec == ndJsonDeserialize(IOEnv.TRACE)

VARIABLES l, st

Has(e, k) == k \in DOMAIN e

\* recorded rows -> specification rows
RecRows(e) == [i \in 1..Len(e.rows) |->
                 [q |-> [j \in 1..11 |-> e.d[e.rows[i].q[j]]], w |-> e.rows[i].w]]

\* what a specification state added relative to `s0`
NewRows(s0, s1) == SubSeq(s1.rows, Len(s0.rows) + 1, Len(s1.rows))
NewVals(s0, s1) == SubSeq(s1.vals, Len(s0.vals) + 1, Len(s1.vals))
NewPis(s0, s1) == SubSeq(s1.pis, Len(s0.pis) + 1, Len(s1.pis))

\* the recorded state change applied to a specification state (resync)
Adopt(s, e) ==
  LET v1 == s.vals \o e.vals
      v2 == [k \in 1..Len(v1) |->
               IF \E o \in 1..Len(e.over) : e.over[o][1] = k
               THEN e.over[CHOOSE o \in 1..Len(e.over) : e.over[o][1] = k][2] ELSE v1[k]]
  IN [rows |-> s.rows \o RecRows(e), vals |-> v2, pis |-> s.pis \o e.pis]

Ok(s, ret) == [st |-> s, ret |-> ret, res |-> "ok"]

PtArg(a) == <<a[1], a[2]>>

(* what the specification says the call does; "unmodelled" when the
   component is not (yet) part of Components.tla *)
Apply(s, e) ==
  LET a == e.args
      q == IF Has(a, "q") THEN a.q ELSE << >>
      w == IF Has(a, "w") THEN a.w ELSE << >>
      haspi == Has(a, "haspi")
      pi == IF Has(a, "pi") THEN a.pi ELSE BigZero
  IN CASE e.op = "witness" -> LET s1 == C!Alloc(s, a.v) IN Ok(s1, <<C!Last(s1)>>)
       [] e.op = "constant" -> LET r == C!AppendConstant(s, a.v) IN Ok(r.st, <<r.ret>>)
       [] e.op = "public" -> LET r == C!AppendPublic(s, a.v) IN Ok(r.st, <<r.ret>>)
       [] e.op = "gate" ->
            Ok(IF haspi THEN C!GatePI(s, q[1], q[2], q[3], q[4], q[5], q[6], w[1], w[2], w[3], w[4], pi)
               ELSE C!Gate(s, q[1], q[2], q[3], q[4], q[5], q[6], w[1], w[2], w[3], w[4]), << >>)
       [] e.op = "evaluated_output" ->
            LET r == C!EvaluatedOutput(s, q[1], q[2], q[3], q[4], q[5], q[6], w[1], w[2], w[3], w[4], haspi, pi)
            IN Ok(r.st, IF r.ret = 0 THEN << >> ELSE <<r.ret>>)
       [] e.op \in {"gate_add", "gate_mul"} ->
            LET r == C!EvaluatedOutput(s, q[1], q[2], q[3], BNeg(BigOne), q[5], q[6], w[1], w[2], w[3], w[4], haspi, pi)
            IN Ok(r.st, <<r.ret>>)
       [] e.op = "assert_equal" -> Ok(C!AssertEqual(s, a.a, a.b), << >>)
       [] e.op = "assert_equal_constant" ->
            Ok(IF haspi THEN C!AssertEqualConstantPI(s, a.a, a.c, pi) ELSE C!AssertEqualConstant(s, a.a, a.c), << >>)
       [] e.op = "boolean" -> Ok(C!Boolean(s, a.a), << >>)
       [] e.op = "select" -> LET r == C!Select(s, a.bit, a.a, a.b) IN Ok(r.st, <<r.ret>>)
       [] e.op = "select_one" -> LET r == C!SelectOne(s, a.bit, a.a) IN Ok(r.st, <<r.ret>>)
       [] e.op = "select_zero" -> LET r == C!SelectZero(s, a.bit, a.a) IN Ok(r.st, <<r.ret>>)
       [] e.op \in {"range_bits", "range_check"} -> Ok(C!RangeCheck(s, a.w, a.bits), << >>)
       [] e.op = "range_pairs" -> Ok(C!ComponentRange(s, a.w, a.pairs), << >>)
       [] e.op = "decomposition" -> LET r == C!Decomposition(s, a.w, a.n) IN Ok(r.st, r.ret)
       [] e.op = "truncate" -> LET r == C!Truncate(s, a.w, a.n) IN Ok(r.st, <<r.ret>>)
       [] e.op = "bind_truncation_split" -> Ok(C!BindTruncationSplit(s, a.input, a.low, a.n), << >>)
       [] e.op = "assert_canonical_truncation" ->
            Ok(C!AssertCanonicalTruncation(s, a.high, a.low, a.n), << >>)
       [] e.op = "logic" -> LET r == C!Logic(s, a.a, a.b, a.pairs, a.xor) IN Ok(r.st, <<r.ret>>)
       [] e.op = "point" -> LET s1 == C!Alloc(C!Alloc(s, a.u), a.v) IN Ok(s1, <<C!NW(s) + 1, C!NW(s) + 2>>)
       [] e.op = "add_point_gates" \/ e.op = "add_point" ->
            LET r == C!AddPointGates(s, PtArg(a.a), PtArg(a.b)) IN Ok(r.st, r.ret)
       [] e.op = "sub_point" -> LET r == C!SubPoint(s, PtArg(a.a), PtArg(a.b)) IN Ok(r.st, r.ret)
       [] e.op = "neg_point" -> LET r == C!NegPoint(s, PtArg(a.a)) IN Ok(r.st, r.ret)
       [] e.op = "assert_equal_point" -> Ok(C!AssertEqualPoint(s, PtArg(a.a), PtArg(a.b)), << >>)
       [] e.op = "torsion_free_gates" -> Ok(C!TorsionFreeGates(s, PtArg(a.p), <<a.qu, a.qv>>), << >>)
       [] e.op = "select_identity" -> LET r == C!SelectIdentity(s, a.bit, PtArg(a.a)) IN Ok(r.st, r.ret)
       [] e.op = "select_point" -> LET r == C!SelectPoint(s, a.bit, PtArg(a.a), PtArg(a.b)) IN Ok(r.st, r.ret)
       [] e.op = "mul_point" -> LET r == C!MulPoint(s, a.s, PtArg(a.p), 252) IN Ok(r.st, r.ret)
       [] e.op = "append_point" -> C!AppendPoint(s, a.ext)
       [] e.op = "append_constant_point" -> C!AppendConstantPoint(s, a.ext)
       [] e.op = "append_public_point" -> C!AppendPublicPoint(s, a.ext)
       [] e.op = "assert_equal_public_point" -> C!AssertEqualPublicPoint(s, PtArg(a.p), a.ext)
       [] e.op = "assert_torsion_free" -> Ok(C!AssertTorsionFree(s, PtArg(a.p)), << >>)
       [] e.op = "assert_canonical_jubjub_scalar" -> Ok(C!AssertCanonicalScalar(s, a.s), << >>)
       [] e.op = "mul_generator" -> C!MulGenerator(s, a.s, a.ext)
       [] e.op = "fixed_base_digits" -> C!FixedBaseDigits(s, a.s, C!ExtAffine(a.ext), a.digits)
       [] e.op = "set_witness" -> Ok([s EXCEPT !.vals[a.w] = a.v], << >>)
       [] OTHER -> [st |-> s, ret |-> << >>, res |-> "unmodelled"]

Diff(s, e, r) ==
  IF r.res # e.res THEN "res"
  ELSE IF NewRows(s, r.st) # RecRows(e) THEN "rows"
  ELSE IF NewVals(s, r.st) # e.vals THEN "vals"
  ELSE IF NewPis(s, r.st) # e.pis THEN "pis"
  ELSE IF r.ret # e.ret THEN "ret"
  ELSE IF e.op = "set_witness" /\ r.st.vals # Adopt(s, e).vals THEN "over"
  ELSE "same"

Init == l = 1 /\ st = C!Empty

Step(e) ==
  CASE e.ev = "begin" ->
         LET r == [st |-> C!Initialized, ret |-> << >>, res |-> "ok"]
             d == IF NewRows(C!Empty, r.st) # RecRows(e) THEN "rows"
                  ELSE IF r.st.vals # e.vals THEN "vals" ELSE "same"
         IN /\ st' = r.st
            /\ IF d = "same" THEN PrintT("VERDICT|" \o ToString(l) \o "|begin")
               ELSE PrintT("MISMATCH|" \o ToString(l) \o "|begin|" \o d)
    [] e.ev = "call" ->
         IF e.res = "bad" THEN st' = st /\ PrintT("SKIP|" \o ToString(l) \o "|" \o e.op)
         ELSE
         LET r == Apply(st, e)
         IN IF r.res = "unmodelled"
            THEN /\ st' = Adopt(st, e)
                 /\ PrintT("SKIP|" \o ToString(l) \o "|" \o e.op)
            ELSE LET d == Diff(st, e, r)
                 IN IF d = "same"
                    THEN /\ st' = r.st
                         /\ PrintT("VERDICT|" \o ToString(l) \o "|" \o e.op)
                    ELSE /\ st' = Adopt(st, e)
                         /\ PrintT("MISMATCH|" \o ToString(l) \o "|" \o e.op \o "|" \o d)
    [] e.ev = "end" ->
         \* Composer::constraints() / the witness count agree with the specification's state
         /\ st' = st
         /\ IF Len(st.rows) = e.nr /\ Len(st.vals) = e.nw
            THEN PrintT("VERDICT|" \o ToString(l) \o "|end")
            ELSE PrintT("MISMATCH|" \o ToString(l) \o "|end|counts")
    [] OTHER -> st' = st

Next == /\ l <= Len(Rec)
        /\ Step(Rec[l])
        /\ l' = l + 1
Spec == Init /\ [][Next]_<<l, st>>
Accepted == TLCGet("stats").diameter - 1 = Len(Rec)
=============================================================================
