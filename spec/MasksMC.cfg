SPECIFICATION Spec
CONSTANTS
  P = 97
  Gen = 5
  N = 8
INVARIANTS
  IDFTIsInterpolation
  AgreesOnH
  DegreesAndTop
  SharesRecombine
  OneDrawOnePlace
  ExpectedScalarIsCommitmentDelta
CHECK_DEADLOCK FALSE
