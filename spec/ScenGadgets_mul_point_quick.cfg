SPECIFICATION Spec
CONSTANT Family = "mul_point"
CONSTANT Tier = "quick"
INVARIANT Emit
INVARIANT PointsInv
CHECK_DEADLOCK FALSE
