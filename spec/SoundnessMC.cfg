SPECIFICATION Spec
CONSTANTS
  P = 97
  Gen = 5
  N = 4
INVARIANTS Complete SZBudget FloorExact FamilyShape Report
CHECK_DEADLOCK FALSE
