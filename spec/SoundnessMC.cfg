SPECIFICATION Spec
CONSTANTS
  P = 97
  Gen = 5
  N = 4
INVARIANTS Complete FloorSound SZBudget CollisionIsValidProof FamilyShape Report
CHECK_DEADLOCK FALSE
