------------------------------ MODULE Compress ------------------------------
(***************************************************************************)
(* Compressed circuit descriptions (C15): `Circuit::compress` =             *)
(* `CompressedCircuit::from_composer`, `Compiler::compile_with_compressed`  *)
(* = `CompressedCircuit::from_bytes` + `compile_with_composer`, the         *)
(* capacity rule `Compiler::max_constraints`, and the description           *)
(* `Preprocess` that determines the keys.  Pure operators only: the state   *)
(* machine that drives them is CompressMC, the conformance judge is         *)
(* TraceCompress.  Scalars are opaque tokens (only equality is used), so    *)
(* the very same operators run on small integers (MC) and on the hex        *)
(* strings of real BLS12-381 scalars (TV).                                  *)
(*                                                                         *)
(* composer   [rows |-> << [q |-> <<11 scalars>>, w |-> <<a,b,c,d>>] >>,    *)
(*             nw   |-> number of allocated witnesses,                      *)
(*             pis  |-> set of public-input rows]                           *)
(*            witness labels and row numbers are 0-based as in the code     *)
(*            (row i is rows[i+1]).                                         *)
(* payload    what MessagePack carries, in field order:                     *)
(*            [hades, pis, nw, scalars, polys, cons] + `extra` = number of  *)
(*            bytes after the last field + `decl` = collection lengths the  *)
(*            array headers DECLARE (equal to the real lengths unless the   *)
(*            input is hostile).                                            *)
(* container  [stream |-> "ok" | "garbage", payload, tail] : a deflate      *)
(*            stream followed by `tail` further bytes.  The code calls      *)
(*            used to call `decompress_to_vec_with_limit`, which stops at   *)
(*            the end of the stream and never looks at the tail (the C15    *)
(*            finding; TailIgnored = TRUE models that reading); it now      *)
(*            inflates with a loop that knows the consumed length and       *)
(*            rejects a non-empty tail (TailIgnored = FALSE).               *)
(***************************************************************************)
EXTENDS Naturals, Sequences, FiniteSets, TLC

CONSTANTS BaseList,        \* built-in table in construction order: 0, 1, -1,
                           \* hades round constants, MDS entries (duplicates occur)
          ScalarBytes(_),  \* packed size of one 32-byte scalar (32..64)
          IntBytes(_),     \* packed size of a usize (1,2,3,5,9)
          Canonical(_),    \* the 32 bytes decode to a scalar (< r)
          TailIgnored      \* FALSE: the code as it is (inflate_exact: the stream must
                           \* span the whole input); TRUE: the code before the fix
                           \* (decompress_to_vec_with_limit never looked at the tail)

--------------------------------------------------------------------------
(* sizes: compiler.rs / srs.rs *)

RECURSIVE NPO2From(_, _)
NPO2From(p, x) == IF p >= x THEN p ELSE NPO2From(2 * p, x)
NPO2(x) == NPO2From(1, x)                      \* usize::next_power_of_two

RECURSIVE P2FloorFrom(_, _)
P2FloorFrom(p, x) == IF 2 * p > x THEN p ELSE P2FloorFrom(2 * p, x)
P2Floor(x) == IF x = 0 THEN 0 ELSE P2FloorFrom(1, x)

Monus(a, b) == IF a >= b THEN a - b ELSE 0      \* saturating_sub

Blinding == 6   \* PublicParameters::ADDED_BLINDING_DEGREE
Padding  == 6   \* Compiler::CIRCUIT_SIZE_PADDING

\* PublicParameters::setup(d): max_degree = d + 6
MaxDegreeOfSetup(d) == d + Blinding

\* Compiler::max_constraints(pp)
MaxConstraints(maxDegree) ==
  LET available == Monus(maxDegree, Blinding)
  IN Monus(P2Floor(available), Padding)

\* compile_with_composer: n = npo2(c + 6); pp.trim(n) = truncate(n + 6):
\* Err(TruncatedDegreeTooLarge) iff n + 6 > max_degree
DirectFits(c, maxDegree) == NPO2(c + Padding) + Blinding <= maxDegree

--------------------------------------------------------------------------
(* dictionaries: a HashMap<K, usize> filled with
   `let len = map.len(); map.entry(k).or_insert(len)` is a sequence of
   distinct keys in first-use order; the index of a key is its position - 1 *)

Has(d, x) == \E i \in 1..Len(d) : d[i] = x
Idx(d, x) == (CHOOSE i \in 1..Len(d) : d[i] = x) - 1
OrInsert(d, x) == IF Has(d, x) THEN d ELSE Append(d, x)

RECURSIVE InsertAll(_, _, _)
InsertAll(d, xs, i) ==
  IF i > Len(xs) THEN d ELSE InsertAll(TLCEval(OrInsert(d, xs[i])), xs, i + 1)

\* scalar_map(hades_optimization); zero-arity so that TLC evaluates each once
BaseDictHades == InsertAll(<<>>, BaseList, 1)
BasePlainDict == InsertAll(<<>>, SubSeq(BaseList, 1, 3), 1)
BaseDict(hades) == IF hades THEN BaseDictHades ELSE BasePlainDict

--------------------------------------------------------------------------
(* sorting a sequence of naturals (public_inputs.sort()) *)

RECURSIVE InsertSorted(_, _)
InsertSorted(s, x) ==
  IF s = <<>> THEN <<x>>
  ELSE IF x <= Head(s) THEN <<x>> \o s
  ELSE <<Head(s)>> \o InsertSorted(Tail(s), x)

RECURSIVE SortNat(_)
SortNat(s) == IF s = <<>> THEN <<>> ELSE InsertSorted(SortNat(Tail(s)), Head(s))

\* all iteration orders of a (hash) set
Orders(S) ==
  LET n == Cardinality(S)
  IN {f \in [1..n -> S] : \A i, j \in 1..n : i # j => f[i] # f[j]}

--------------------------------------------------------------------------
(* CompressedCircuit::from_composer *)

RECURSIVE CompressRows(_, _, _, _, _)
CompressRows(rows, i, sd, pd, acc) ==
  IF i > Len(rows) THEN [sd |-> sd, pd |-> pd, cons |-> acc]
  ELSE LET r    == rows[i]
           sd2  == TLCEval(InsertAll(sd, r.q, 1))
           poly == TLCEval([j \in 1..11 |-> Idx(sd2, r.q[j])])
           pd2  == TLCEval(OrInsert(pd, poly))
           con  == <<Idx(pd2, poly), r.w[1], r.w[2], r.w[3], r.w[4]>>
       IN CompressRows(rows, i + 1, sd2, pd2, TLCEval(Append(acc, con)))

RealDecl(p) == [pis |-> Len(p.pis), scalars |-> Len(p.scalars),
                polys |-> Len(p.polys), cons |-> Len(p.cons)]

(* `piOrder`: the order in which `composer.public_inputs.keys()` happens to
   iterate (any sequence enumerating c.pis); `sortPI` = the code sorts it
   (FALSE only in the model's self-test). The two `into_iter().for_each(|(k, i)|
   out[i] = k)` loops that turn the dictionaries back into vectors write every
   slot exactly once (DictIsBijection), hence are order-independent. *)
PayloadOfB(c, base, hades, piOrder, sortPI) ==     \* base = BaseDict(hades)
  LET r    == TLCEval(CompressRows(c.rows, 1, base, <<>>, <<>>))
      pis  == IF sortPI THEN SortNat(piOrder) ELSE piOrder
      scal == SubSeq(r.sd, Len(base) + 1, Len(r.sd))       \* split_off(base)
  IN [hades   |-> hades,
      pis     |-> pis,
      nw      |-> c.nw,
      scalars |-> scal,
      polys   |-> r.pd,
      cons    |-> r.cons,
      extra   |-> 0,
      decl    |-> [pis |-> Len(pis), scalars |-> Len(scal),
                   polys |-> Len(r.pd), cons |-> Len(r.cons)]]

PayloadOf(c, hades, piOrder, sortPI) ==
  PayloadOfB(c, TLCEval(BaseDict(hades)), hades, piOrder, sortPI)

Container(p) == [stream |-> "ok", payload |-> p, tail |-> 0]

\* the set of byte-structures `Circuit::compress()` may return for composer c
CompressSet(c, hades) ==
  {Container(PayloadOf(c, hades, o, TRUE)) : o \in Orders(c.pis)}

\* order-independence of the dictionary -> vector loops
DictIsBijection(d) == \A i, j \in 1..Len(d) : d[i] = d[j] => i = j

--------------------------------------------------------------------------
(* packed size: canonical MessagePack as msgpacker writes it *)

ArrHdr(n) == IF n <= 15 THEN 1 ELSE IF n <= 65535 THEN 3 ELSE 5

RECURSIVE SumInts(_, _, _)
SumInts(s, i, acc) ==
  IF i > Len(s) THEN acc ELSE SumInts(s, i + 1, acc + IntBytes(s[i]))
RECURSIVE SumScal(_, _, _)
SumScal(s, i, acc) ==
  IF i > Len(s) THEN acc ELSE SumScal(s, i + 1, acc + ScalarBytes(s[i]))
RECURSIVE SumTuples(_, _, _)
SumTuples(s, i, acc) ==
  IF i > Len(s) THEN acc ELSE SumTuples(s, i + 1, acc + SumInts(s[i], 1, 0))

PackedSize(p) ==
  1 + ArrHdr(p.decl.pis) + SumInts(p.pis, 1, 0)
    + IntBytes(p.nw)
    + ArrHdr(p.decl.scalars) + SumScal(p.scalars, 1, 0)
    + ArrHdr(p.decl.polys) + SumTuples(p.polys, 1, 0)
    + ArrHdr(p.decl.cons) + SumTuples(p.cons, 1, 0)
    + p.extra

PackedFixedBytes == 30
PackedBytesPerConstraint == 857
SelectorsPerPolynomial == 11
PackedSizeLimit(max) == max * PackedBytesPerConstraint + PackedFixedBytes

--------------------------------------------------------------------------
(* CompressedCircuit::from_bytes(compressed, max_constraints) *)

Err(class, work) == [ok |-> FALSE, err |-> class, work |-> work]
Invalid == "InvalidCompressedCircuit"

\* validate_indices
IndicesValid(p, baseLen) ==
  LET scalarCount == baseLen + Len(p.scalars)
  IN /\ \A i \in 1..Len(p.pis) : p.pis[i] < Len(p.cons)
     /\ \A i \in 1..(Len(p.pis) - 1) : p.pis[i] < p.pis[i + 1]
     /\ \A i \in 1..Len(p.polys) : \A j \in 1..11 : p.polys[i][j] < scalarCount
     /\ \A i \in 1..Len(p.cons) :
          /\ p.cons[i][1] < Len(p.polys)
          /\ \A k \in 2..5 : p.cons[i][k] < p.nw

(* the reconstruction loop: witness labels are relabelled in order of first
   use (remap_witness); `wm` = labels in first-use order, new index =
   position - 1; the public-input list is consumed by a cursor *)
RECURSIVE Rebuild(_, _, _, _, _, _)
Rebuild(p, scal, i, wm, pi, acc) ==
  IF i > Len(p.cons) THEN [rows |-> acc.rows, nw |-> Len(wm), pis |-> acc.pis]
  ELSE LET con  == p.cons[i]
           poly == p.polys[con[1] + 1]
           q    == [j \in 1..11 |-> scal[poly[j] + 1]]
           wm2  == TLCEval(InsertAll(wm, <<con[2], con[3], con[4], con[5]>>, 1))
           w    == [k \in 1..4 |-> Idx(wm2, con[k + 1])]
           hit  == pi <= Len(p.pis) /\ p.pis[pi] = i - 1
       IN Rebuild(p, scal, i + 1, wm2, IF hit THEN pi + 1 ELSE pi,
                  TLCEval([rows |-> Append(acc.rows, [q |-> q, w |-> w]),
                           pis  |-> IF hit THEN acc.pis \cup {i - 1} ELSE acc.pis]))

(* `work` accounts for what the call materialises before it returns:
   inflated = bytes of inflater output (the output vector never grows beyond
   the limit), elems = collection elements unpacked, wit = witnesses
   allocated by the reconstruction *)
DecompressB(cont, max, baseHades, basePlain) ==   \* the two BaseDict values
  LET limit == PackedSizeLimit(max)
      p     == cont.payload
      psize == PackedSize(p)
      w0    == [inflated |-> 0, elems |-> 0, wit |-> 0]
  IN IF cont.stream # "ok" THEN Err(Invalid, w0)
     ELSE IF psize > limit                      \* decompress_to_vec_with_limit
       THEN Err(Invalid, [w0 EXCEPT !.inflated = limit])
     ELSE IF ~TailIgnored /\ cont.tail # 0      \* Done, but input remains
       THEN Err(Invalid, [w0 EXCEPT !.inflated = psize])
     ELSE LET w1 == [w0 EXCEPT !.inflated = psize]
              (* unpack_bounded: every array header is compared with its bound
                 BEFORE any element is read; a header that promises more
                 elements than the buffer holds ends in BufferTooShort *)
              short(d, real) == d > real
              badPis  == p.decl.pis > max \/ short(p.decl.pis, Len(p.pis))
              badScal == p.decl.scalars > max * SelectorsPerPolynomial
                           \/ short(p.decl.scalars, Len(p.scalars))
              badPoly == p.decl.polys > max \/ short(p.decl.polys, Len(p.polys))
              badCons == p.decl.cons > max \/ short(p.decl.cons, Len(p.cons))
              read == (IF badPis THEN 0 ELSE Len(p.pis))
                      + (IF badPis \/ badScal THEN 0 ELSE Len(p.scalars))
                      + (IF badPis \/ badScal \/ badPoly THEN 0 ELSE Len(p.polys))
                      + (IF badPis \/ badScal \/ badPoly \/ badCons THEN 0 ELSE Len(p.cons))
              w2 == [w1 EXCEPT !.elems = read]
          IN IF badPis \/ badScal \/ badPoly \/ badCons THEN Err(Invalid, w2)
             ELSE IF p.extra # 0 THEN Err(Invalid, w2)       \* !reader.is_empty()
             ELSE LET base == IF p.hades THEN baseHades ELSE basePlain
                  IN IF ~IndicesValid(p, Len(base)) THEN Err(Invalid, w2)
                     ELSE IF \E i \in 1..Len(p.scalars) : ~Canonical(p.scalars[i])
                       THEN Err("BlsScalarMalformed", w2)
                     ELSE LET c == Rebuild(p, TLCEval(base \o p.scalars), 1, <<>>, 1,
                                           [rows |-> <<>>, pis |-> {}])
                          IN [ok |-> TRUE, composer |-> c,
                              work |-> [w2 EXCEPT !.wit = c.nw]]

Decompress(cont, max) == DecompressB(cont, max, BaseDictHades, BasePlainDict)

\* what is materialised never exceeds this function of the capacity
WorkBounded(work, max) ==
  /\ work.inflated <= PackedSizeLimit(max)
  /\ work.elems <= max * (3 + SelectorsPerPolynomial)
  /\ work.wit <= 4 * max

(* bytes of heap the decoder may hold at once, as a function of the capacity
   only: the inflater's output vector grows by doubling up to the limit (old
   and new block alive during a move), every unpacked collection is a vector
   grown the same way (8-byte indexes, 32-byte scalars, 11 resp. 5 indexes
   per polynomial / constraint), plus a constant for the inflater state and
   the built-in table *)
BytesPerConstraintUnpacked == 8 + SelectorsPerPolynomial * 32 + 88 + 40
AllocBound(max, slack) ==
  3 * PackedSizeLimit(max) + 3 * BytesPerConstraintUnpacked * max + slack

--------------------------------------------------------------------------
(* the description that determines the keys (Compiler::preprocess): the
   selector columns, the copy permutation, the public-input rows and the
   constraint count.  Wire (row i, column k) is position 4(i-1)+k; sigma
   sends a wire to the next wire of its class, the last one back to the
   first (compute_sigma_permutations: every class is a vector of wires in
   (row, column) order). *)

Labels(c) == [p \in 1..(4 * Len(c.rows)) |-> c.rows[((p - 1) \div 4) + 1].w[((p - 1) % 4) + 1]]

(* one backward pass: nxt[label + 1] = the nearest later wire of that label
   (0 if none); after the pass nxt holds the FIRST wire of every label *)
RECURSIVE SigmaBack(_, _, _, _)
SigmaBack(lab, p, nxt, acc) ==
  IF p = 0 THEN [later |-> acc, first |-> nxt]
  ELSE LET L == lab[p] + 1
       IN SigmaBack(lab, p - 1, TLCEval([nxt EXCEPT ![L] = p]), TLCEval(<<nxt[L]>> \o acc))

Sigma(c) ==
  LET lab == TLCEval(Labels(c))
      n   == Len(lab)
      r   == TLCEval(SigmaBack(lab, n, [k \in 1..c.nw |-> 0], <<>>))
  IN [p \in 1..n |-> IF r.later[p] # 0 THEN r.later[p] ELSE r.first[lab[p] + 1]]

\* the definition the pass implements (used by CompressMC!SigmaIsNextInClass)
SigmaDef(c) ==
  LET lab == TLCEval(Labels(c))
      n   == Len(lab)
      NextSame(p) ==
        LET later == {x \in (p + 1)..n : lab[x] = lab[p]}
            all   == {x \in 1..n : lab[x] = lab[p]}
        IN IF later # {} THEN CHOOSE x \in later : \A y \in later : x <= y
           ELSE CHOOSE x \in all : \A y \in all : x <= y
  IN [p \in 1..n |-> NextSame(p)]

\* public_input_indexes(): the keys of the hash map, sorted
RECURSIVE SortedSeqOf(_)
SortedSeqOf(S) ==
  IF S = {} THEN <<>>
  ELSE LET m == CHOOSE x \in S : \A y \in S : x <= y
       IN <<m>> \o SortedSeqOf(S \ {m})
PiList(c) == SortedSeqOf(c.pis)

Preprocess(c) ==
  [count |-> Len(c.rows),
   size  |-> NPO2(Len(c.rows)),
   sel   |-> [i \in 1..Len(c.rows) |-> c.rows[i].q],
   sigma |-> Sigma(c),
   pis   |-> PiList(c)]

--------------------------------------------------------------------------
(* the two compilation routes, for public parameters of degree maxDegree *)

CompileDirect(c, maxDegree) ==
  IF DirectFits(Len(c.rows), maxDegree)
  THEN [ok |-> TRUE, keys |-> Preprocess(c)]
  ELSE [ok |-> FALSE, err |-> "TruncatedDegreeTooLarge"]

CompileCompressed(cont, maxDegree) ==
  LET d == Decompress(cont, MaxConstraints(maxDegree))
  IN IF ~d.ok THEN [ok |-> FALSE, err |-> d.err]
     ELSE CompileDirect(d.composer, maxDegree)
=============================================================================
