SPECIFICATION Spec
CONSTANT Family = "shape"
CONSTANT Tier = "thorough"
INVARIANT Emit
INVARIANT PointsInv
CHECK_DEADLOCK FALSE
