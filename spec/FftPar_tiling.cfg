SPECIFICATION Spec
CONSTANTS
  P = 97
  Omega8 = 64
  Omega16 = 8
  Omega32 = 28
  LogN = 3
  ThreadSet = {1}
  MinLen = 32
  MinChunks = 4
  MinThreads = 4
  Inputs = "dense"
  RangeLen = "ceil"
INVARIANTS
  TilingOnce
PROPERTY Terminates
CHECK_DEADLOCK FALSE
