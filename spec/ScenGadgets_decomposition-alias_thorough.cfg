SPECIFICATION Spec
CONSTANT Family = "decomposition-alias"
CONSTANT Tier = "thorough"
INVARIANT Emit
CHECK_DEADLOCK FALSE
