SPECIFICATION Spec
CONSTANTS
  P = 17
  GEN = 3
  MaxLog = 4
  AllLen = 3
  AllMaxLog = 2
  PolyAllLen = 1
  MaxThreads = 17
  SchedThreads = {1,4,5,17}
  Fams = {"fft", "twid", "poly", "binv", "closed", "bary"}
INVARIANTS
  FftIsDirectEvaluation
  CosetFftIsDirectEvaluation
  FftLongerInputTruncates
  FoldLemma
  IfftIsInterpolation
  FftIfftMutuallyInverse
  ThreadCountIndependence
  FunctionalLemma
  RangeSplitCoversOnce
  TwiddlesIndependentOfThreads
  AddSubAgreeWithSchoolbook
  ScalarOpsAgreeWithSchoolbook
  MulAgreesWithSchoolbook
  EvaluateAgreesWithHorner
  RuffiniIdentity
  BatchInversionInvertsNonZeroKeepsZero
  VanishingClosedForm
  LagrangeClosedForm
  VanishingOverCosetClosedForm
  LagrangeFunctionalLemma
  BarycentricIsSumOfLagrangeTerms
  BarycentricInDomainYieldsZero
  FusedIsLagrangeAndPiSum
CHECK_DEADLOCK FALSE
