SPECIFICATION Spec
CONSTANT Family = "logic-alias"
CONSTANT Tier = "thorough"
INVARIANT Emit
CHECK_DEADLOCK FALSE
