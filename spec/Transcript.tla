----------------------------- MODULE Transcript -----------------------------
(***************************************************************************)
(* The Fiat-Shamir transcript of the proof system as a wire protocol: the  *)
(* ordered list of items absorbed into, and challenges squeezed out of,    *)
(* the transcript, per protocol version (V1, V2, V3), for the prover and   *)
(* for the verifier (C03, C04).                                            *)
(*                                                                         *)
(* An item is a record                                                     *)
(*    [kind, label, src, idx]                                              *)
(*  kind  : "label-init"      the transcript is created under the circuit  *)
(*                            label (src = "label")                        *)
(*          "append-message"  fixed bytes (src = "lit:<ascii text>")       *)
(*          "append-u64"      a 64-bit integer (src = "constraints" or     *)
(*                            "vk.n")                                      *)
(*          "append-point"    a compressed G1 element: a verifier-key      *)
(*                            commitment "vk.<name>" or a proof commitment *)
(*                            "proof.<name>"                               *)
(*          "append-scalar"   a canonical field element: a public input    *)
(*                            (src = "pi", idx = its 1-based position), a  *)
(*                            proof evaluation "proof.<name>", or a        *)
(*                            challenge squeezed earlier "ch.<name>"       *)
(*          "challenge"       a challenge is squeezed (src = its name)     *)
(*  label : the transcript label under which the item is absorbed/squeezed *)
(*  idx   : 0 except for public inputs                                     *)
(*                                                                         *)
(* The lists below are written from the protocol (five prover rounds; the  *)
(* verifier replays the prover's messages in the same order and then binds *)
(* the two opening commitments before squeezing the batching challenge u). *)
(* The prover's list is written round by round, the verifier's list flat;  *)
(* TranscriptMC checks that they agree.                                    *)
(***************************************************************************)
EXTENDS Naturals, Sequences, FiniteSets

Versions == {"V1", "V2", "V3"}
Roles == {"prover", "verifier"}

It(kind, label, src) == [kind |-> kind, label |-> label, src |-> src, idx |-> 0]
Pi(i) == [kind |-> "append-scalar", label |-> "pi", src |-> "pi", idx |-> i]

Point(label, src) == It("append-point", label, src)
Scalar(label, src) == It("append-scalar", label, src)
Squeeze(label, name) == It("challenge", label, name)

(* -------------------------- statement seeding -------------------------- *)
\* order in which the verifier-key commitments are bound (labels)
VKLabels == << "q_m", "q_l", "q_r", "q_o", "q_c", "q_f", "q_arith", "q_range",
               "q_logic", "q_variable_group_add", "q_fixed_group_add",
               "s_sigma_1", "s_sigma_2", "s_sigma_3", "s_sigma_4" >>

\* the verifier-key field each label carries.  Legacy quirk (V1, V2): the
\* 15th item is labelled s_sigma_4 but carries s_sigma_1 again, i.e. the
\* fourth permutation commitment is NOT bound by the legacy transcript.
VKSource(version, i) ==
  IF i = 15 /\ version # "V3" THEN "vk.s_sigma_1" ELSE "vk." \o VKLabels[i]

DomSep(src) == << It("append-message", "dom-sep", "lit:circuit_size"),
                  It("append-u64", "n", src) >>

Seed(version) ==
  << It("label-init", "", "label") >>
  \o DomSep("constraints")
  \o [i \in 1..15 |-> Point(VKLabels[i], VKSource(version, i))]
  \o DomSep("vk.n")

PublicInputs(npi) == [i \in 1..npi |-> Pi(i)]

(* ------------------------------- rounds -------------------------------- *)
WireNames == << "a_comm", "b_comm", "c_comm", "d_comm" >>
QuotNames == << "t_low_comm", "t_mid_comm", "t_high_comm", "t_fourth_comm" >>
\* order in which the 15 evaluations are absorbed
EvalNames == << "a_eval", "b_eval", "c_eval", "d_eval",
                "s_sigma_1_eval", "s_sigma_2_eval", "s_sigma_3_eval", "z_eval",
                "a_w_eval", "b_w_eval", "d_w_eval",
                "q_arith_eval", "q_c_eval", "q_l_eval", "q_r_eval" >>
OpeningNames == << "w_z_chall_comm", "w_z_chall_w_comm" >>

ProofPoint(name) == Point(name, "proof." \o name)
ProofScalar(name) == Scalar(name, "proof." \o name)

\* round 1: wire commitments
Round1 == [i \in 1..4 |-> ProofPoint(WireNames[i])]
\* round 2: beta (echoed back into the transcript), gamma; then z
Round2 == << Squeeze("beta", "beta"), Scalar("beta", "ch.beta"),
             Squeeze("gamma", "gamma"), ProofPoint("z_comm") >>
\* round 3: alpha and the four gate separation challenges; then the quotient
Round3 == << Squeeze("alpha", "alpha"),
             Squeeze("range separation challenge", "range_sep"),
             Squeeze("logic separation challenge", "logic_sep"),
             Squeeze("fixed base separation challenge", "fixed_sep"),
             Squeeze("variable base separation challenge", "var_sep") >>
          \o [i \in 1..4 |-> ProofPoint(QuotNames[i])]
\* round 4: evaluation point; then the evaluations
Round4 == << Squeeze("z_challenge", "z") >>
          \o [i \in 1..15 |-> ProofScalar(EvalNames[i])]
\* round 5: the two batching challenges of the openings
Round5 == << Squeeze("v_challenge", "v"), Squeeze("v_w_challenge", "v_w") >>

ProverItems(version, npi) ==
  Seed(version) \o PublicInputs(npi) \o Round1 \o Round2 \o Round3 \o Round4 \o Round5

(* the verifier, written flat *)
VerifierItems(version, npi) ==
  << It("label-init", "", "label"),
     It("append-message", "dom-sep", "lit:circuit_size"),
     It("append-u64", "n", "constraints"),
     Point("q_m", "vk.q_m"), Point("q_l", "vk.q_l"), Point("q_r", "vk.q_r"),
     Point("q_o", "vk.q_o"), Point("q_c", "vk.q_c"), Point("q_f", "vk.q_f"),
     Point("q_arith", "vk.q_arith"), Point("q_range", "vk.q_range"),
     Point("q_logic", "vk.q_logic"),
     Point("q_variable_group_add", "vk.q_variable_group_add"),
     Point("q_fixed_group_add", "vk.q_fixed_group_add"),
     Point("s_sigma_1", "vk.s_sigma_1"), Point("s_sigma_2", "vk.s_sigma_2"),
     Point("s_sigma_3", "vk.s_sigma_3"),
     Point("s_sigma_4", IF version = "V3" THEN "vk.s_sigma_4" ELSE "vk.s_sigma_1"),
     It("append-message", "dom-sep", "lit:circuit_size"),
     It("append-u64", "n", "vk.n") >>
  \o [i \in 1..npi |-> Pi(i)]
  \o << Point("a_comm", "proof.a_comm"), Point("b_comm", "proof.b_comm"),
        Point("c_comm", "proof.c_comm"), Point("d_comm", "proof.d_comm"),
        Squeeze("beta", "beta"), Scalar("beta", "ch.beta"), Squeeze("gamma", "gamma"),
        Point("z_comm", "proof.z_comm"),
        Squeeze("alpha", "alpha"),
        Squeeze("range separation challenge", "range_sep"),
        Squeeze("logic separation challenge", "logic_sep"),
        Squeeze("fixed base separation challenge", "fixed_sep"),
        Squeeze("variable base separation challenge", "var_sep"),
        Point("t_low_comm", "proof.t_low_comm"), Point("t_mid_comm", "proof.t_mid_comm"),
        Point("t_high_comm", "proof.t_high_comm"),
        Point("t_fourth_comm", "proof.t_fourth_comm"),
        Squeeze("z_challenge", "z"),
        Scalar("a_eval", "proof.a_eval"), Scalar("b_eval", "proof.b_eval"),
        Scalar("c_eval", "proof.c_eval"), Scalar("d_eval", "proof.d_eval"),
        Scalar("s_sigma_1_eval", "proof.s_sigma_1_eval"),
        Scalar("s_sigma_2_eval", "proof.s_sigma_2_eval"),
        Scalar("s_sigma_3_eval", "proof.s_sigma_3_eval"),
        Scalar("z_eval", "proof.z_eval"),
        Scalar("a_w_eval", "proof.a_w_eval"), Scalar("b_w_eval", "proof.b_w_eval"),
        Scalar("d_w_eval", "proof.d_w_eval"),
        Scalar("q_arith_eval", "proof.q_arith_eval"), Scalar("q_c_eval", "proof.q_c_eval"),
        Scalar("q_l_eval", "proof.q_l_eval"), Scalar("q_r_eval", "proof.q_r_eval"),
        Squeeze("v_challenge", "v"), Squeeze("v_w_challenge", "v_w"),
        Point("w_z_chall_comm", "proof.w_z_chall_comm"),
        Point("w_z_chall_w_comm", "proof.w_z_chall_w_comm"),
        Squeeze("u_challenge", "u") >>

Items(role, version, npi) ==
  IF role = "prover" THEN ProverItems(version, npi) ELSE VerifierItems(version, npi)

(* ------------------- what a challenge must depend on ------------------- *)
ChallengeOrder == << "beta", "gamma", "alpha", "range_sep", "logic_sep", "fixed_sep",
                     "var_sep", "z", "v", "v_w", "u" >>
Challenges == {ChallengeOrder[i] : i \in 1..11}

\* the 26 fields of a proof (11 commitments, 15 evaluations)
SeqToSet(s) == {s[i] : i \in 1..Len(s)}
ProofFields == {"proof." \o x : x \in SeqToSet(WireNames) \cup {"z_comm"}
                                   \cup SeqToSet(QuotNames) \cup SeqToSet(EvalNames)
                                   \cup SeqToSet(OpeningNames)}

\* the prover round in which a proof field is sent
FieldRound(f) ==
  IF f \in {"proof." \o x : x \in SeqToSet(WireNames)} THEN 1
  ELSE IF f = "proof.z_comm" THEN 2
  ELSE IF f \in {"proof." \o x : x \in SeqToSet(QuotNames)} THEN 3
  ELSE IF f \in {"proof." \o x : x \in SeqToSet(EvalNames)} THEN 4
  ELSE 5

\* a challenge answers the messages of rounds <= ChRound
ChRound(c) ==
  IF c \in {"beta", "gamma"} THEN 1
  ELSE IF c \in {"alpha", "range_sep", "logic_sep", "fixed_sep", "var_sep"} THEN 2
  ELSE IF c = "z" THEN 3
  ELSE IF c \in {"v", "v_w"} THEN 4
  ELSE 5

MustBind(f, c) == FieldRound(f) <= ChRound(c)

\* the statement: label, both sizes, the verifier-key commitments (the
\* fourth permutation commitment only from V3 on) and every public input
StatementSources(version, npi) ==
  {<<"label", 0>>, <<"constraints", 0>>, <<"vk.n", 0>>}
  \cup {<<"vk." \o VKLabels[i], 0>> : i \in 1..14}
  \cup (IF version = "V3" THEN {<<"vk.s_sigma_4", 0>>} ELSE {})
  \cup {<<"pi", i>> : i \in 1..npi}

\* everything that must have been absorbed when challenge c is squeezed.
\* (the prover does not absorb its own two opening commitments: u is a
\* verifier-only challenge)
Required(role, version, npi, c) ==
  StatementSources(version, npi)
  \cup {<<f, 0>> : f \in {g \in ProofFields : MustBind(g, c)}}
  \cup (IF c \in {"beta"} THEN {} ELSE {<<"ch.beta", 0>>})

(* position helpers (0 if absent) *)
PosOf(items, src, idx) ==
  LET S == {k \in 1..Len(items) : items[k].kind # "challenge"
                                   /\ items[k].src = src /\ items[k].idx = idx}
  IN IF S = {} THEN 0 ELSE CHOOSE k \in S : \A j \in S : k <= j
PosOfChallenge(items, c) ==
  LET S == {k \in 1..Len(items) : items[k].kind = "challenge" /\ items[k].src = c}
  IN IF S = {} THEN 0 ELSE CHOOSE k \in S : \A j \in S : k <= j
=============================================================================
