SPECIFICATION Spec
CONSTANT Family = "fixed-digits"
CONSTANT Tier = "quick"
INVARIANT Emit
CHECK_DEADLOCK FALSE
