---------------------------- MODULE LifecycleMC ----------------------------
(***************************************************************************)
(* Families and profiles for Lifecycle.                                    *)
(*   c04  : binding (edits of public inputs, verifier, label, version,     *)
(*          proof) over three raw-row circuits and two catalogue circuits  *)
(*   c01  : completeness sweep over constraint counts around every power   *)
(*          of two, placements, capacities, routes (choices that do not    *)
(*          interact with the size arithmetic rotate with the seed)        *)
(*   c02  : adversary actions (forced prover, splices, degenerate proofs)  *)
(* Numeric parameters come from the environment (IOEnv) so that one module *)
(* serves both tiers and every seed.                                       *)
(***************************************************************************)
EXTENDS Lifecycle, IOUtils

EnvInt(name, default) ==
  IF name \in DOMAIN IOEnv THEN atoi(IOEnv[name]) ELSE default

Seed == EnvInt("VERIF_SEED", 1)
KMin == EnvInt("LIFE_KMIN", 3)
KMax == EnvInt("LIFE_KMAX", 6)
KFull == EnvInt("LIFE_KFULL", 6)     \* every count of the window up to this k
NLabels == EnvInt("LIFE_NLABELS", 1)

\* (every product stays below 2^31: TLC integers are 32 bit)
SeedR == Seed % 1000
Hash(a, b, k) == (((a % 10007) * 7919) + ((b % 10009) * 10473) + (SeedR * 611953)
                  + ((k % 100) * 15485863)) % 1000003

(* ------------------------------ labels --------------------------------- *)
\* "life-A" followed by 66 filler letters: longer than 64 bytes, so that a label cache
\* keyed by less than the whole label (prefix, bounded buffer, fingerprint of the ends)
\* is visible to the label edits
L1 == <<108, 105, 102, 101, 45, 65>> \o [i \in 1..66 |-> 97 + ((i * 7) % 26)]
L2 == <<108, 105, 102, 101, 45, 66>>      \* "life-B"
L3 == <<108>>                             \* "l"
BaseLabels == <<L1, L2, L3, <<>>>>

(* --------------------------- raw-row circuits --------------------------- *)
\* one multiplication whose product is public (negative value)
P1 == RawProg(<<3, 4>>,
        << ArithPI(1, 0, 0, 0, 0, 0, <<6, 7, 0, 0>>, -12),
           Arith(0, 1, -1, 0, 0, 1, <<6, 7, 0, 0>>) >>)
\* four public inputs, two equal, one zero, a plain row between them
P2 == RawProg(<<5, 0, 5, 7>>,
        << ArithPI(0, -1, 0, 0, 0, 0, <<6, 0, 0, 0>>, 5),
           ArithPI(0, -1, 0, 0, 0, 0, <<7, 0, 0, 0>>, 0),
           Arith(0, -1, 0, 0, 0, 0, <<7, 6, 8, 0>>),
           ArithPI(0, -1, 0, 0, 0, 0, <<8, 0, 0, 0>>, 5),
           ArithPI(0, -1, 0, 0, 0, 0, <<9, 0, 0, 0>>, 7),
           Arith(1, 0, 0, 0, 0, -25, <<6, 8, 0, 0>>) >>)
\* two adjacent public inputs and a row using all four wires
P3 == RawProg(<<2, 3, 7, 1>>,
        << ArithPI(0, -1, 0, 0, 0, 0, <<6, 0, 0, 0>>, 2),
           ArithPI(0, -1, 0, 0, 0, 0, <<7, 0, 0, 0>>, 3),
           Arith(0, 1, 1, -1, 2, 0, <<6, 7, 8, 9>>) >>)
\* wires with a zero coefficient tied to witnesses used elsewhere
P4 == RawProg(<<2, 3, 6, 5>>,
        << Arith(1, 0, 0, -1, 0, 0, <<6, 7, 8, 9>>),          \* 2*3 = 6, d unused
           Arith(0, 1, 1, 0, 0, -5, <<6, 7, 8, 6>>),          \* 2+3 = 5, c and d unused
           ArithPI(0, 0, 0, 1, 0, 0, <<7, 9, 8, 7>>, -6),     \* c = 6 public, a b d unused
           Arith(0, 0, 0, 0, 1, -5, <<8, 8, 6, 9>>) >>)       \* d = 5, a b c unused
RawFamily == {P1, P2, P3}

(* ================================ c04 ================================== *)
C04Caps == {64}
\* ... and one circuit without any public-input row (its only vector is the empty one;
\* every extension of it must be refused)
C04Progs == RawFamily \cup { Cat("range", 16, "firstlast"), Cat("rawlogic", 10, "adjlast"),
                             Cat("arith", 12, "none") }
C04ProgsFor(d) == C04Progs
C04Routes(d, p) == {"direct"}
C04Labels(d, p) == { BaseLabels[i] : i \in 1..NLabels }
C04RoundTrips(d, p) == {}
C04ProveVersions(d, p) == {1, 2, 3}
C04VerifyVersions(v) == {1, 2, 3}
NoPick(p, j) == FALSE

(* ================================ c02 ================================== *)
C02Caps == {64}
C02Progs == RawFamily \cup {P4} \cup { Cat("rawrange", 12, "first"), Cat("rawlogic", 12, "last"),
                             Cat("ecc", 12, "zero"), Cat("arith", 16, "firstlast"),
                             Cat("range", 32, "none"), Cat("boolsel", 16, "customlast"),
                             Cat("rawrange", 8, "customlast"), Cat("decomp", 32, "adjfirst"),
                             Cat("ecc", 16, "adjlast"), Cat("rawlogic", 8, "zerolast"),
                             Cat("arith", 10, "zero"), Cat("range", 16, "last") }
C02Big == { Cat("fixed", 400, "first") }
C02ProgsFor(d) == IF d = 64 THEN C02Progs ELSE C02Big
C02CapsAll == IF EnvInt("LIFE_BIG", 0) = 1 THEN {64, 512} ELSE {64}
C02Routes(d, p) == {"direct"}
C02Labels(d, p) == {L1}
C02RoundTrips(d, p) == {}
C02ProveVersions(d, p) == IF EnvInt("LIFE_V2", 0) = 1 THEN {2, 3} ELSE {3}
C02VerifyVersions(v) == {v}
\* every witness of the small circuits, a seeded 1-in-40 sample of the big one
C02Pick(p, j) == IF UserWitnesses(p) <= 64 THEN TRUE ELSE Hash(j, 0, 3) % 40 = 0

\* splices: every single field, every pair, the round-aligned blocks, a seeded
\* sample of larger subsets, nothing and everything
Blocks == { 0..3, {4}, 5..8, 9..10, 11..25, 0..10, 11..17, 18..21, 22..25 }
Mix(i, t) == (((((i * 7919) + ((t % 1000) * 104729) + (SeedR * 611953)) % 1009) * (i + (t % 1000) + 17)) % 97) % 5
Sampled == { { i \in 0..25 : Mix(i, t) < 1 + (t % 4) } : t \in 1..EnvInt("LIFE_NSPLICE", 24) }
C02Splices ==
  { {i} : i \in 0..25 } \cup { {x[1], x[2]} : x \in { y \in (0..25) \X (0..25) : y[1] < y[2] } }
  \cup Blocks \cup Sampled \cup { {}, 0..25 }
\* splices apply to one circuit only (they are about the proof encoding)
C02SpliceProgs == {P2}

(* ================================ c01 ================================== *)
Window(k) == { c \in (Pow2(k) - 8)..(Pow2(k) + 2) : c >= 4 }
Boundary(k) == { Pow2(k) - 7, Pow2(k) - 6, Pow2(k) - 5, Pow2(k) - 1, Pow2(k), Pow2(k) + 1 }
Counts ==
  UNION { IF k <= KFull THEN Window(k)
          ELSE { c \in Window(k) : c \in Boundary(k) \/ Hash(c, k, 1) % 5 = 0 } :
          k \in KMin..KMax }
CapsOf(c) == { TrimN(c) - 1, TrimN(c), 2 * TrimN(c) + 3 }
C01Caps == UNION { CapsOf(c) : c \in Counts }

IsPow2(c) == c \in Pow2Set
HeadPiks == <<"none", "first", "adjfirst", "zero", "last", "firstlast", "adjlast",
              "zerolast", "customlast">>
TailPiks == <<"last", "firstlast", "adjlast", "zerolast", "customlast">>
BodyOrder == <<"empty", "arith", "boolsel", "range", "rawrange", "rawlogic", "ecc",
               "decomp", "trunc", "logic", "fixed", "var", "mds">>
PickFrom(seq, h) == seq[(h % Len(seq)) + 1]
SweepPik(c, d) ==
  LET cand == SelectSeq(IF IsPow2(c) THEN TailPiks ELSE HeadPiks,
                        LAMBDA k : CatFits("empty", c, k))
  IN IF Len(cand) = 0 THEN "none" ELSE PickFrom(cand, Hash(c, d, 2))
SweepBody(c, d) ==
  LET pik == SweepPik(c, d)
      cand == SelectSeq(BodyOrder, LAMBDA b : CatFits(b, c, pik))
      \* prefer the larger blocks when they fit (they rarely do)
      big == SelectSeq(cand, LAMBDA b : Body(b).rows > 80)
  IN IF Len(big) > 0 /\ Hash(c, d, 4) % 2 = 0 THEN PickFrom(big, Hash(c, d, 5))
     ELSE PickFrom(cand, Hash(c, d, 3))
SweepProg(c, d) == Cat(SweepBody(c, d), c, SweepPik(c, d))
\* ... plus, per capacity, the MDS layer at the smallest and the largest count that fits
CountsAt(d) == { x \in Counts : d \in CapsOf(x) /\ CatFits("mds", x, "none") }
C01ProgsFor(d) == { SweepProg(c, d) : c \in { x \in Counts : d \in CapsOf(x) } }
                  \cup { Cat("mds", c, "none") : c \in { x \in CountsAt(d) :
                            (\A y \in CountsAt(d) : x <= y) \/ (\A y \in CountsAt(d) : x >= y) } }
C01Routes(d, p) == { IF Hash(p.c, d, 6) % 3 = 0 THEN "default" ELSE "direct", "compressed" }
C01Labels(d, p) == { PickFrom(BaseLabels, Hash(p.c, d, 8)) }
C01RoundTrips(d, p) ==
  LET h == Hash(p.c, d, 9) % 4
  IN CASE h = 0 -> {} [] h = 1 -> {"prover"} [] h = 2 -> {"verifier"} [] OTHER -> {"prover", "verifier"}
C01ProveVersions(d, p) == IF Hash(p.c, d, 10) % 3 = 0 THEN {2} ELSE {3}
C01VerifyVersions(v) == {v}

\* anti-vacuity of the sweep: both compile outcomes and every placement occur
NoSplices == {}
=============================================================================
