SPECIFICATION Spec
CONSTANT Family = "mul_point"
CONSTANT Tier = "thorough"
INVARIANT Emit
INVARIANT PointsInv
CHECK_DEADLOCK FALSE
