------------------------------ MODULE HashOrder ------------------------------
(***************************************************************************)
(* Hash-iteration independence (C18).  Two hash maps are iterated while    *)
(* keys are built and their order differs from process to process          *)
(* (hashbrown seeds):                                                      *)
(*  * `Permutation.witness_map` in compute_sigma_permutations:             *)
(*      for (_, wires) in witness_map.iter() { for each wire k:            *)
(*          sigma[wires[k]] = wires[(k+1) mod len] }                       *)
(*  * `Composer.public_inputs` in public_input_indexes():                  *)
(*      keys().copied().collect(), then sort                               *)
(* Here the iteration is a state machine that visits the entries in ANY    *)
(* order (TLC explores all of them); at the end the sigma mapping and the  *)
(* index list must be the order-free definitions.  SortKeys = FALSE is the *)
(* self-test (the sort removed): PiIndependent must fail.                  *)
(***************************************************************************)
EXTENDS Naturals, Sequences, FiniteSets, TLC

CONSTANTS NW, Rows, WireMode, SortKeys

Dummy(x) == 1
C == INSTANCE Compress WITH BaseList <- <<0, 1, 2>>, ScalarBytes <- Dummy,
                            IntBytes <- Dummy, Canonical <- Dummy, TailIgnored <- FALSE

W == 0..(NW - 1)
WireTuples == IF WireMode = "full" THEN {<<a, b, x, d>> : a \in W, b \in W, x \in W, d \in W}
              ELSE IF WireMode = "abc" THEN {<<a, b, x, 0>> : a \in W, b \in W, x \in W}
              ELSE {<<a, b, 0, a>> : a \in W, b \in W}

Composers ==
  {[rows |-> [i \in 1..Rows |-> [q |-> <<>>, w |-> ws[i]]], nw |-> NW, pis |-> ps] :
      ws \in [1..Rows -> WireTuples], ps \in SUBSET (0..(Rows - 1))}

VARIABLES c,        \* the composer
          todoW,    \* witness_map entries not yet visited
          sig,      \* the sigma mapping being filled (positions 1..4*Rows)
          todoP,    \* public_inputs keys not yet collected
          keys      \* the vector being collected
vars == <<c, todoW, sig, todoP, keys>>

N == 4 * Rows

Init == /\ c \in Composers
        /\ todoW = W
        /\ sig = [p \in 1..N |-> p]                 \* (0..n).map(WireData::X)
        /\ todoP = c.pis
        /\ keys = <<>>

\* the wires of witness w in insertion order = (row, column) order
WiresOf(w) == LET lab == C!Labels(c)
              IN C!SortedSeqOf({p \in 1..N : lab[p] = w})

VisitWitness ==
  \E w \in todoW :
     /\ todoW' = todoW \ {w}
     /\ LET ws == WiresOf(w)
            n  == Len(ws)
        IN sig' = [p \in 1..N |->
                     IF \E k \in 1..n : ws[k] = p
                     THEN LET k == CHOOSE k \in 1..n : ws[k] = p
                          IN ws[IF k = n THEN 1 ELSE k + 1]
                     ELSE sig[p]]
     /\ UNCHANGED <<c, todoP, keys>>

CollectKey ==
  \E k \in todoP :
     /\ todoP' = todoP \ {k}
     /\ keys' = Append(keys, k)
     /\ UNCHANGED <<c, todoW, sig>>

Next == VisitWitness \/ CollectKey
Spec == Init /\ [][Next]_vars

PublicInputIndexes == IF SortKeys THEN C!SortNat(keys) ELSE keys

SigmaIndependent == todoW = {} => sig = C!SigmaDef(c) /\ sig = C!Sigma(c)
PiIndependent    == todoP = {} => PublicInputIndexes = C!SortedSeqOf(c.pis)
\* each slot of sigma is written by exactly one entry: visits commute
WritesDisjoint ==
  (todoW = W /\ keys = <<>>) =>
  \A w1, w2 \in W : w1 # w2 =>
     {p \in 1..N : C!Labels(c)[p] = w1} \cap {p \in 1..N : C!Labels(c)[p] = w2} = {}
=============================================================================
