------------------------------- MODULE PolyMC -------------------------------
(***************************************************************************)
(* Exhaustive model checking of Poly over a small FFT-friendly prime field *)
(* (C19).  One TLC run per prime: PolyMC5 / 17 / 97 / 257Q.cfg (quick) and *)
(* PolyMC5T / 17T / 97 / 193T / 257T.cfg (thorough).                       *)
(*                                                                         *)
(* The state graph is a tree: root -> group (kernel family, domain size)   *)
(* -> pending case -> case (one concrete input; the extra step spreads the *)
(* evaluation over TLC's workers).  Every invariant is named               *)
(* after the clause of the property it decides and constrains only the     *)
(* cases of its own family; on each case the TRANSCRIPTION of the code's   *)
(* algorithm is compared with the DEFINITION.                              *)
(*                                                                         *)
(* The two places where the code as it is leaves the definition are        *)
(* modelled (Poly's switches FoldLonger / BaryInDomainFix = FALSE).  Their *)
(* invariants state exactly WHERE the code deviates and that the repaired  *)
(* variant is right; one witness of each is printed as a DEVIATION line so *)
(* that the driver can see that the model exhibits it.                     *)
(***************************************************************************)
EXTENDS Naturals, Sequences, FiniteSets, TLC

CONSTANTS P,          \* the prime
          GEN,        \* a generator of F_P^* (coset shift; roots of unity from it)
          MaxLog,     \* domain sizes 2^0 .. 2^MaxLog
          AllLen,     \* "all vectors" mode: every vector up to this length ...
          AllMaxLog,  \* ... on domains up to 2^AllMaxLog (0: off)
          PolyAllLen, \* ... and every polynomial up to this length (arithmetic)
          MaxThreads, \* pools of 1..MaxThreads threads (range split: all of them)
          SchedThreads, \* thread counts used for whole transforms
          Fams        \* kernel families explored: subset of
                      \* {"fft", "twid", "poly", "binv", "closed", "bary"}

(* ---------------- the field F_P on TLC integers ---------------- *)
SAdd(a, b) == (a + b) % P
SSub(a, b) == (a + P - b) % P
SMul(a, b) == (a * b) % P
SNeg(a) == (P - a) % P
SInt(k) == k % P

RECURSIVE SPow(_, _)
SPow(a, k) == IF k = 0 THEN 1
              ELSE LET h == SPow(a, k \div 2) IN
                   IF k % 2 = 1 THEN (((h * h) % P) * a) % P ELSE (h * h) % P

InvTab == TLCEval([a \in 1..(P - 1) |-> SPow(a, P - 2)])
SInv(a) == IF a = 0 THEN 0 ELSE InvTab[a]

Pl == INSTANCE Poly WITH FAdd <- SAdd, FSub <- SSub, FMul <- SMul, FNeg <- SNeg,
                         FInv <- SInv, FInt <- SInt

ASSUME FieldOK ==
  /\ P > 2 /\ P < 46337
  /\ SPow(GEN, (P - 1) \div 2) = P - 1        \* GEN is a non-residue
  /\ (P - 1) % Pl!Pow2(MaxLog) = 0
  /\ \A a \in 1..(P - 1) : SMul(a, SInv(a)) = 1

\* primitive n-th root of unity (n | P - 1)
RootOf(n) == SPow(GEN, (P - 1) \div n)
Dom(n) == Pl!Domain(n, RootOf(n), GEN)
SubPts(n) == Pl!SubgroupPoints(RootOf(n), n)
CosPts(n) == Pl!CosetPoints(GEN, RootOf(n), n)

Sizes == {Pl!Pow2(k) : k \in 0..MaxLog}
Threads == 1..MaxThreads

(* thresholds: the code's strategy with the constants scaled down so that a
   domain of 8..32 points crosses every branch of best_fft *)
Thresholds ==
  { [minLen |-> 4, minChunks |-> 4, finalMinLen |-> 4, finalMinThreads |-> 4],   \* like the code
    [minLen |-> 2, minChunks |-> 64, finalMinLen |-> 2, finalMinThreads |-> 1],  \* every stage split into ranges
    [minLen |-> 64, minChunks |-> 4, finalMinLen |-> 64, finalMinThreads |-> 4] }\* always serial
ThLike == [minLen |-> 4, minChunks |-> 4, finalMinLen |-> 4, finalMinThreads |-> 4]
ThSplit == [minLen |-> 2, minChunks |-> 64, finalMinLen |-> 2, finalMinThreads |-> 1]

Min2(a, b) == IF a < b THEN a ELSE b

(* ---------------- input vectors ---------------- *)
PR(k, len) == [i \in 1..len |-> (k * 7919 + i * i * 31 + i * k * 17 + 3) % P]
Unit(len, pos, a) == [i \in 1..len |-> IF i = pos THEN a ELSE 0]
ZeroTail(v, from) == [i \in 1..Len(v) |-> IF i >= from THEN 0 ELSE v[i]]
ZeroHead(v, upto) == [i \in 1..Len(v) |-> IF i <= upto THEN 0 ELSE v[i]]

RECURSIVE AllSeqs(_)
AllSeqs(len) == IF len = 0 THEN {<<>>}
                ELSE {Append(s, a) : s \in AllSeqs(len - 1), a \in 0..(P - 1)}
AllUpTo(len) == UNION {AllSeqs(k) : k \in 0..len}

\* lengths below, at and above the domain size
Lens(n) == {0, 1, n \div 2, n - 1, n, n + 1, n + 3, 2 * n + 3}

Vectors(n) ==
  {Unit(n, i, 1) : i \in 1..n}                                   \* basis
  \cup {Unit(n, i, P - 2) : i \in {1, n}}
  \cup {Unit(len, len, 3) : len \in {n + 1, n + 2, 2 * n, 2 * n + 1}}     \* beyond the domain
  \cup {PR(len + 1, len) : len \in Lens(n)}                      \* dense, all length classes
  \cup {ZeroTail(PR(7, len), (len \div 2) + 1) : len \in Lens(n)}   \* trailing zeros
  \cup {ZeroHead(PR(9, len), len \div 2) : len \in Lens(n)}      \* leading zeros
  \cup {[i \in 1..len |-> 0] : len \in Lens(n)}                  \* zeros
  \cup (IF AllMaxLog > 0 /\ n <= Pl!Pow2(AllMaxLog) THEN AllUpTo(Min2(AllLen, n + 1)) ELSE {})

(* ---------------- groups and cases ---------------- *)
AllGroups ==
  {[fam |-> f, n |-> n] : f \in {"fft", "twid", "closed", "bary"}, n \in Sizes}
  \cup {[fam |-> "poly", n |-> k] : k \in IF AllMaxLog > 0 THEN {0} ELSE 0..5}
  \cup {[fam |-> "binv", n |-> k] : k \in 0..3}
Groups == {g \in AllGroups : g.fam \in Fams}

\* polynomials for the arithmetic cases (unnormalised ones included)
PolySet(k) ==
  IF AllMaxLog > 0 THEN AllUpTo(PolyAllLen)
  ELSE {PR(k + j, len) : j \in 0..2, len \in {0, 1, 2, 3, 5, 8}}
       \cup {ZeroTail(PR(k + 11, len), len - 1) : len \in {2, 4, 7}}
       \cup {<<0>>, <<0, 0, 0>>, <<1>>, <<P - 1>>}

Scalars == IF AllMaxLog > 0 THEN 0..(P - 1) ELSE {0, 1, P - 1, 2, GEN, (P + 1) \div 2}

Cases(g) ==
  IF g.fam = "fft" THEN
    {[fam |-> "fft", n |-> g.n, v |-> v] : v \in Vectors(g.n)}
  ELSE IF g.fam = "twid" THEN
    \* every half-chunk length m, every thread count, several w_m
    {[fam |-> "twid", m |-> m, t |-> t, w |-> w] :
       m \in 1..(2 * g.n), t \in Threads,
       w \in {RootOf(g.n), GEN, 1, P - 1}}
  ELSE IF g.fam = "poly" THEN
    {[fam |-> "poly", a |-> a, b |-> b] : a \in PolySet(g.n), b \in PolySet(g.n + 3)}
  ELSE IF g.fam = "binv" THEN
    {[fam |-> "binv", v |-> v] :
       v \in IF AllMaxLog > 0 THEN AllSeqs(Min2(g.n, AllLen))
             ELSE {PR(g.n + j, len) : j \in 0..3, len \in {0, 1, 2, 5, 9}}
                  \cup {ZeroTail(PR(g.n, len), len) : len \in {1, 2, 6}}
                  \cup {ZeroHead(PR(g.n, len), 1) : len \in {1, 2, 6}}
                  \cup {ZeroTail(ZeroHead(PR(g.n + 5, 8), g.n), 8 - g.n)}
                  \cup {[i \in 1..len |-> 0] : len \in {1, 4}}
                  \cup {Unit(5, g.n + 1, 7)}}
  ELSE IF g.fam = "closed" THEN
    {[fam |-> "closed", n |-> g.n, x |-> x] : x \in 0..(P - 1)}
  ELSE \* bary
    {[fam |-> "bary", n |-> g.n, x |-> x, e |-> e] :
       x \in 0..(P - 1),
       e \in {Unit(g.n, i, 3) : i \in {1, (g.n \div 2) + 1, g.n}}
             \cup {PR(g.n + 2, g.n), PR(5, g.n \div 2), ZeroHead(PR(3, g.n), 1),
                   ZeroTail(PR(4, g.n), g.n), [i \in 1..g.n |-> 0], <<>>}}

VARIABLES phase, c
vars == <<phase, c>>

Init == phase = "root" /\ c = [fam |-> "none"]
Next ==
  \/ /\ phase = "root"
     /\ \E g \in Groups : c' = g /\ phase' = "group"
  \/ /\ phase = "group"
     /\ \E k \in Cases(c) : c' = k /\ phase' = "pending"
  \/ /\ phase = "pending"          \* the case is judged by whichever worker takes it
     /\ c' = c /\ phase' = "case"
Spec == Init /\ [][Next]_vars

Is(f) == phase = "case" /\ c.fam = f

(***************************************************************************)
(* FFT clauses.  One case = one input vector on one domain; the thread     *)
(* count and the strategy thresholds are quantified inside the invariants  *)
(* so that the (slow) definition is evaluated once per case.               *)
(***************************************************************************)
\* (thresholds, threads) pairs: all thread counts wherever a stage can be
\* split into ranges, else the two extremes
Schedules(n) ==
  {<<th, t>> : th \in Thresholds,
               t \in SchedThreads} \ {<<th, t>> \in Thresholds \X SchedThreads :
                                   (n < th.finalMinLen \/ n < th.minLen) /\ t \notin {1, MaxThreads}}

FftOut(s, fold) == Pl!FftCode(c.v, Dom(c.n), s[2], s[1], fold)
CosetOut(s, fold) == Pl!CosetFftCode(c.v, Dom(c.n), s[2], s[1], fold)
Serial == <<ThLike, 1>>

\* forward FFT = direct evaluation on the subgroup (inputs not longer than
\* the domain; ANY input for the repaired variant), for every thread count
FftIsDirectEvaluation ==
  Is("fft") =>
    LET def == TLCEval(Pl!DFT(c.v, RootOf(c.n), c.n))
    IN /\ \A s \in Schedules(c.n) :
            /\ Len(c.v) <= c.n => FftOut(s, FALSE) = def
            /\ FftOut(s, TRUE) = def
       /\ Len(c.v) <= c.n => Pl!SerialFft(Pl!Resize(c.v, c.n), RootOf(c.n), Pl!Log2(c.n)) = def

CosetFftIsDirectEvaluation ==
  Is("fft") =>
    LET def == TLCEval(Pl!CosetDFT(c.v, GEN, RootOf(c.n), c.n))
    IN \A s \in Schedules(c.n) :
         /\ Len(c.v) <= c.n => CosetOut(s, FALSE) = def
         /\ CosetOut(s, TRUE) = def

\* NAMED DEVIATION {fft|coset_fft, len>n}: the code evaluates the TRUNCATED
\* polynomial; it differs from the definition exactly when folding the tail
\* changes the first n coefficients
FftLongerInputTruncates ==
  (Is("fft") /\ Len(c.v) > c.n) =>
    LET def == TLCEval(Pl!DFT(c.v, RootOf(c.n), c.n))
        cdef == TLCEval(Pl!CosetDFT(c.v, GEN, RootOf(c.n), c.n))
        tdef == TLCEval(Pl!DFT(Pl!Resize(c.v, c.n), RootOf(c.n), c.n))
        tcdef == TLCEval(Pl!CosetDFT(Pl!Resize(c.v, c.n), GEN, RootOf(c.n), c.n))
        gv == Pl!DistributePowers(c.v, GEN)
    IN /\ \A s \in Schedules(c.n) : FftOut(s, FALSE) = tdef /\ CosetOut(s, FALSE) = tcdef
       /\ (tdef = def) <=> (Pl!Fold(c.v, c.n) = Pl!Resize(c.v, c.n))
       /\ (tcdef = cdef) <=> (Pl!Fold(gv, c.n) = Pl!Resize(gv, c.n))
       /\ (c.n = 2 /\ c.v = Unit(3, 3, 3)) =>
            PrintT("DEVIATION|fft|len>n|" \o ToString(<<c.v, FftOut(Serial, FALSE), def>>))

\* folding lemma: evaluation on the subgroup only sees the vector mod X^n - 1
FoldLemma ==
  Is("fft") => Pl!DFT(Pl!Fold(c.v, c.n), RootOf(c.n), c.n) = Pl!DFT(c.v, RootOf(c.n), c.n)

\* inverse FFT = interpolation (values missing at the end are zero; more
\* than n values: `resize` semantics, a named deviation without definition)
IfftIsInterpolation ==
  Is("fft") =>
    LET out == TLCEval(Pl!IfftCode(c.v, Dom(c.n), 1, ThLike))
        cout == TLCEval(Pl!CosetIfftCode(c.v, Dom(c.n), 1, ThLike))
        e == Pl!Resize(c.v, c.n)
    IN /\ Pl!Interpolates(out, e, SubPts(c.n))
       /\ Pl!Interpolates(cout, e, CosPts(c.n))
       /\ c.n <= 8 => /\ out = Pl!IDFT(e, RootOf(c.n), c.n)
                      /\ cout = Pl!CosetIDFT(e, GEN, RootOf(c.n), c.n)
       /\ \A s \in Schedules(c.n) :
            /\ Pl!IfftCode(c.v, Dom(c.n), s[2], s[1]) = out
            /\ Pl!CosetIfftCode(c.v, Dom(c.n), s[2], s[1]) = cout

FftIfftMutuallyInverse ==
  Is("fft") =>
    LET d == Dom(c.n)
        e == Pl!Resize(c.v, c.n)
    IN \A s \in {<<ThLike, 1>>, <<ThSplit, 5>>, <<ThLike, MaxThreads>>} :
         LET t == s[2]
             th == s[1]
         IN /\ Pl!IfftCode(Pl!FftCode(e, d, t, th, FALSE), d, t, th) = e
            /\ Pl!FftCode(Pl!IfftCode(e, d, t, th), d, t, th, FALSE) = e
            /\ Pl!CosetIfftCode(Pl!CosetFftCode(e, d, t, th, FALSE), d, t, th) = e
            /\ Pl!CosetFftCode(Pl!CosetIfftCode(e, d, t, th), d, t, th, FALSE) = e

\* same result for every thread count and strategy (whole transforms)
ThreadCountIndependence ==
  Is("fft") =>
    LET one == TLCEval(FftOut(Serial, FALSE))
    IN \A s \in Schedules(c.n) : FftOut(s, FALSE) = one

\* the O(n) functional used by the trace checker for large domains
RhoSet(n) == IF n <= 4 THEN 1..(P - 1) ELSE {2, 3, 7, 11, P - 2, P - 5, (P + 1) \div 2}
FunctionalLemma ==
  Is("fft") =>
    LET dft == TLCEval(Pl!DFT(c.v, RootOf(c.n), c.n))
        cdft == TLCEval(Pl!CosetDFT(c.v, GEN, RootOf(c.n), c.n))
    IN \A rho \in RhoSet(c.n) :
         Pl!RhoUsable(rho, RootOf(c.n), c.n) =>
           /\ Pl!FunctionalOfValues(dft, rho) = Pl!FunctionalOfPoly(c.v, 1, rho, RootOf(c.n), c.n)
           /\ Pl!FunctionalOfValues(cdft, rho) = Pl!FunctionalOfPoly(c.v, GEN, rho, RootOf(c.n), c.n)
           /\ Len(c.v) <= c.n =>
                Pl!FunctionalOfValues(cdft, rho) = Pl!FunctionalOfCoeffs(c.v, GEN, rho, RootOf(c.n), c.n)

(***************************************************************************)
(* the range split of parallel_butterfly_chunk, all m, all thread counts   *)
(***************************************************************************)
RECURSIVE RangeSum(_, _, _, _)
RangeSum(m, rl, k, acc) == IF k = 0 THEN acc ELSE RangeSum(m, rl, k - 1, acc + Min2(rl, m - (k - 1) * rl))

RangeSplitCoversOnce ==
  Is("twid") =>
    LET rl == Pl!RangeLen(c.m, c.t)
        rc == Pl!RangeCount(c.m, c.t)
    IN /\ rl >= 1 /\ rc >= 1 /\ rc <= c.t
       /\ (rc - 1) * rl < c.m /\ c.m <= rc * rl        \* rc chunks of par_chunks_mut(rl), none empty
       /\ RangeSum(c.m, rl, rc, 0) = c.m

TwiddlesIndependentOfThreads ==
  Is("twid") => Pl!ParallelTwiddles(c.m, c.w, c.t) = Pl!SerialTwiddles(c.m, c.w)

(***************************************************************************)
(* polynomial arithmetic = schoolbook                                      *)
(***************************************************************************)
IsNorm(p) == Pl!Norm(p) = p

AddSubAgreeWithSchoolbook ==
  Is("poly") =>
    /\ Pl!AddCode(c.a, c.b) = Pl!Norm(Pl!PAdd(c.a, c.b))
    /\ Pl!SubCode(c.a, c.b) = Pl!Norm(Pl!PSub(c.a, c.b))
    /\ \A k \in Scalars :
         Pl!AddAssignScaledCode(c.a, k, c.b) = Pl!Norm(Pl!PAdd(c.a, Pl!PScale(c.b, k)))

ScalarOpsAgreeWithSchoolbook ==
  Is("poly") =>
    \A k \in Scalars :
      /\ Pl!ScaleCode(c.a, k) = Pl!Norm(Pl!PScale(c.a, k))
      /\ Pl!PEq(Pl!AddScalarCode(c.a, k), Pl!PAdd(c.a, <<k>>))

MulAgreesWithSchoolbook ==
  (Is("poly") /\ Len(c.a) + Len(c.b) <= Pl!Pow2(MaxLog)) =>
    LET def == TLCEval(Pl!Norm(Pl!PMul(c.a, c.b)))
    IN \A s \in {<<ThLike, 1>>, <<ThSplit, 4>>, <<ThSplit, MaxThreads>>} :
         Pl!MulCode(c.a, c.b, RootOf, GEN, s[2], s[1]) = def

EvaluateAgreesWithHorner ==
  Is("poly") => \A k \in Scalars : Pl!EvaluateCode(c.a, k) = Pl!Eval(c.a, k)

\* division by a linear factor: q (X - z) + p(z) = p
RuffiniIdentity ==
  Is("poly") =>
    \A z \in Scalars :
      LET q == Pl!RuffiniCode(c.a, z)
      IN /\ Pl!IsQuotientByLinear(q, c.a, z)
         /\ IsNorm(q)
         /\ Len(q) <= Pl!Degree(c.a)

(***************************************************************************)
(* batch inversion                                                         *)
(***************************************************************************)
BatchInversionInvertsNonZeroKeepsZero ==
  Is("binv") => Pl!IsBatchInverse(Pl!BatchInversionCode(c.v), c.v)

(***************************************************************************)
(* closed forms: vanishing polynomial and Lagrange basis                   *)
(***************************************************************************)
InDomain(x, n) == \E i \in 1..n : SubPts(n)[i] = x

VanishingClosedForm ==
  Is("closed") => Pl!VanishingCode(c.x, c.n) = Pl!VanishingDef(c.x, SubPts(c.n))

\* points inside and outside the domain
LagrangeClosedForm ==
  Is("closed") => Pl!LagrangeAllCode(c.x, Dom(c.n)) = Pl!LagrangeAllDef(c.x, SubPts(c.n))

\* X^deg - 1 over the coset, every deg < n; for deg | n it is the vanishing
\* polynomial of the subgroup of order deg
VanishingOverCosetClosedForm ==
  (Is("closed") /\ c.x < c.n) =>
    LET out == Pl!VanishingOverCosetCode(Dom(c.n), c.x)
    IN /\ out = Pl!VanishingOverCosetDef(c.x, CosPts(c.n))
       /\ (c.x \in Sizes) =>
            out = [i \in 1..c.n |-> Pl!VanishingDef(CosPts(c.n)[i], SubPts(c.x))]

\* functional used by the trace checker for the Lagrange vector:
\* sum_i u_i (rho^n-1)/(rho w^i - 1) = sum_{k<n} (rho x)^k
LagrangeFunctionalLemma ==
  (Is("closed") /\ c.n <= 8) =>
    \A rho \in 1..(P - 1) :
      Pl!RhoUsable(rho, RootOf(c.n), c.n) =>
        Pl!FunctionalOfCoeffs(Pl!LagrangeAllDef(c.x, SubPts(c.n)), 1, rho, RootOf(c.n), c.n)
          = Pl!Sum(Pl!Powers(SMul(rho, c.x), c.n))

(***************************************************************************)
(* barycentric / fused public-input evaluation                             *)
(***************************************************************************)
\* outside the domain the code is right; the repaired variant is right
\* everywhere
BarycentricIsSumOfLagrangeTerms ==
  Is("bary") =>
    LET def == Pl!BarycentricDef(c.e, c.x, SubPts(c.n))
    IN /\ ~InDomain(c.x, c.n) => Pl!BarycentricCode(c.e, c.x, Dom(c.n), FALSE) = def
       /\ Pl!BarycentricCode(c.e, c.x, Dom(c.n), TRUE) = def

\* NAMED DEVIATION {barycentric_eval, point-in-domain}: 0 instead of e_k
BarycentricInDomainYieldsZero ==
  (Is("bary") /\ InDomain(c.x, c.n)) =>
    LET def == Pl!BarycentricDef(c.e, c.x, SubPts(c.n))
        k == Pl!FirstEq(SubPts(c.n), c.x, 1)
        code == Pl!BarycentricCode(c.e, c.x, Dom(c.n), FALSE)
    IN /\ def = Pl!ValueAt(c.e, k)
       /\ code = 0
       /\ (c.n = 4 /\ k = 3 /\ c.e = Unit(4, 3, 3)) =>
            PrintT("DEVIATION|barycentric_eval|point-in-domain|" \o ToString(<<c.e, c.x, code, def>>))

\* fused L_1 / PI evaluation of the verifier: refuses exactly on x = 1 and on
\* domain points carrying a non-zero public input, else equals the definitions
FusedRows(n) == {<<0>>, <<n - 1>>, <<0, n \div 2, n - 1>>}
FusedIsLagrangeAndPiSum ==
  (Is("bary") /\ Len(c.e) = c.n) =>
    \A rows \in FusedRows(c.n) :
      LET vals == [k \in 1..Len(rows) |-> c.e[rows[k] + 1]]
          out == Pl!FusedCode(rows, vals, c.x, Dom(c.n))
      IN IF Pl!FusedRefuses(rows, vals, c.x, Dom(c.n)) THEN out[1] = FALSE
         ELSE out = <<TRUE, Pl!LagrangeAt(SubPts(c.n), 1, c.x),
                      Pl!PiDef(rows, vals, c.x, SubPts(c.n))>>
=============================================================================
