SPECIFICATION Spec
CONSTANTS
  P = 97
  Omega8 = 64
  Omega16 = 8
  Omega32 = 28
  LogN = 4
  ThreadSet = {1, 2, 3, 5}
  MinLen = 16
  MinChunks = 8
  MinThreads = 2
  Inputs = "dense"
  RangeLen = "ceil"
INVARIANTS
  NoOverlap
  StageCovers
  ResultIsSerial
  ResultIsDFT
PROPERTY Terminates
CHECK_DEADLOCK FALSE
