------------------------------- MODULE Sizes -------------------------------
(***************************************************************************)
(* The size arithmetic of the proof system, transcribed from               *)
(*   compiler.rs      (CIRCUIT_SIZE_PADDING, compile_with_composer,        *)
(*                     max_constraints, preprocess)                        *)
(*   kzg10/srs.rs     (setup, trim, ADDED_BLINDING_DEGREE)                 *)
(*   kzg10/key.rs     (max_degree, truncate, commit degree bound)          *)
(*   compiler/prover.rs (blinding, quotient split), quotient_poly.rs       *)
(*                    (the `len > 7n` floor), fft/domain.rs (2-adicity).   *)
(*                                                                         *)
(*   c    = number of constraints of the composer (>= 4: initialized()     *)
(*          emits two constant rows and two dummy rows)                    *)
(*   size = npo2(c)          the evaluation domain of the circuit          *)
(*   n    = npo2(c + 6)      the degree passed to PublicParameters::trim   *)
(*   d    = argument of PublicParameters::setup                            *)
(*                                                                         *)
(* The module is pure arithmetic: no variables.  SizesMC checks it for     *)
(* every (c, d) of a rectangle; Lifecycle uses CompileDirect /             *)
(* CompileCompressed as the predicted outcome of the compile step.         *)
(***************************************************************************)
EXTENDS Naturals, Sequences, TLC

CONSTANTS Padding,        \* Compiler::CIRCUIT_SIZE_PADDING            (6)
          Blinding,       \* PublicParameters::ADDED_BLINDING_DEGREE   (6)
          CapSlack,       \* 0 in the design; a non-zero value models an
                          \* off-by-one in max_constraints (self-test)
          TableMax        \* npo2 / pow2floor are tabulated up to here (speed only)

\* powers of two that can occur (2^0 .. 2^20)
Pow2(k) == 2 ^ k
Pow2Set == { Pow2(k) : k \in 0..20 }

\* usize::next_power_of_two for x >= 1
Npo2Def(x) == CHOOSE p \in Pow2Set : p >= x /\ (p = 1 \/ p \div 2 < x)

\* 1 << (BITS - leading_zeros(x) - 1) for x >= 1
Pow2FloorDef(x) == CHOOSE p \in Pow2Set : p <= x /\ 2 * p > x

\* the same, tabulated once (TLC keeps function constructors lazy otherwise)
Npo2T == TLCEval([x \in 1..TableMax |-> Npo2Def(x)])
Pow2FloorT == TLCEval([x \in 1..TableMax |-> Pow2FloorDef(x)])
Npo2(x) == IF x <= TableMax THEN Npo2T[x] ELSE Npo2Def(x)
Pow2Floor(x) == IF x <= TableMax THEN Pow2FloorT[x] ELSE Pow2FloorDef(x)

Log2(p) == CHOOSE k \in 0..20 : Pow2(k) = p

Max(a, b) == IF a >= b THEN a ELSE b
Monus(a, b) == IF a >= b THEN a - b ELSE 0          \* saturating_sub

(* ------------------------------ SRS ----------------------------------- *)
\* setup(d): Err(DegreeIsZero) for d < 1, else d + Blinding + 1 powers
SetupOutcome(d) == IF d < 1 THEN "err:DegreeIsZero" ELSE "ok"
SetupPowers(d) == d + Blinding + 1
MaxDegree(d) == SetupPowers(d) - 1                  \* CommitKey::max_degree

\* CommitKey::truncate(t) on a key of maximal degree md
TruncateOutcome(t, md) ==
  IF t = 0 THEN "err:TruncatedDegreeIsZero"
  ELSE IF t > md THEN "err:TruncatedDegreeTooLarge"
  ELSE "ok"
TruncatePowers(t) == (IF t = 1 THEN 2 ELSE t) + 1   \* `truncate(1)` keeps 3

\* PublicParameters::trim(n)
TrimOutcome(n, md) == TruncateOutcome(n + Blinding, md)
TrimPowers(n) == TruncatePowers(n + Blinding)

(* ---------------------------- compile --------------------------------- *)
Size(c) == Npo2(c)
TrimN(c) == Npo2(c + Padding)
KeyDegree(c) == TrimPowers(TrimN(c)) - 1            \* max degree of the trimmed key

\* Compiler::compile_with_composer
CompileDirect(c, d) == TrimOutcome(TrimN(c), MaxDegree(d))

\* Compiler::max_constraints(pp)
MaxConstraints(md) ==
  LET available == Monus(md, Blinding)
      maxDomain == IF available = 0 THEN 0 ELSE Pow2Floor(available)
  IN Monus(maxDomain, Padding) + CapSlack

\* Compiler::compile_with_compressed: the decompressor is bounded by
\* max_constraints(pp), then the direct path runs
CompileCompressed(c, d) ==
  IF c > MaxConstraints(MaxDegree(d)) THEN "err:InvalidCompressedCircuit"
  ELSE CompileDirect(c, d)

\* the closed form quoted in the design
CompileOk(c, d) == Npo2(c + Padding) + Blinding <= d + Blinding

(* --------------------- degrees of committed polynomials --------------- *)
DegSelector(c) == Size(c) - 1                   \* interpolants over the domain
DegWire(c) == Size(c) + 1                       \* two blinders: X^size (b1 + b2 X)
DegZ(c) == Size(c) + 2                          \* three blinders
\* numerator: z * a * b * c * d; divided by the vanishing polynomial
DegQuotient(c) == (DegZ(c) + 4 * DegWire(c)) - Size(c)
QuotientLen(c) == DegQuotient(c) + 1
DegTLow(c) == Size(c)                           \* coefficient `size` is the mask
DegTMid(c) == Size(c)
DegTHigh(c) == Size(c)
DegTFourth(c) == DegQuotient(c) - 3 * Size(c)   \* t[3 size ..]
\* linearisation polynomial: selectors, z, Z_H(z) * (t_low + ... + t_fourth)
DegLin(c) == Max(Max(DegSelector(c), DegZ(c)), Max(DegTLow(c), DegTFourth(c)))
\* W_z = (r + v a + ... ) / (X - z), W_zw = (z + v a + v^2 b + v^3 d) / (X - z w)
DegWz(c) == Max(DegLin(c), DegWire(c)) - 1
DegWzw(c) == Max(DegZ(c), DegWire(c)) - 1

Committed(c) == << DegSelector(c), DegWire(c), DegZ(c), DegTLow(c), DegTMid(c),
                   DegTHigh(c), DegTFourth(c), DegWz(c), DegWzw(c) >>

\* CommitKey::commit: Err(PolynomialDegreeTooLarge) iff degree > max_degree
CommitFits(deg, c) == deg <= KeyDegree(c)

(* ----------------------------- properties ----------------------------- *)
\* properties of one constraint count
PerCount(c) ==
  /\ Size(c) >= c /\ Size(c) < 2 * c                 \* npo2
  /\ TrimN(c) >= c + Padding /\ TrimN(c) < 2 * (c + Padding)
  /\ Size(c) <= TrimN(c) /\ (Size(c) >= 8 => TrimN(c) <= 2 * Size(c))
  /\ (TrimN(c) = Size(c)) = (c + Padding <= Size(c)) \* the 2^k - 6 boundary
  /\ \A i \in 1..Len(Committed(c)) : CommitFits(Committed(c)[i], c)
  /\ DegTFourth(c) = Size(c) + Blinding              \* what `Blinding` is for
  /\ DegTFourth(c) <= KeyDegree(c)
  /\ DegWz(c) = Size(c) + 5
  \* the detection floor never fires on an honest quotient ...
  /\ QuotientLen(c) <= 7 * Size(c)
  /\ 4 * Size(c) + 6 < 7 * Size(c)
  \* ... and the quotient fits its 8 size domain, whose log is within the
  \* 2-adicity (32) of the scalar field
  /\ QuotientLen(c) <= 8 * Size(c)
  /\ Log2(8 * Size(c)) <= 32
  \* the split reads t[0 .. 3 size) and t[3 size ..]: all four parts exist
  /\ QuotientLen(c) > 3 * Size(c)

\* properties of a (constraint count, setup argument) pair
PerPair(c, d) ==
  LET direct == CompileDirect(c, d)
      packed == CompileCompressed(c, d)
      closed == CompileOk(c, d)
      n == TrimN(c)
  IN /\ (direct = "ok") = closed
     /\ closed = (n <= d)
     /\ direct \in {"ok", "err:TruncatedDegreeTooLarge"}
     \* both routes agree on the capacity
     /\ (packed = "ok") = (direct = "ok")
     /\ packed \in {"ok", "err:InvalidCompressedCircuit"}
     /\ (c <= MaxConstraints(MaxDegree(d))) = closed
     \* a key that admits the circuit holds every power the prover needs
     /\ closed => TrimPowers(n) <= SetupPowers(d)

\* max_constraints is the largest count that compiles
PerSetup(d) ==
  LET m == MaxConstraints(MaxDegree(d))
  IN /\ (m >= 4 => CompileDirect(m, d) = "ok")
     /\ CompileDirect(Max(m, 3) + 1, d) # "ok"
=============================================================================
