------------------------------ MODULE SizesMC ------------------------------
(***************************************************************************)
(* Exhaustive check of Sizes over the rectangle c \in MinC..MaxC,          *)
(* d \in 1..MaxD.  One state per constraint count (reached through block   *)
(* states so that the workers share the counts); the invariant ranges over *)
(* every setup argument, so TLC evaluates every pair.                      *)
(***************************************************************************)
EXTENDS Sizes

CONSTANTS MinC, MaxC, MaxD, Blocks

VARIABLES phase, c

Init == phase = "root" /\ c = 0
Next == \/ /\ phase = "root"
           /\ phase' = "block"
           /\ c' \in 0..(Blocks - 1)
        \/ /\ phase = "block"
           /\ phase' = "count"
           /\ c' \in { x \in MinC..MaxC : x % Blocks = c }
Spec == Init /\ [][Next]_<<phase, c>>

CountOK == phase = "count" => PerCount(c)
PairsOK == phase = "count" => \A d \in 1..MaxD : PerPair(c, d)
\* the setup-side statement is checked for d = c (the counter sweeps both)
SetupOK == (phase = "count" /\ c <= MaxD) => PerSetup(c)

\* anti-vacuity: both outcomes occur for every count that can compile at all
Seen == phase = "count" =>
          /\ (TrimN(c) <= MaxD => \E d \in 1..MaxD : CompileDirect(c, d) = "ok")
          /\ \E d \in 1..MaxD : CompileCompressed(c, d) = "err:InvalidCompressedCircuit"
=============================================================================
