------------------------------ MODULE ScenC05 ------------------------------
(***************************************************************************)
(* Scenario generator (MBT direction) for C05: the families of (compiled   *)
(* program, instance program, perturbation) the real prover is run on.     *)
(* Every state of this specification is one scenario; TLC enumerates them  *)
(* and prints each as a JSON line.  What the prover must answer is NOT     *)
(* stated here: it is decided per recorded instance by TraceProver         *)
(* (ConstraintSystem!Satisfied over the real field).                       *)
(***************************************************************************)
EXTENDS Naturals, Integers, Sequences, TLC, Json

CONSTANTS Tier        \* "quick" | "thorough"

W(v, out) == [op |-> "witness", v |-> v, out |-> out]

\* ---- gadget programs: one public component each, honest inputs ----------
GArith ==
  << W(7, "x"), W(11, "y"), W(3, "u"),
     [op |-> "gate_add", q |-> [l |-> 2, r |-> 3, f |-> 5, c |-> 9], w |-> <<"x", "y", 0, "u">>, out |-> "s"],
     [op |-> "gate_mul", q |-> [m |-> 4, f |-> 1, c |-> -2], w |-> <<"x", "y", 0, "u">>, pi |-> 6, out |-> "p"],
     [op |-> "evaluated_output", q |-> [m |-> 1, l |-> 1, o |-> 5], w |-> <<"s", "p">>, out |-> "e"],
     [op |-> "evaluated_output", q |-> [l |-> 1, c |-> -7, o |-> 0], w |-> <<"x">>],
     [op |-> "assert_equal", a |-> "x", b |-> "x"],
     [op |-> "assert_equal_constant", a |-> "y", c |-> 11],
     [op |-> "assert_equal_constant", a |-> "y", c |-> 4, pi |-> 7],
     [op |-> "constant", v |-> 21, out |-> "k"],
     [op |-> "public", v |-> 0, out |-> "z0"],
     [op |-> "public", v |-> 33, out |-> "p1"] >>

GSelect ==
  << W(1, "b1"), W(0, "b0"), W(17, "x"), W(23, "y"),
     [op |-> "boolean", a |-> "b1"], [op |-> "boolean", a |-> "b0"],
     [op |-> "select", bit |-> "b1", a |-> "x", b |-> "y", out |-> "s1"],
     [op |-> "select", bit |-> "b0", a |-> "x", b |-> "y", out |-> "s0"],
     [op |-> "select_one", bit |-> "b1", a |-> "x", out |-> "t1"],
     [op |-> "select_one", bit |-> "b0", a |-> "x", out |-> "t0"],
     [op |-> "select_zero", bit |-> "b1", a |-> "y", out |-> "u1"],
     [op |-> "select_zero", bit |-> "b0", a |-> "y", out |-> "u0"] >>

GRange(bits, v) == << W(v, "x"), [op |-> "range_bits", w |-> "x", bits |-> bits] >>
GRangePairs(pairs, v) == << W(v, "x"), [op |-> "range_pairs", w |-> "x", pairs |-> pairs] >>
GLogic(pairs, xor, a, b) ==
  << W(a, "a"), W(b, "b"),
     [op |-> "logic", a |-> "a", b |-> "b", pairs |-> pairs, xor |-> xor, out |-> "o"] >>
GTruncate(n, v) == << W(v, "x"), [op |-> "truncate", w |-> "x", n |-> n, out |-> "t"] >>
GDecomp(n, v) == << W(v, "x"), [op |-> "decomposition", w |-> "x", n |-> n, out |-> "bits"] >>

PtG == [name |-> "G"]
PtK(k) == [mul |-> k, of |-> [name |-> "G"]]

GPoints ==
  << [op |-> "append_point", pt |-> PtK(5), out |-> "P"],
     [op |-> "assert_torsion_free", p |-> "P", out |-> "Pt"],
     [op |-> "append_constant_point", pt |-> PtK(9), out |-> "Q"],
     [op |-> "append_public_point", pt |-> PtK(14), out |-> "S"],
     [op |-> "add_point", a |-> "Pt", b |-> "Q", out |-> "A"],
     [op |-> "assert_equal_point", a |-> "A", b |-> "S"],
     [op |-> "sub_point", a |-> "A", b |-> "Q", out |-> "D"],
     [op |-> "neg_point", a |-> "D", out |-> "N"],
     [op |-> "assert_equal_public_point", p |-> "D", pt |-> PtK(5)],
     W(1, "b"),
     [op |-> "select_identity", bit |-> "b", a |-> "Q", out |-> "I"],
     [op |-> "select_point", bit |-> "b", a |-> "P", b |-> "Q", out |-> "M"],
     [op |-> "add_point", a |-> "Q", b |-> "Q", out |-> "Q2"] >>

GMulGen(s) == << W(s, "s"), [op |-> "mul_generator", s |-> "s", pt |-> PtG, out |-> "R"] >>
GMulPoint(s) ==
  << W(s, "s"), [op |-> "append_constant_point", pt |-> PtK(3), out |-> "P"],
     [op |-> "mul_point", s |-> "s", p |-> "P", out |-> "R"] >>

\* ---- rows carrying several widgets at once, and a selected row on the last
\* ---- row of a full domain (duplicated from honest gadget rows) -------------
GMulti ==
  << W(201, "x"), [op |-> "range_bits", w |-> "x", bits |-> 8],       \* rows 4,5,6
     [op |-> "dup_rows", from |-> 4, count |-> 2,
      q |-> [m |-> 3, l |-> -2, r |-> 7, o |-> 1, f |-> 5, c |-> 11], pi |-> "balance"],
     W(13, "a"), W(7, "b"),
     [op |-> "logic", a |-> "a", b |-> "b", pairs |-> 2, xor |-> TRUE, out |-> "o"],
     [op |-> "append_constant_point", pt |-> PtK(3), out |-> "P"],
     [op |-> "add_point", a |-> "P", b |-> "P", out |-> "P2"] >>

\* a range row as the very last row of a full domain: pad to 2^k - 2, then a
\* zero-width-padded range check on the zero witness (2 rows: range row whose
\* next row is the plain row) does not wrap; the wrap case duplicates a range
\* row LAST (its next row is row 0 of the domain).
GWrap(k) ==
  << W(0, "x"), [op |-> "range_bits", w |-> "x", bits |-> 8],          \* rows 4,5,6
     [op |-> "pad", to |-> k - 1],
     [op |-> "dup_rows", from |-> 4, count |-> 1] >>

\* ---- copy constraints: compile A, prove B ------------------------------------
CopyA == << W(5, "x"),
            [op |-> "gate", q |-> [l |-> 1, c |-> -5], w |-> <<"x", "x">>],
            [op |-> "gate", q |-> [m |-> 1, c |-> -25], w |-> <<"x", "x">>] >>
\* every row satisfied, the b wire of row one now carries a different value
CopyB_broken == << W(5, "x"), W(9, "y"),
            [op |-> "gate", q |-> [l |-> 1, c |-> -5], w |-> <<"x", "y">>],
            [op |-> "gate", q |-> [m |-> 1, c |-> -25], w |-> <<"x", "x">>] >>
\* different witnesses, equal values: the copy constraint is respected
CopyB_equal == << W(5, "x"), W(5, "y"),
            [op |-> "gate", q |-> [l |-> 1, c |-> -5], w |-> <<"x", "y">>],
            [op |-> "gate", q |-> [m |-> 1, c |-> -25], w |-> <<"y", "x">>] >>
CopyB_row == << W(5, "x"), W(-5, "y"),
            [op |-> "gate", q |-> [l |-> 1, c |-> -5], w |-> <<"x", "y">>],
            [op |-> "gate", q |-> [m |-> 1, c |-> -25], w |-> <<"x", "y">>] >>
SizeMore == CopyA \o << [op |-> "gate", q |-> [l |-> 0], w |-> <<"x">>] >>
SizeLess == << W(5, "x"), [op |-> "gate", q |-> [l |-> 1, c |-> -5], w |-> <<"x", "x">>] >>

\* ---- public-input rows: statements about public values --------------------
GPubSum ==
  << [op |-> "public", v |-> 2, out |-> "a"], [op |-> "public", v |-> 3, out |-> "b"],
     [op |-> "public", v |-> 5, out |-> "c"],
     [op |-> "gate", q |-> [l |-> 1, r |-> 1, o |-> -1], w |-> <<"a", "b", "c">>],
     [op |-> "public", v |-> 1, out |-> "bit"], [op |-> "boolean", a |-> "bit"],
     W(4, "x"), W(6, "y"),
     [op |-> "gate_add", q |-> [l |-> 1, r |-> 1], w |-> <<"x", "y">>, pi |-> 100, out |-> "s"],
     [op |-> "assert_equal_constant", a |-> "s", c |-> 110],
     [op |-> "assert_equal_constant", a |-> "x", c |-> 1, pi |-> 3],
     [op |-> "gate", q |-> [m |-> 1, c |-> -24], w |-> <<"x", "y">>],
     [op |-> "evaluated_output", q |-> [m |-> 2, l |-> 1, o |-> 3, c |-> 1], w |-> <<"x", "y">>, pi |-> 9, out |-> "e"],
     [op |-> "gate", q |-> [l |-> 1, r |-> 3], w |-> <<"x", "e">>, pi |-> 58] >>

Quick == Tier = "quick"
Sample(n) == [mode |-> "sample", n |-> n]
Each == [mode |-> "each"]
Pert(small) == IF Quick THEN Sample(IF small THEN 24 ELSE 10) ELSE (IF small THEN Each ELSE Sample(64))

Scn(name, prog, pert) == [name |-> name, compile |-> [ops |-> prog], perturb |-> pert]
Scn2(name, a, b) == [name |-> name, compile |-> [ops |-> a], prove |-> [ops |-> b]]

\* scenarios are kept in a SEQUENCE (heterogeneous records cannot be ordered
\* as set elements)
Map(s, Op(_)) == [i \in 1..Len(s) |-> Op(s[i])]

RangeWidths == IF Quick THEN <<0, 1, 2, 7, 8, 9, 16, 63>>
               ELSE <<0, 1, 2, 3, 6, 7, 8, 9, 15, 16, 17, 63, 64, 65, 128, 253, 254, 255, 256>>
LogicPairs == IF Quick THEN <<0, 1, 3>> ELSE <<0, 1, 2, 3, 8, 64, 127>>
TruncWidths == IF Quick THEN <<0, 1, 8, 254>> ELSE <<0, 1, 2, 8, 64, 127, 253, 254>>
DecompWidths == IF Quick THEN <<1, 8, 255>> ELSE <<1, 2, 8, 64, 252, 254, 255, 256>>

SRange(b) == Scn("range", GRange(b, 5), Pert(TRUE))
SRangeOut(b) == Scn("range-out", GRange(b, 300), Sample(2))
SRangePairs(p) == Scn("range-pairs", GRangePairs(p, 9), Sample(6))
SLogicX(p) == Scn("logic-xor", GLogic(p, TRUE, 201, 77), Pert(TRUE))
SLogicA(p) == Scn("logic-and", GLogic(p, FALSE, 201, 77), Pert(TRUE))
STrunc(n) == Scn("truncate", GTruncate(n, 1000003), Pert(TRUE))
SDecomp(n) == Scn("decomposition", GDecomp(n, 77), Pert(TRUE))
SMulGen(s) == Scn("mul-generator", GMulGen(s), Pert(FALSE))
SWrap(k) == Scn("wrap", GWrap(k), Sample(6))
\* one wire position wired to a fresh witness (harness mode "rewire")
SRew(name, prog, n) == Scn("rewire-" \o name, prog, [mode |-> "rewire", n |-> IF Quick THEN n ELSE 4 * n])

Scenarios ==
     << Scn("arith", GArith, Each), Scn("select", GSelect, Each),
        Scn("points", GPoints, Pert(TRUE)), Scn("multi", GMulti, Pert(TRUE)) >>
  \o Map(RangeWidths, SRange)
  \o Map(<<0, 1, 2, 7, 8>>, SRangeOut)
  \o Map(<<0, 1, 4, 5>>, SRangePairs)
  \o Map(LogicPairs, SLogicX) \o Map(LogicPairs, SLogicA)
  \o Map(TruncWidths, STrunc)
  \o Map(DecompWidths, SDecomp)
  \o << Scn("decomposition-out", GDecomp(3, 77), Sample(2)) >>
  \o Map(<<0, 12345>>, SMulGen)
  \o << Scn("mul-point", GMulPoint(6), IF Quick THEN Sample(4) ELSE Sample(32)) >>
  \o Map(<<8, 16, 32>>, SWrap)
  \o << SRew("pubsum", GPubSum, 12), SRew("arith", GArith, 12), SRew("select", GSelect, 8),
        SRew("points", GPoints, 12), SRew("range", GRange(8, 201), 8),
        SRew("logic", GLogic(3, TRUE, 45, 27), 8), SRew("mul-generator", GMulGen(12345), 8),
        SRew("multi", GMulti, 8) >>
  \o << Scn2("copy-broken", CopyA, CopyB_broken), Scn2("copy-equal", CopyA, CopyB_equal),
        Scn2("copy-row", CopyA, CopyB_row), Scn2("size-more", CopyA, SizeMore),
        Scn2("size-less", CopyA, SizeLess) >>

VARIABLE k          \* index of the scenario this state stands for
Init == k \in 1..Len(Scenarios)
Next == UNCHANGED k
Spec == Init /\ [][Next]_k
Emit == PrintT(<<"SCEN", k, ToJson(Scenarios[k] @@ [id |-> k])>>)
=============================================================================
