SPECIFICATION Spec
CONSTANT Family = "logic"
CONSTANT Tier = "quick"
INVARIANT Emit
CHECK_DEADLOCK FALSE
