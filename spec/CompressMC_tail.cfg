SPECIFICATION Spec
CONSTANTS
  MaxRows = 2
  MaxW = 2
  SelMenu = {1, 2}
  WireMode = "ab"
  InitMode = "empty"
  SortPI = TRUE
  TailIgnored = TRUE
INVARIANTS
  RejectsTrailing
CHECK_DEADLOCK FALSE
