SPECIFICATION Spec
CONSTANTS
  MinC = 4
  MaxC = 200
  MaxD = 300
  Padding = 6
  Blinding = 6
  CapSlack = 1
  TableMax = 700
  Blocks = 64
INVARIANTS CountOK PairsOK SetupOK
CHECK_DEADLOCK FALSE
