SPECIFICATION Spec
CONSTANTS
  MaxRows = 2
  MaxW = 2
  SelMenu = {1, 2}
  WireMode = "ab"
  InitMode = "empty"
  SortPI = FALSE
  TailIgnored = FALSE
INVARIANTS
  RoundTripKeys
  CompressDeterministic
CHECK_DEADLOCK FALSE
