------------------------------- MODULE Gates -------------------------------
(***************************************************************************)
(* The gate identities of the proof system, split into their separately    *)
(* enforced atoms.  One row of the constraint system carries 11 selectors, *)
(* four wire values (a, b, c, d), the wire values of the NEXT row (an, bn, *)
(* dn are the ones the custom gates read) and a public-input value.        *)
(*                                                                         *)
(* In the quotient polynomial a row contributes                            *)
(*    q_arith * A + PI + SUM_w sep_w * q_w * SUM_j kappa_w^j * atom_{w,j}  *)
(* with independent random separation challenges sep_w (kappa_w = sep_w^2),*)
(* so a row is satisfied iff q_arith*A + PI = 0 and, for every widget w    *)
(* whose selector q_w is non-zero on the row, every atom of w vanishes.    *)
(*                                                                         *)
(* The module is parametric in the field (operator constants), so the very *)
(* same text is model-checked over a small prime field and evaluated over  *)
(* the BLS12-381 scalar field for conformance.                             *)
(***************************************************************************)
EXTENDS Naturals, Sequences

CONSTANTS FAdd(_, _), FSub(_, _), FMul(_, _), FNeg(_), FInt(_),
          EdD      \* the twisted-Edwards parameter d of the embedded curve

\* selector positions inside a row's selector tuple
QM == 1   QL == 2   QR == 3   QO == 4   QF == 5   QC == 6
QARITH == 7   QRANGE == 8   QLOGIC == 9   QFIXED == 10   QVAR == 11
NSel == 11

Zero == FInt(0)
One == FInt(1)

Sum3(x, y, z) == FAdd(FAdd(x, y), z)
Mul3(x, y, z) == FMul(FMul(x, y), z)
Mul4(x, y, z, u) == FMul(FMul(x, y), FMul(z, u))
Sq(x) == FMul(x, x)

\* f (f-1) (f-2) (f-3): vanishes exactly on {0,1,2,3}
Delta(f) == Mul4(f, FSub(f, FInt(1)), FSub(f, FInt(2)), FSub(f, FInt(3)))

Quad(hi, lo) == FSub(hi, FMul(FInt(4), lo))       \* hi - 4 lo

(* ---------------- arithmetic ---------------- *)
ArithPoly(q, a, b, c, d) ==
  FAdd(FAdd(FAdd(FMul(q[QM], FMul(a, b)), FMul(q[QL], a)),
            FAdd(FMul(q[QR], b), FMul(q[QO], c))),
       FAdd(FMul(q[QF], d), q[QC]))

\* the arithmetic identity of a row including its public input
ArithAtom(q, a, b, c, d, pi) == FAdd(FMul(q[QARITH], ArithPoly(q, a, b, c, d)), pi)

(* ---------------- range: four base-4 digits per row ---------------- *)
RangeAtoms(a, b, c, d, dn) ==
  << Delta(Quad(c, d)), Delta(Quad(b, c)), Delta(Quad(a, b)), Delta(Quad(dn, a)) >>

(* ---------------- logic (AND / XOR on base-4 digits) ---------------- *)
\* B + E with F = w(w(4w - 18(A+B) + 81) + 18(A^2+B^2) - 81(A+B) + 83)
LogicOut(qc, A, B, w, D) ==
  LET s == FAdd(A, B)
      F == FMul(w, FAdd(FSub(FAdd(FMul(w, FAdd(FSub(FMul(FInt(4), w),
                                                    FMul(FInt(18), s)),
                                               FInt(81))),
                                  FMul(FInt(18), FAdd(Sq(A), Sq(B)))),
                             FMul(FInt(81), s)),
                        FInt(83)))
      E == FSub(FMul(FInt(3), FAdd(s, D)), FMul(FInt(2), F))
      Bt == FMul(qc, FSub(FMul(FInt(9), D), FMul(FInt(3), s)))
  IN FAdd(Bt, E)

LogicAtoms(qc, a, b, c, d, an, bn, dn) ==
  LET A == Quad(an, a)
      B == Quad(bn, b)
      D == Quad(dn, d)
  IN << Delta(A), Delta(B), Delta(D), FSub(c, FMul(A, B)), LogicOut(qc, A, B, c, D) >>

(* ---------------- fixed-base scalar multiplication ---------------- *)
\* q_l = x_beta, q_r = y_beta, q_c = x_beta * y_beta of the round's multiple
FixedAtoms(ql, qr, qc, a, b, c, d, an, bn, dn) ==
  LET bit == FSub(dn, FAdd(d, d))
      yal == FAdd(FMul(Sq(bit), FSub(qr, One)), One)
      xal == FMul(bit, ql)
      t == Mul4(c, a, b, EdD)             \* xy_alpha * acc_x * acc_y * d
  IN << Mul3(bit, FSub(bit, One), FAdd(bit, One)),
        FSub(FMul(bit, qc), c),
        FSub(FAdd(an, FMul(an, t)), FAdd(FMul(a, yal), FMul(b, xal))),
        FSub(FSub(bn, FMul(bn, t)), FAdd(FMul(b, yal), FMul(a, xal))) >>

(* ---------------- variable-base curve addition ---------------- *)
\* (x1,y1,x2,y2) = (a,b,c,d); (x3,y3,x1*y2) = (an,bn,dn)
VarAtoms(a, b, c, d, an, bn, dn) ==
  LET y1x2 == FMul(b, c)
      t == Mul3(EdD, dn, y1x2)
  IN << FSub(FMul(a, d), dn),
        FSub(FAdd(dn, y1x2), FAdd(an, FMul(an, t))),
        FSub(FAdd(FMul(b, d), FMul(a, c)), FSub(bn, FMul(bn, t))) >>

AllZero(seq) == \A j \in 1..Len(seq) : seq[j] = Zero

(***************************************************************************)
(* A row (selectors q, wires v = <<a,b,c,d>>, next-row wires vn, public    *)
(* input pi) is satisfied iff its arithmetic identity holds and every atom *)
(* of every selected widget vanishes.                                      *)
(***************************************************************************)
RowOK(q, v, vn, pi) ==
  /\ ArithAtom(q, v[1], v[2], v[3], v[4], pi) = Zero
  /\ (q[QRANGE] # Zero => AllZero(RangeAtoms(v[1], v[2], v[3], v[4], vn[4])))
  /\ (q[QLOGIC] # Zero =>
        AllZero(LogicAtoms(q[QC], v[1], v[2], v[3], v[4], vn[1], vn[2], vn[4])))
  /\ (q[QFIXED] # Zero =>
        AllZero(FixedAtoms(q[QL], q[QR], q[QC], v[1], v[2], v[3], v[4],
                           vn[1], vn[2], vn[4])))
  /\ (q[QVAR] # Zero =>
        AllZero(VarAtoms(v[1], v[2], v[3], v[4], vn[1], vn[2], vn[4])))

\* names of the identity components a row violates (for reports / adversaries)
RowViolations(q, v, vn, pi) ==
  LET chk(name, sel, atoms) ==
        IF sel = Zero THEN {}
        ELSE {<<name, j>> : j \in {k \in 1..Len(atoms) : atoms[k] # Zero}}
  IN (IF ArithAtom(q, v[1], v[2], v[3], v[4], pi) # Zero THEN {<<"arith", 1>>} ELSE {})
     \cup chk("range", q[QRANGE], RangeAtoms(v[1], v[2], v[3], v[4], vn[4]))
     \cup chk("logic", q[QLOGIC],
              LogicAtoms(q[QC], v[1], v[2], v[3], v[4], vn[1], vn[2], vn[4]))
     \cup chk("fixed", q[QFIXED],
              FixedAtoms(q[QL], q[QR], q[QC], v[1], v[2], v[3], v[4], vn[1], vn[2], vn[4]))
     \cup chk("var", q[QVAR], VarAtoms(v[1], v[2], v[3], v[4], vn[1], vn[2], vn[4]))
=============================================================================
