SPECIFICATION Spec
CONSTANT Family = "fixed"
CONSTANT Tier = "quick"
INVARIANT Emit
INVARIANT PointsInv
CHECK_DEADLOCK FALSE
