SPECIFICATION Spec
CONSTANT Family = "logic"
CONSTANT Tier = "thorough"
INVARIANT Emit
CHECK_DEADLOCK FALSE
