--------------------------- MODULE TraceCompress ---------------------------
(***************************************************************************)
(* Trace validation for C15: events recorded by `harness/src/bin/compress`  *)
(* from the real `Circuit::compress`, `Compiler::compile_with_circuit` and  *)
(* `Compiler::compile_with_compressed` are judged by the operators of       *)
(* Compress, instantiated over real scalars (tokens <<hex, packed size,     *)
(* canonical>>) and the real built-in table (first event).                  *)
(*   packed  : the unpacked real bytes must be THE payload                  *)
(*             Compress!PayloadOf(snapshot) (no tail, the model's size),    *)
(*             and decompressing it must give back the same Preprocess      *)
(*   route   : Ok/Err of both routes for that capacity as Compress predicts *)
(*             (equal), byte-identical keys on Ok                           *)
(*   hostile : Ok/Err class of compile_with_compressed on an edited         *)
(*             container as Compress!CompileCompressed predicts; peak heap  *)
(*             within Compress!AllocBound(capacity).  An ACCEPTED container *)
(*             with a non-empty tail is additionally printed as FINDING     *)
(*             (the pre-fix behaviour, CompressMC!RejectsTrailing).         *)
(* One line per event: VERDICT|.. / MISMATCH|.. / FINDING|..                *)
(***************************************************************************)
EXTENDS Naturals, Sequences, FiniteSets, TLC, Json, IOUtils

Rec == ndJsonDeserialize(IOEnv.TRACE)

Table == Rec[1].table
SB(s) == s[2]
Canon(s) == s[3]
IntB(v) == IF v <= 127 THEN 1 ELSE IF v <= 255 THEN 2 ELSE IF v <= 65535 THEN 3 ELSE 5

C == INSTANCE Compress WITH BaseList <- Table, ScalarBytes <- SB,
                            IntBytes <- IntB, Canonical <- Canon, TailIgnored <- FALSE

Slack == 65536

VARIABLES l, bd     \* next line; the two scalar dictionaries (computed once)

ComposerOf(s) ==
  [rows |-> [i \in 1..Len(s.rows) |->
               [q |-> [j \in 1..11 |-> s.dict[s.rows[i].q[j]]], w |-> s.rows[i].w]],
   nw   |-> s.nw,
   pis  |-> {s.pis[i] : i \in 1..Len(s.pis)}]

Str(b) == IF b THEN "T" ELSE "F"
Out(r) == IF r.ok THEN "ok" ELSE "err:" \o r.err

JudgePacked(e) ==
  LET c    == TLCEval(ComposerOf(e.snap))
      want == TLCEval(C!PayloadOfB(c, bd.hades, TRUE, e.snap.pis, TRUE))
      got  == e.container.payload
      same == got = want
      size == C!PackedSize(got) = e.inflated
      d    == C!DecompressB(e.container, Len(c.rows), bd.hades, bd.plain)
      rt   == d.ok /\ C!Preprocess(d.composer) = C!Preprocess(c)
      small == ~C!DecompressB(e.container, Len(c.rows) - 1, bd.hades, bd.plain).ok
      good == same /\ size /\ rt /\ small /\ e.container.tail = 0 /\ e.repeat_same
  IN IF good
     THEN PrintT("VERDICT|" \o ToString(l) \o "|packed|" \o ToString(Len(c.rows)))
     ELSE PrintT("MISMATCH|" \o ToString(l) \o "|packed|same=" \o Str(same) \o ",size=" \o Str(size)
                 \o ",roundtrip=" \o Str(rt) \o ",small=" \o Str(small)
                 \o ",tail=" \o ToString(e.container.tail) \o ",repeat=" \o Str(e.repeat_same))

JudgeRoute(e) ==
  LET direct == IF C!DirectFits(e.rows, e.maxdeg) THEN "ok" ELSE "err:TruncatedDegreeTooLarge"
      max    == C!MaxConstraints(e.maxdeg)
      \* the honest container was validated by JudgePacked: only the capacity decides
      comp   == IF e.rows <= max THEN direct ELSE "err:InvalidCompressedCircuit"
      agree  == (direct = "ok") = (comp = "ok")            \* the sizes rule
      good   == /\ agree
                /\ e.direct = direct /\ e.compressed = comp
                /\ (direct = "ok" => e.same_prover /\ e.same_verifier)
                /\ e.maxdeg = C!MaxDegreeOfSetup(e.cap)
  IN IF good
     THEN PrintT("VERDICT|" \o ToString(l) \o "|route|" \o direct)
     ELSE PrintT("MISMATCH|" \o ToString(l) \o "|route|" \o direct \o "/" \o comp \o "|"
                 \o e.direct \o "/" \o e.compressed \o "|same=" \o Str(e.same_prover) \o Str(e.same_verifier))

JudgeHostile(e) ==
  LET max  == C!MaxConstraints(e.maxdeg)
      cont == [stream |-> e.container.stream, payload |-> e.container.payload, tail |-> e.container.tail]
      d    == C!DecompressB(cont, max, bd.hades, bd.plain)
      pred == IF ~d.ok THEN "err:" \o d.err
              ELSE IF C!DirectFits(Len(d.composer.rows), e.maxdeg) THEN "ok"
              ELSE "err:TruncatedDegreeTooLarge"
      bound == C!AllocBound(max, Slack) + (IF e.res = "ok" THEN e.direct_peak ELSE 0)
      work == C!WorkBounded(d.work, max)
      good == pred = e.res /\ e.peak <= bound /\ work
      finding == e.res = "ok" /\ e.container.tail # 0
  IN /\ IF good
        THEN PrintT("VERDICT|" \o ToString(l) \o "|hostile|" \o e.class \o "|" \o pred)
        ELSE PrintT("MISMATCH|" \o ToString(l) \o "|hostile|" \o e.class \o "|" \o pred \o "|" \o e.res
                    \o "|peak=" \o ToString(e.peak) \o ",bound=" \o ToString(bound) \o ",work=" \o Str(work))
     /\ (finding => PrintT("FINDING|" \o ToString(l) \o "|tail-after-deflate-stream|" \o e.class
                           \o "|same_keys=" \o Str(e.same_keys)))

Init == l = 1 /\ bd = [hades |-> <<>>, plain |-> <<>>]
Next == /\ l <= Len(Rec)
        /\ LET e == Rec[l] IN
             /\ bd' = IF e.ev = "table"
                      THEN [hades |-> C!BaseDict(TRUE), plain |-> C!BaseDict(FALSE)] ELSE bd
             /\ CASE e.ev = "packed"  -> JudgePacked(e)
                  [] e.ev = "route"   -> JudgeRoute(e)
                  [] e.ev = "hostile" -> JudgeHostile(e)
                  [] OTHER -> PrintT("SKIP|" \o ToString(l) \o "|" \o e.ev)
        /\ l' = l + 1
Spec == Init /\ [][Next]_<<l, bd>>

Accepted == TLCGet("stats").diameter - 1 = Len(Rec)
=============================================================================
