SPECIFICATION Spec
CONSTANT Family = "logic-alias"
CONSTANT Tier = "quick"
INVARIANT Emit
CHECK_DEADLOCK FALSE
