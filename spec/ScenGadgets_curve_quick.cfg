SPECIFICATION Spec
CONSTANT Family = "curve"
CONSTANT Tier = "quick"
INVARIANT Emit
INVARIANT PointsInv
CHECK_DEADLOCK FALSE
