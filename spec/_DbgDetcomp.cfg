SPECIFICATION Spec
CONSTANTS
 MaxRows = 0
 MaxW = 0
 SelMenu = {1}
 WireMode = "ab"
 InitMode = "initialized"
 SortPI = TRUE
 Stage = 4
INVARIANTS
  Dbg
CHECK_DEADLOCK FALSE
