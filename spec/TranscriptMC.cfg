SPECIFICATION Spec
CONSTANTS
  MaxPI = 3
  MaxExport = 16
INVARIANTS
  TypeOK
  BindsBefore
  BindsBeforeStatic
  StatementFirst
  SameSequence
  LegacyQuirk
  AbsorbedOnce
  LabelNamesSource
  Complete
  Exported
CHECK_DEADLOCK FALSE
