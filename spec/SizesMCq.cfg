SPECIFICATION Spec
CONSTANTS
  MinC = 4
  MaxC = 4200
  MaxD = 4200
  Padding = 6
  Blinding = 6
  CapSlack = 0
  TableMax = 16500
  Blocks = 64
INVARIANTS CountOK PairsOK SetupOK Seen
CHECK_DEADLOCK FALSE
