SPECIFICATION Spec
CONSTANT Family = "subgroup"
CONSTANT Tier = "quick"
INVARIANT Emit
INVARIANT PointsInv
CHECK_DEADLOCK FALSE
