------------------------------ MODULE Protocol ------------------------------
(***************************************************************************)
(* The verifier of the proof system, written from the protocol (C03).      *)
(*                                                                         *)
(* The verifier holds the verifier key (15 commitments, circuit size), the *)
(* opening key (g, [1]_2, [x]_2), the public inputs (row, value), a proof  *)
(* (11 commitments, 15 evaluations) and the eleven challenges squeezed     *)
(* from the transcript (module Transcript).  It accepts iff                *)
(*                                                                         *)
(*   e( W_z + u W_zw , [x]_2 ) = e( z W_z + u z w W_zw + F - E , [1]_2 )   *)
(*                                                                         *)
(* where F is the batched commitment of everything opened (the linearised  *)
(* identity D and the opened polynomials) and E commits the batched        *)
(* evaluations.  Two statements of the right-hand G1 element are given:    *)
(*                                                                         *)
(*   TextbookTerms    the expansion z W_z + u z w W_zw + F - E as a list   *)
(*                    of (point name, scalar) terms, D being obtained      *)
(*                    from the row identity of module Gates by reading     *)
(*                    off the coefficient of every committed selector;     *)
(*   VerifierScalars  the grouped map point name -> total scalar (one      *)
(*                    closed form per point) and the left input.           *)
(*                                                                         *)
(* ProtocolMC checks over a small prime field that they agree for all      *)
(* evaluations and challenges; TraceVerifier evaluates VerifierScalars     *)
(* over the BLS12-381 scalar field for the reference verifier.             *)
(*                                                                         *)
(* Parametric in the field (operator constants).                           *)
(***************************************************************************)
EXTENDS Naturals, Sequences

CONSTANTS FAdd(_, _), FSub(_, _), FMul(_, _), FNeg(_), FInt(_), FInv(_), EdD

G == INSTANCE Gates

Zero == FInt(0)
One == FInt(1)
Sq(x) == FMul(x, x)

RECURSIVE Pow(_, _)
Pow(a, k) == IF k = 0 THEN One
             ELSE IF k % 2 = 0 THEN Sq(Pow(a, k \div 2))
             ELSE FMul(a, Pow(a, k - 1))

RECURSIVE SumSeq(_, _)
SumSeq(s, i) == IF i > Len(s) THEN Zero ELSE FAdd(s[i], SumSeq(s, i + 1))
Sum(s) == SumSeq(s, 1)

Prod4(a, b, c, d) == FMul(FMul(a, b), FMul(c, d))

\* coset representatives of the permutation argument
K1 == FInt(7)
K2 == FInt(13)
K3 == FInt(17)

(* ------------------------- domain quantities --------------------------- *)
\* n = size of the evaluation domain H (power of two), w its generator
ZH(z, n) == FSub(Pow(z, n), One)

\* first Lagrange polynomial L_1(z) = (z^n - 1) / (n (z - 1))
L1(z, n) == FMul(ZH(z, n), FInv(FMul(FInt(n), FSub(z, One))))

\* public-input polynomial at z:  SUM_i pi_i L_{row_i}(z) with
\* L_j(z) = (z^n - 1) / (n (w^-j z - 1));  rows are 0-based
PiDen(z, w, row) == FSub(FMul(FInv(Pow(w, row)), z), One)
PiEval(z, n, w, rows, pis) ==
  FMul(FMul(ZH(z, n), FInv(FInt(n))),
       Sum([i \in 1..Len(pis) |->
              IF pis[i] = Zero THEN Zero ELSE FMul(pis[i], FInv(PiDen(z, w, rows[i])))]))

\* the closed forms above are undefined at z = 1 and where z meets the row
\* of a non-zero public input: the verifier rejects there
ZInDomain(z, w, rows, pis) ==
  \/ z = One
  \/ \E i \in 1..Len(pis) : pis[i] # Zero /\ PiDen(z, w, rows[i]) = Zero

(* --------------------------- gate identity ----------------------------- *)
\* kappa-weighted sum of a widget's atoms: SUM_j kappa^(j-1) atom_j
RECURSIVE Weighted(_, _, _, _)
Weighted(atoms, kappa, j, w) ==
  IF j > Len(atoms) THEN Zero
  ELSE FAdd(FMul(w, atoms[j]), Weighted(atoms, kappa, j + 1, FMul(w, kappa)))
WidgetSum(atoms, sep) == FMul(sep, Weighted(atoms, Sq(sep), 1, One))

(* The row identity at the evaluation point, LINEAR in the tuple `sel` of
   the 11 committed selectors (positions of module Gates); the selectors
   that occur inside a product with another selector (q_arith in front of
   the arithmetic part; q_c inside the logic gate; q_l, q_r, q_c inside the
   fixed-base gate) are taken from the proof's evaluations `ev`.  With
   sel = the selector evaluations at z this is the gate part of the
   quotient identity; the coefficient of sel[s] is the scalar of the
   commitment of selector s in the linearisation commitment D. *)
\* q * e, where e is not looked at when q = 0 (TLC evaluates arguments lazily)
Scale(q, e) == IF q = Zero THEN Zero ELSE FMul(q, e)

GateIdentity(sel, ev, ch) ==
  LET a == ev.a_eval  b == ev.b_eval  c == ev.c_eval  d == ev.d_eval
      aw == ev.a_w_eval  bw == ev.b_w_eval  dw == ev.d_w_eval
      arith == FAdd(FAdd(FAdd(Scale(sel[G!QM], FMul(a, b)), Scale(sel[G!QL], a)),
                         FAdd(Scale(sel[G!QR], b), Scale(sel[G!QO], c))),
                    FAdd(Scale(sel[G!QF], d), sel[G!QC]))
  IN FAdd(FAdd(FMul(ev.q_arith_eval, arith),
               FAdd(Scale(sel[G!QRANGE],
                          WidgetSum(G!RangeAtoms(a, b, c, d, dw), ch.range_sep)),
                    Scale(sel[G!QLOGIC],
                          WidgetSum(G!LogicAtoms(ev.q_c_eval, a, b, c, d, aw, bw, dw),
                                    ch.logic_sep)))),
          FAdd(Scale(sel[G!QFIXED],
                     WidgetSum(G!FixedAtoms(ev.q_l_eval, ev.q_r_eval, ev.q_c_eval,
                                            a, b, c, d, aw, bw, dw), ch.fixed_sep)),
               Scale(sel[G!QVAR],
                     WidgetSum(G!VarAtoms(a, b, c, d, aw, bw, dw), ch.var_sep))))

Unit(s) == [k \in 1..G!NSel |-> IF k = s THEN One ELSE Zero]
SelCoefficient(s, ev, ch) == GateIdentity(Unit(s), ev, ch)

\* names of the verifier-key commitments of the 11 selectors (Gates order)
SelPoint == << "vk.q_m", "vk.q_l", "vk.q_r", "vk.q_o", "vk.q_f", "vk.q_c",
               "vk.q_arith", "vk.q_range", "vk.q_logic",
               "vk.q_fixed_group_add", "vk.q_variable_group_add" >>

(* ------------------------ permutation argument ------------------------- *)
\* alpha (a + beta z + gamma)(b + beta k1 z + gamma)(c + ...)(d + ...)
PermIdFactor(ev, ch) ==
  LET bz == FMul(ch.beta, ch.z) IN
  FMul(ch.alpha,
       Prod4(FAdd(FAdd(ev.a_eval, bz), ch.gamma),
             FAdd(FAdd(ev.b_eval, FMul(K1, bz)), ch.gamma),
             FAdd(FAdd(ev.c_eval, FMul(K2, bz)), ch.gamma),
             FAdd(FAdd(ev.d_eval, FMul(K3, bz)), ch.gamma)))

\* alpha (a + beta s1 + gamma)(b + beta s2 + gamma)(c + beta s3 + gamma) z_w
PermSigmaFactor(ev, ch) ==
  FMul(ch.alpha,
       Prod4(FAdd(FAdd(ev.a_eval, FMul(ch.beta, ev.s_sigma_1_eval)), ch.gamma),
             FAdd(FAdd(ev.b_eval, FMul(ch.beta, ev.s_sigma_2_eval)), ch.gamma),
             FAdd(FAdd(ev.c_eval, FMul(ch.beta, ev.s_sigma_3_eval)), ch.gamma),
             ev.z_eval))

\* constant part of the linearised identity
R0(ev, ch, n, w, rows, pis) ==
  FSub(FSub(PiEval(ch.z, n, w, rows, pis), FMul(L1(ch.z, n), Sq(ch.alpha))),
       FMul(PermSigmaFactor(ev, ch), FAdd(ev.d_eval, ch.gamma)))

(* ---------------------------- openings --------------------------------- *)
\* polynomials opened at z besides the linearisation (batched with powers
\* v, v^2, ...) and at z w besides z(X) (batched with v_w, v_w^2, ...):
\* <<commitment, evaluation>>.  V1 does not open the four selectors.
OpenedAtZ(version) ==
  << <<"proof.a_comm", "a_eval">>, <<"proof.b_comm", "b_eval">>,
     <<"proof.c_comm", "c_eval">>, <<"proof.d_comm", "d_eval">>,
     <<"vk.s_sigma_1", "s_sigma_1_eval">>, <<"vk.s_sigma_2", "s_sigma_2_eval">>,
     <<"vk.s_sigma_3", "s_sigma_3_eval">> >>
  \o (IF version = "V1" THEN << >>
      ELSE << <<"vk.q_arith", "q_arith_eval">>, <<"vk.q_c", "q_c_eval">>,
              <<"vk.q_l", "q_l_eval">>, <<"vk.q_r", "q_r_eval">> >>)

OpenedAtZw ==
  << <<"proof.a_comm", "a_w_eval">>, <<"proof.b_comm", "b_w_eval">>,
     <<"proof.d_comm", "d_w_eval">> >>

\* the batched evaluation E
EScalar(version, ev, ch, n, w, rows, pis) ==
  LET oz == OpenedAtZ(version) IN
  FAdd(FAdd(FNeg(R0(ev, ch, n, w, rows, pis)),
            Sum([i \in 1..Len(oz) |-> FMul(Pow(ch.v, i), ev[oz[i][2]])])),
       FMul(ch.u,
            FAdd(ev.z_eval,
                 Sum([j \in 1..Len(OpenedAtZw) |->
                        FMul(Pow(ch.v_w, j), ev[OpenedAtZw[j][2]])]))))

(* -------------------------- textbook expansion ------------------------- *)
\* z W_z + u z w W_zw + F - E  as a list of <<point, scalar>> terms
\* D: the linearisation commitment (non-constant part of the identity)
DTerms(ev, ch, n) ==
  LET zh == ZH(ch.z, n)
      gates == [s \in 1..G!NSel |-> << SelPoint[s], SelCoefficient(s, ev, ch) >>]
      perm == << << "proof.z_comm", PermIdFactor(ev, ch) >>,
                 << "proof.z_comm", FMul(L1(ch.z, n), Sq(ch.alpha)) >>,
                 << "vk.s_sigma_4", FNeg(FMul(ch.beta, PermSigmaFactor(ev, ch))) >> >>
      quot == << << "proof.t_low_comm", FNeg(zh) >>,
                 << "proof.t_mid_comm", FNeg(FMul(zh, Pow(ch.z, n))) >>,
                 << "proof.t_high_comm", FNeg(FMul(zh, Pow(ch.z, 2 * n))) >>,
                 << "proof.t_fourth_comm", FNeg(FMul(zh, Pow(ch.z, 3 * n))) >> >>
  IN gates \o perm \o quot

TextbookTerms(version, ev, ch, n, w, rows, pis) ==
  LET oz == OpenedAtZ(version)
      \* F - D
      atz == [i \in 1..Len(oz) |-> << oz[i][1], Pow(ch.v, i) >>]
      atzw == << << "proof.z_comm", ch.u >> >>
              \o [j \in 1..Len(OpenedAtZw) |->
                    << OpenedAtZw[j][1], FMul(ch.u, Pow(ch.v_w, j)) >>]
      e == << << "ok.g", FNeg(EScalar(version, ev, ch, n, w, rows, pis)) >> >>
      wit == << << "proof.w_z_chall_comm", ch.z >>,
                << "proof.w_z_chall_w_comm", FMul(ch.u, FMul(ch.z, w)) >> >>
  IN DTerms(ev, ch, n) \o atz \o atzw \o e \o wit

RECURSIVE GroupRec(_, _, _)
GroupRec(terms, name, i) ==
  IF i > Len(terms) THEN Zero
  ELSE IF terms[i][1] = name THEN FAdd(terms[i][2], GroupRec(terms, name, i + 1))
  ELSE GroupRec(terms, name, i + 1)
GroupSum(terms, name) == GroupRec(terms, name, 1)

(* ----------------------- the verifier's scalar map --------------------- *)
\* every point that can carry a scalar in the right pairing input
PointNames ==
  << "vk.q_m", "vk.q_l", "vk.q_r", "vk.q_o", "vk.q_f", "vk.q_c", "vk.q_arith",
     "vk.q_range", "vk.q_logic", "vk.q_fixed_group_add", "vk.q_variable_group_add",
     "vk.s_sigma_1", "vk.s_sigma_2", "vk.s_sigma_3", "vk.s_sigma_4",
     "proof.a_comm", "proof.b_comm", "proof.c_comm", "proof.d_comm", "proof.z_comm",
     "proof.t_low_comm", "proof.t_mid_comm", "proof.t_high_comm", "proof.t_fourth_comm",
     "proof.w_z_chall_comm", "proof.w_z_chall_w_comm", "ok.g" >>

RightScalar(name, version, ev, ch, n, w, rows, pis) ==
  LET a == ev.a_eval  b == ev.b_eval  c == ev.c_eval  d == ev.d_eval
      aw == ev.a_w_eval  bw == ev.b_w_eval  dw == ev.d_w_eval
      qa == ev.q_arith_eval
      v == ch.v  vw == ch.v_w  u == ch.u
      sel == version # "V1"      \* the four selectors are opened
      vp(k) == IF sel THEN Pow(v, k) ELSE Zero
      zh == ZH(ch.z, n)
      zn == Pow(ch.z, n)
  IN CASE name = "vk.q_m" -> FMul(FMul(a, b), qa)
       [] name = "vk.q_l" -> FAdd(FMul(a, qa), vp(10))
       [] name = "vk.q_r" -> FAdd(FMul(b, qa), vp(11))
       [] name = "vk.q_o" -> FMul(c, qa)
       [] name = "vk.q_f" -> FMul(d, qa)
       [] name = "vk.q_c" -> FAdd(qa, vp(9))
       [] name = "vk.q_arith" -> vp(8)
       [] name = "vk.q_range" -> WidgetSum(G!RangeAtoms(a, b, c, d, dw), ch.range_sep)
       [] name = "vk.q_logic" ->
            WidgetSum(G!LogicAtoms(ev.q_c_eval, a, b, c, d, aw, bw, dw), ch.logic_sep)
       [] name = "vk.q_fixed_group_add" ->
            WidgetSum(G!FixedAtoms(ev.q_l_eval, ev.q_r_eval, ev.q_c_eval,
                                   a, b, c, d, aw, bw, dw), ch.fixed_sep)
       [] name = "vk.q_variable_group_add" ->
            WidgetSum(G!VarAtoms(a, b, c, d, aw, bw, dw), ch.var_sep)
       [] name = "vk.s_sigma_1" -> Pow(v, 5)
       [] name = "vk.s_sigma_2" -> Pow(v, 6)
       [] name = "vk.s_sigma_3" -> Pow(v, 7)
       [] name = "vk.s_sigma_4" -> FNeg(FMul(ch.beta, PermSigmaFactor(ev, ch)))
       [] name = "proof.a_comm" -> FAdd(v, FMul(u, vw))
       [] name = "proof.b_comm" -> FAdd(Pow(v, 2), FMul(u, Pow(vw, 2)))
       [] name = "proof.c_comm" -> Pow(v, 3)
       [] name = "proof.d_comm" -> FAdd(Pow(v, 4), FMul(u, Pow(vw, 3)))
       [] name = "proof.z_comm" ->
            FAdd(FAdd(PermIdFactor(ev, ch), FMul(L1(ch.z, n), Sq(ch.alpha))), u)
       [] name = "proof.t_low_comm" -> FNeg(zh)
       [] name = "proof.t_mid_comm" -> FNeg(FMul(zh, zn))
       [] name = "proof.t_high_comm" -> FNeg(FMul(zh, Sq(zn)))
       [] name = "proof.t_fourth_comm" -> FNeg(FMul(zh, FMul(zn, Sq(zn))))
       [] name = "proof.w_z_chall_comm" -> ch.z
       [] name = "proof.w_z_chall_w_comm" -> FMul(FMul(u, ch.z), w)
       [] name = "ok.g" -> FNeg(EScalar(version, ev, ch, n, w, rows, pis))

\* the left pairing input -(W_z + u W_zw)
LeftTerms(ch) == << << "proof.w_z_chall_comm", FNeg(One) >>,
                    << "proof.w_z_chall_w_comm", FNeg(ch.u) >> >>

(* version in {"V1","V2","V3"}; ev: record of the proof's 15 evaluations
   (field names as in the proof); ch: record of the 11 challenges; n: domain
   size; w: generator of the domain; rows: 0-based public-input rows; pis:
   public-input values.
   Result: status "ok" with the right/left lists of <<point, scalar>>, the
   decision being  e(left, [x]_2) e(right, [1]_2) = 1;  or a rejection that
   needs no pairing. *)
VerifierScalars(version, ev, ch, n, w, rows, pis) ==
  IF Len(pis) # Len(rows) THEN [status |-> "reject:pi-len", right |-> << >>, left |-> << >>]
  ELSE IF ZInDomain(ch.z, w, rows, pis)
  THEN [status |-> "reject:z-in-domain", right |-> << >>, left |-> << >>]
  ELSE [status |-> "ok",
        right |-> [k \in 1..Len(PointNames) |->
                     << PointNames[k],
                        RightScalar(PointNames[k], version, ev, ch, n, w, rows, pis) >>],
        left |-> LeftTerms(ch)]
=============================================================================
