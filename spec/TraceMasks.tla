----------------------------- MODULE TraceMasks -----------------------------
(***************************************************************************)
(* C06, model-based direction: from the parameters of a scenario the       *)
(* specification predicts, BEFORE the implementation runs, how the proof   *)
(* must respond to a change of one of the 14 masking draws.                *)
(*                                                                         *)
(* scenario "diff":  [id, kind, c, k, delta, tau, sg]                      *)
(*    the prover is run under a scripted stream S and under                *)
(*    S[k -> S[k] + delta]; the SRS was generated with secret tau and      *)
(*    generator sg * G (both scripted).  Prediction                        *)
(*    (Masking!ExpectedScalars over the BLS12-381 scalar field):           *)
(*      moved  the commitments that change, each by [scalar] G             *)
(*      same   the commitments that must be byte-identical                 *)
(* scenario "fresh": [id, kind]  two proofs of the same witness under      *)
(*    streams that differ in every draw: every commitment and every        *)
(*    evaluation of a masked polynomial must differ (MustDiffer).          *)
(* output: one line per scenario, a JSON object printed as a string.       *)
(***************************************************************************)
EXTENDS FieldBLS, Json, IOUtils, Sequences, FiniteSets, TLC

M == INSTANCE Masking WITH
       FAdd <- BAdd, FSub <- BSub, FMul <- BMul, FNeg <- BNeg, FInt <- BInt, FInv <- BInv

Rec == ndJsonDeserialize(IOEnv.TRACE)

VARIABLE l

RECURSIVE NextPow2(_, _)
NextPow2(c, p) == IF p >= c THEN p ELSE NextPow2(c, 2 * p)

\* the masked openings: commitments of all committed polynomials and the
\* evaluations of the blinded ones (wires at z and z w, z at z w)
MustDiffer == << "a_comm", "b_comm", "c_comm", "d_comm", "z_comm", "t_low_comm",
                 "t_mid_comm", "t_high_comm", "t_fourth_comm", "w_z_chall_comm",
                 "w_z_chall_w_comm", "a_eval", "b_eval", "c_eval", "d_eval",
                 "a_w_eval", "b_w_eval", "d_w_eval", "z_eval" >>

SetToSeq(S) == LET names == M!CommittedNames
               IN SelectSeq(names, LAMBDA nm : nm \in S)

Predict(e) ==
  IF e.kind = "fresh"
  THEN [tag |-> "EXPECT", id |-> e.id, kind |-> "fresh", n |-> 0, draws |-> 14,
        moved |-> << >>, same |-> << >>, differ |-> MustDiffer]
  ELSE LET n == NextPow2(e.c, 1) IN
       [tag |-> "EXPECT", id |-> e.id, kind |-> "diff", n |-> n, draws |-> 14,
        moved |-> M!ExpectedScalars(e.k, e.delta, n, e.tau, e.sg),
        same |-> SetToSeq(M!Unchanged(e.k, e.delta, n)),
        differ |-> << >>]

Init == l \in 1..Len(Rec)
Next == /\ l > 0
        /\ PrintT(ToJson(Predict(Rec[l])))
        /\ l' = 0
Spec == Init /\ [][Next]_l

Accepted == TLCGet("stats").distinct = Len(Rec) + 1
=============================================================================
