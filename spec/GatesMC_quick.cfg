SPECIFICATION Spec
CONSTANT P = 37
CONSTANT D = 2
CONSTANT Q = 5
CONSTANT NS = 16
INVARIANT Inv
CHECK_DEADLOCK FALSE
