SPECIFICATION Spec
CONSTANT Family = "subgroup"
CONSTANT Tier = "thorough"
INVARIANT Emit
INVARIANT PointsInv
CHECK_DEADLOCK FALSE
