---- MODULE _DbgDetcomp ----
EXTENDS CompressMC
CONSTANT Stage
h == C!Container(C!PayloadOf(c, TRUE, <<>>, TRUE))
T1 == PrintT(<<"payload", h>>)
T2 == PrintT(<<"decomp", C!Decompress(h, 5)>>)
T3 == PrintT(<<"pre", C!Preprocess(c)>>)
T4 == PrintT(<<"pre2", C!Preprocess(C!Decompress(h, 5).composer)>>)
T5 == PrintT(<<"rows", C!CompressRows(c.rows, 1, C!BaseDict(TRUE), <<>>, <<>>)>>)
Dbg == IF Stage = 1 THEN T1 ELSE IF Stage = 2 THEN T2 ELSE IF Stage = 3 THEN T3 ELSE IF Stage = 4 THEN T4 ELSE T5
====
