-------------------------------- MODULE KzgMC --------------------------------
(***************************************************************************)
(* Exhaustive model checking of Kzg over a small prime field with a FORMAL *)
(* secret (C20).                                                           *)
(*                                                                         *)
(* The state graph is a tree: root -> group (family) -> pending case ->    *)
(* case; every invariant is named after the clause of the property it      *)
(* decides and constrains the cases of its own family.                     *)
(*   key     Setup(d) for many d, every Truncate, Trim against the degrees *)
(*           the prover commits (DESIGN A.1)                               *)
(*   commit  linearity, zero -> identity, degree beyond the key -> Err     *)
(*   open    ALL polynomials up to OpenLen coefficients, all points, all   *)
(*           claimed values: the opening verifies iff the value is true    *)
(*   forge   all polynomials up to ForgeLen coefficients and ALL witness   *)
(*           polynomials up to ForgeLen coefficients: no witness makes a   *)
(*           wrong value pass                                              *)
(*   agg     1..3 polynomials at one point, every position / value of a    *)
(*           wrong claim, all challenges                                   *)
(*   batch   1..3 openings at different points, one wrong evaluation       *)
(*           anywhere, wrong witness, swapped entries, empty and           *)
(*           mismatched batches, all challenges                            *)
(***************************************************************************)
EXTENDS Naturals, Sequences, FiniteSets, TLC

CONSTANTS P,          \* the prime
          OpenLen,    \* "open": all polynomials with at most this many coefficients
          ForgeLen,   \* "forge": all polynomials / witnesses up to this length (0: off)
          Fams        \* families explored

SAdd(a, b) == (a + b) % P
SSub(a, b) == (a + P - b) % P
SMul(a, b) == (a * b) % P
SNeg(a) == (P - a) % P
SInt(k) == k % P
RECURSIVE SPow(_, _)
SPow(a, k) == IF k = 0 THEN 1
              ELSE LET h == SPow(a, k \div 2) IN
                   IF k % 2 = 1 THEN (((h * h) % P) * a) % P ELSE (h * h) % P
InvTab == TLCEval([a \in 1..(P - 1) |-> SPow(a, P - 2)])
SInv(a) == IF a = 0 THEN 0 ELSE InvTab[a]

K == INSTANCE Kzg WITH FAdd <- SAdd, FSub <- SSub, FMul <- SMul, FNeg <- SNeg,
                       FInv <- SInv, FInt <- SInt
Pl == INSTANCE Poly WITH FAdd <- SAdd, FSub <- SSub, FMul <- SMul, FNeg <- SNeg,
                         FInv <- SInv, FInt <- SInt

F == 0..(P - 1)
X == K!FormalSecret

RECURSIVE AllSeqs(_)
AllSeqs(len) == IF len = 0 THEN {<<>>}
                ELSE {Append(s, a) : s \in AllSeqs(len - 1), a \in F}
AllUpTo(len) == UNION {AllSeqs(k) : k \in 0..len}

PR(k, len) == [i \in 1..len |-> (k * 7919 + i * i * 31 + i * k * 17 + 3) % P]
\* a polynomial of exact degree deg
OfDegree(k, deg) == [i \in 1..(deg + 1) |-> IF i = deg + 1 THEN 1 + (k % (P - 1)) ELSE PR(k, deg + 1)[i]]

\* the reference key for the opening families: setup(1), generator scalars 2, 3
RefKey == K!Setup(1, X, 2, 3).val

PolyPool == <<<<>>, <<3>>, <<1, 2>>, <<5, 0, 7>>, <<2, P - 2, 0, 4>>>>
PointPool == <<0, 1, 6 % P, P - 1>>
\* (polynomial, point) pairs
EntryPool == {<<PolyPool[i], PointPool[j]>> : i \in 1..Len(PolyPool), j \in 1..Len(PointPool)}
SmallEntryPool == {<<PolyPool[2], 0>>, <<PolyPool[3], 1>>, <<PolyPool[3], P - 1>>,
                   <<PolyPool[4], 1>>, <<PolyPool[5], 6 % P>>, <<PolyPool[1], 1>>}

AllGroups ==
  {[fam |-> "key"], [fam |-> "commit"], [fam |-> "open"], [fam |-> "forge"],
   [fam |-> "agg"], [fam |-> "batch"]}
Groups == {g \in AllGroups : g.fam \in Fams}

Cases(g) ==
  IF g.fam = "key" THEN
    {[fam |-> "key", d |-> d, sg |-> sg, sh |-> sh] :
       d \in {0, 1, 2, 3, 4, 10, 16, 17, 26, 27}, sg \in {1, 2}, sh \in {1, P - 1}}
  ELSE IF g.fam = "commit" THEN
    {[fam |-> "commit", t |-> t, a |-> a, b |-> b] :
       t \in {7}, a \in AllUpTo(2), b \in AllUpTo(IF OpenLen >= 4 THEN 2 ELSE 1)}
    \cup {[fam |-> "commit", t |-> t, a |-> OfDegree(t + j, j), b |-> OfDegree(j, t)] :
            t \in 1..9, j \in 0..11}
  ELSE IF g.fam = "open" THEN
    {[fam |-> "open", p |-> p] : p \in AllUpTo(OpenLen)}
  ELSE IF g.fam = "forge" THEN
    {[fam |-> "forge", p |-> p] : p \in AllUpTo(ForgeLen)}
  ELSE IF g.fam = "agg" THEN
    {[fam |-> "agg", ps |-> ps, z |-> z] :
       ps \in UNION {[1..k -> {PolyPool[i] : i \in 1..Len(PolyPool)}] : k \in 1..3}, z \in {0, 1, 6 % P, P - 1}}
  ELSE \* batch
    {[fam |-> "batch", es |-> es] :
       es \in [1..1 -> EntryPool] \cup [1..2 -> EntryPool] \cup [1..3 -> SmallEntryPool]}

VARIABLES phase, c
vars == <<phase, c>>

Init == phase = "root" /\ c = [fam |-> "none"]
Next ==
  \/ /\ phase = "root"
     /\ \E g \in Groups : c' = g /\ phase' = "group"
  \/ /\ phase = "group"
     /\ \E k \in Cases(c) : c' = k /\ phase' = "pending"
  \/ /\ phase = "pending"
     /\ c' = c /\ phase' = "case"
Spec == Init /\ [][Next]_vars

Is(f) == phase = "case" /\ c.fam = f

IsPrefix(a, b) == Len(a) <= Len(b) /\ a = SubSeq(b, 1, Len(a))

(***************************************************************************)
(* setup and trim                                                          *)
(***************************************************************************)
\* generated parameters are consecutive powers of ONE secret in G1 with
\* matching G2 elements
SetupGivesConsistentSrs ==
  Is("key") =>
    LET r == K!Setup(c.d, X, c.sg, c.sh)
    IN IF c.d < 1 THEN ~r.ok /\ r.err = "DegreeIsZero"
       ELSE /\ r.ok
            /\ Len(r.val.powers) = c.d + 7
            /\ K!SrsConsistent(r.val.powers, r.val.g, r.val.h, r.val.xh)
            \* formal content: power i is s_g X^i
            /\ \A i \in 1..Len(r.val.powers) :
                 r.val.powers[i] = [j \in 1..i |-> IF j = i THEN c.sg ELSE 0]

\* every truncation is a consistent prefix of the right length, or the
\* documented error
TruncateKeepsConsistentPrefix ==
  (Is("key") /\ c.d >= 1) =>
    LET pp == K!Setup(c.d, X, c.sg, c.sh).val
        max == K!MaxDegree(pp.powers)
    IN \A t \in 0..(max + 2) :
         LET r == K!Truncate(pp.powers, t)
         IN IF t = 0 THEN r.err = "TruncatedDegreeIsZero"
            ELSE IF t > max THEN r.err = "TruncatedDegreeTooLarge"
            ELSE /\ r.ok
                 /\ IsPrefix(r.val, pp.powers)
                 /\ K!MaxDegree(r.val) = (IF t = 1 THEN 2 ELSE t)
                 /\ K!SrsConsistent(r.val, pp.g, pp.h, pp.xh)

\* trimming for a circuit keeps a prefix long enough for every polynomial
\* the prover commits to; it fails exactly when the parameters are too small
TrimKeepsEveryProverDegree ==
  (Is("key") /\ c.d >= 1) =>
    LET pp == K!Setup(c.d, X, c.sg, c.sh).val
        max == K!MaxDegree(pp.powers)
    IN \A cons \in 4..27 :
         LET n == K!CompileTrim(cons)
             size == K!CompileSize(cons)
             r == K!Trim(pp, n)
         IN /\ r.ok <=> (n + 6 <= max)
            /\ ~r.ok => r.err = "TruncatedDegreeTooLarge"
            /\ r.ok =>
                 /\ K!MaxDegree(r.val) = n + 6
                 /\ \A deg \in K!ProverDegrees(size) :
                      /\ deg <= K!MaxDegree(r.val)
                      /\ K!Commit(r.val, OfDegree(cons, deg)).ok

(***************************************************************************)
(* commitments                                                             *)
(***************************************************************************)
KeyOf(t) == K!Truncate(K!Setup(3, X, 2, 3).val.powers, t).val    \* setup(3): max degree 9

\* a commitment is the linear image of the coefficient vector
CommitIsLinear ==
  (Is("commit") /\ c.t = 7 /\ Pl!Degree(c.a) <= 7 /\ Pl!Degree(c.b) <= 7) =>
    LET key == KeyOf(c.t)
        ca == K!Commit(key, c.a)
        cb == K!Commit(key, c.b)
    IN /\ ca.ok /\ cb.ok
       /\ K!Commit(key, Pl!PAdd(c.a, c.b)).val = K!GAdd(ca.val, cb.val)
       /\ K!Commit(key, Pl!PSub(c.a, c.b)).val = K!GSub(ca.val, cb.val)
       /\ \A k \in {0, 1, 5 % P, P - 1} : K!Commit(key, Pl!PScale(c.a, k)).val = K!GScale(ca.val, k)
       \* formal content: the commitment is s_g a(X)
       /\ ca.val = Pl!Norm(Pl!PScale(c.a, 2))
       \* binding in the ideal model
       /\ (ca.val = cb.val) <=> Pl!PEq(c.a, c.b)

\* the zero polynomial (however it is written) commits to the identity
CommitOfZeroIsIdentity ==
  (Is("commit") /\ Pl!IsZeroPoly(c.a)) => K!Commit(KeyOf(c.t), c.a) = K!Ok(K!GId)

\* committing beyond the key's degree fails with an error, up to it succeeds
CommitBeyondKeyDegreeErrs ==
  Is("commit") =>
    \A p \in {c.a, c.b} :
      LET key == KeyOf(c.t)
          r == K!Commit(key, p)
      IN IF Pl!Degree(p) > K!MaxDegree(key)
         THEN ~r.ok /\ r.err = "PolynomialDegreeTooLarge"
         ELSE r.ok /\ r.val = Pl!Norm(Pl!PScale(p, 2))

(***************************************************************************)
(* single openings                                                         *)
(***************************************************************************)
\* for every polynomial, point and claimed value: the honest opening verifies
\* iff the claimed value is the true one (also through batch_check of size 1)
OpeningVerifiesIffValueTrue ==
  Is("open") =>
    LET cp == TLCEval(K!Commit(RefKey.powers, c.p).val)
    IN \A z \in F :
         LET w == TLCEval(K!Commit(RefKey.powers, K!AggregateWitness(<<c.p>>, z, 1)).val)
             truth == Pl!Eval(c.p, z)
         IN \A e \in F :
              LET proof == [w |-> w, e |-> e, c |-> cp]
                  good == (e = truth)
              IN /\ proof = K!Open(RefKey.powers, c.p, z, e) \/ e # truth   \* (Open = these parts)
                 /\ K!CheckSingle(RefKey, z, proof) <=> good
                 /\ K!BatchCheck(RefKey, <<z>>, <<proof>>, 1 + (e % (P - 1)))
                      = (IF good THEN "ok" ELSE "err:PairingCheckFailure")

\* NO witness polynomial makes a wrong value pass; a right value passes
\* only with the true quotient
NoWitnessOpensAWrongValue ==
  Is("forge") =>
    \A z \in F : \A e \in F : \A w \in AllUpTo(ForgeLen) :
      LET proof == [w |-> K!Commit(RefKey.powers, w).val, e |-> e,
                    c |-> K!Commit(RefKey.powers, c.p).val]
      IN K!CheckSingle(RefKey, z, proof) <=>
           (e = Pl!Eval(c.p, z) /\ Pl!Norm(w) = K!AggregateWitness(<<c.p>>, z, 1))

(***************************************************************************)
(* aggregated openings: several polynomials at one point                   *)
(***************************************************************************)
Count(S) == Cardinality(S)
\* wrong-value offsets: all of them for one or two entries, three for triples
Deltas(k) == IF k <= 2 THEN 1..(P - 1) ELSE {1, 6 % P, P - 1}

AggPasses(ps, z, evals, v) ==
  LET comms == [i \in 1..Len(ps) |-> K!Commit(RefKey.powers, ps[i]).val]
      w == K!Commit(RefKey.powers, K!AggregateWitness(ps, z, v)).val
      flat == K!Flatten(w, evals, comms, v)
  IN flat.ok /\ K!CheckSingle(RefKey, z, flat.val)

\* with all values true every challenge accepts; with any value wrong at most
\* (number of polynomials - 1) challenges accept
AggregatedOpeningVerifiesIffAllValuesTrue ==
  Is("agg") =>
    LET k == Len(c.ps)
        truth == [i \in 1..k |-> Pl!Eval(c.ps[i], c.z)]
    IN /\ \A v \in F : AggPasses(c.ps, c.z, truth, v)
       \* one wrong value anywhere, every wrong value
       /\ \A j \in 1..k : \A d \in Deltas(k) :
            Count({v \in F : AggPasses(c.ps, c.z, [truth EXCEPT ![j] = SAdd(@, d)], v)}) <= k - 1
       \* two wrong values
       /\ k >= 2 => \A d \in Deltas(3) :
            Count({v \in F : AggPasses(c.ps, c.z, [truth EXCEPT ![1] = SAdd(@, d), ![k] = SAdd(@, 1)], v)}) <= k - 1
       \* swapped values
       /\ k >= 2 =>
            LET sw == [truth EXCEPT ![1] = truth[k], ![k] = truth[1]]
            IN IF sw = truth THEN \A v \in F : AggPasses(c.ps, c.z, sw, v)
               ELSE Count({v \in F : AggPasses(c.ps, c.z, sw, v)}) <= k - 1

\* flatten is the v-linear combination; an empty aggregate is refused
FlattenIsLinearCombination ==
  Is("agg") =>
    LET k == Len(c.ps)
        comms == [i \in 1..k |-> K!Commit(RefKey.powers, c.ps[i]).val]
        evals == [i \in 1..k |-> Pl!Eval(c.ps[i], c.z)]
    IN /\ \A v \in {0, 1, 5 % P, P - 1} :
            LET f == K!Flatten(<<>>, evals, comms, v).val
                vp == Pl!Powers(v, k)
            IN /\ f.e = Pl!Sum([i \in 1..k |-> SMul(evals[i], vp[i])])
               /\ f.c = K!Commit(RefKey.powers, K!Combine(c.ps, v)).val
       /\ ~K!Flatten(<<>>, <<>>, <<>>, 1).ok

(***************************************************************************)
(* batched openings: several points                                        *)
(***************************************************************************)
Honest(es) == [i \in 1..Len(es) |-> K!Open(RefKey.powers, es[i][1], es[i][2], Pl!Eval(es[i][1], es[i][2]))]
Points(es) == [i \in 1..Len(es) |-> es[i][2]]

\* an entry is valid: its commitment is s_g p(X) for a polynomial p (read
\* off the formal commitment), the claimed value is p(point) and the witness
\* commits to the true quotient
Committed(cm) == Pl!Norm(Pl!PScale(cm, SInv(2)))          \* RefKey has s_g = 2
Valid(es, pts, proofs, i) ==
  LET p == Committed(proofs[i].c)
  IN /\ proofs[i].e = Pl!Eval(p, pts[i])
     /\ proofs[i].w = K!Commit(RefKey.powers, K!AggregateWitness(<<p>>, pts[i], 1)).val

Accepting(pts, proofs) == {u \in F : K!BatchCheck(RefKey, pts, proofs, u) = "ok"}

\* all valid: every challenge accepts; some entry invalid: at most
\* (batch size - 1) challenges accept
BatchJudged(es, pts, proofs) ==
  IF \A i \in 1..Len(proofs) : Valid(es, pts, proofs, i)
  THEN Accepting(pts, proofs) = F
  ELSE Count(Accepting(pts, proofs)) <= Len(proofs) - 1

BatchVerifiesIffEveryEntryTrue ==
  Is("batch") =>
    LET k == Len(c.es)
        pts == Points(c.es)
        hon == Honest(c.es)
    IN /\ Accepting(pts, hon) = F
       \* one wrong evaluation anywhere
       /\ \A j \in 1..k : \A d \in Deltas(k) :
            BatchJudged(c.es, pts, [hon EXCEPT ![j].e = SAdd(@, d)])
       \* wrong witness anywhere (the witness of another opening, or none)
       /\ \A j \in 1..k :
            /\ BatchJudged(c.es, pts, [hon EXCEPT ![j].w = K!GId])
            /\ BatchJudged(c.es, pts, [hon EXCEPT ![j].w = K!GAdd(@, <<1>>)])
            /\ BatchJudged(c.es, pts, [hon EXCEPT ![j].w = hon[(j % k) + 1].w])
       \* wrong commitment
       /\ \A j \in 1..k : BatchJudged(c.es, pts, [hon EXCEPT ![j].c = K!GAdd(@, <<0, 1>>)])
       \* swapped entries: evaluations, witnesses, points, whole proofs
       /\ k >= 2 =>
            /\ BatchJudged(c.es, pts, [hon EXCEPT ![1].e = hon[k].e, ![k].e = hon[1].e])
            /\ BatchJudged(c.es, pts, [hon EXCEPT ![1].w = hon[k].w, ![k].w = hon[1].w])
            /\ BatchJudged(c.es, [pts EXCEPT ![1] = pts[k], ![k] = pts[1]], hon)
            /\ BatchJudged(c.es, pts, [hon EXCEPT ![1] = hon[k], ![k] = hon[1]])
            \* points and proofs swapped together: still a valid batch
            /\ Accepting([pts EXCEPT ![1] = pts[k], ![k] = pts[1]],
                         [hon EXCEPT ![1] = hon[k], ![k] = hon[1]]) = F

\* empty and mismatched batches are refused before any pairing
EmptyAndMismatchedBatchesAreRefused ==
  Is("batch") =>
    LET pts == Points(c.es)
        hon == Honest(c.es)
    IN \A u \in {0, 1, 7 % P} :
         /\ K!BatchCheck(RefKey, <<>>, <<>>, u) = "err:ProofVerificationError"
         /\ K!BatchCheck(RefKey, pts, <<>>, u) = "err:ProofVerificationError"
         /\ K!BatchCheck(RefKey, <<>>, hon, u) = "err:ProofVerificationError"
         /\ K!BatchCheck(RefKey, Append(pts, 1), hon, u) = "err:ProofVerificationError"
         /\ K!BatchCheck(RefKey, SubSeq(pts, 1, Len(pts) - 1), hon, u) = "err:ProofVerificationError"
         /\ K!BatchCheck(RefKey, pts, Append(hon, hon[1]), u) = "err:ProofVerificationError"

\* the batch challenge is derived after binding the length and, per entry,
\* the point, the commitment, the evaluation and the witness: two batches
\* with the same bound items are the same batch
BatchChallengeBindsEveryField ==
  Is("batch") =>
    LET pts == Points(c.es)
        hon == Honest(c.es)
        items == K!BatchChallengeItems(pts, hon)
    IN /\ Len(items) = 2 + 4 * Len(hon)
       /\ items[2] = <<"batch-len", Len(hon)>>
       /\ \A j \in 1..Len(hon) :
            /\ items[2 + 4 * (j - 1) + 1] = <<"batch-point", pts[j]>>
            /\ items[2 + 4 * (j - 1) + 2] = <<"batch-polynomial-commitment", hon[j].c>>
            /\ items[2 + 4 * (j - 1) + 3] = <<"batch-evaluation", hon[j].e>>
            /\ items[2 + 4 * (j - 1) + 4] = <<"batch-witness-commitment", hon[j].w>>
=============================================================================
