SPECIFICATION Spec
CONSTANT Family = "arith"
CONSTANT Tier = "quick"
INVARIANT Emit
CHECK_DEADLOCK FALSE
