SPECIFICATION Spec
CONSTANTS
  Padding = 6
  Blinding = 6
  CapSlack = 0
  TableMax = 300
  Caps <- C04Caps
  ProgsFor <- C04ProgsFor
  RoutesFor <- C04Routes
  LabelsFor <- C04Labels
  RoundTrips <- C04RoundTrips
  ProveVersions <- C04ProveVersions
  VerifyVersions <- C04VerifyVersions
  PIEditKinds = {"add1", "zero", "copy", "perm", "trunc", "extend"}
  VerifierEditKinds = {"sel", "wire", "pirow", "pimove", "rows", "same", "label"}
  ProofEditKinds = {"mutate"}
  SpliceSets <- NoSplices
  SpliceProgs = {}
  ViolationKinds = {}
  ViolationPick <- NoPick
  MaxEdits = 1
  Emit = TRUE
VIEW viewAll
INVARIANTS Completeness BindsStatement BindsDescription TamperRejected FamilySatisfied Typed EmitScenario
CHECK_DEADLOCK FALSE
