SPECIFICATION Spec
CONSTANTS
  Padding = 6
  Blinding = 6
  CapSlack = 0
  TableMax = 40000
  Caps <- C01Caps
  ProgsFor <- C01ProgsFor
  RoutesFor <- C01Routes
  LabelsFor <- C01Labels
  RoundTrips <- C01RoundTrips
  ProveVersions <- C01ProveVersions
  VerifyVersions <- C01VerifyVersions
  PIEditKinds = {}
  VerifierEditKinds = {}
  ProofEditKinds = {}
  SpliceSets <- NoSplices
  SpliceProgs = {}
  ViolationKinds = {}
  ViolationPick <- NoPick
  MaxEdits = 0
  Emit = TRUE
VIEW viewAll
INVARIANTS Completeness FamilySatisfied Typed EmitScenario
CHECK_DEADLOCK FALSE
