SPECIFICATION Spec
CONSTANTS
  NW = 3
  Rows = 2
  WireMode = "abc"
  SortKeys = TRUE
INVARIANTS
  SigmaIndependent
  PiIndependent
  WritesDisjoint
CHECK_DEADLOCK FALSE
