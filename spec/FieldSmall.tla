----------------------------- MODULE FieldSmall -----------------------------
(* A small prime field on TLC integers (P <= 46337 so that products fit in
   32 bits): the instantiation of the FieldOps interface used for exhaustive
   model checking. *)
EXTENDS Integers
CONSTANT P
SAdd(a, b) == (a + b) % P
SSub(a, b) == (a - b + P) % P
SMul(a, b) == (a * b) % P
SNeg(a) == (P - a) % P
SInt(k) == IF k >= 0 THEN k % P ELSE (P - ((0 - k) % P)) % P
RECURSIVE SPowI(_, _)
SPowI(a, k) == IF k = 0 THEN 1 % P
               ELSE IF k % 2 = 0 THEN SPowI(SMul(a, a), k \div 2)
               ELSE SMul(a, SPowI(SMul(a, a), k \div 2))
SInv(a) == IF a = 0 THEN 0 ELSE SPowI(a, P - 2)
F == 0..(P - 1)
=============================================================================
