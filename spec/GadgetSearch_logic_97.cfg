SPECIFICATION Spec
CONSTANT P = 29
CONSTANT NBits = 5
CONSTANT D = 3
CONSTANT Q = 3
CONSTANT Family = "logic"
CONSTANT Tier = "thorough"
CONSTANT Weaken = "none"
INVARIANT Sound
INVARIANT Complete
CHECK_DEADLOCK FALSE
