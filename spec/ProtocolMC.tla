----------------------------- MODULE ProtocolMC -----------------------------
(***************************************************************************)
(* Model checking of the verifier's equation over the prime field F_97     *)
(* (C03b).  A point of the input space is a vector of 41 field elements:   *)
(*   1..15   the proof's evaluations (order of Transcript!EvalNames)       *)
(*   16..26  the eleven challenges (order of Transcript!ChallengeOrder)    *)
(*   27..28  two public-input values (rows PiRows)                         *)
(*   29..35  evaluations at z of the selectors that are not opened         *)
(*           (q_m q_o q_f q_range q_logic q_fixed q_var)                   *)
(*   36..41  z(z), s_sigma_4(z), t_low(z) t_mid(z) t_high(z) t_fourth(z)   *)
(* For every entry <<i, j, version, n>> of Pairs the coordinates i and j    *)
(* range over the whole field (exhaustive, 97^2 points) while the others   *)
(* keep the value of the seeded vector Base; version 1 = the V1 opening    *)
(* layout, 3 = V2/V3; n = domain size.                                     *)
(*                                                                         *)
(* Invariants (judged at the leaves):                                      *)
(*   ScalarMapIsTextbook  the grouped map VerifierScalars equals the       *)
(*        term-by-term sum of  z W_z + u z w W_zw + F - E                  *)
(*   LinearisationIsIdentity  substituting the polynomial evaluations for  *)
(*        the commitments in D and adding r_0 gives the protocol's full    *)
(*        identity at z (gate part + public inputs + both permutation      *)
(*        terms - Z_H t): D and r_0 are the linearisation of exactly that  *)
(*        identity                                                         *)
(*   GateIdentityIsQuotientForm  the gate part equals the form the prover  *)
(*        divides (arithmetic atom of Gates + SUM sep q_w SUM kappa^j atom)*)
(*   BatchedOpeningConsistent  E is the value at the two points of the     *)
(*        batched polynomial committed by F when every opened polynomial   *)
(*        takes the evaluation carried in the proof                        *)
(***************************************************************************)
EXTENDS Naturals, Sequences, FiniteSets, TLC, Json, IOUtils

CONSTANTS P,         \* prime modulus
          Gen,       \* generator of the multiplicative group
          Sizes      \* set of domain sizes (powers of two dividing P-1)

(* base vector (41 entries), coordinate pairs and the 0-based rows of the two
   public inputs: from the JSON file named by the environment variable
   PMC_PARAMS (written by the driver from VERIF_SEED), else these defaults *)
DefaultParams ==
  [base |-> <<18, 73, 9, 33, 16, 64, 58, 61, 84, 49, 27, 13, 63, 4, 50, 56, 78, 1, 90, 58, 35, 93, 30, 76, 14, 41, 4, 3, 4, 84, 70, 2, 49, 88, 28, 55, 93, 4, 68, 29, 57>>,
   pairs |-> << <<23, 24, 3, 8>>, <<1, 16, 1, 4>>, <<27, 23, 3, 4>>, <<12, 36, 3, 8>> >>,
   pirows |-> <<0, 2>>]
Params == IF "PMC_PARAMS" \in DOMAIN IOEnv THEN JsonDeserialize(IOEnv.PMC_PARAMS)
          ELSE DefaultParams
Base == Params.base
Pairs == Params.pairs
PiRows == Params.pirows

SAdd(a, b) == (a + b) % P
SSub(a, b) == (a + P - b) % P
SMul(a, b) == (a * b) % P
SNeg(a) == (P - a) % P
SInt(k) == k % P
InvTab == [a \in 1..(P - 1) |-> CHOOSE x \in 1..(P - 1) : (a * x) % P = 1]
SInv(a) == IF a = 0 THEN 0 ELSE InvTab[a]

Pr == INSTANCE Protocol WITH
        FAdd <- SAdd, FSub <- SSub, FMul <- SMul, FNeg <- SNeg, FInt <- SInt,
        FInv <- SInv, EdD <- 7
G == INSTANCE Gates WITH
        FAdd <- SAdd, FSub <- SSub, FMul <- SMul, FNeg <- SNeg, FInt <- SInt, EdD <- 7

Omega(n) == Pr!Pow(Gen, (P - 1) \div n)

VARIABLES lvl, pr, ver, n, x, y
vars == <<lvl, pr, ver, n, x, y>>

Init == lvl = 0 /\ pr = 0 /\ ver = "V3" /\ n = 0 /\ x = 0 /\ y = 0
Next ==
  \/ /\ lvl = 0
     /\ pr' \in 1..Len(Pairs)
     /\ ver' = (IF Pairs[pr'][3] = 1 THEN "V1" ELSE "V3")
     /\ n' = Pairs[pr'][4] /\ n' \in Sizes
     /\ lvl' = 1 /\ UNCHANGED <<x, y>>
  \/ /\ lvl = 1 /\ x' \in 0..(P - 1) /\ lvl' = 2 /\ UNCHANGED <<pr, ver, n, y>>
  \/ /\ lvl = 2 /\ y' \in 0..(P - 1) /\ lvl' = 3 /\ UNCHANGED <<pr, ver, n, x>>
Spec == Init /\ [][Next]_vars

Vec == [k \in 1..41 |-> IF k = Pairs[pr][1] THEN x
                        ELSE IF k = Pairs[pr][2] THEN y ELSE Base[k]]

EvOf(v) == [a_eval |-> v[1], b_eval |-> v[2], c_eval |-> v[3], d_eval |-> v[4],
            s_sigma_1_eval |-> v[5], s_sigma_2_eval |-> v[6], s_sigma_3_eval |-> v[7],
            z_eval |-> v[8], a_w_eval |-> v[9], b_w_eval |-> v[10], d_w_eval |-> v[11],
            q_arith_eval |-> v[12], q_c_eval |-> v[13], q_l_eval |-> v[14],
            q_r_eval |-> v[15]]
ChOf(v) == [beta |-> v[16], gamma |-> v[17], alpha |-> v[18], range_sep |-> v[19],
            logic_sep |-> v[20], fixed_sep |-> v[21], var_sep |-> v[22], z |-> v[23],
            v |-> v[24], v_w |-> v[25], u |-> v[26]]
PisOf(v) == << v[27], v[28] >>
\* the 11 selector evaluations in Gates order
SelOf(v) == << v[29], v[14], v[15], v[30], v[31], v[13], v[12], v[32], v[33], v[34], v[35] >>

\* value of a commitment's polynomial at the point it is opened at
ValueOf(v, name) ==
  LET sel == SelOf(v) IN
  CASE name = "proof.z_comm" -> v[36]
    [] name = "vk.s_sigma_4" -> v[37]
    [] name = "proof.t_low_comm" -> v[38]
    [] name = "proof.t_mid_comm" -> v[39]
    [] name = "proof.t_high_comm" -> v[40]
    [] name = "proof.t_fourth_comm" -> v[41]
    [] OTHER -> sel[CHOOSE s \in 1..11 : Pr!SelPoint[s] = name]

RECURSIVE EvalTerms(_, _, _)
EvalTerms(terms, v, i) ==
  IF i > Len(terms) THEN 0
  ELSE SAdd(SMul(terms[i][2], ValueOf(v, terms[i][1])), EvalTerms(terms, v, i + 1))

Leaf == lvl = 3

ScalarMapIsTextbook ==
  Leaf =>
    LET v == Vec
        ev == EvOf(v)  ch == ChOf(v)  w == Omega(n)
        vs == Pr!VerifierScalars(ver, ev, ch, n, w, PiRows, PisOf(v))
        tb == Pr!TextbookTerms(ver, ev, ch, n, w, PiRows, PisOf(v))
    IN vs.status = "ok" =>
         /\ \A k \in 1..Len(Pr!PointNames) :
              vs.right[k][2] = Pr!GroupSum(tb, Pr!PointNames[k])
         /\ \A i \in 1..Len(tb) : \E k \in 1..Len(Pr!PointNames) : tb[i][1] = Pr!PointNames[k]
         /\ vs.left = << << "proof.w_z_chall_comm", P - 1 >>,
                         << "proof.w_z_chall_w_comm", SNeg(ch.u) >> >>

\* the protocol's identity at z (DESIGN A.3), everything evaluated
FullIdentity(v, nn) ==
  LET ev == EvOf(v)  ch == ChOf(v)  w == Omega(nn)
      a == ev.a_eval  b == ev.b_eval  c == ev.c_eval  d == ev.d_eval
      bz == SMul(ch.beta, ch.z)
      l1 == Pr!L1(ch.z, nn)
      zv == v[36]
      idp == Pr!Prod4(SAdd(SAdd(a, bz), ch.gamma),
                      SAdd(SAdd(b, SMul(7, bz)), ch.gamma),
                      SAdd(SAdd(c, SMul(13, bz)), ch.gamma),
                      SAdd(SAdd(d, SMul(17, bz)), ch.gamma))
      sgp == Pr!Prod4(SAdd(SAdd(a, SMul(ch.beta, ev.s_sigma_1_eval)), ch.gamma),
                      SAdd(SAdd(b, SMul(ch.beta, ev.s_sigma_2_eval)), ch.gamma),
                      SAdd(SAdd(c, SMul(ch.beta, ev.s_sigma_3_eval)), ch.gamma),
                      SAdd(SAdd(d, SMul(ch.beta, v[37])), ch.gamma))
      t == SAdd(SAdd(v[38], SMul(Pr!Pow(ch.z, nn), v[39])),
                SAdd(SMul(Pr!Pow(ch.z, 2 * nn), v[40]), SMul(Pr!Pow(ch.z, 3 * nn), v[41])))
  IN SSub(SAdd(SAdd(SAdd(Pr!GateIdentity(SelOf(v), ev, ch),
                         Pr!PiEval(ch.z, nn, w, PiRows, PisOf(v))),
                    SMul(ch.alpha, SSub(SMul(idp, zv), SMul(sgp, ev.z_eval)))),
               SMul(SMul(ch.alpha, ch.alpha), SMul(SSub(zv, 1), l1))),
          SMul(Pr!ZH(ch.z, nn), t))

LinearisationIsIdentity ==
  Leaf =>
    LET v == Vec
        ev == EvOf(v)  ch == ChOf(v)  w == Omega(n)
    IN ~Pr!ZInDomain(ch.z, w, PiRows, PisOf(v)) =>
         SAdd(EvalTerms(Pr!DTerms(ev, ch, n), v, 1), Pr!R0(ev, ch, n, w, PiRows, PisOf(v)))
           = FullIdentity(v, n)

GateIdentityIsQuotientForm ==
  Leaf =>
    LET v == Vec
        ev == EvOf(v)  ch == ChOf(v)  q == SelOf(v)
        a == ev.a_eval  b == ev.b_eval  c == ev.c_eval  d == ev.d_eval
        aw == ev.a_w_eval  bw == ev.b_w_eval  dw == ev.d_w_eval
    IN Pr!GateIdentity(q, ev, ch) =
         SAdd(SAdd(G!ArithAtom(q, a, b, c, d, 0),
                   SAdd(SMul(q[G!QRANGE], Pr!WidgetSum(G!RangeAtoms(a, b, c, d, dw), ch.range_sep)),
                        SMul(q[G!QLOGIC],
                             Pr!WidgetSum(G!LogicAtoms(q[G!QC], a, b, c, d, aw, bw, dw),
                                          ch.logic_sep)))),
              SAdd(SMul(q[G!QFIXED],
                        Pr!WidgetSum(G!FixedAtoms(q[G!QL], q[G!QR], q[G!QC],
                                                  a, b, c, d, aw, bw, dw), ch.fixed_sep)),
                   SMul(q[G!QVAR], Pr!WidgetSum(G!VarAtoms(a, b, c, d, aw, bw, dw), ch.var_sep))))

\* F - E "in the exponent": give every point the value its polynomial takes
\* (D takes -r_0, opened polynomials their evaluation, z(X) at z w the value
\* z_eval, g the value 1); the right input minus the witness terms is 0
BatchedOpeningConsistent ==
  Leaf =>
    LET v == Vec
        ev == EvOf(v)  ch == ChOf(v)  w == Omega(n)
        oz == Pr!OpenedAtZ(ver)
        fz == SAdd(SNeg(Pr!R0(ev, ch, n, w, PiRows, PisOf(v))),
                   Pr!Sum([i \in 1..Len(oz) |-> SMul(Pr!Pow(ch.v, i), ev[oz[i][2]])]))
        fzw == SAdd(ev.z_eval,
                    Pr!Sum([j \in 1..3 |-> SMul(Pr!Pow(ch.v_w, j), ev[Pr!OpenedAtZw[j][2]])]))
    IN ~Pr!ZInDomain(ch.z, w, PiRows, PisOf(v)) =>
         Pr!EScalar(ver, ev, ch, n, w, PiRows, PisOf(v)) = SAdd(fz, SMul(ch.u, fzw))

=============================================================================
