SPECIFICATION Spec
CONSTANTS
  Threads = 3
  Labels = {"a", "b"}
  Calls = 2
  UseLock = FALSE
INVARIANTS
  OneLeakPerLabel
  RetEqualsLabel
  StableSlice
  NoDeadlock
CHECK_DEADLOCK FALSE
