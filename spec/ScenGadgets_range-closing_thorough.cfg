SPECIFICATION Spec
CONSTANT Family = "range-closing"
CONSTANT Tier = "thorough"
INVARIANT Emit
CHECK_DEADLOCK FALSE
