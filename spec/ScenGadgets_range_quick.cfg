SPECIFICATION Spec
CONSTANT Family = "range"
CONSTANT Tier = "quick"
INVARIANT Emit
CHECK_DEADLOCK FALSE
