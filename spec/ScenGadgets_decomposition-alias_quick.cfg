SPECIFICATION Spec
CONSTANT Family = "decomposition-alias"
CONSTANT Tier = "quick"
INVARIANT Emit
CHECK_DEADLOCK FALSE
