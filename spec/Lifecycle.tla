----------------------------- MODULE Lifecycle -----------------------------
(***************************************************************************)
(* API-level state machine of the library (C01, C02, C04):                 *)
(*                                                                         *)
(*   Setup(cap) -> Compose(program) -> Compile(route, label)               *)
(*     -> {RoundTripProver, RoundTripVerifier}*                            *)
(*     -> Prove(version) [-> Prove(second proof)]                          *)
(*     -> {SetPI(kind), SwapVerifier(kind), MutateProof(kind),             *)
(*         Splice(fields), Degenerate(kind)}*                              *)
(*     -> Verify(version)                                                  *)
(*                                                                         *)
(* with abstract identifiers instead of bytes and the PREDICTED outcome    *)
(* after every action.  Outcomes are total functions of the state:         *)
(*   CompileOutcome  through Sizes                                         *)
(*   ProveOutcome    through the version table and satisfaction            *)
(*   VerifyOutcome   through the MECHANISM: the public-input length check, *)
(*                   equality of the two Fiat-Shamir transcripts under an  *)
(*                   idealised oracle (distinct transcripts => independent *)
(*                   challenges => reject), equality of everything the     *)
(*                   verification equation reads (15 key commitments, the  *)
(*                   sparse public-input evaluation, the set of opened     *)
(*                   polynomials of the version) and proof integrity.      *)
(* The property (C04) is then an invariant ABOUT the mechanism:            *)
(*   Verify = ok  <=>  same key /\ same label /\ same version /\ same      *)
(*                     public-input vector /\ proof unmodified             *)
(* and the model checker decides whether the mechanism delivers it.        *)
(*                                                                         *)
(* Programs are either catalogue programs (a named component block, padded *)
(* to an exact constraint count, with a public-input placement) or raw-row *)
(* programs whose rows the specification knows, so that it can generate    *)
(* near-miss circuits as single-step edits and decide by itself whether    *)
(* two programs compile to the same description.                           *)
(***************************************************************************)
EXTENDS Sizes, Integers, FiniteSets, Json, SequencesExt

CONSTANTS
  Caps,                    \* set of setup arguments
  ProgsFor(_),             \* cap -> set of programs composed under it
  RoutesFor(_, _),         \* cap, prog -> subset of {"direct","default","compressed"}
  LabelsFor(_, _),         \* cap, prog -> set of labels (hex strings)
  RoundTrips(_, _),        \* cap, prog -> subset of {"prover","verifier"} (allowed)
  ProveVersions(_, _),     \* cap, prog -> subset of 1..3
  VerifyVersions(_),       \* proving version -> subset of 1..3
  PIEditKinds,             \* subset of {"add1","zero","copy","perm","trunc","extend"}
  VerifierEditKinds,       \* subset of {"sel","wire","pirow","pimove","rows","same","label"}
  ProofEditKinds,          \* subset of {"mutate","splice","degenerate"}
  SpliceSets,              \* set of field subsets (of 0..25) to splice
  SpliceProgs,             \* programs for which a second proof is made
  ViolationKinds,          \* subset of {"set","copy"}: forced-prover adversary
  ViolationPick(_, _),     \* prog, witness index -> BOOLEAN (sampling of "set")
  MaxEdits,                \* bound on the number of edit actions per behaviour
  Emit                     \* print one scenario per verified behaviour

VARIABLES
  phase,      \* "init" "setup" "composed" "compiled" "failed" "proved" "done"
  pp,         \* setup argument (0 = none)
  prog,       \* the composed program
  keys,       \* what Compile produced: [vk, pirows, label, cap] (prover side)
  verifier,   \* the verifier object in use: [vk, pirows, label, cap]
  rt,         \* sequence of round trips done
  proof,      \* [vk, pirows, label, ver, pis, intact, second]
  pisNow,     \* the public-input vector that will be handed to verify
  nEdits,
  last,       \* last step (with the prediction)
  hist        \* all steps (hidden from the state space by VIEW)

vars == <<phase, pp, prog, keys, verifier, rt, proof, pisNow, nEdits, last, hist>>
view == <<phase, pp, prog, keys, verifier, rt, proof, pisNow, nEdits, last>>
\* MBT profiles: every behaviour is a scenario, nothing is merged
viewAll == vars

None == [none |-> TRUE]

(* ======================= programs ===================================== *)
WBase == 6            \* index of the first user witness (0,1 constants; 2..5 dummies)

Row(q, w) == [q |-> q, w |-> w, pi |-> <<>>]
RowPI(q, w, v) == [q |-> q, w |-> w, pi |-> <<v>>]
Arith(qm, ql, qr, qo, qf, qc, w) == Row(<<qm, ql, qr, qo, qf, qc, 1, 0, 0, 0, 0>>, w)
ArithPI(qm, ql, qr, qo, qf, qc, w, v) == RowPI(<<qm, ql, qr, qo, qf, qc, 1, 0, 0, 0, 0>>, w, v)

\* Composer::initialized(): two constant rows, two dummy rows
InitRows == << Arith(0, -1, 0, 0, 0, 0, <<0, 0, 0, 0>>),
               Arith(0, -1, 0, 0, 0, 1, <<1, 0, 0, 0>>),
               Arith(1, 2, 3, 4, 1, 4, <<2, 4, 5, 3>>),
               Arith(1, 1, 1, 1, 0, 127, <<5, 2, 4, 0>>) >>
InitVals == <<0, 1, 6, 1, 7, -20>>       \* witnesses 0..5

IsCat(p) == p.kind = "cat"

(* ---- catalogue: component blocks (rows = what the block appends) ------ *)
Op1(name, v, out) == [op |-> name, v |-> v, out |-> out]

Body(name) ==
  CASE name = "empty" -> [rows |-> 0, wit |-> 0, ops |-> <<>>]
    [] name = "arith" ->
       [rows |-> 4, wit |-> 5, ops |-> <<
          Op1("witness", 3, "a"), Op1("witness", 4, "b"),
          [op |-> "gate_mul", q |-> [m |-> 1], w |-> <<"a", "b">>, out |-> "m"],
          [op |-> "gate_add", q |-> [l |-> 1, r |-> 1], w |-> <<"a", "m">>, out |-> "s"],
          Op1("constant", 15, "k"),
          [op |-> "assert_equal", a |-> "s", b |-> "k"] >>]
    [] name = "boolsel" ->
       [rows |-> 8, wit |-> 9, ops |-> <<
          Op1("witness", 1, "bit"), Op1("witness", 9, "a"), Op1("witness", 8, "b"),
          [op |-> "boolean", a |-> "bit"],
          [op |-> "select", bit |-> "bit", a |-> "a", b |-> "b", out |-> "s"],
          [op |-> "assert_equal", a |-> "s", b |-> "a"],
          [op |-> "select_one", bit |-> "bit", a |-> "a", out |-> "t"],
          [op |-> "select_zero", bit |-> "bit", a |-> "a", out |-> "u"] >>]
    [] name = "range" ->
       [rows |-> 10, wit |-> 13, ops |-> <<
          Op1("witness", 1000, "x"), [op |-> "range_bits", w |-> "x", bits |-> 10],
          Op1("witness", 100, "y"), [op |-> "range_bits", w |-> "y", bits |-> 7] >>]
    [] name = "rawrange" ->      \* one range row: base-4 digits 1,1,2,3 then 0
       [rows |-> 2, wit |-> 5, ops |-> <<
          Op1("witness", 91, "a"), Op1("witness", 22, "b"), Op1("witness", 5, "c"),
          Op1("witness", 1, "d"), Op1("witness", 364, "e"),
          [op |-> "raw", sel |-> <<0, 0, 0, 0, 0, 0, 0, 1, 0, 0, 0>>, w |-> <<"a", "b", "c", "d">>],
          [op |-> "raw", sel |-> <<0, 0, 0, 0, 0, 0, 0, 0, 0, 0, 0>>, w |-> <<0, 0, 0, "e">>] >>]
    [] name = "rawlogic" ->      \* one AND row on the digits 2 & 3 = 2, product 6
       [rows |-> 2, wit |-> 4, ops |-> <<
          Op1("witness", 6, "w"), Op1("witness", 2, "a"), Op1("witness", 3, "b"),
          Op1("witness", 2, "d"),
          [op |-> "raw", sel |-> <<0, 0, 0, 0, 0, 1, 0, 0, 1, 0, 0>>, w |-> <<0, 0, "w", 0>>],
          [op |-> "raw", sel |-> <<0, 0, 0, 0, 0, 0, 0, 0, 0, 0, 0>>, w |-> <<"a", "b", 0, "d">>] >>]
    [] name = "ecc" ->           \* one variable-base addition (q_var row + result row)
       [rows |-> 2, wit |-> 7, ops |-> <<
          [op |-> "append_point", pt |-> [name |-> "G"], out |-> "P"],
          [op |-> "append_point", pt |-> [name |-> "G_NUMS"], out |-> "Q"],
          [op |-> "add_point_gates", a |-> "P", b |-> "Q", out |-> "R"] >>]
    [] name = "decomp" ->
       [rows |-> 17, wit |-> 17, ops |-> <<
          Op1("witness", 165, "x"), [op |-> "decomposition", w |-> "x", n |-> 8, out |-> "bits"] >>]
    [] name = "trunc" ->
       [rows |-> 86, wit |-> 270, ops |-> <<
          Op1("witness", 74565, "x"), [op |-> "truncate", w |-> "x", n |-> 8, out |-> "t"] >>]
    [] name = "logic" ->
       [rows |-> 172, wit |-> 540, ops |-> <<
          Op1("witness", 2, "a"), Op1("witness", 3, "b"),
          [op |-> "logic", a |-> "a", b |-> "b", pairs |-> 1, xor |-> TRUE, out |-> "s"] >>]
    [] name = "fixed" ->         \* fixed-base scalar multiplication (256 q_fixed rows)
       [rows |-> 331, wit |-> 1281, ops |-> <<
          Op1("witness", "0x123456789abcdef", "s"),
          [op |-> "mul_generator", s |-> "s", pt |-> [name |-> "G"], out |-> "R"] >>]
    [] name = "mds" ->           \* linear layer whose coefficients are the entries 1/5 .. 1/13 of the
                                 \* width-5 Hades MDS matrix (the built-in constants of the compressed
                                 \* format, several of which occur more than once in the matrix)
       [rows |-> 3, wit |-> 6, ops |-> <<
          Op1("witness", 3, "a"), Op1("witness", 4, "b"), Op1("witness", 5, "c"),
          [op |-> "gate_add", w |-> <<"a", "b", 0, "c">>, out |-> "s1",
           q |-> [l |-> "0x609b60c54d5893118005895c0806deaf1b1e08ad2aa94ca9d555555480000001",
                  r |-> "0x211f5460e751918257c7624b7077624aaa362edc49241a48db6db6db24924925",
                  f |-> "0x656ff268c469cd9f2cd29d07086d9d04a945ef829ffe907f1fffffff20000001"]],
          [op |-> "gate_add", w |-> <<"a", "b", 0, "c">>, out |-> "s2",
           q |-> [l |-> "0x19c308bd25b13848eef068e557794c72f62a247271c6bf1c38e38e38aaaaaaab",
                  r |-> "0x22c74bcc2615a595a8f7c0cf3616f401991f4acdb332b532e66666661999999a",
                  f |-> "0x6963af62e003892a5d1d50074e93217934daf23145cff68aba2e8ba200000001"]],
          [op |-> "gate_add", w |-> <<"a", "b", 0, "c">>, out |-> "s3",
           q |-> [l |-> "0x6a44840c3b7b082cd99fb0b208d45b5a376dd6581553d4546aaaaaa9c0000001",
                  r |-> "0x6217dc5a0f85429f8dce7bb808267bb5bd02ed3d9d88753a3b13b13a3b13b13c",
                  f |-> "0x458e97984c2b4b2b51ef819e6c2de803323e959b66656a65cccccccc33333334"]] >>]
    [] name = "var" ->           \* variable-base scalar multiplication
       [rows |-> 2019, wit |-> 2523, ops |-> <<
          Op1("witness", "0x1234567", "s"),
          [op |-> "append_constant_point", pt |-> [name |-> "G"], out |-> "P"],
          [op |-> "mul_point", s |-> "s", p |-> "P", out |-> "R"] >>]

\* public-input placements of a catalogue program: rows before / after the block
Pub(v) == [op |-> "public", v |-> v]
\* a range row whose digits are 0,0,0 and d = -3/4 (so that c - 4d = 3) with a
\* zero-valued public input: a custom-gate row that may sit on the last row of
\* a full domain, where the next-row wire wraps to row 0
MinusThreeQuarters == "0x56f23d7e5f361df6266b620607396203fece3b023ffec4ff3fffffff40000000"
HeadOps(pik) ==
  CASE pik \in {"first", "firstlast"} -> << Pub(11) >>
    [] pik = "adjfirst" -> << Pub(11), Pub(12) >>
    [] pik = "zero" -> << Pub(0) >>
    [] OTHER -> <<>>
TailOps(pik) ==
  CASE pik \in {"last", "firstlast"} -> << Pub(13) >>
    [] pik = "adjlast" -> << Pub(13), Pub(14) >>
    [] pik = "zerolast" -> << Pub(0) >>
    [] pik = "customlast" ->
         << Op1("witness", MinusThreeQuarters, "q"),
            [op |-> "raw", sel |-> <<0, 0, 0, 0, 0, 0, 0, 1, 0, 0, 0>>,
             w |-> <<0, 0, 0, "q">>, pi |-> 0] >>
    [] OTHER -> <<>>
HeadRows(pik) == Len(HeadOps(pik))
TailRows(pik) == IF pik = "customlast" THEN 1 ELSE Len(TailOps(pik))
Piks == {"none", "first", "last", "firstlast", "adjfirst", "adjlast", "zero",
         "zerolast", "customlast"}

CatFits(body, c, pik) == 4 + HeadRows(pik) + Body(body).rows + TailRows(pik) <= c
Cat(body, c, pik) == [kind |-> "cat", body |-> body, c |-> c, pik |-> pik]

CatOps(p) ==
  HeadOps(p.pik) \o Body(p.body).ops
  \o << [op |-> "pad", to |-> p.c - TailRows(p.pik)] >> \o TailOps(p.pik)

CatPIRows(p) ==     \* 0-based, ascending
  LET h == [i \in 1..HeadRows(p.pik) |-> 3 + i]
      t == [i \in 1..TailRows(p.pik) |-> p.c - TailRows(p.pik) + i - 1]
  IN h \o t
CatPIVals(p) ==
  LET val(o) == IF "pi" \in DOMAIN o THEN o.pi ELSE o.v
      pubs(ops) == SelectSeq(ops, LAMBDA o : o.op \in {"public", "raw"})
      h == pubs(HeadOps(p.pik))
      t == pubs(TailOps(p.pik))
  IN [i \in 1..Len(h) |-> val(h[i])] \o [i \in 1..Len(t) |-> val(t[i])]

(* ---- raw-row programs -------------------------------------------------- *)
RawProg(wit, rows) == [kind |-> "raw", wit |-> wit, rows |-> rows]
AllRows(p) == InitRows \o p.rows
RawC(p) == 4 + Len(p.rows)
Val(p, ref) == IF ref < WBase THEN InitVals[ref + 1] ELSE p.wit[ref - WBase + 1]
RefOK(p, ref) == ref \in 0..(WBase + Len(p.wit) - 1)

RowSat(p, r) ==
  LET a == Val(p, r.w[1])  b == Val(p, r.w[2])  c == Val(p, r.w[3])  d == Val(p, r.w[4])
      q == r.q
      pi == IF r.pi = <<>> THEN 0 ELSE r.pi[1]
  IN /\ q[8] = 0 /\ q[9] = 0 /\ q[10] = 0 /\ q[11] = 0     \* arithmetic rows only
     /\ q[7] * (q[1] * a * b + q[2] * a + q[3] * b + q[4] * c + q[5] * d + q[6]) + pi = 0

RawSatisfied(p) ==
  /\ \A i \in 1..Len(p.rows) : \A k \in 1..4 : RefOK(p, p.rows[i].w[k])
  /\ \A i \in 1..Len(AllRows(p)) : RowSat(p, AllRows(p)[i])

IsPlainArith(r) == <<r.q[7], r.q[8], r.q[9], r.q[10], r.q[11]>> = <<1, 0, 0, 0, 0>>
RowOp(r) ==
  LET base == IF IsPlainArith(r)
              THEN [op |-> "gate", w |-> r.w,
                    q |-> [m |-> r.q[1], l |-> r.q[2], r |-> r.q[3], o |-> r.q[4],
                           f |-> r.q[5], c |-> r.q[6]]]
              ELSE [op |-> "raw", w |-> r.w, sel |-> r.q]
  IN IF r.pi = <<>> THEN base ELSE [x \in DOMAIN base \cup {"pi"} |->
                                       IF x = "pi" THEN r.pi[1] ELSE base[x]]
RawOps(p) == [i \in 1..Len(p.wit) |-> [op |-> "witness", v |-> p.wit[i]]]
             \o [i \in 1..Len(p.rows) |-> RowOp(p.rows[i])]

Indices(n) == [i \in 1..n |-> i]
RawPIRows(p) ==
  LET idx == SelectSeq(Indices(Len(AllRows(p))), LAMBDA i : AllRows(p)[i].pi # <<>>)
  IN [k \in 1..Len(idx) |-> idx[k] - 1]
RawPIVals(p) ==
  LET idx == SelectSeq(Indices(Len(AllRows(p))), LAMBDA i : AllRows(p)[i].pi # <<>>)
  IN [k \in 1..Len(idx) |-> AllRows(p)[idx[k]].pi[1]]

(* ---- common views ------------------------------------------------------ *)
CountOf(p) == IF IsCat(p) THEN p.c ELSE RawC(p)
OpsOf(p) == IF IsCat(p) THEN CatOps(p) ELSE RawOps(p)
PIRowsOf(p) == IF IsCat(p) THEN CatPIRows(p) ELSE RawPIRows(p)
PIValsOf(p) == IF IsCat(p) THEN CatPIVals(p) ELSE RawPIVals(p)
SatisfiedProg(p) == IF IsCat(p) THEN CatFits(p.body, p.c, p.pik) ELSE RawSatisfied(p)

(* ======================= compiled description ========================== *)
(* The verifier key: constraint count and 15 polynomial commitments        *)
(* (11 selector columns, 4 permutation columns).  For raw-row programs the *)
(* columns are computed (a commitment is identified with the column it     *)
(* commits to); for catalogue programs they are opaque identifiers.        *)
PosIdx(i, k) == (i - 1) * 4 + k
SigmaCol(rows, k) ==
  LET n == Len(rows)
      next(i) ==
        LET w == rows[i].w[k]
            same == { x \in (1..n) \X (1..4) : rows[x[1]].w[x[2]] = w }
            after == { x \in same : PosIdx(x[1], x[2]) > PosIdx(i, k) }
            first(S) == CHOOSE x \in S : \A y \in S : PosIdx(x[1], x[2]) <= PosIdx(y[1], y[2])
            nx == IF after # {} THEN first(after) ELSE first(same)
        IN PosIdx(nx[1], nx[2])
  IN [i \in 1..n |-> next(i)]
RawVK(p) ==
  LET rows == AllRows(p) IN
  [kind |-> "raw", n |-> Len(rows),
   cols |-> TLCEval([j \in 1..15 |->
              IF j <= 11 THEN [i \in 1..Len(rows) |-> rows[i].q[j]]
              ELSE SigmaCol(rows, j - 11)])]
CatVK(p) ==
  [kind |-> "cat", n |-> p.c,
   cols |-> [j \in 1..15 |-> <<p.body, p.c, CatPIRows(p), j>>]]
VKOf(p) == IF IsCat(p) THEN CatVK(p) ELSE RawVK(p)

VKEq(a, b) == a.kind = b.kind /\ a.n = b.n /\ a.cols = b.cols

\* "same compiled description": key and public-input rows
DescEq(a, b) == VKEq(a.vk, b.vk) /\ a.pirows = b.pirows

Obj(p, label, cap) == [vk |-> VKOf(p), pirows |-> PIRowsOf(p), label |-> label, cap |-> cap]

\* identities of the serialized objects (Prover::to_bytes / Verifier::to_bytes):
\* the prover encoding carries no public-input rows, the verifier's does
ProverId(o) == [vk |-> o.vk, label |-> o.label, cap |-> o.cap]
VerifierId(o) == [vk |-> o.vk, pirows |-> o.pirows, label |-> o.label, cap |-> o.cap]

(* ======================= outcomes ====================================== *)
CompileOutcome(route, c, d) ==
  IF route = "compressed" THEN CompileCompressed(c, d) ELSE CompileDirect(c, d)

ProveOutcome(ver, p) ==
  IF ver = 1 THEN "err:UnsupportedProvingVersion"
  ELSE IF SatisfiedProg(p) THEN "ok" ELSE "err:CircuitUnsatisfied"

(* ---- the verification mechanism --------------------------------------- *)
\* V1 and V2 seed the transcript with the legacy base (the 15th item repeats
\* s_sigma_1), V3 binds all 15 commitments
BaseCols(vk, ver) ==
  IF ver = 3 THEN vk.cols
  ELSE [j \in 1..15 |-> IF j = 15 THEN vk.cols[12] ELSE vk.cols[j]]
\* transcript up to the proof items: label, count, key, count, public inputs
Transcript(o, ver, pis) ==
  [kind |-> o.vk.kind, label |-> o.label, n |-> o.vk.n,
   cols |-> BaseCols(o.vk, ver), pis |-> pis]
TranscriptEq(a, b) ==
  /\ a.kind = b.kind /\ a.label = b.label /\ a.n = b.n
  /\ a.cols = b.cols /\ a.pis = b.pis
\* polynomials bound by the batched opening at z (besides r): 7 in V1, 11 after
Opened(ver) == IF ver = 1 THEN 7 ELSE 11
\* the sparse public-input evaluation reads (row, value) for non-zero values
Dense(rows, vals) ==
  { <<rows[i], vals[i]>> : i \in { k \in 1..Len(rows) : k <= Len(vals) /\ vals[k] # 0 } }

VerifyOutcome(vo, vver, vpis, pf) ==
  IF Len(vpis) # Len(vo.pirows) THEN "err:InconsistentPublicInputsLen"
  ELSE IF /\ pf.intact
          /\ TranscriptEq(Transcript(vo, vver, vpis), Transcript(pf, pf.ver, pf.pis))
          /\ VKEq(vo.vk, pf.vk)
          /\ Dense(vo.pirows, vpis) = Dense(pf.pirows, pf.pis)
          /\ Opened(vver) = Opened(pf.ver)
       THEN "ok"
       ELSE "err:ProofVerificationError"

(* ======================= edits ========================================= *)
SeqSet(S) == S          \* (documentation: sets of edits are finite sets of records)

(* ---- public-input vector edits ---------------------------------------- *)
Perms(n) == { f \in [1..n -> 1..n] : \A i, j \in 1..n : f[i] = f[j] => i = j }
PIEdits(v) ==
  LET n == Len(v) IN
     (IF "add1" \in PIEditKinds
      THEN { [kind |-> "add1", at |-> i, pis |-> [v EXCEPT ![i] = @ + 1]] : i \in 1..n } ELSE {})
  \cup (IF "zero" \in PIEditKinds
      THEN { [kind |-> "zero", at |-> i, pis |-> [v EXCEPT ![i] = 0]] : i \in 1..n } ELSE {})
  \cup (IF "copy" \in PIEditKinds
      THEN { [kind |-> "copy", at |-> x[1], pis |-> [v EXCEPT ![x[1]] = v[x[2]]]] :
               x \in { y \in (1..n) \X (1..n) : y[1] # y[2] } } ELSE {})
  \cup (IF "perm" \in PIEditKinds /\ n >= 2 /\ n <= 4
      THEN { [kind |-> "perm", at |-> 0, pis |-> [i \in 1..n |-> v[f[i]]]] :
               f \in { g \in Perms(n) : \E i \in 1..n : g[i] # i } } ELSE {})
  \cup (IF "trunc" \in PIEditKinds
      THEN { [kind |-> "trunc", at |-> k, pis |-> SubSeq(v, 1, k)] : k \in 0..(n - 1) } ELSE {})
  \cup (IF "extend" \in PIEditKinds
      THEN { [kind |-> "extend", at |-> 0, pis |-> v \o <<0>>],
             [kind |-> "extend", at |-> 1, pis |-> <<0>> \o v],
             [kind |-> "extend", at |-> 2, pis |-> v \o (IF n > 0 THEN <<v[n]>> ELSE <<7>>)] }
      ELSE {})

(* ---- near-miss circuits: single-step edits of a raw-row program ------- *)
UserRows(p) == 1..Len(p.rows)
SetRow(p, i, r) == [p EXCEPT !.rows[i] = r]
NearMiss(p) ==
  IF IsCat(p) THEN
     \* catalogue programs: one constraint more / fewer, another placement
     (IF "rows" \in VerifierEditKinds
      THEN { [kind |-> "rows+1", prog |-> [p EXCEPT !.c = @ + 1]] }
           \cup (IF CatFits(p.body, p.c - 1, p.pik)
                 THEN { [kind |-> "rows-1", prog |-> [p EXCEPT !.c = @ - 1]] } ELSE {})
      ELSE {})
     \cup (IF "pirow" \in VerifierEditKinds
      THEN { [kind |-> "placement", prog |-> [p EXCEPT !.pik = k]] :
               k \in { x \in {"none", "first", "last", "zero"} :
                         x # p.pik /\ CatFits(p.body, p.c, x) } }
      ELSE {})
  ELSE
     (IF "sel" \in VerifierEditKinds
      THEN { [kind |-> "sel", prog |-> SetRow(p, x[1], [p.rows[x[1]] EXCEPT !.q[x[2]] = @ + 1])] :
               x \in UserRows(p) \X (1..6) } ELSE {})
  \cup (IF "wire" \in VerifierEditKinds
      THEN { [kind |-> "wire", prog |-> SetRow(p, x[1], [p.rows[x[1]] EXCEPT !.w[x[2]] = x[3]])] :
               x \in { y \in UserRows(p) \X (1..4) \X (0..(WBase + Len(p.wit) - 1)) :
                          /\ y[3] \notin 1..(WBase - 1)
                          /\ y[3] # p.rows[y[1]].w[y[2]] } } ELSE {})
  \cup (IF "pirow" \in VerifierEditKinds
      THEN { [kind |-> "pirow", prog |->
                SetRow(p, i, [p.rows[i] EXCEPT !.pi = IF @ = <<>> THEN <<0>> ELSE <<>>])] :
               i \in UserRows(p) } ELSE {})
  \cup (IF "pimove" \in VerifierEditKinds
      THEN { [kind |-> "pimove", prog |->
                SetRow(SetRow(p, x[1], [p.rows[x[1]] EXCEPT !.pi = <<>>]),
                       x[2], [p.rows[x[2]] EXCEPT !.pi = p.rows[x[1]].pi])] :
               x \in { y \in UserRows(p) \X UserRows(p) :
                         p.rows[y[1]].pi # <<>> /\ p.rows[y[2]].pi = <<>> } } ELSE {})
  \cup (IF "rows" \in VerifierEditKinds
      THEN { [kind |-> "rows+1", prog |->
                [p EXCEPT !.rows = Append(@, Arith(0, 0, 0, 0, 0, 0, <<0, 0, 0, 0>>))]] }
           \cup (IF Len(p.rows) > 1
                 THEN { [kind |-> "rows-1", prog |->
                           [p EXCEPT !.rows = SubSeq(@, 1, Len(@) - 1)]] } ELSE {})
      ELSE {})
  \cup (IF "same" \in VerifierEditKinds
      THEN \* the text differs, the compiled description does not:
           \* another witness value; an extra unused witness allocated first
           { [kind |-> "same-value", prog |-> [p EXCEPT !.wit[1] = @ + 1]],
             [kind |-> "same-renamed", prog |->
                [p EXCEPT !.wit = <<42>> \o @,
                          !.rows = [i \in 1..Len(p.rows) |->
                                      [p.rows[i] EXCEPT !.w = [k \in 1..4 |->
                                         IF p.rows[i].w[k] >= WBase THEN p.rows[i].w[k] + 1
                                         ELSE p.rows[i].w[k]]]]]] }
      ELSE {})


(* ---- adversary: the prover forced past its unsatisfied check ----------- *)
(* "set":  one user witness is overwritten after the program ran (value +1) *)
(*         -- the layout is unchanged, one or more gate atoms fail;         *)
(* "copy": compile program A, prove program B: B re-points one wire whose   *)
(*         selector coefficient is zero to a fresh witness with another     *)
(*         value -- every row of B is satisfied, one compiled copy          *)
(*         constraint of A is broken.                                       *)
UserWitnesses(p) ==
  IF IsCat(p) THEN HeadRows(p.pik) + Body(p.body).wit + TailRows(p.pik) ELSE Len(p.wit)
\* the coefficient that multiplies wire k of an arithmetic row
Irrelevant(r, k) ==
  /\ IsPlainArith(r)
  /\ CASE k = 1 -> r.q[1] = 0 /\ r.q[2] = 0
       [] k = 2 -> r.q[1] = 0 /\ r.q[3] = 0
       [] k = 3 -> r.q[4] = 0
       [] k = 4 -> r.q[5] = 0
Violations(p) ==
     (IF "set" \in ViolationKinds
      THEN { [kind |-> "set", w |-> i, delta |-> 1,
              unsat |-> IF IsCat(p) THEN TRUE
                        ELSE ~RawSatisfied([p EXCEPT !.wit[i - WBase + 1] = @ + 1])] :
               i \in { j \in WBase..(WBase + UserWitnesses(p) - 1) : ViolationPick(p, j) } }
      ELSE {})
  \cup (IF "copy" \in ViolationKinds /\ ~IsCat(p)
      THEN { [kind |-> "copy", w |-> PosIdx(x[1], x[2]), delta |-> 1, unsat |-> TRUE,
              prog |-> [p EXCEPT !.wit = Append(@, Val(p, p.rows[x[1]].w[x[2]]) + 1),
                                 !.rows[x[1]].w[x[2]] = WBase + Len(p.wit)]] :
               x \in { y \in UserRows(p) \X (1..4) :
                         /\ Irrelevant(p.rows[y[1]], y[2])
                         /\ p.rows[y[1]].w[y[2]] >= WBase
                         \* the class keeps another member, so the break is real
                         /\ \E z \in (1..Len(p.rows)) \X (1..4) :
                               z # y /\ p.rows[z[1]].w[z[2]] = p.rows[y[1]].w[y[2]] } }
      ELSE {})

(* ---- labels (hex strings, two characters per byte) --------------------- *)
HexDigits == <<"0", "1", "2", "3", "4", "5", "6", "7", "8", "9", "a", "b", "c", "d", "e", "f">>
\* labels are sequences of byte values in the model and hex on the wire
LabelHex(l) ==
  LET byte(b) == HexDigits[(b \div 16) + 1] \o HexDigits[(b % 16) + 1]
      F[i \in 0..Len(l)] == IF i = 0 THEN "" ELSE F[i - 1] \o byte(l[i])
  IN F[Len(l)]
\* byte positions edited: all of a short label; of a long one the ends, the 8-byte
\* boundaries, the middle and the positions around the 64th byte
EditPos(l) ==
  IF Len(l) <= 16 THEN 1..Len(l)
  ELSE {i \in {1, 8, 9, 13, Len(l) \div 2, Len(l) - 8, Len(l) - 7, Len(l) - 1, Len(l), 64, 65, 66} : i \in 1..Len(l)}
LabelEdits(l) ==
  IF "label" \in VerifierEditKinds
  THEN { [kind |-> "label-byte", label |-> [l EXCEPT ![i] = (@ + 1) % 256]] : i \in EditPos(l) }
       \cup { [kind |-> "label-bit7", label |-> [l EXCEPT ![i] = (@ + 128) % 256]] : i \in EditPos(l) }
       \cup { [kind |-> "label-extend", label |-> Append(l, 0)],
              [kind |-> "label-truncate", label |-> SubSeq(l, 1, Len(l) - 1)],
              [kind |-> "label-empty", label |-> <<>>] }
  ELSE {}

(* ---- proof edits (26 fields: 0..10 commitments, 11..25 evaluations) --- *)
ProofMutations ==
  IF "mutate" \in ProofEditKinds
  THEN { [kind |-> "scalar_add1", i |-> i, j |-> 0] : i \in 11..25 }
       \cup { [kind |-> "point_neg", i |-> i, j |-> 0] : i \in 0..10 }
       \cup { [kind |-> "point_generator", i |-> i, j |-> 0] : i \in {0, 4, 8, 9, 10} }
       \cup { [kind |-> "swap", i |-> x[1], j |-> x[2]] :
                x \in {<<0, 1>>, <<5, 6>>, <<9, 10>>, <<11, 12>>, <<15, 16>>, <<18, 19>>} }
  ELSE {}
DegenerateKinds ==
  IF "degenerate" \in ProofEditKinds
  THEN {"default", "identity_commitments", "zero_evals", "zero_bytes"} ELSE {}
AllFields == 0..25

(* ======================= the machine =================================== *)
Step(s) == /\ last' = s
           /\ hist' = Append(hist, s)

Init ==
  /\ phase = "init" /\ pp = 0 /\ prog = None /\ keys = None /\ verifier = None
  /\ rt = <<>> /\ proof = None /\ pisNow = <<>> /\ nEdits = 0
  /\ last = [a |-> "Init"] /\ hist = <<>>

Setup(d) ==
  /\ phase = "init"
  /\ pp' = d /\ phase' = "setup"
  /\ Step([a |-> "Setup", cap |-> d, pred |-> [res |-> SetupOutcome(d)]])
  /\ UNCHANGED <<prog, keys, verifier, rt, proof, pisNow, nEdits>>

Compose(p) ==
  /\ phase = "setup"
  /\ prog' = p /\ phase' = "composed"
  /\ Step([a |-> "Compose", prog |-> [ops |-> OpsOf(p)],
           pred |-> [res |-> "ok", c |-> CountOf(p), pirows |-> PIRowsOf(p),
                     pis |-> PIValsOf(p)]])
  /\ UNCHANGED <<pp, keys, verifier, rt, proof, pisNow, nEdits>>

Compile(route, label) ==
  /\ phase = "composed"
  /\ LET out == CompileOutcome(route, CountOf(prog), pp)
         o == TLCEval(Obj(prog, label, pp))
     IN IF out = "ok"
        THEN /\ keys' = o /\ verifier' = o /\ phase' = "compiled"
             /\ Step([a |-> "Compile", route |-> route, label |-> LabelHex(label),
                      pred |-> [res |-> out, prover |-> ProverId(o),
                                verifier |-> VerifierId(o)]])
        ELSE /\ UNCHANGED <<keys, verifier>> /\ phase' = "failed"
             /\ Step([a |-> "Compile", route |-> route, label |-> LabelHex(label),
                      pred |-> [res |-> out]])
  /\ UNCHANGED <<pp, prog, rt, proof, pisNow, nEdits>>

RoundTrip(which) ==
  /\ phase = "compiled"
  /\ which \in RoundTrips(pp, prog) /\ which \notin Range(rt)
  /\ rt' = Append(rt, which)
  /\ Step(IF which = "prover"
          THEN [a |-> "RoundTripProver",
                pred |-> [res |-> "ok", same |-> TRUE, prover |-> ProverId(keys)]]
          ELSE [a |-> "RoundTripVerifier",
                pred |-> [res |-> "ok", same |-> TRUE, verifier |-> VerifierId(verifier)]])
  /\ UNCHANGED <<phase, pp, prog, keys, verifier, proof, pisNow, nEdits>>

Prove(ver) ==
  /\ phase = "compiled"
  /\ RoundTrips(pp, prog) \subseteq Range(rt)          \* round trips first (fixed order)
  /\ LET out == ProveOutcome(ver, prog)
         pis == PIValsOf(prog)
     IN /\ Step([a |-> "Prove", version |-> ver, seed |-> 1, slot |-> "p",
                 pred |-> IF out = "ok" THEN [res |-> out, pis |-> pis] ELSE [res |-> out]])
        /\ IF out = "ok"
           THEN /\ proof' = [vk |-> keys.vk, pirows |-> keys.pirows, label |-> keys.label,
                             ver |-> ver, pis |-> pis, intact |-> TRUE, second |-> FALSE]
                /\ pisNow' = pis /\ phase' = "proved"
           ELSE /\ UNCHANGED <<proof, pisNow>> /\ phase' = "failed"
  /\ UNCHANGED <<pp, prog, keys, verifier, rt, nEdits>>


\* the adversary runs the real proving algorithm on a violating assignment
ForceProve(x) ==
  /\ phase = "compiled"
  /\ RoundTrips(pp, prog) \subseteq Range(rt)
  /\ \E ver \in ProveVersions(pp, prog) \ {1} :
       LET pis == PIValsOf(prog)
           common == [a |-> "ForceProve", version |-> ver, seed |-> 1, slot |-> "p",
                      what |-> [kind |-> x.kind, w |-> x.w],
                      pred |-> [unforced |-> IF x.unsat THEN "err:CircuitUnsatisfied" ELSE "ok",
                                res |-> "ok", pis |-> pis]]
       IN /\ Step(IF x.kind = "copy"
                  THEN [k \in DOMAIN common \cup {"prog"} |->
                          IF k = "prog" THEN [ops |-> OpsOf(x.prog)] ELSE common[k]]
                  ELSE [k \in DOMAIN common \cup {"perturb"} |->
                          IF k = "perturb" THEN [w |-> x.w, delta |-> x.delta] ELSE common[k]])
          /\ proof' = [vk |-> keys.vk, pirows |-> keys.pirows, label |-> keys.label,
                       ver |-> ver, pis |-> pis, intact |-> ~x.unsat, second |-> FALSE]
          /\ pisNow' = pis /\ phase' = "proved"
  /\ UNCHANGED <<pp, prog, keys, verifier, rt, nEdits>>

\* a second proof of the same statement under other randomness (slot "q")
ProveSecond ==
  /\ phase = "proved" /\ ~proof.second /\ nEdits = 0 /\ proof.intact
  /\ "splice" \in ProofEditKinds /\ prog \in SpliceProgs
  /\ proof' = [proof EXCEPT !.second = TRUE]
  /\ Step([a |-> "Prove", version |-> proof.ver, seed |-> 2, slot |-> "q",
           pred |-> [res |-> "ok", pis |-> proof.pis]])
  /\ UNCHANGED <<phase, pp, prog, keys, verifier, rt, pisNow, nEdits>>

AfterSecond == last.a = "Prove" /\ last.slot = "q"
\* edits apply to an honest first proof (a forced proof goes straight to verify)
CanEdit == /\ phase = "proved" /\ nEdits < MaxEdits
           /\ last.a # "ForceProve" /\ ~AfterSecond

SetPI(e) ==
  /\ CanEdit
  /\ pisNow' = e.pis /\ nEdits' = nEdits + 1
  /\ Step([a |-> "SetPI", kind |-> e.kind, at |-> e.at, pis |-> e.pis, pred |-> [res |-> "ok"]])
  /\ UNCHANGED <<phase, pp, prog, keys, verifier, rt, proof>>

SwapVerifier(kind, p, label) ==
  /\ CanEdit
  /\ LET out == CompileOutcome("direct", CountOf(p), pp)
         o == TLCEval(Obj(p, label, pp))
     IN /\ out = "ok"
        /\ verifier' = o /\ nEdits' = nEdits + 1
        /\ Step([a |-> "SwapVerifier", kind |-> kind, prog |-> [ops |-> OpsOf(p)],
                 label |-> LabelHex(label),
                 pred |-> [res |-> out, verifier |-> VerifierId(o)]])
  /\ UNCHANGED <<phase, pp, prog, keys, rt, proof, pisNow>>

MutateProof(m) ==
  /\ CanEdit /\ ~proof.second
  /\ proof' = [proof EXCEPT !.intact = FALSE] /\ nEdits' = nEdits + 1
  /\ Step([a |-> "MutateProof", kind |-> m.kind, i |-> m.i, j |-> m.j,
           pred |-> [res |-> "ok", changed |-> TRUE]])
  /\ UNCHANGED <<phase, pp, prog, keys, verifier, rt, pisNow>>

\* the current proof (slot p after UseProof) takes the fields F of the second
\* proof: it is one of the two valid proofs iff F is empty or everything
Splice(F) ==
  /\ CanEdit /\ proof.second
  /\ proof' = [proof EXCEPT !.intact = IF F = AllFields THEN TRUE ELSE IF F = {} THEN @ ELSE FALSE]
  /\ nEdits' = nEdits + 1
  /\ Step([a |-> "Splice", from |-> "q",
           fields |-> SetToSortSeq(F, <),
           pred |-> [res |-> "ok", differing |-> Cardinality(F)]])
  /\ UNCHANGED <<phase, pp, prog, keys, verifier, rt, pisNow>>

Degenerate(kind) ==
  /\ CanEdit /\ ~proof.second
  /\ proof' = [proof EXCEPT !.intact = FALSE] /\ nEdits' = nEdits + 1
  /\ Step([a |-> "Degenerate", kind |-> kind, pred |-> [res |-> "ok"]])
  /\ UNCHANGED <<phase, pp, prog, keys, verifier, rt, pisNow>>

\* after a second proof the first one is made current again
UseFirst ==
  /\ phase = "proved" /\ proof.second /\ AfterSecond
  /\ Step([a |-> "UseProof", slot |-> "p", pred |-> [res |-> "ok"]])
  /\ UNCHANGED <<phase, pp, prog, keys, verifier, rt, proof, pisNow, nEdits>>

Verify(ver) ==
  /\ phase = "proved"
  /\ ~AfterSecond
  /\ phase' = "done"
  /\ LET out == VerifyOutcome(verifier, ver, pisNow, proof)
     IN Step([a |-> "Verify", version |-> ver,
              pred |-> [res |-> out,
                        \* accepted although the verifier's description differs
                        corner |-> out = "ok" /\ ~DescEq(verifier, proof)]])
  /\ UNCHANGED <<pp, prog, keys, verifier, rt, proof, pisNow, nEdits>>

Next ==
  \/ \E d \in Caps : Setup(d)
  \/ phase = "setup" /\ \E p \in ProgsFor(pp) : Compose(p)
  \/ phase = "composed" /\ \E r \in RoutesFor(pp, prog), l \in LabelsFor(pp, prog) : Compile(r, l)
  \/ phase = "compiled" /\ \E w \in {"prover", "verifier"} : RoundTrip(w)
  \/ phase = "compiled" /\ \E v \in ProveVersions(pp, prog) : Prove(v)
  \/ phase = "compiled" /\ \E x \in Violations(prog) : ForceProve(x)
  \/ ProveSecond
  \/ UseFirst
  \/ CanEdit /\ \E e \in PIEdits(pisNow) : SetPI(e)
  \/ CanEdit /\ \E e \in NearMiss(prog) : SwapVerifier(e.kind, e.prog, keys.label)
  \/ CanEdit /\ \E e \in LabelEdits(keys.label) : SwapVerifier(e.kind, prog, e.label)
  \/ CanEdit /\ \E m \in ProofMutations : MutateProof(m)
  \/ CanEdit /\ \E F \in SpliceSets : Splice(F)
  \/ CanEdit /\ \E k \in DegenerateKinds : Degenerate(k)
  \/ phase = "proved" /\ \E v \in VerifyVersions(proof.ver) : Verify(v)

Spec == Init /\ [][Next]_vars

(* ======================= properties ==================================== *)
Verified == phase = "done"
Accepted == Verified /\ last.pred.res = "ok"

\* C01: the honest path always ends in acceptance
Honest == /\ verifier = keys /\ pisNow = proof.pis /\ proof.intact
          /\ last.version = proof.ver
Completeness == (Verified /\ Honest) => Accepted

\* C04: a proof binds key, label, version, public-input vector and itself
BindsStatement ==
  Verified =>
    (Accepted <=> /\ VKEq(verifier.vk, proof.vk)
                  /\ verifier.label = proof.label
                  /\ last.version = proof.ver
                  /\ pisNow = proof.pis
                  /\ Len(pisNow) = Len(verifier.pirows)
                  /\ Dense(verifier.pirows, pisNow) = Dense(proof.pirows, proof.pis)
                  /\ proof.intact)

\* the corner the mechanism leaves open: same key, a public-input flag moved
\* between rows whose values are zero (the dense assignment is unchanged)
ZeroMoveCorner ==
  /\ VKEq(verifier.vk, proof.vk) /\ verifier.pirows # proof.pirows
  /\ Len(verifier.pirows) = Len(proof.pirows)
  /\ Dense(verifier.pirows, pisNow) = Dense(proof.pirows, proof.pis)
\* C04 read literally ("only by a verifier compiled from the same description")
BindsDescription == Accepted => (DescEq(verifier, proof) \/ ZeroMoveCorner)
\* ... and without the exemption (TLC must find the corner: anti-vacuity)
BindsDescriptionStrict == Accepted => DescEq(verifier, proof)

\* C02 (strategy part): whatever was spliced, mutated or degenerated is rejected
TamperRejected == (Verified /\ ~proof.intact) => ~Accepted

\* every program of the family is satisfied (the family is honest)
FamilySatisfied == prog # None => SatisfiedProg(prog)

\* never a predicted panic, and every prediction is one of the known classes
Classes == {"ok", "err:ProofVerificationError", "err:InconsistentPublicInputsLen",
            "err:TruncatedDegreeTooLarge", "err:InvalidCompressedCircuit",
            "err:UnsupportedProvingVersion", "err:DegreeIsZero"}
Typed == "pred" \in DOMAIN last => last.pred.res \in Classes

\* MBT: one scenario per finished behaviour
EmitScenario ==
  (Emit /\ phase \in {"done", "failed"}) => PrintT(<<"SCEN", ToJson([steps |-> hist])>>)
=============================================================================
