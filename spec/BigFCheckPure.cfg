SPECIFICATION Spec
CONSTANT N = 24
CONSTANT Heavy = FALSE
CHECK_DEADLOCK FALSE
