SPECIFICATION Spec
CONSTANTS
  P = 5
  OpenLen = 4
  ForgeLen = 3
  Fams = {"open", "forge", "agg", "batch"}
INVARIANTS
  SetupGivesConsistentSrs
  TruncateKeepsConsistentPrefix
  TrimKeepsEveryProverDegree
  CommitIsLinear
  CommitOfZeroIsIdentity
  CommitBeyondKeyDegreeErrs
  OpeningVerifiesIffValueTrue
  NoWitnessOpensAWrongValue
  AggregatedOpeningVerifiesIffAllValuesTrue
  FlattenIsLinearCombination
  BatchVerifiesIffEveryEntryTrue
  EmptyAndMismatchedBatchesAreRefused
  BatchChallengeBindsEveryField
CHECK_DEADLOCK FALSE
