SPECIFICATION Spec
CONSTANTS
  Threads = 3
  Labels = {"a", "b"}
  Calls = 1
  UseLock = TRUE
INVARIANTS
  MutualExclusion
  LockHeldByCritical
  OneLeakPerLabel
  RetEqualsLabel
  StableSlice
  NoDeadlock
PROPERTIES
  EventuallyReturns
  AllFinish
CHECK_DEADLOCK FALSE
