----------------------------- MODULE BigFCheck -----------------------------
(* Prints the results of every BigF operator on seeded operands.  The driver
   runs this twice -- with the Java override (BigF.class present) and without
   -- and requires identical output. *)
EXTENDS FieldBLS, TLC

CONSTANTS N, Heavy   \* Heavy: evaluate inverses (only feasible with the override)
VARIABLE i

Limb(k, j) == ((k + 1) * 7919 + j * 104729 + (k + 3) * (k + 5) * (j + 1) * 31) % 8192
Raw(k) == [j \in 1..NL |-> IF j = NL THEN Limb(k, j) % 200 ELSE Limb(k, j)]
Opnd(k) == IF k % 7 = 0 THEN BigFromInt(k)
           ELSE IF k % 7 = 1 THEN BigSub(R, BigFromInt(k))
           ELSE BigMod(Raw(k), R)

Init == i = 0
Next == /\ i < N
        /\ i' = i + 1
        /\ LET a == Opnd(2 * i)
               b == Opnd(2 * i + 1)
               k == (i * 37) % 256
           IN PrintT(<<"BIGF", i, a, b,
                       BAdd(a, b), BSub(a, b), BMul(a, b), BNeg(a),
                       BigLt(a, b), BigLe(a, b), BigBit(a, k), BigLow(a, k),
                       BigShr(a, k), BigBitLen(a),
                       \* a * a^-1 = 1: evaluated with the override, expected value without
                       IF Heavy THEN BMul(a, BInv(a)) ELSE (IF a = BigZero THEN BigZero ELSE BigOne),
                       IF Heavy THEN BMul(BPow(a, BigSub(R, BigFromInt(2))), a)
                                ELSE (IF a = BigZero THEN BigZero ELSE BigOne),
                       IF i % 8 = 1 THEN BPow(a, BigFromInt(k + 2)) ELSE BigZero,
                       BigAdd(BigShr(a, 3), BigShr(b, 3)), BInt(0 - i), BPow2(k)>>)
Spec == Init /\ [][Next]_i
=============================================================================
