----------------------------- MODULE CompressMC -----------------------------
(***************************************************************************)
(* Model checking of Compress (C15): a small composer state machine        *)
(* (append witness / append gate with a selector tuple from a menu, wires  *)
(* from the allocated witnesses, optional public input) and, in every      *)
(* reachable composer state, for every hash iteration order, every         *)
(* capacity and every hostile edit of the honest description, the          *)
(* invariants of the property.                                             *)
(*                                                                         *)
(* Scalars are small integers: 0, 1, 2 (= -1) and 3, 4 are entries of the  *)
(* built-in table (BaseList has a duplicate, as the real MDS matrix has),  *)
(* 5, 6 are not in the table, 99 is a non-canonical 32-byte string.        *)
(***************************************************************************)
EXTENDS Naturals, Sequences, FiniteSets, TLC

CONSTANTS MaxRows, MaxW, SelMenu, WireMode, InitMode, SortPI, TailIgnored

MCBaseList == <<0, 1, 2, 3, 4, 3>>
MCScalarBytes(s) == 64          \* worst case: every byte needs two
MCIntBytes(v) == 9              \* worst case
MCCanonical(s) == s < 90

C == INSTANCE Compress WITH BaseList <- MCBaseList, ScalarBytes <- MCScalarBytes,
                            IntBytes <- MCIntBytes, Canonical <- MCCanonical,
                            TailIgnored <- TailIgnored

VARIABLE c

\* selector tuples: q_m q_l q_r q_o q_f q_c q_arith q_range q_logic q_fixed q_var
Sels == << <<0, 2, 0, 0, 0, 0, 1, 0, 0, 0, 0>>,     \* table entries only
           <<5, 6, 0, 2, 0, 5, 1, 0, 0, 0, 0>>,     \* non-table, repeated inside the row
           <<3, 4, 0, 0, 0, 6, 0, 1, 0, 0, 0>>,     \* hades entries (3 is the duplicate)
           <<0, 0, 0, 0, 0, 0, 0, 0, 0, 0, 0>>,     \* all zero
           <<1, 2, 3, 4, 1, 4, 1, 0, 0, 0, 5>> >>   \* dummy-gate like

Gate(s, w) == [q |-> Sels[s], w |-> w]

\* Composer::initialized(): witnesses 0..5, two constant rows, two dummy rows
Initialized ==
  [rows |-> << Gate(1, <<0, 0, 0, 0>>), Gate(1, <<1, 0, 0, 0>>),
               Gate(5, <<2, 4, 5, 3>>), Gate(2, <<5, 2, 4, 0>>) >>,
   nw |-> 6, pis |-> {}]

Empty == [rows |-> <<>>, nw |-> 0, pis |-> {}]

Start == IF InitMode = "initialized" THEN Initialized ELSE Empty
BaseRows == Len(Start.rows)
BaseW == Start.nw

WireChoices(nw) ==
  LET W == 0..(nw - 1)
  IN IF WireMode = "full" THEN {<<a, b, x, d>> : a \in W, b \in W, x \in W, d \in W}
     ELSE IF WireMode = "abc" THEN {<<a, b, x, 0>> : a \in W, b \in W, x \in W}
     ELSE IF WireMode = "scen"      \* scenario generation: a thin but varied slice
       THEN {<<a, b, x, d>> : a \in {0, nw - 2, nw - 1}, b \in {1, nw - 1},
                              x \in {0, nw - 3}, d \in {0, nw - 1}}
     ELSE {<<a, b, 0, 0>> : a \in W, b \in W}

Init == c = Start

AppendWitness ==
  /\ c.nw < BaseW + MaxW
  /\ c' = [c EXCEPT !.nw = @ + 1]

AppendGate ==
  /\ Len(c.rows) < BaseRows + MaxRows
  /\ c.nw > 0
  /\ \E s \in SelMenu, w \in WireChoices(c.nw), pub \in BOOLEAN :
       c' = [c EXCEPT !.rows = Append(@, Gate(s, w)),
                      !.pis = IF pub THEN @ \cup {Len(c.rows)} ELSE @]

Next == AppendWitness \/ AppendGate
Spec == Init /\ [][Next]_c

--------------------------------------------------------------------------
Rows == Len(c.rows)

Honest(hades) == {C!Container(C!PayloadOf(c, hades, o, SortPI)) : o \in C!Orders(c.pis)}

\* capacities (max_constraints) from too small to ample
Monus1(x) == IF x = 0 THEN 0 ELSE x - 1
Caps == {0, Monus1(Rows), Rows, Rows + 1, 2 * Rows + 3}

\* public-parameter degrees: max_degree = d + 6 for setup(d), d = 1..40
Degrees == 7..46

(* RoundTripKeys: for every iteration order and both table settings, the
   decompressed composer determines the same keys; a capacity below the row
   count is an error *)
RoundTripKeys ==
  \A hades \in BOOLEAN : \A h \in Honest(hades) : \A max \in Caps :
     LET d == C!Decompress(h, max)
     IN IF Rows <= max
        THEN d.ok /\ C!Preprocess(d.composer) = C!Preprocess(c)
        ELSE ~d.ok /\ d.err = C!Invalid

\* all iteration orders produce the same bytes
CompressDeterministic ==
  \A hades \in BOOLEAN : \A h1, h2 \in Honest(hades) : h1 = h2

\* the dictionary -> vector loops are order independent
DictsBijective ==
  LET r == C!CompressRows(c.rows, 1, C!BaseDict(TRUE), <<>>, <<>>)
  IN C!DictIsBijection(r.sd) /\ C!DictIsBijection(r.pd)

SigmaIsNextInClass == C!Sigma(c) = C!SigmaDef(c)

(* CapacityAgrees: the two routes succeed for exactly the same parameter
   sizes and then give identical keys *)
CapacityAgrees ==
  \A h \in Honest(TRUE) :
    \A max \in {C!MaxConstraints(deg) : deg \in Degrees} :
      LET d == C!Decompress(h, max)
      IN \A deg \in {x \in Degrees : C!MaxConstraints(x) = max} :
           LET a == C!DirectFits(Rows, deg)
               b == d.ok /\ C!DirectFits(Len(d.composer.rows), deg)
           IN a = b

\* the sizes rule itself: c <= max_constraints(pp) iff the direct route fits
SizesAgree ==
  \A deg \in 0..80 : \A n \in 0..70 :
     (n <= C!MaxConstraints(deg)) = C!DirectFits(n, deg)

--------------------------------------------------------------------------
(* hostile edits of an honest container h; `huge` exceeds every capacity *)
Huge == 1000000

SetAt(s, i, v) == [s EXCEPT ![i] = v]
WithPis(h, pis) == [h EXCEPT !.payload.pis = pis, !.payload.decl.pis = Len(pis)]

Malformed(h) ==
  LET p == h.payload
      scalarCount == Len(C!BaseDict(p.hades)) + Len(p.scalars)
  IN   {[h EXCEPT !.payload.extra = 1]}                          \* trailing data inside the payload
  \cup {[h EXCEPT !.stream = "garbage"]}                         \* not a deflate stream
  \cup {WithPis(h, Append(p.pis, Len(p.cons)))}                  \* public input row out of range
  \cup (IF Len(p.pis) >= 1 THEN {WithPis(h, Append(p.pis, p.pis[Len(p.pis)]))} ELSE {})  \* repeated
  \cup (IF Len(p.pis) >= 2 THEN {WithPis(h, <<p.pis[2], p.pis[1]>> \o SubSeq(p.pis, 3, Len(p.pis)))} ELSE {})
  \cup (IF Len(p.polys) >= 1
        THEN {[h EXCEPT !.payload.polys[1] = SetAt(@, j, scalarCount)] : j \in {1, 6, 11}}
        ELSE {})
  \cup (IF Len(p.cons) >= 1
        THEN {[h EXCEPT !.payload.cons[Len(p.cons)] = SetAt(@, 1, Len(p.polys))]}
             \cup {[h EXCEPT !.payload.cons[1] = SetAt(@, k, p.nw)] : k \in 2..5}
        ELSE {})
  \cup {[h EXCEPT !.payload.decl.pis = Huge], [h EXCEPT !.payload.decl.scalars = Huge],
        [h EXCEPT !.payload.decl.polys = Huge], [h EXCEPT !.payload.decl.cons = Huge]}
  \cup {[h EXCEPT !.payload.decl.cons = Len(p.cons) + 1]}       \* header promises one more
  \cup {[h EXCEPT !.payload.scalars = Append(@, 99), !.payload.decl.scalars = @ + 1]}  \* not a scalar
  \cup {[h EXCEPT !.payload.extra = Huge * 1000]}                \* deflate bomb

\* unusual but well-formed: sparse witness labels do not drive allocation
Sparse(h) ==
  IF Len(h.payload.cons) >= 1
  THEN {[h EXCEPT !.payload.nw = Huge, !.payload.cons[1] = SetAt(@, 5, Huge - 1)]}
  ELSE {}

WithTail(h) == [h EXCEPT !.tail = 3]

AmpleCaps == {Rows + 1, 2 * Rows + 3}

RejectsMalformed ==
  \A h \in Honest(TRUE) : \A m \in Malformed(h) : \A max \in AmpleCaps :
     ~C!Decompress(m, max).ok

AcceptsSparse ==
  \A h \in Honest(TRUE) : \A m \in Sparse(h) : \A max \in AmpleCaps :
     LET d == C!Decompress(m, max)
     IN d.ok /\ Len(d.composer.rows) = Rows /\ d.composer.nw <= 4 * Rows

(* Bounded: whatever the input, what the call materialises is bounded by a
   function of the capacity *)
Bounded ==
  \A h \in Honest(TRUE) :
    \A m \in Malformed(h) \cup Sparse(h) \cup {h, WithTail(h)} : \A max \in Caps :
       C!WorkBounded(C!Decompress(m, max).work, max)

(* RejectsTrailing: a description followed by bytes after the deflate stream
   is rejected.  Holds for the code as it is (TailIgnored = FALSE).  With
   TailIgnored = TRUE -- the container as the code read it before the fix:
   the inflater stops at the end of the stream and the tail is never
   inspected -- it FAILS: the finding {compile_with_compressed,
   tail-after-deflate-stream}, kept as a self-test configuration. *)
RejectsTrailing ==
  \A h \in Honest(TRUE) : \A max \in AmpleCaps :
     ~C!Decompress(WithTail(h), max).ok

\* vacuity guards: some state exercises each feature
TypeOK == c.nw >= 0
=============================================================================
