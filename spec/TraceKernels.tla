---------------------------- MODULE TraceKernels ----------------------------
(***************************************************************************)
(* Trace validation of the real FFT / polynomial / closed-form kernels     *)
(* (C19) over the BLS12-381 scalar field.                                  *)
(*                                                                         *)
(* Every `call` event of harness/src/bin/kernels.rs carries the arguments  *)
(* and the result of one kernel call of the real library.  TLC recomputes  *)
(* the result with the DEFINITIONS of Poly (direct evaluation, schoolbook  *)
(* arithmetic, products of linear factors, sums of Lagrange terms):        *)
(*   - completely (O(n^2)) when the domain has at most 64 points;          *)
(*   - for larger domains at the seeded indices `idx` by Horner, and       *)
(*     through the O(n) functional of Poly at the seeded point `rho`       *)
(*     (idx and rho were derived from the digest of the output, i.e. after *)
(*     the output was fixed; PolyMC proves the functional identity).       *)
(* A result that differs from the definition is classified: if it equals   *)
(* what the code-as-it-is model of Poly predicts for one of the two known  *)
(* deviations the class is "len>n" / "point-in-domain", otherwise "other". *)
(*                                                                         *)
(* Events are independent; each is an initial state with one step (so the  *)
(* judging is spread over TLC's workers).  The whole trace is always       *)
(* consumed: Accepted requires two states per event.                       *)
(***************************************************************************)
EXTENDS FieldBLS, Json, IOUtils, Sequences, FiniteSets, TLC

Pl == INSTANCE Poly WITH FAdd <- BAdd, FSub <- BSub, FMul <- BMul, FNeg <- BNeg,
                         FInv <- BInv, FInt <- BInt

Rec == ndJsonDeserialize(IOEnv.TRACE)

VARIABLES l, done

Has(e, k) == k \in DOMAIN e
One == BInt(1)
Zero == BInt(0)

\* input vectors: {"s": small integers} or {"l": limb tuples}
Vec(o) == IF Has(o, "s") THEN TLCEval([i \in 1..Len(o.s) |-> BInt(o.s[i])]) ELSE o.l

RECURSIVE SqN(_, _)
SqN(x, k) == IF k = 0 THEN x ELSE SqN(TLCEval(BMul(x, x)), k - 1)

\* the 2^k-th root of unity of the two-adic tower (BRootOfUnity has order 2^32)
RootFor(n) == SqN(BRootOfUnity, BTwoAdicity - Pl!Log2(n))
Dom(n) == Pl!Domain(n, RootFor(n), BGenerator)

CompleteLimit == 64

(* ---------------- comparing a value vector with a polynomial ------------ *)
\* out = values of polynomial p on s*<w>:  complete, or sampled + functional
ValuesOf(out, p, s, d, e) ==
  IF d.n <= CompleteLimit
  THEN out = Pl!EvalAt(p, Pl!CosetPoints(s, d.w, d.n))
  ELSE /\ Len(out) = d.n
       /\ \A j \in 1..Len(e.idx) :
            out[e.idx[j] + 1] = Pl!Eval(p, BMul(s, Pl!PowI(d.w, e.idx[j])))
       /\ Pl!FunctionalOfValues(out, e.rho) = Pl!FunctionalOfPoly(p, s, e.rho, d.w, d.n)

\* c = the n coefficients interpolating the values v (Len(v) = n) on s*<w>
InterpolantOf(c, v, s, d, e) ==
  IF d.n <= CompleteLimit
  THEN Pl!Interpolates(c, v, Pl!CosetPoints(s, d.w, d.n))
  ELSE /\ Len(c) = d.n
       /\ \A j \in 1..Len(e.idx) :
            Pl!Eval(c, BMul(s, Pl!PowI(d.w, e.idx[j]))) = v[e.idx[j] + 1]
       /\ Pl!FunctionalOfValues(v, e.rho) = Pl!FunctionalOfCoeffs(c, s, e.rho, d.w, d.n)

V(tag) == [ok |-> TRUE, cls |-> tag]
M(cls) == [ok |-> FALSE, cls |-> cls]

JudgeFft(e, coset) ==
  LET d == Dom(Pl!NextPow2(e.nc))
      a == Vec(e.a)
      s == IF coset THEN d.g ELSE One
  IN IF e.res # "ok" THEN M("outcome")
     ELSE IF ValuesOf(e.out.l, a, s, d, e) THEN V("definition")
     ELSE IF Len(a) > d.n /\ ValuesOf(e.out.l, Pl!Resize(a, d.n), s, d, e) THEN M("len>n")
     ELSE M("other")

JudgeIfft(e, coset) ==
  LET d == Dom(Pl!NextPow2(e.nc))
      a == Vec(e.a)
      s == IF coset THEN d.g ELSE One
  IN IF e.res # "ok" THEN M("outcome")
     ELSE IF InterpolantOf(e.out.l, Pl!Resize(a, d.n), s, d, e)
          THEN V(IF Len(a) > d.n THEN "resize-semantics" ELSE "definition")
     ELSE M("other")

JudgeSerial(e) ==
  LET a == Vec(e.a)
      d == Dom(Pl!NextPow2(Len(a)))
  IN IF e.res # "ok" THEN M("outcome")
     ELSE IF ValuesOf(e.out.l, a, One, d, e) THEN V("definition") ELSE M("other")

(* ---------------- polynomial arithmetic ---------------- *)
PolyResult(e, expected) ==
  IF e.res # "ok" THEN M("outcome")
  ELSE IF Pl!PEq(e.out.l, expected) THEN V("definition") ELSE M("other")

JudgeMul(e) ==
  LET a == Pl!Norm(Vec(e.a))
      b == Pl!Norm(Vec(e.b))
      out == e.out.l
  IN IF e.res # "ok" THEN M("outcome")
     ELSE IF Len(a) + Len(b) <= 130
          THEN (IF Pl!PEq(out, Pl!PMul(a, b)) THEN V("definition") ELSE M("other"))
     ELSE IF /\ Pl!NormLen(out, Len(out)) <= Len(a) + Len(b) - 1
             /\ Pl!Eval(out, e.rho) = BMul(Pl!Eval(a, e.rho), Pl!Eval(b, e.rho))
             /\ \A j \in 1..Len(e.idx) :
                  Pl!Coef(out, e.idx[j] + 1) = Pl!ConvCoef(a, b, e.idx[j] + 1)
          THEN V("definition") ELSE M("other")

JudgeRuffini(e) ==
  IF e.res # "ok" THEN M("outcome")
  ELSE IF Pl!IsQuotientByLinear(e.out.l, Vec(e.a), e.x) THEN V("definition") ELSE M("other")

(* ---------------- closed forms ---------------- *)
JudgeLagrange(e) ==
  LET d == Dom(Pl!NextPow2(e.nc))
      pts == Pl!SubgroupPoints(d.w, d.n)
      out == e.out.l
  IN IF e.res # "ok" THEN M("outcome")
     ELSE IF d.n <= CompleteLimit
          THEN (IF out = Pl!LagrangeAllDef(e.x, pts) THEN V("definition") ELSE M("other"))
     ELSE IF /\ Len(out) = d.n
             /\ \A j \in 1..Len(e.idx) : out[e.idx[j] + 1] = Pl!LagrangeAt(pts, e.idx[j] + 1, e.x)
             /\ Pl!FunctionalOfCoeffs(out, One, e.rho, d.w, d.n)
                  = Pl!Sum(Pl!Powers(BMul(e.rho, e.x), d.n))
          THEN V("definition") ELSE M("other")

JudgeVanishing(e) ==
  LET d == Dom(Pl!NextPow2(e.nc))
  IN IF e.res # "ok" THEN M("outcome")
     ELSE IF e.y = Pl!VanishingDef(e.x, Pl!SubgroupPoints(d.w, d.n)) THEN V("definition")
     ELSE M("other")

\* X^deg - 1 as a coefficient vector
XdMinusOne(deg) == [i \in 1..(deg + 1) |-> IF i = 1 THEN (IF deg = 0 THEN Zero ELSE BNeg(One))
                                            ELSE IF i = deg + 1 THEN One ELSE Zero]

JudgeVanishingCoset(e) ==
  LET d == Dom(Pl!NextPow2(e.nc))
      cpts == Pl!CosetPoints(d.g, d.w, d.n)
  IN IF e.deg >= d.n THEN (IF e.res = "none" THEN V("refused") ELSE M("outcome"))
     ELSE IF e.res # "ok" THEN M("outcome")
     ELSE IF /\ ValuesOf(e.out.l, XdMinusOne(e.deg), d.g, d, e)
             /\ (d.n <= CompleteLimit /\ e.deg >= 1 /\ Pl!Pow2(Pl!Log2(e.deg)) = e.deg) =>
                  \* the vanishing polynomial of the subgroup of order deg
                  e.out.l = [i \in 1..d.n |->
                               Pl!VanishingDef(cpts[i], Pl!SubgroupPoints(RootFor(e.deg), e.deg))]
          THEN V("definition") ELSE M("other")

JudgeBarycentric(e) ==
  LET d == Dom(Pl!NextPow2(e.nc))
      a == Vec(e.a)
      pts == Pl!SubgroupPoints(d.w, d.n)
  IN IF e.res # "ok" THEN M("outcome")
     ELSE IF e.y = Pl!BarycentricDef(a, e.x, pts) THEN V("definition")
     ELSE IF Pl!PowI(e.x, d.n) = One /\ e.y = Pl!BarycentricCode(a, e.x, d, FALSE)
          THEN M("point-in-domain")
     ELSE M("other")

JudgeFused(e) ==
  LET d == Dom(Pl!NextPow2(e.nc))
      vals == e.b.l
      pts == Pl!SubgroupPoints(d.w, d.n)
  IN IF Pl!FusedRefuses(e.rows, vals, e.x, d)
     THEN (IF e.res = "err:ProofVerificationError" THEN V("refused") ELSE M("outcome"))
     ELSE IF e.res # "ok" THEN M("outcome")
     ELSE IF /\ e.y = Pl!LagrangeAt(pts, 1, e.x)
             /\ e.y2 = Pl!PiDef(e.rows, vals, e.x, pts)
          THEN V("definition") ELSE M("other")

JudgeDomain(e) ==
  LET n == Pl!NextPow2(e.nc)
  IN IF /\ e.size = n
        /\ e.w = RootFor(n)
        /\ Pl!IsPrimitiveRoot(e.w, n)
        /\ BMul(e.w, e.winv) = One
        /\ BMul(e.ninv, BInt(n)) = One
        /\ e.g = BGenerator
        \* the coset shift is a non-residue: g H is disjoint from every 2-power subgroup H
        /\ BPow(e.g, BigShr(BigSub(R, BigOne), 1)) = BNeg(One)
     THEN V("definition") ELSE M("other")

JudgeCall(e) ==
  LET k == e.kern IN
  IF k = "fft" THEN JudgeFft(e, FALSE)
  ELSE IF k = "coset_fft" THEN JudgeFft(e, TRUE)
  ELSE IF k = "ifft" THEN JudgeIfft(e, FALSE)
  ELSE IF k = "coset_ifft" THEN JudgeIfft(e, TRUE)
  ELSE IF k = "serial_fft" THEN JudgeSerial(e)
  ELSE IF k \in {"poly_add", "poly_add_assign"} THEN PolyResult(e, Pl!PAdd(Vec(e.a), Vec(e.b)))
  ELSE IF k \in {"poly_sub", "poly_sub_assign"} THEN PolyResult(e, Pl!PSub(Vec(e.a), Vec(e.b)))
  ELSE IF k = "poly_add_assign_scaled"
       THEN PolyResult(e, Pl!PAdd(Vec(e.a), Pl!PScale(Vec(e.b), e.k)))
  ELSE IF k = "poly_neg" THEN PolyResult(e, Pl!PNeg(Vec(e.a)))
  ELSE IF k = "poly_scale" THEN PolyResult(e, Pl!PScale(Vec(e.a), e.k))
  ELSE IF k = "poly_add_scalar" THEN PolyResult(e, Pl!PAdd(Vec(e.a), <<e.k>>))
  ELSE IF k = "poly_sub_scalar" THEN PolyResult(e, Pl!PSub(Vec(e.a), <<e.k>>))
  ELSE IF k = "poly_normalize"
       THEN (IF e.res = "ok" /\ e.out.l = Pl!Norm(Vec(e.a)) THEN V("definition") ELSE M("other"))
  ELSE IF k = "poly_degree"
       THEN (IF e.res = "ok" /\ e.d = Pl!Degree(Vec(e.a)) THEN V("definition") ELSE M("other"))
  ELSE IF k = "poly_mul" THEN JudgeMul(e)
  ELSE IF k = "poly_evaluate"
       THEN (IF e.res = "ok" /\ e.y = Pl!Eval(Vec(e.a), e.x) THEN V("definition") ELSE M("other"))
  ELSE IF k = "poly_ruffini" THEN JudgeRuffini(e)
  ELSE IF k = "batch_inversion"
       THEN (IF e.res = "ok" /\ Pl!IsBatchInverse(e.out.l, Vec(e.a)) THEN V("definition") ELSE M("other"))
  ELSE IF k = "lagrange_coefficients" THEN JudgeLagrange(e)
  ELSE IF k = "vanishing_eval" THEN JudgeVanishing(e)
  ELSE IF k = "vanishing_over_coset" THEN JudgeVanishingCoset(e)
  ELSE IF k = "barycentric_eval" THEN JudgeBarycentric(e)
  ELSE IF k = "fused_lagrange_pi" THEN JudgeFused(e)
  ELSE M("unknown-kernel")

Judge(e) ==
  LET r == IF e.ev = "domain" THEN JudgeDomain(e) ELSE JudgeCall(e)
      kern == IF e.ev = "domain" THEN "domain_params" ELSE e.kern
  IN \* one string per line (TLC wraps long tuples)
     IF r.ok THEN PrintT("VERDICT|" \o ToString(e.id) \o "|" \o kern \o "|" \o r.cls)
     ELSE PrintT("MISMATCH|" \o ToString(e.id) \o "|" \o kern \o "|" \o r.cls)

Init == l \in 1..Len(Rec) /\ done = FALSE
Next == /\ ~done
        /\ Judge(Rec[l])
        /\ done' = TRUE
        /\ l' = l
Spec == Init /\ [][Next]_<<l, done>>

\* every event was judged: two states per event
Accepted == TLCGet("stats").distinct = 2 * Len(Rec)
=============================================================================
