\* cheap run of TranscriptMC that only exports the item lists (ITEMS_OUT)
SPECIFICATION Spec
CONSTANTS
  MaxPI = 0
  MaxExport = 40
INVARIANTS
  Exported
CHECK_DEADLOCK FALSE
