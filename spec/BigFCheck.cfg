SPECIFICATION Spec
CONSTANT N = 24
CONSTANT Heavy = TRUE
CHECK_DEADLOCK FALSE
