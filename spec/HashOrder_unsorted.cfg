SPECIFICATION Spec
CONSTANTS
  NW = 3
  Rows = 2
  WireMode = "ab"
  SortKeys = FALSE
INVARIANTS
  PiIndependent
CHECK_DEADLOCK FALSE
