SPECIFICATION Spec
CONSTANTS
  Padding = 6
  Blinding = 6
  CapSlack = 0
  TableMax = 2000
  Caps <- C02CapsAll
  ProgsFor <- C02ProgsFor
  RoutesFor <- C02Routes
  LabelsFor <- C02Labels
  RoundTrips <- C02RoundTrips
  ProveVersions <- C02ProveVersions
  VerifyVersions <- C02VerifyVersions
  PIEditKinds = {}
  VerifierEditKinds = {}
  ProofEditKinds = {"splice", "degenerate", "mutate"}
  SpliceSets <- C02Splices
  SpliceProgs <- C02SpliceProgs
  ViolationKinds = {"set", "copy"}
  ViolationPick <- C02Pick
  MaxEdits = 1
  Emit = TRUE
VIEW viewAll
INVARIANTS Completeness TamperRejected FamilySatisfied Typed EmitScenario
CHECK_DEADLOCK FALSE
