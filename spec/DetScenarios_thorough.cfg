SPECIFICATION Spec
CONSTANTS
  Circuits = {"small", "mid", "large", "edge"}
  BelowSwitch = {"small"}
  AllPools = {1, 2, 3, 4, 5, 6, 7, 8, 9, 10, 11, 12, 13, 14, 15, 16, 17, 32, 33, 64, 65}
  SmallPools = {1, 2, 3, 4, 5, 8, 17, 32}
  FreshPools = {0, 1, 3, 4, 5, 17, 32}
  FreshProcs = 3
  ConcPools = {1, 4, 16}
INVARIANTS
  Emit
  Predicted
CHECK_DEADLOCK FALSE
