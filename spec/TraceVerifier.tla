--------------------------- MODULE TraceVerifier ---------------------------
(***************************************************************************)
(* The deciding half of the specification-driven reference verifier (C03). *)
(*                                                                         *)
(* Each event carries what a verifier knows after running the transcript   *)
(* (module Transcript, executed by the harness): protocol version, circuit *)
(* size from the verifier key, public-input rows and values, the proof's   *)
(* 15 evaluations and the 11 challenges.  For every event TLC evaluates    *)
(* Protocol!VerifierScalars over the BLS12-381 scalar field and prints the *)
(* two point -> scalar lists; the harness performs the multi-scalar        *)
(* multiplications and the pairing check and compares the verdict with the *)
(* implementation's.                                                       *)
(*                                                                         *)
(*  event: [id, version, vkn, rows, pis, ev, ch]                           *)
(*  output: one line per event, a JSON object (printed as a string)        *)
(*          {tag: "SCALARS", id, status, right: [[point, limbs]..], left}  *)
(***************************************************************************)
EXTENDS FieldBLS, Json, IOUtils, Sequences, TLC

Pr == INSTANCE Protocol WITH
        FAdd <- BAdd, FSub <- BSub, FMul <- BMul, FNeg <- BNeg, FInt <- BInt,
        FInv <- BInv, EdD <- BEdwardsD

Rec == ndJsonDeserialize(IOEnv.TRACE)

VARIABLE l

\* the evaluation domain: smallest power of two >= the circuit size, and
\* its generator  g^((r-1)/n)  derived from the 2^32-th root of unity
RECURSIVE NextPow2(_, _)
NextPow2(c, p) == IF p >= c THEN p ELSE NextPow2(c, 2 * p)
DomainSize(c) == NextPow2(c, 1)

RECURSIVE Log2(_)
Log2(n) == IF n <= 1 THEN 0 ELSE 1 + Log2(n \div 2)

RECURSIVE SquareTimes(_, _)
SquareTimes(x, k) == IF k = 0 THEN x ELSE SquareTimes(TLCEval(BMul(x, x)), k - 1)
DomainGenerator(n) == SquareTimes(BRootOfUnity, BTwoAdicity - Log2(n))

Judge(e) ==
  LET n == DomainSize(e.vkn)
      w == TLCEval(DomainGenerator(n))
      vs == Pr!VerifierScalars(e.version, e.ev, e.ch, n, w, e.rows, e.pis)
  IN PrintT(ToJson([tag |-> "SCALARS", id |-> e.id, status |-> vs.status,
                     right |-> vs.right, left |-> vs.left]))

(* Events are independent of each other: every event is an initial state and
   is judged by the one step that leaves it, so that TLC's workers evaluate
   events in parallel.  l = 0 is the common final state. *)
Init == l \in 1..Len(Rec)
Next == /\ l > 0
        /\ Judge(Rec[l])
        /\ l' = 0
Spec == Init /\ [][Next]_l

\* every line was consumed (all events and the final state were visited)
Accepted == TLCGet("stats").distinct = Len(Rec) + 1
=============================================================================
