---------------------------- MODULE GadgetSearch ----------------------------
(***************************************************************************)
(* The malicious-prover machine.                                           *)
(*                                                                         *)
(* For a gadget layout produced by Components.tla over a SMALL field (and  *)
(* a toy twisted-Edwards curve with cofactor 8) and fixed input witnesses, *)
(* the state is a partial assignment of field values to the witnesses the  *)
(* prover controls.  A step assigns the next witness (allocation order)    *)
(* ANY field value that does not violate a row whose wires (and, for       *)
(* custom gates, next-row wires) are now all assigned.  Terminal states    *)
(* are therefore exactly ALL satisfying assignments of the layout for      *)
(* those inputs -- every strategy a prover has, not the honest one.        *)
(*                                                                         *)
(* Invariants:  Sound    a satisfying assignment exists only if the        *)
(*                        documented relation holds, and then every        *)
(*                        RETURNED witness has the documented value;       *)
(*              Complete the honest assignment satisfies the layout for    *)
(*                        every input inside the relation.                 *)
(* The constants are those of the toy instance; NB, ScalarBits, Rounds,    *)
(* LeadingZero are derived exactly as in the real construction.            *)
(***************************************************************************)
EXTENDS FieldSmall, Sequences, FiniteSets, TLC

CONSTANTS NBits,      \* bit length of P
          D, Q,       \* toy curve: -x^2 + y^2 = 1 + D x^2 y^2, subgroup order Q (cofactor 8)
          Family,     \* which case family this run explores
          Tier,       \* "quick" | "thorough": size of the input sets
          Weaken      \* "none", or the name of a deliberately weakened layout (anti-vacuity runs)

RECURSIVE Pow2(_)
Pow2(k) == IF k = 0 THEN 1 ELSE 2 * Pow2(k - 1)
SBit(x, i) == (x \div Pow2(i)) % 2
SShr(x, k) == x \div Pow2(k)
SLow(x, k) == x % Pow2(k)
SPow2(k) == Pow2(k) % P
BitsOfInt(x, n) == [i \in 1..n |-> SBit(x, i - 1)]
InvModQ(a) == CHOOSE x \in 1..(Q - 1) : (a * x) % Q = 1
SBits == NBits - 3

\* the toy instance must be the same construction as the real one
ASSUME /\ NBits % 2 = 1                       \* 255 is odd: the bit array has NBits + 1 (even) entries
       /\ Pow2(NBits - 1) < P /\ P < Pow2(NBits)
       /\ Pow2(SBits - 1) <= Q /\ Q < Pow2(SBits)

C == INSTANCE Components WITH
       FAdd <- SAdd, FSub <- SSub, FMul <- SMul, FNeg <- SNeg, FInv <- SInv, FInt <- SInt,
       FBit <- SBit, FShr <- SShr, FLow <- SLow, FPow2 <- SPow2,
       NB <- NBits, EdD <- D, ScalarBits <- SBits, OrderM1 <- Q - 1,
       OrderBits <- BitsOfInt(Q, SBits), EightInvBits <- BitsOfInt(InvModQ(8 % Q), SBits), AdvMode <- "honest"

G == INSTANCE Gates WITH FAdd <- SAdd, FSub <- SSub, FMul <- SMul, FNeg <- SNeg,
                         FInt <- SInt, EdD <- D

(* ------------------------------------------------------------------------
   toy curve helpers (integers)                                            *)
OnCurve(p) == C!PtOnCurve(p)
CurvePts == {p \in F \X F : OnCurve(p)}
RECURSIVE MulInt(_, _)
MulInt(k, p) == IF k = 0 THEN <<0, 1>> ELSE C!PtAdd(p, MulInt(k - 1, p))
SubPts == {p \in CurvePts : MulInt(Q, p) = <<0, 1>>}
Gen == CHOOSE p \in SubPts : p # <<0, 1>>
AndI(a, b, n) == LET RECURSIVE f(_)
                     f(i) == IF i = n THEN 0 ELSE (IF SBit(a, i) = 1 /\ SBit(b, i) = 1 THEN Pow2(i) ELSE 0) + f(i + 1)
                 IN f(0)
XorI(a, b, n) == LET RECURSIVE f(_)
                     f(i) == IF i = n THEN 0 ELSE (IF SBit(a, i) # SBit(b, i) THEN Pow2(i) ELSE 0) + f(i + 1)
                 IN f(0)

(* ------------------------------------------------------------------------
   Cases.  A case = gadget name + parameters + input values.  Build(case)
   runs the specification's composer: initialized(), allocate the inputs,
   call the component.  nfix = number of witnesses that are not the
   prover's choice (constants of initialized() and the inputs).            *)
In1(x) == C!Alloc(C!Initialized, x)
In2(x, y) == C!Alloc(C!Alloc(C!Initialized, x), y)
In3(x, y, z) == C!Alloc(In2(x, y), z)
In4(x, y, z, u) == C!Alloc(In3(x, y, z), u)
W1 == 7   W2 == 8   W3 == 9   W4 == 10      \* indices of the first inputs

Lay(st, nfix, out) == [rows |-> st.rows, honest |-> st.vals, pis |-> st.pis, nfix |-> nfix, out |-> out]

Build(c) ==
  CASE c.g = "range" -> Lay(C!RangeCheck(In1(c.x), W1, c.n), 7, << >>)
    [] c.g = "range_pairs" -> Lay(C!ComponentRange(In1(c.x), W1, c.n), 7, << >>)
    [] c.g = "decomposition" -> LET r == C!Decomposition(In1(c.x), W1, c.n) IN Lay(r.st, 7, r.ret)
    [] c.g = "truncate" -> LET r == C!Truncate(In1(c.x), W1, c.n) IN Lay(r.st, 7, <<r.ret>>)
    [] c.g = "logic" -> LET r == C!Logic(In2(c.x, c.y), W1, W2, c.n, c.xor) IN Lay(r.st, 8, <<r.ret>>)
    [] c.g = "boolean" -> Lay(C!Boolean(In1(c.x), W1), 7, << >>)
    [] c.g = "select" -> LET r == C!Select(In3(c.x, c.y, c.z), W1, W2, W3) IN Lay(r.st, 9, <<r.ret>>)
    [] c.g = "select_one" -> LET r == C!SelectOne(In2(c.x, c.y), W1, W2) IN Lay(r.st, 8, <<r.ret>>)
    [] c.g = "select_zero" -> LET r == C!SelectZero(In2(c.x, c.y), W1, W2) IN Lay(r.st, 8, <<r.ret>>)
    [] c.g = "evalout" ->
         LET r == C!EvaluatedOutput(In3(c.x, c.y, c.z), c.q[1], c.q[2], c.q[3], c.q[4], c.q[5], c.q[6],
                                    W1, W2, C!ZERO, W3, c.haspi, c.pi)
         IN Lay(r.st, 9, IF r.ret = 0 THEN << >> ELSE <<r.ret>>)
    [] c.g = "assert_equal" -> Lay(C!AssertEqual(In2(c.x, c.y), W1, W2), 8, << >>)
    [] c.g = "assert_equal_constant" -> Lay(C!AssertEqualConstantPI(In1(c.x), W1, c.k, c.pi), 7, << >>)
    [] c.g = "add_point" -> LET r == C!AddPoint(In4(c.p[1], c.p[2], c.q[1], c.q[2]), <<W1, W2>>, <<W3, W4>>)
                            IN Lay(r.st, 10, r.ret)
    [] c.g = "sub_point" -> LET r == C!SubPoint(In4(c.p[1], c.p[2], c.q[1], c.q[2]), <<W1, W2>>, <<W3, W4>>)
                            IN Lay(r.st, 10, r.ret)
    \* operand handles: one handle for both operands, the constant identity (ZERO, ONE)
    [] c.g = "add_same" -> LET r == C!AddPoint(In2(c.p[1], c.p[2]), <<W1, W2>>, <<W1, W2>>) IN Lay(r.st, 8, r.ret)
    [] c.g = "add_const" -> LET r == C!AddPoint(In2(c.p[1], c.p[2]), <<W1, W2>>, <<C!ZERO, C!ONE>>) IN Lay(r.st, 8, r.ret)
    [] c.g = "const_add" -> LET r == C!AddPoint(In2(c.p[1], c.p[2]), <<C!ZERO, C!ONE>>, <<W1, W2>>) IN Lay(r.st, 8, r.ret)
    [] c.g = "sub_same" -> LET r == C!SubPoint(In2(c.p[1], c.p[2]), <<W1, W2>>, <<W1, W2>>) IN Lay(r.st, 8, r.ret)
    [] c.g = "neg_point" -> LET r == C!NegPoint(In2(c.p[1], c.p[2]), <<W1, W2>>) IN Lay(r.st, 8, r.ret)
    [] c.g = "select_identity" -> LET r == C!SelectIdentity(In3(c.x, c.p[1], c.p[2]), W1, <<W2, W3>>)
                                  IN Lay(r.st, 9, r.ret)
    [] c.g = "mul_point" -> LET r == C!MulPoint(In3(c.x, c.p[1], c.p[2]), W1, <<W2, W3>>, SBits)
                            IN Lay(r.st, 9, r.ret)
    [] c.g = "torsion" -> Lay(C!AssertTorsionFree(In2(c.p[1], c.p[2]), <<W1, W2>>), 8, << >>)
    [] c.g = "fixed" -> LET r == C!FixedBaseDigits(In1(c.x), W1, c.p, C!Naf(IF c.x < Q THEN c.x ELSE 0))
                        IN Lay(r.st, 7, r.ret)

(* the documented relation: is the statement true, and what must be returned *)
IntOfBits(bs, asg) == LET RECURSIVE f(_)
                          f(i) == IF i > Len(bs) THEN 0 ELSE asg[bs[i]] * Pow2(i - 1) + f(i + 1)
                      IN f(1)

InRel(c) ==
  CASE c.g \in {"range"} -> (c.n >= NBits) \/ c.x < Pow2(c.n)
    [] c.g = "range_pairs" -> (2 * c.n >= NBits) \/ c.x < Pow2(2 * c.n)
    [] c.g = "decomposition" -> c.x < Pow2(c.n)
    [] c.g = "boolean" -> c.x \in {0, 1}
    [] c.g = "assert_equal" -> c.x = c.y
    [] c.g = "assert_equal_constant" -> c.x = SAdd(c.k, c.pi)
    [] c.g = "evalout" ->
         (c.q[4] # 0) \/ (SAdd(SAdd(SAdd(SMul(c.q[1], SMul(c.x, c.y)), SMul(c.q[2], c.x)),
                                    SAdd(SMul(c.q[3], c.y), SMul(c.q[5], c.z))),
                               SAdd(c.q[6], IF c.haspi THEN c.pi ELSE 0)) = 0)
    [] c.g = "select_identity" -> c.x \in {0, 1}
    [] c.g = "torsion" -> c.p \in SubPts
    [] c.g = "fixed" -> c.x < Q
    [] c.g = "mul_point" -> c.x < Pow2(SBits)
    [] OTHER -> TRUE

\* expected values of the returned witnesses (only evaluated when InRel)
Expected(c) ==
  CASE c.g = "decomposition" -> [i \in 1..c.n |-> SBit(c.x, i - 1)]
    [] c.g = "truncate" -> << c.x % Pow2(c.n) >>
    [] c.g = "logic" -> << IF c.xor THEN XorI(c.x, c.y, 2 * c.n) ELSE AndI(c.x, c.y, 2 * c.n) >>
    [] c.g = "select" -> << SAdd(SMul(c.x, c.y), SMul(SSub(1, c.x), c.z)) >>
    [] c.g = "select_one" -> << SAdd(SSub(1, c.x), SMul(c.x, c.y)) >>
    [] c.g = "select_zero" -> << SMul(c.x, c.y) >>
    [] c.g = "evalout" ->
         IF c.q[4] = 0 THEN << >>
         ELSE << SNeg(SMul(SAdd(SAdd(SAdd(SMul(c.q[1], SMul(c.x, c.y)), SMul(c.q[2], c.x)),
                                     SAdd(SMul(c.q[3], c.y), SMul(c.q[5], c.z))),
                                SAdd(c.q[6], IF c.haspi THEN c.pi ELSE 0)), SInv(c.q[4]))) >>
    [] c.g = "add_point" -> C!PtAdd(c.p, c.q)
    [] c.g = "sub_point" -> C!PtAdd(c.p, C!PtNeg(c.q))
    [] c.g = "neg_point" -> C!PtNeg(c.p)
    [] c.g = "add_same" -> C!PtAdd(c.p, c.p)
    [] c.g \in {"add_const", "const_add"} -> c.p
    [] c.g = "sub_same" -> <<0, 1>>
    [] c.g = "select_identity" -> IF c.x = 1 THEN c.p ELSE <<0, 1>>
    [] c.g = "mul_point" -> MulInt(c.x, c.p)
    [] c.g = "fixed" -> MulInt(c.x, c.p)
    [] OTHER -> << >>

(* ------------------------------------------------------------------------
   case families                                                           *)
Seq2Set(s) == {s[i] : i \in 1..Len(s)}
Widths == 0..(NBits + 1)
AllX == F
BoundaryX == {0, 1, 2, 3, P - 1, P - 2} \cup {Pow2(k) % P : k \in 0..NBits} \cup {(Pow2(k) + P - 1) % P : k \in 0..NBits}
SelSmall == {0, 1, P - 1, 2}

\* every case has the same record shape (TLC cannot order heterogeneous records)
Cs(g) == [g |-> g, n |-> 0, xor |-> FALSE, x |-> 0, y |-> 0, z |-> 0, k |-> 0, pi |-> 0,
          haspi |-> FALSE, q |-> <<0, 0, 0, 0, 0, 0>>, p |-> <<0, 1>>]
NX(g, n, x) == [Cs(g) EXCEPT !.n = n, !.x = x]
XY(g, x, y) == [Cs(g) EXCEPT !.x = x, !.y = y]
PQ(g, p, q) == [Cs(g) EXCEPT !.p = p, !.q = q]
XP(g, x, p) == [Cs(g) EXCEPT !.x = x, !.p = p]

Cases ==
  CASE Family = "range" ->
         {NX("range", n, x) : n \in Widths, x \in AllX}
         \cup {NX("range_pairs", n, x) : n \in 0..((NBits + 3) \div 2), x \in BoundaryX}
    [] Family = "decomposition" ->
         {NX("decomposition", n, x) : n \in 1..(NBits - 1), x \in AllX}
    [] Family = "decomposition-wide" ->
         {NX("decomposition", n, x) : n \in {NBits, NBits + 1}, x \in AllX}
    [] Family = "truncate" ->
         {NX("truncate", n, x) : n \in 0..(NBits - 1), x \in AllX}
    [] Family = "logic" ->
         {[Cs("logic") EXCEPT !.n = n, !.xor = o, !.x = x, !.y = y] :
            n \in 0..((NBits - 1) \div 2), o \in BOOLEAN,
            x \in (IF Tier = "quick" THEN {0, 6, P - 1, 21} ELSE BoundaryX),
            \* (the F_97 instance of this family did not finish: BoundaryX x BoundaryX > 6*10^6 states in
            \* 50 min, BoundaryX x 2 values still running after 47 min; the thorough tier therefore uses
            \* the F_29 instance with the boundary value set, see GadgetSearch_logic_97.cfg)
            y \in (IF Tier = "quick" THEN {5, P - 1} ELSE {5, P - 1})}
    [] Family = "arith" ->
         {NX("boolean", 0, x) : x \in AllX}
         \cup {[Cs("select") EXCEPT !.x = x, !.y = y, !.z = z] : x \in {0, 1, 2, P - 1}, y \in {0, 5, P - 1}, z \in {0, 9}}
         \cup {XY("select_one", x, y) : x \in {0, 1, 2, P - 1}, y \in {0, 5, P - 1}}
         \cup {XY("select_zero", x, y) : x \in {0, 1, 2, P - 1}, y \in {0, 5, P - 1}}
         \cup {XY("assert_equal", x, y) : x \in {0, 1, 5}, y \in {0, 1, 5, P - 1}}
         \cup {[Cs("assert_equal_constant") EXCEPT !.x = x, !.k = kk, !.pi = pi] : x \in {0, 4, 9}, kk \in {0, 4}, pi \in {0, 5}}
         \cup {[Cs("evalout") EXCEPT !.q = <<qm, ql, 0, qo, qf, 3>>, !.x = x, !.y = 5, !.z = 9, !.haspi = hp, !.pi = 4] :
                 qm \in SelSmall, ql \in SelSmall, qo \in SelSmall \cup {5}, qf \in {0, 1}, x \in {0, 2, P - 1}, hp \in BOOLEAN}
    [] Family = "curve" ->
         {PQ("add_point", p, q) : p \in SubPts, q \in SubPts}
         \cup {PQ("sub_point", p, q) : p \in SubPts, q \in SubPts}
         \cup {PQ("neg_point", p, <<0, 1>>) : p \in SubPts}
         \cup {PQ(g, p, <<0, 1>>) : g \in {"add_same", "add_const", "const_add", "sub_same"}, p \in SubPts}
         \cup {XP("select_identity", x, p) : x \in {0, 1, 2, P - 1}, p \in SubPts}
    [] Family = "mul_point" ->
         {XP("mul_point", x, p) : x \in AllX, p \in {Gen, <<0, 1>>}}
    [] Family = "torsion" ->
         {XP("torsion", 0, p) : p \in (SubPts \cup {<<0, 0>>, <<0, P - 1>>, <<1, 0>>, <<3, 5>>})}
    [] Family = "torsion-all" ->
         {XP("torsion", 0, p) : p \in F \X F}
    [] Family = "torsion-lines" ->   \* every point of the curve (all orders) and a few off-curve pairs (each case costs ~P^2 states)
         {XP("torsion", 0, p) : p \in CurvePts \cup {<<0, 0>>, <<0, P - 1>>, <<1, 0>>, <<1, 1>>, <<3, 5>>}}
    [] Family = "fixed" ->
         {XP("fixed", x, p) : x \in AllX, p \in SubPts \ {<<0, 1>>}}

(* ------------------------------------------------------------------------
   search machine

   Pruning is per ATOM: every separately enforced identity component of a
   row is checked as soon as the wires IT reads are assigned (a range atom
   reads two wires, not the whole row).  The next witness to assign is a
   "unit" -- the only unassigned wire of some atom -- when there is one
   (its candidates are then cut down at once), else the lowest unassigned
   index.  Both are functions of the state, so the exploration is a tree
   whose leaves are exactly the satisfying assignments.                    *)
VARIABLES cs,     \* the case
          lay,    \* its layout and atom table (computed once per case, carried along)
          asg     \* witness values; -1 = not assigned yet

NRowsOf(l) == Len(l.rows)
SizeOf(l) == LET RECURSIVE np(_)
                 np(n) == IF n >= NRowsOf(l) THEN n ELSE np(2 * n)
             IN np(1)
NextRowOf(l, i) == IF i = SizeOf(l) THEN 1 ELSE i + 1      \* may exceed the rows: zero padding

\* wires of row i (zero-padding rows read the constant ZERO witness, value 0)
WireOf(l, i, kx) == IF i <= NRowsOf(l) THEN l.rows[i].w[kx] ELSE C!ZERO

\* atom table: [row, kind, j, vars]
AtomsOfRow(l, i) ==
  LET q == l.rows[i].q
      n == NextRowOf(l, i)
      a == WireOf(l, i, 1)   b == WireOf(l, i, 2)   c == WireOf(l, i, 3)   d == WireOf(l, i, 4)
      an == WireOf(l, n, 1)  bn == WireOf(l, n, 2)  dn == WireOf(l, n, 4)
      At(kind, j, vars) == [row |-> i, kind |-> kind, j |-> j, vars |-> vars]
      arith == << At("arith", 1,
                     (IF q[G!QARITH] # 0 /\ (q[G!QM] # 0 \/ q[G!QL] # 0) THEN {a} ELSE {})
                     \cup (IF q[G!QARITH] # 0 /\ (q[G!QM] # 0 \/ q[G!QR] # 0) THEN {b} ELSE {})
                     \cup (IF q[G!QARITH] # 0 /\ q[G!QO] # 0 THEN {c} ELSE {})
                     \cup (IF q[G!QARITH] # 0 /\ q[G!QF] # 0 THEN {d} ELSE {})) >>
      range == IF q[G!QRANGE] = 0 THEN << >>
               ELSE << At("range", 1, {c, d}), At("range", 2, {b, c}), At("range", 3, {a, b}), At("range", 4, {dn, a}) >>
      logic == IF q[G!QLOGIC] = 0 THEN << >>
               ELSE << At("logic", 1, {an, a}), At("logic", 2, {bn, b}), At("logic", 3, {dn, d}),
                       At("logic", 4, {c, an, a, bn, b}), At("logic", 5, {c, an, a, bn, b, dn, d}) >>
      fixed == IF q[G!QFIXED] = 0 THEN << >>
               ELSE << At("fixed", 1, {dn, d}), At("fixed", 2, {dn, d, c}),
                       At("fixed", 3, {an, a, b, c, dn, d}), At("fixed", 4, {bn, a, b, c, dn, d}) >>
      var == IF q[G!QVAR] = 0 THEN << >>
             ELSE << At("var", 1, {a, d, dn}), At("var", 2, {an, b, c, dn}), At("var", 3, {bn, a, b, c, d, dn}) >>
  IN arith \o range \o logic \o fixed \o var

RECURSIVE AtomsFrom(_, _)
AtomsFrom(l, i) == IF i > NRowsOf(l) THEN << >> ELSE AtomsOfRow(l, i) \o AtomsFrom(l, i + 1)

\* The witness to assign next and the atoms that become checkable depend only
\* on WHICH witnesses are assigned, never on their values: the whole plan
\* (order, ready[pos]) is computed once per case.
RECURSIVE PlanRec(_, _, _, _)
PlanRec(atoms, un, ord, rdy) ==
  IF un = {} THEN [order |-> ord, ready |-> rdy]
  ELSE LET na == Len(atoms)
           rest == [t \in 1..na |-> atoms[t].vars \cap un]
           units == UNION {IF Cardinality(rest[t]) = 1 THEN rest[t] ELSE {} : t \in 1..na}
           pick == IF units # {} THEN CHOOSE w \in units : \A u \in units : w <= u
                   ELSE CHOOSE w \in un : \A u \in un : w <= u
           ready == {t \in 1..na : rest[t] = {pick}}
       IN PlanRec(atoms, un \ {pick}, TLCEval(Append(ord, pick)), TLCEval(Append(rdy, ready)))

\* deliberately weakened layouts: the search must then FIND a counterexample
WeakenLay(l) ==
  CASE Weaken = "none" -> l
    [] Weaken = "drop-last-row" -> [l EXCEPT !.rows = SubSeq(l.rows, 1, Len(l.rows) - 1)]
    [] Weaken = "no-range" ->
         [l EXCEPT !.rows = [i \in 1..Len(l.rows) |-> [l.rows[i] EXCEPT !.q[G!QRANGE] = 0]]]
    [] Weaken = "no-boolean" ->      \* arithmetic rows a*a - a = 0 switched off
         [l EXCEPT !.rows = [i \in 1..Len(l.rows) |->
             IF l.rows[i].q[G!QM] = 1 /\ l.rows[i].q[G!QO] = P - 1 /\ l.rows[i].w[1] = l.rows[i].w[2]
                /\ l.rows[i].w[1] = l.rows[i].w[3]
             THEN [l.rows[i] EXCEPT !.q[G!QARITH] = 0] ELSE l.rows[i]]]

Plan(l0) ==
  LET l == WeakenLay(l0)
      atoms == TLCEval(AtomsFrom(l, 1))
      pl == PlanRec(atoms, (l.nfix + 1)..Len(l.honest), << >>, << >>)
  IN [stage |-> "planned", rows |-> l.rows, honest |-> l.honest, pis |-> l.pis, nfix |-> l.nfix,
      out |-> l.out, atoms |-> atoms, order |-> pl.order, ready |-> pl.ready]

PiOf(i) == IF \E p \in 1..Len(lay.pis) : lay.pis[p].row = i
           THEN lay.pis[CHOOSE p \in 1..Len(lay.pis) : lay.pis[p].row = i].v ELSE 0

Val(a, w) == IF a[w] < 0 THEN 0 ELSE a[w]
RowValsA(a, i) == << Val(a, WireOf(lay, i, 1)), Val(a, WireOf(lay, i, 2)),
                     Val(a, WireOf(lay, i, 3)), Val(a, WireOf(lay, i, 4)) >>

AtomHolds(a, at) ==
  LET i == at.row
      q == lay.rows[i].q
      v == RowValsA(a, i)
      vn == RowValsA(a, NextRowOf(lay, i))
  IN CASE at.kind = "arith" -> G!ArithAtom(q, v[1], v[2], v[3], v[4], PiOf(i)) = 0
       [] at.kind = "range" -> G!RangeAtoms(v[1], v[2], v[3], v[4], vn[4])[at.j] = 0
       [] at.kind = "logic" -> G!LogicAtoms(q[G!QC], v[1], v[2], v[3], v[4], vn[1], vn[2], vn[4])[at.j] = 0
       [] at.kind = "fixed" ->
            G!FixedAtoms(q[G!QL], q[G!QR], q[G!QC], v[1], v[2], v[3], v[4], vn[1], vn[2], vn[4])[at.j] = 0
       [] at.kind = "var" -> G!VarAtoms(v[1], v[2], v[3], v[4], vn[1], vn[2], vn[4])[at.j] = 0

NWit == Len(lay.honest)
NAtoms == Len(lay.atoms)
NewLay == [stage |-> "new"]

Init == /\ cs \in Cases
        /\ lay = NewLay
        /\ asg = << >>

\* first step of every case (run by the workers, in parallel): build the layout
\* with the specification's composer and plan the search
Prepare ==
  /\ lay = NewLay
  /\ LET l == Plan(Build(cs))
     IN /\ lay' = l
        /\ asg' = [w \in 1..Len(l.honest) |-> IF w <= l.nfix THEN l.honest[w] ELSE -1]
  /\ UNCHANGED cs

NAssigned == Cardinality({w \in 1..NWit : asg[w] >= 0}) - lay.nfix

Step ==
  /\ lay # NewLay
  /\ NAssigned < Len(lay.order)
  /\ LET pos == NAssigned + 1
         pick == lay.order[pos]
         ready == lay.ready[pos]
     IN \E x \in F :
          LET a2 == [asg EXCEPT ![pick] = x]
          IN /\ \A t \in ready : AtomHolds(a2, lay.atoms[t])
             /\ asg' = a2
  /\ UNCHANGED <<cs, lay>>

Next == Prepare \/ Step
Spec == Init /\ [][Next]_<<cs, lay, asg>>

Done == lay # NewLay /\ NAssigned = Len(lay.order)
\* atoms that only read fixed witnesses never become "ready": check them here
FixedAtomsHold == \A t \in 1..NAtoms :
                    (\A w \in lay.atoms[t].vars : w <= lay.nfix) => AtomHolds(asg, lay.atoms[t])

Sound ==
  (Done /\ FixedAtomsHold) =>
     /\ InRel(cs)
     /\ [i \in 1..Len(lay.out) |-> asg[lay.out[i]]] = Expected(cs)

Complete ==
  (lay # NewLay /\ NAssigned = 0 /\ InRel(cs)) =>
     \A t \in 1..NAtoms : AtomHolds(lay.honest, lay.atoms[t])
=============================================================================
