----------------------------- MODULE Components -----------------------------
(***************************************************************************)
(* The composer and its components, transcribed from the implementation:   *)
(* for every public component (and every internal seam) the rows it emits, *)
(* the witnesses it allocates and the honest values it gives them.         *)
(*                                                                         *)
(* Builder state  st = [rows |-> Seq(row), vals |-> Seq(F), pis |-> Seq]   *)
(*   row = [q |-> 11 selectors, w |-> <<a,b,c,d>> witness indices]         *)
(*   witness indices are 1-based: 1 = ZERO, 2 = ONE (the implementation's  *)
(*   index + 1);  pis = sequence of [row, v] (1-based row).                *)
(* An operation returns [st |-> st', ret |-> ...].                          *)
(*                                                                         *)
(* The module is parametric in the field AND in the bit widths, so that a  *)
(* toy instance (small prime, toy curve) is the same construction as the   *)
(* real one (NB = 255):                                                    *)
(*   NB        bit length of the field modulus (255)                       *)
(*   FBit(x,i) bit i of the canonical value; FShr(x,k) floor(x / 2^k);     *)
(*   FLow(x,k) x mod 2^k (as field elements); FPow2(k) = 2^k in the field  *)
(***************************************************************************)
EXTENDS Integers, Sequences, TLC

CONSTANTS FAdd(_, _), FSub(_, _), FMul(_, _), FNeg(_), FInv(_), FInt(_),
          FBit(_, _), FShr(_, _), FLow(_, _), FPow2(_),
          NB, EdD,
          ScalarBits,   \* bit length of the embedded curve's subgroup order (252)
          OrderM1,      \* subgroup order - 1, as a field element
          OrderBits,    \* little-endian bits of the subgroup order
          EightInvBits, \* little-endian bits of 8^-1 modulo the subgroup order
          AdvMode       \* "honest": the implementation's witness generation;
                        \* "closing-first": an adversarial generator for the range gadget
                        \* that satisfies the closing equalities and lets the digit
                        \* constraints absorb the overflow (used to derive override maps);
                        \* "shift-split": closing-first, and the truncation split moved by
                        \* one unit of 2^n from the high part into the low part

Zero == FInt(0)
One == FInt(1)
MinusOne == FNeg(One)
ZERO == 1      \* witness index of the constant 0
ONE == 2       \* witness index of the constant 1

Sel(qm, ql, qr, qo, qf, qc, qa, qrange, qlogic, qfixed, qvar) ==
  << qm, ql, qr, qo, qf, qc, qa, qrange, qlogic, qfixed, qvar >>

\* external selectors of an arithmetic gate
Ar(qm, ql, qr, qo, qf, qc) == Sel(qm, ql, qr, qo, qf, qc, One, Zero, Zero, Zero, Zero)
NoSel == Sel(Zero, Zero, Zero, Zero, Zero, Zero, Zero, Zero, Zero, Zero, Zero)

Empty == [rows |-> << >>, vals |-> << >>, pis |-> << >>]

V(st, w) == st.vals[w]
NW(st) == Len(st.vals)
NR(st) == Len(st.rows)

\* allocate a witness with an (honest) value; the new index is NW(st) + 1
Alloc(st, v) == [st EXCEPT !.vals = Append(@, v)]
Last(st) == NW(st)

Custom(st, q, a, b, c, d) == [st EXCEPT !.rows = Append(@, [q |-> q, w |-> <<a, b, c, d>>])]
CustomPI(st, q, a, b, c, d, pi) ==
  [st EXCEPT !.rows = Append(@, [q |-> q, w |-> <<a, b, c, d>>]),
             !.pis = Append(@, [row |-> Len(st.rows) + 1, v |-> pi])]

\* append_gate: only the 6 external selectors survive, q_arith = 1
Gate(st, qm, ql, qr, qo, qf, qc, a, b, c, d) == Custom(st, Ar(qm, ql, qr, qo, qf, qc), a, b, c, d)
GatePI(st, qm, ql, qr, qo, qf, qc, a, b, c, d, pi) ==
  CustomPI(st, Ar(qm, ql, qr, qo, qf, qc), a, b, c, d, pi)

(***************************************************************************)
(* Composer::initialized()                                                 *)
(***************************************************************************)
Initialized ==
  LET s1 == Alloc(Alloc(Empty, Zero), One)
      s2 == Gate(s1, Zero, MinusOne, Zero, Zero, Zero, Zero, ZERO, ZERO, ZERO, ZERO)
      s3 == Gate(s2, Zero, MinusOne, Zero, Zero, Zero, One, ONE, ZERO, ZERO, ZERO)
      s4 == Alloc(Alloc(Alloc(Alloc(s3, FInt(6)), FInt(1)), FInt(7)), FNeg(FInt(20)))
      six == 3   one == 4   seven == 5   m20 == 6
      s5 == Gate(s4, FInt(1), FInt(2), FInt(3), FInt(4), FInt(1), FInt(4), six, seven, m20, one)
      s6 == Gate(s5, FInt(1), FInt(1), FInt(1), FInt(1), Zero, FInt(127), m20, six, seven, ZERO)
  IN s6

(***************************************************************************)
(* Arithmetic family                                                       *)
(***************************************************************************)
\* value of q_m ab + q_l a + q_r b + q_f d + q_c + pi
EvalNoOut(st, qm, ql, qr, qf, qc, a, b, d, pi) ==
  FAdd(FAdd(FAdd(FMul(qm, FMul(V(st, a), V(st, b))), FMul(ql, V(st, a))),
            FAdd(FMul(qr, V(st, b)), FMul(qf, V(st, d)))),
       FAdd(qc, pi))

\* append_evaluated_output: c := -(...)/q_o when q_o is invertible; one gate
EvaluatedOutput(st, qm, ql, qr, qo, qf, qc, a, b, c, d, hasPi, pi) ==
  LET x == EvalNoOut(st, qm, ql, qr, qf, qc, a, b, d, IF hasPi THEN pi ELSE Zero)
  IN IF qo = Zero
     THEN [st |-> IF hasPi THEN GatePI(st, qm, ql, qr, qo, qf, qc, a, b, c, d, pi)
                  ELSE Gate(st, qm, ql, qr, qo, qf, qc, a, b, c, d),
           ret |-> 0]
     ELSE LET s1 == Alloc(st, FNeg(FMul(x, FInv(qo))))
              o == Last(s1)
          IN [st |-> IF hasPi THEN GatePI(s1, qm, ql, qr, qo, qf, qc, a, b, o, d, pi)
                     ELSE Gate(s1, qm, ql, qr, qo, qf, qc, a, b, o, d),
              ret |-> o]

\* gate_add / gate_mul: arithmetic(s) with q_o = -1 (no public input here)
GateAdd(st, ql, qr, qf, qc, a, b, d) ==
  EvaluatedOutput(st, Zero, ql, qr, MinusOne, qf, qc, a, b, ZERO, d, FALSE, Zero)
GateMul(st, qm, qf, qc, a, b, d) ==
  EvaluatedOutput(st, qm, Zero, Zero, MinusOne, qf, qc, a, b, ZERO, d, FALSE, Zero)
\* general form used by callers that set every selector
GateOut(st, qm, ql, qr, qf, qc, a, b, d) ==
  EvaluatedOutput(st, qm, ql, qr, MinusOne, qf, qc, a, b, ZERO, d, FALSE, Zero)

AssertEqual(st, a, b) == Gate(st, Zero, One, MinusOne, Zero, Zero, Zero, a, b, ZERO, ZERO)
AssertEqualConstant(st, a, k) == Gate(st, Zero, MinusOne, Zero, Zero, Zero, k, a, ZERO, ZERO, ZERO)
AssertEqualConstantPI(st, a, k, pi) ==
  GatePI(st, Zero, MinusOne, Zero, Zero, Zero, k, a, ZERO, ZERO, ZERO, pi)

AppendConstant(st, k) ==
  LET s1 == Alloc(st, k) IN [st |-> AssertEqualConstant(s1, Last(s1), k), ret |-> Last(s1)]
AppendPublic(st, p) ==
  LET s1 == Alloc(st, p)
  IN [st |-> GatePI(s1, Zero, MinusOne, Zero, Zero, Zero, Zero, Last(s1), ZERO, ZERO, ZERO, p),
      ret |-> Last(s1)]

Boolean(st, a) == Gate(st, One, Zero, Zero, MinusOne, Zero, Zero, a, a, a, ZERO)

Select(st, bit, a, b) ==
  LET r1 == GateMul(st, One, Zero, Zero, bit, a, ZERO)                 \* bit * a
      r2 == GateAdd(r1.st, MinusOne, Zero, Zero, One, bit, ZERO, ZERO)  \* 1 - bit
      r3 == GateMul(r2.st, One, Zero, Zero, r2.ret, b, ZERO)           \* (1-bit) * b
      r4 == GateAdd(r3.st, One, One, Zero, Zero, r3.ret, r1.ret, ZERO)
  IN r4

SelectOne(st, bit, value) ==
  LET f == FAdd(FSub(One, V(st, bit)), FMul(V(st, bit), V(st, value)))
      s1 == Alloc(st, f)
  IN [st |-> Gate(s1, One, MinusOne, Zero, MinusOne, Zero, One, bit, value, Last(s1), ZERO),
      ret |-> Last(s1)]

SelectZero(st, bit, value) == GateMul(st, One, Zero, Zero, bit, value, ZERO)

(***************************************************************************)
(* Bit decomposition: N bits, 2N witnesses, 2N + 1 rows                     *)
(***************************************************************************)
RECURSIVE DecompRec(_, _, _, _, _, _)
DecompRec(st, scalar, n, i, acc, bits) ==
  IF i = n THEN [st |-> AssertEqual(st, acc, scalar), ret |-> bits]
  ELSE LET s1 == Alloc(st, FInt(FBit(V(st, scalar), i)))
           wb == Last(s1)
           s2 == Boolean(s1, wb)
           r == GateAdd(s2, FPow2(i), One, Zero, Zero, wb, acc, ZERO)
       IN DecompRec(TLCEval(r.st), scalar, n, i + 1, r.ret, Append(bits, wb))

Decomposition(st, scalar, n) == DecompRec(st, scalar, n, 0, ZERO, << >>)

(***************************************************************************)
(* Range check                                                             *)
(***************************************************************************)
RangeSel == Sel(Zero, Zero, Zero, Zero, Zero, Zero, Zero, One, Zero, Zero, Zero)

Quad2(x, k) == FBit(x, 2 * k) + 2 * FBit(x, 2 * k + 1)      \* base-4 digit k (a TLC integer)

\* accumulators: most significant used digit first
RECURSIVE RangeAccs(_, _, _, _, _)
RangeAccs(st, x, k, acc, ws) ==          \* k = digits still to take
  IF k = 0 THEN [st |-> st, ws |-> ws]
  ELSE LET a == FAdd(FMul(FInt(4), acc), FInt(Quad2(x, k - 1)))
           s1 == Alloc(st, a)
       IN RangeAccs(TLCEval(s1), x, k - 1, a, Append(ws, Last(s1)))

RangeCheckEven(st, w, bits) ==
  IF bits = 0 THEN Gate(st, Zero, One, Zero, Zero, Zero, Zero, w, ZERO, ZERO, ZERO)
  ELSE
    LET ng == (bits \div 8) + (IF bits % 8 # 0 THEN 1 ELSE 0)
        nq == ng * 4
        pad == 1 + (((nq * 2) - bits) \div 2)
        r == RangeAccs(st, V(st, w), bits \div 2,
                       IF AdvMode # "honest" THEN FShr(V(st, w), bits) ELSE Zero, << >>)
        acc(i) == r.ws[i - pad + 1]                       \* i \in pad..nq
        \* slot i sits in gate (i div 4), wire D,C,B,A for i mod 4 = 0,1,2,3
        wire(g, m) == LET i == 4 * g + m IN IF i >= pad /\ i <= nq THEN acc(i) ELSE ZERO
        last == acc(nq)
        RECURSIVE Rows(_, _)
        Rows(s, g) ==
          IF g = ng THEN Custom(s, NoSel, ZERO, ZERO, ZERO, last)
          ELSE Rows(Custom(s, RangeSel, wire(g, 3), wire(g, 2), wire(g, 1), wire(g, 0)), g + 1)
    IN AssertEqual(Rows(r.st, 0), last, w)

RangeCheck(st, w, bits) ==
  IF bits % 2 = 0 THEN RangeCheckEven(st, w, bits)
  ELSE
    LET top == bits - 1
        x == V(st, w)
        s1 == Alloc(st, IF AdvMode # "honest"
                        THEN FSub(x, FMul(FInt(FBit(x, top)), FPow2(top)))   \* x with bit `top` cleared
                        ELSE FLow(x, top))
        lower == Last(s1)
        s2 == RangeCheckEven(s1, lower, top)
        s3 == Alloc(s2, FInt(FBit(x, top)))
        tb == Last(s3)
        s4 == Boolean(s3, tb)
        r == GateAdd(s4, One, FPow2(top), Zero, Zero, lower, tb, ZERO)
    IN AssertEqual(r.st, r.ret, w)

\* deprecated entry point: BIT_PAIRS pairs, capped at NB + 1 bits
ComponentRange(st, w, pairs) ==
  RangeCheckEven(st, w, IF 2 * pairs > NB + 1 THEN NB + 1 ELSE 2 * pairs)

(***************************************************************************)
(* Canonical truncation split                                               *)
(***************************************************************************)
\* r - 1 as a field element is -1; its bits are those of the modulus minus one
RLow(k) == FLow(MinusOne, k)
RHigh(k) == FShr(MinusOne, k)

AssertCanonicalTruncation(st, high, low, nbits) ==
  LET hb == NB - nbits
      r1 == GateAdd(st, MinusOne, Zero, Zero, RHigh(nbits), high, ZERO, ZERO)   \* diff = r_high - high
      diff == r1.ret
      s2 == RangeCheck(r1.st, diff, hb)
      s3 == Alloc(s2, FInv(V(s2, diff)))                                        \* inverse (0 -> 0)
      inv == Last(s3)
      r4 == GateMul(s3, One, Zero, Zero, diff, inv, ZERO)                        \* product
      r5 == GateAdd(r4.st, MinusOne, Zero, Zero, One, r4.ret, ZERO, ZERO)        \* is_top = 1 - product
      istop == r5.ret
      s6 == Gate(r5.st, One, Zero, Zero, Zero, Zero, Zero, diff, istop, ZERO, ZERO)
      r7 == GateAdd(s6, MinusOne, Zero, Zero, RLow(nbits), low, ZERO, ZERO)      \* r_low - low
      r8 == GateMul(r7.st, One, Zero, Zero, istop, r7.ret, ZERO)                 \* guard
  IN RangeCheck(r8.st, r8.ret, nbits)

BindTruncationSplit(st, input, low, nbits) ==
  LET hb == NB - nbits
      h0 == FShr(V(st, input), nbits)
      s1 == Alloc(st, IF AdvMode = "shift-split" /\ h0 # Zero THEN FSub(h0, One) ELSE h0)
      high == Last(s1)
      s2 == RangeCheck(s1, high, hb)
      r3 == GateAdd(s2, FPow2(nbits), One, Zero, Zero, high, low, ZERO)
      s4 == AssertEqual(r3.st, r3.ret, input)
  IN AssertCanonicalTruncation(s4, high, low, nbits)

Truncate(st, w, n) ==
  LET l0 == FLow(V(st, w), n)
      s1 == Alloc(st, IF AdvMode = "shift-split" /\ FShr(V(st, w), n) # Zero THEN FAdd(l0, FPow2(n)) ELSE l0)
      low == Last(s1)
      s2 == RangeCheck(s1, low, n)
  IN [st |-> BindTruncationSplit(s2, w, low, n), ret |-> low]

(***************************************************************************)
(* Logic (AND / XOR on base-4 digits)                                       *)
(***************************************************************************)
LogicSel(xor) == IF xor THEN Sel(Zero, Zero, Zero, Zero, Zero, MinusOne, Zero, Zero, MinusOne, Zero, Zero)
                 ELSE Sel(Zero, Zero, Zero, Zero, Zero, One, Zero, Zero, One, Zero, Zero)

AndD(a, b) == (IF a \in {1, 3} /\ b \in {1, 3} THEN 1 ELSE 0) + (IF a \in {2, 3} /\ b \in {2, 3} THEN 2 ELSE 0)
XorD(a, b) == (IF (a \in {1, 3}) # (b \in {1, 3}) THEN 1 ELSE 0) + (IF (a \in {2, 3}) # (b \in {2, 3}) THEN 2 ELSE 0)

\* row j carries (a_{j-1}, b_{j-1}, w_j, d_{j-1}); the closing plain row (a_p, b_p, 0, d_p)
RECURSIVE LogicRec(_, _, _, _, _, _, _, _, _, _, _)
LogicRec(st, xa, xb, pairs, xor, j, la, ra, oa, wa, wb) ==
  \* la/ra/oa = accumulator values; wa = <<wit a, wit b, wit d>> of the previous step
  IF j = pairs THEN [st |-> Custom(st, NoSel, wa[1], wa[2], ZERO, wa[3]), accs |-> wa]
  ELSE LET k == pairs - 1 - j                       \* digit index, most significant first
           lq == Quad2(xa, k)
           rq == Quad2(xb, k)
           oq == IF xor THEN XorD(lq, rq) ELSE AndD(lq, rq)
           la2 == FAdd(FMul(FInt(4), la), FInt(lq))
           ra2 == FAdd(FMul(FInt(4), ra), FInt(rq))
           oa2 == FAdd(FMul(FInt(4), oa), FInt(oq))
           s1 == Alloc(Alloc(Alloc(Alloc(st, la2), ra2), FInt(lq * rq)), oa2)
           n == NW(st)
           s2 == Custom(s1, LogicSel(xor), wa[1], wa[2], n + 3, wa[3])
       IN LogicRec(TLCEval(s2), xa, xb, pairs, xor, j + 1, la2, ra2, oa2, <<n + 1, n + 2, n + 4>>, wb)

Logic(st, a, b, pairs, xor) ==
  LET r == LogicRec(st, V(st, a), V(st, b), pairs, xor, 0, Zero, Zero, Zero, <<ZERO, ZERO, ZERO>>, 0)
  IN IF pairs = 0 THEN [st |-> r.st, ret |-> r.accs[3]]
     ELSE LET s1 == BindTruncationSplit(r.st, a, r.accs[1], 2 * pairs)
              s2 == BindTruncationSplit(s1, b, r.accs[2], 2 * pairs)
          IN [st |-> s2, ret |-> r.accs[3]]

(***************************************************************************)
(* Embedded curve: points are pairs of witnesses <<x, y>>                   *)
(***************************************************************************)
VarSel == Sel(Zero, Zero, Zero, Zero, Zero, Zero, Zero, Zero, Zero, Zero, One)

\* affine twisted-Edwards addition (a = -1); a vanishing denominator (only
\* possible for malformed inputs) yields the identity, as the code does
PtAdd(p, q) ==
  LET t == FMul(EdD, FMul(FMul(p[1], q[1]), FMul(p[2], q[2])))
      dx == FAdd(One, t)
      dy == FSub(One, t)
  IN IF dx = Zero \/ dy = Zero THEN << Zero, One >>
     ELSE << FMul(FAdd(FMul(p[1], q[2]), FMul(p[2], q[1])), FInv(dx)),
             FMul(FAdd(FMul(p[2], q[2]), FMul(p[1], q[1])), FInv(dy)) >>

PtNeg(p) == << FNeg(p[1]), p[2] >>
PtId == << Zero, One >>
PtOnCurve(p) ==
  FSub(FMul(p[2], p[2]), FMul(p[1], p[1]))
    = FAdd(One, FMul(EdD, FMul(FMul(p[1], p[1]), FMul(p[2], p[2]))))

RECURSIVE PtMulBits(_, _, _, _)
\* [k]p for k given by its little-endian bit sequence: double-and-add from the top
PtMulBits(p, bits, i, acc) ==
  IF i = 0 THEN acc
  ELSE LET d == PtAdd(acc, acc)
           e == IF bits[i] = 1 THEN PtAdd(d, p) ELSE d
       IN PtMulBits(p, bits, i - 1, TLCEval(e))
PtMul(p, bits) == PtMulBits(p, bits, Len(bits), PtId)

PVal(st, p) == << V(st, p[1]), V(st, p[2]) >>

AddPointGates(st, a, b) ==
  LET pa == PVal(st, a)
      pb == PVal(st, b)
      sum == PtAdd(pa, pb)
      s1 == Alloc(Alloc(Alloc(st, FMul(pa[1], pb[2])), sum[1]), sum[2])
      n == NW(st)
      s2 == Custom(s1, VarSel, a[1], a[2], b[1], b[2])
      s3 == Custom(s2, NoSel, n + 2, n + 3, ZERO, n + 1)
  IN [st |-> s3, ret |-> <<n + 2, n + 3>>]

AssertEqualPoint(st, a, b) == AssertEqual(AssertEqual(st, a[1], b[1]), a[2], b[2])

\* assert_torsion_free_gates(point, q): q = coordinates the prover supplies
TorsionFreeGates(st, p, q) ==
  LET s1 == Alloc(Alloc(st, q[1]), q[2])
      n == NW(st)
      qw == <<n + 1, n + 2>>
      r2 == GateMul(s1, One, Zero, Zero, qw[1], qw[1], ZERO)         \* u^2
      r3 == GateMul(r2.st, One, Zero, Zero, qw[2], qw[2], ZERO)      \* v^2
      r4 == GateMul(r3.st, One, Zero, Zero, r2.ret, r3.ret, ZERO)    \* u^2 v^2
      s5 == Gate(r4.st, Zero, MinusOne, One, FNeg(EdD), Zero, MinusOne, r2.ret, r3.ret, r4.ret, ZERO)
      d1 == AddPointGates(s5, qw, qw)
      d2 == AddPointGates(d1.st, d1.ret, d1.ret)
      d3 == AddPointGates(d2.st, d2.ret, d2.ret)
  IN AssertEqualPoint(d3.st, p, d3.ret)

NegPoint(st, p) ==
  LET r == EvaluatedOutput(st, Zero, MinusOne, Zero, MinusOne, Zero, Zero, p[1], ZERO, ZERO, ZERO, FALSE, Zero)
  IN [st |-> r.st, ret |-> <<r.ret, p[2]>>]
AddPoint(st, a, b) == AddPointGates(st, a, b)
SubPoint(st, a, b) == LET n == NegPoint(st, b) IN AddPointGates(n.st, a, n.ret)

SelectIdentityGates(st, bit, a) ==
  LET rx == SelectZero(st, bit, a[1])
      ry == SelectOne(rx.st, bit, a[2])
  IN [st |-> ry.st, ret |-> <<rx.ret, ry.ret>>]
SelectIdentity(st, bit, a) == SelectIdentityGates(Boolean(st, bit), bit, a)

SelectPoint(st, bit, a, b) ==
  LET rx == Select(st, bit, a[1], b[1])
      ry == Select(rx.st, bit, a[2], b[2])
  IN [st |-> ry.st, ret |-> <<rx.ret, ry.ret>>]

\* component_mul_point: ScalarBits-bit decomposition, then double / select / add
RECURSIVE MulPointRec(_, _, _, _, _)
MulPointRec(st, bits, point, i, result) ==
  IF i = 0 THEN [st |-> st, ret |-> result]
  ELSE LET d == AddPointGates(st, result, result)
           s == SelectIdentityGates(d.st, bits[i], point)
           a == AddPointGates(s.st, d.ret, s.ret)
       IN MulPointRec(TLCEval(a.st), bits, point, i - 1, a.ret)

MulPoint(st, scalar, point, scalarBits) ==
  LET dcmp == Decomposition(st, scalar, scalarBits)
  IN MulPointRec(dcmp.st, dcmp.ret, point, scalarBits, <<ZERO, ONE>>)

(***************************************************************************)
(* Point entry points.  A point value arrives in extended coordinates      *)
(* e = <<U, V, Z, T1, T2>>; every entry point rejects Z = 0 first.         *)
(***************************************************************************)
ExtAffine(e) == LET zi == FInv(e[3]) IN << FMul(e[1], zi), FMul(e[2], zi) >>
ExtOnCurve(e) ==
  /\ e[3] # Zero
  /\ PtOnCurve(ExtAffine(e))
  /\ FMul(FMul(ExtAffine(e)[1], ExtAffine(e)[2]), e[3]) = FMul(e[4], e[5])
TorsionFree(p) == PtMul(p, OrderBits) = PtId
PrimeOrder(p) == TorsionFree(p) /\ p # PtId

Err(st, class) == [st |-> st, ret |-> << >>, res |-> class]
OkR(st, ret) == [st |-> st, ret |-> ret, res |-> "ok"]

AppendPoint(st, e) ==
  IF e[3] = Zero THEN Err(st, "err:JubJubPointDegenerate")
  ELSE LET p == ExtAffine(e)
           s1 == Alloc(Alloc(st, p[1]), p[2])
       IN OkR(s1, <<NW(st) + 1, NW(st) + 2>>)

AppendConstantPoint(st, e) ==
  IF e[3] = Zero THEN Err(st, "err:JubJubPointDegenerate")
  ELSE IF ~(ExtOnCurve(e) /\ TorsionFree(ExtAffine(e))) THEN Err(st, "err:JubJubPointNotTorsionFree")
  ELSE LET p == ExtAffine(e)
           rx == AppendConstant(st, p[1])
           ry == AppendConstant(rx.st, p[2])
       IN OkR(ry.st, <<rx.ret, ry.ret>>)

AppendPublicPoint(st, e) ==
  IF e[3] = Zero THEN Err(st, "err:JubJubPointDegenerate")
  ELSE LET p == ExtAffine(e)
           s1 == Alloc(Alloc(st, p[1]), p[2])
           x == NW(st) + 1
           y == NW(st) + 2
           s2 == AssertEqualConstantPI(s1, x, Zero, p[1])
           s3 == AssertEqualConstantPI(s2, y, Zero, p[2])
       IN OkR(s3, <<x, y>>)

AssertEqualPublicPoint(st, pt, e) ==
  IF e[3] = Zero THEN Err(st, "err:JubJubPointDegenerate")
  ELSE LET p == ExtAffine(e)
           s2 == AssertEqualConstantPI(st, pt[1], Zero, p[1])
       IN OkR(AssertEqualConstantPI(s2, pt[2], Zero, p[2]), << >>)

\* honest auxiliary point Q = [8^-1] P (the identity stands in for an
\* off-curve P, which admits no satisfying Q)
AssertTorsionFree(st, pt) ==
  LET p == PVal(st, pt)
      q == IF PtOnCurve(p) THEN PtMul(p, EightInvBits) ELSE PtId
  IN TorsionFreeGates(st, pt, q)

(***************************************************************************)
(* Fixed-base scalar multiplication with signed digits                      *)
(***************************************************************************)
FixedSel(xb, yb) == Sel(Zero, xb, yb, Zero, Zero, FMul(xb, yb), Zero, Zero, Zero, One, Zero)
Rounds == NB + 1
LeadingZeroRounds == Rounds - (ScalarBits + 1)

AssertCanonicalScalar(st, w) ==
  LET s1 == RangeCheck(st, w, ScalarBits)
      r2 == GateAdd(s1, MinusOne, Zero, Zero, OrderM1, w, ZERO, ZERO)
  IN RangeCheck(r2.st, r2.ret, ScalarBits)

\* table[j] = [2^(j-1)] g, j = 1..Rounds
RECURSIVE Doublings(_, _, _)
Doublings(p, n, acc) == IF n = 0 THEN acc ELSE Doublings(TLCEval(PtAdd(p, p)), n - 1, Append(acc, p))

\* non-adjacent form of the canonical value of k (digits in {-1,0,1}, least
\* significant first, Rounds entries) -- the unique width-2 NAF
RECURSIVE NafRec(_, _, _)
NafRec(k, n, acc) ==
  IF n = 0 THEN acc
  ELSE IF FBit(k, 0) = 0 THEN NafRec(FShr(k, 1), n - 1, Append(acc, 0))
  ELSE IF FBit(k, 1) = 1 THEN NafRec(FShr(FAdd(k, One), 1), n - 1, Append(acc, -1))
  ELSE NafRec(FShr(FSub(k, One), 1), n - 1, Append(acc, 1))
Naf(k) == NafRec(k, Rounds, << >>)

DigitF(d) == IF d = 1 THEN One ELSE IF d = -1 THEN MinusOne ELSE Zero

\* round i = 0..Rounds-1 consumes digits[Rounds - i] and the multiple [2^(Rounds-1-i)] g
RECURSIVE FixedRounds(_, _, _, _, _, _, _)
FixedRounds(st, digits, table, i, sacc, pacc, lead) ==
  IF i = Rounds THEN [st |-> st, sacc |-> sacc, pacc |-> pacc, lead |-> lead]
  ELSE LET dg == digits[Rounds - i]
           beta == table[Rounds - i]
           alpha == IF dg = 1 THEN beta ELSE IF dg = -1 THEN PtNeg(beta) ELSE PtId
           s1 == Alloc(Alloc(Alloc(st, pacc[1]), pacc[2]), sacc)
           n == NW(st)
           s2 == IF i = 0
                 THEN AssertEqualConstant(AssertEqualConstant(AssertEqualConstant(s1, n + 1, Zero), n + 2, One), n + 3, Zero)
                 ELSE s1
           s3 == Alloc(s2, FMul(alpha[1], alpha[2]))
           s4 == Custom(s3, FixedSel(beta[1], beta[2]), n + 1, n + 2, n + 4, n + 3)
       IN FixedRounds(TLCEval(s4), digits, table, i + 1,
                      FAdd(FAdd(sacc, sacc), DigitF(dg)), PtAdd(pacc, alpha),
                      IF i = LeadingZeroRounds THEN n + 3 ELSE lead)

FixedBaseDigits(st, scalar, g, digits) ==
  LET s0 == AssertCanonicalScalar(st, scalar)
      table == Doublings(g, Rounds, << >>)
      r == FixedRounds(s0, digits, table, 0, Zero, PtId, ZERO)
      s1 == Alloc(Alloc(Alloc(r.st, r.pacc[1]), r.pacc[2]), r.sacc)
      n == NW(r.st)
      s2 == Gate(s1, Zero, Zero, Zero, Zero, Zero, Zero, n + 1, n + 2, ZERO, n + 3)
      s3 == AssertEqualConstant(s2, r.lead, Zero)
      s4 == AssertEqual(s3, n + 3, scalar)
  IN OkR(s4, <<n + 1, n + 2>>)

\* canonical value below the subgroup order?
ScalarCanonical(x) == FShr(FSub(OrderM1, x), ScalarBits) = Zero /\ FShr(x, ScalarBits) = Zero

MulGenerator(st, scalar, e) ==
  IF e[3] = Zero \/ ~ExtOnCurve(e) \/ ~PrimeOrder(ExtAffine(e)) THEN Err(st, "err:JubJubGeneratorNotPrimeOrder")
  ELSE IF ~ScalarCanonical(V(st, scalar)) THEN Err(st, "err:JubJubScalarMalformed")
  ELSE FixedBaseDigits(st, scalar, ExtAffine(e), Naf(V(st, scalar)))
=============================================================================
