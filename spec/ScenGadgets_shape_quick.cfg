SPECIFICATION Spec
CONSTANT Family = "shape"
CONSTANT Tier = "quick"
INVARIANT Emit
INVARIANT PointsInv
CHECK_DEADLOCK FALSE
