CONSTANTS
  N = 8
  CONS = 7
  LABEL = 10
  NPI = 1
  CKP = 23
  PPP = 23
  Machines <- OnlyEnc
  MaxMut <- MutGenQ
  Dev <- PkbufDev
  Emit = TRUE
INIT Init
NEXT Next
CHECK_DEADLOCK FALSE
INVARIANTS
  Total
  StepBound
  AllocBound
  AcceptedIsWellFormed
  ProofCanonical
  Progress
  EmitScenarios
