SPECIFICATION Spec
CONSTANTS
  P = 13
  OpenLen = 3
  ForgeLen = 0
  Fams = {"key", "commit", "open", "agg", "batch"}
INVARIANTS
  SetupGivesConsistentSrs
  TruncateKeepsConsistentPrefix
  TrimKeepsEveryProverDegree
  CommitIsLinear
  CommitOfZeroIsIdentity
  CommitBeyondKeyDegreeErrs
  OpeningVerifiesIffValueTrue
  NoWitnessOpensAWrongValue
  AggregatedOpeningVerifiesIffAllValuesTrue
  FlattenIsLinearCombination
  BatchVerifiesIffEveryEntryTrue
  EmptyAndMismatchedBatchesAreRefused
  BatchChallengeBindsEveryField
CHECK_DEADLOCK FALSE
