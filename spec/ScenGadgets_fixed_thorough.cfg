SPECIFICATION Spec
CONSTANT Family = "fixed"
CONSTANT Tier = "thorough"
INVARIANT Emit
INVARIANT PointsInv
CHECK_DEADLOCK FALSE
