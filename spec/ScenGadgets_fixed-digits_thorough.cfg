SPECIFICATION Spec
CONSTANT Family = "fixed-digits"
CONSTANT Tier = "thorough"
INVARIANT Emit
CHECK_DEADLOCK FALSE
