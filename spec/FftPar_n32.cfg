SPECIFICATION Spec
CONSTANTS
  P = 97
  Omega8 = 64
  Omega16 = 8
  Omega32 = 28
  LogN = 5
  ThreadSet = {3, 4, 5}
  MinLen = 8
  MinChunks = 4
  MinThreads = 4
  Inputs = "dense"
  RangeLen = "ceil"
INVARIANTS
  NoOverlap
  StageCovers
  ResultIsSerial
  ResultIsDFT
PROPERTY Terminates
CHECK_DEADLOCK FALSE
