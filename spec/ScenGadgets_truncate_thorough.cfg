SPECIFICATION Spec
CONSTANT Family = "truncate"
CONSTANT Tier = "thorough"
INVARIANT Emit
CHECK_DEADLOCK FALSE
