---------------------------- MODULE TraceProver ----------------------------
(***************************************************************************)
(* Trace validation of the real prover against ConstraintSystem!Satisfied  *)
(* over the BLS12-381 scalar field (C05; also the oracle of C01/C02).      *)
(*                                                                         *)
(* Every `prove` event carries the compiled description (selectors, wire   *)
(* classes, public-input rows, padded size), the instance (wire indices    *)
(* into a witness table, public-input values) and what the implementation  *)
(* did.  The specification predicts the outcome:                           *)
(*   instance row count # compiled count       -> InvalidCircuitSize       *)
(*   Satisfied(compiled, instance)             -> ok, and the proof must   *)
(*                                                verify                   *)
(*   otherwise                                 -> CircuitUnsatisfied       *)
(* A mismatch is printed (MISMATCH line) and counted; the whole trace is   *)
(* always consumed so that every event is judged.                          *)
(***************************************************************************)
EXTENDS FieldBLS, Json, IOUtils, Sequences, FiniteSets

CS == INSTANCE ConstraintSystem WITH
        FAdd <- BAdd, FSub <- BSub, FMul <- BMul, FNeg <- BNeg, FInt <- BInt,
        EdD <- BEdwardsD

Rec == ndJsonDeserialize(IOEnv.TRACE)

VARIABLES l,      \* next trace line
          base    \* the last `base` event: compiled description + honest table

HasKey(e, k) == k \in DOMAIN e

Sel(b) == [i \in 1..Len(b.sel) |-> [j \in 1..11 |-> b.dict[b.sel[i][j]]]]

\* witness table of the instance: full, or the base table with overrides
Table(b, e) ==
  IF HasKey(e, "full") THEN e.full
  ELSE [k \in 1..Len(b.tab) |->
          IF \E o \in 1..Len(e.over) : e.over[o][1] = k
          THEN e.over[CHOOSE o \in 1..Len(e.over) : e.over[o][1] = k][2]
          ELSE b.dict[b.tab[k]]]
       \o (IF HasKey(e, "ext") THEN e.ext ELSE << >>)     \* witnesses allocated after the base table

Wiring(b, e) == IF HasKey(e, "iw") THEN e.iw ELSE b.cls

Vals(w, t) == [i \in 1..Len(w) |-> << t[w[i][1]], t[w[i][2]], t[w[i][3]], t[w[i][4]] >>]

PiDense(e, n) ==
  [i \in 1..n |->
     IF \E p \in 1..Len(e.ipi) : e.ipi[p].row = i
     THEN e.ipi[CHOOSE p \in 1..Len(e.ipi) : e.ipi[p].row = i].v
     ELSE BigZero]

SamePiRows(b, e) == {e.ipi[p].row : p \in 1..Len(e.ipi)} = {b.cpi[p] : p \in 1..Len(b.cpi)}

Predicted(b, e) ==
  IF e.n # b.c THEN "err:InvalidCircuitSize"
  ELSE IF ~SamePiRows(b, e) THEN "out-of-scope"
  ELSE LET t == TLCEval(Table(b, e))
           v == TLCEval(Vals(Wiring(b, e), t))
       IN IF CS!Satisfied(TLCEval(Sel(b)), b.cls, v, TLCEval(PiDense(e, e.n)), b.size)
          THEN "ok" ELSE "err:CircuitUnsatisfied"

Judge(b, e) ==
  LET p == Predicted(b, e)
      good == \/ p = "out-of-scope"
              \/ /\ p = e.res
                 /\ (e.res = "ok" => e.verify = "ok")
  \* one string per line: TLC wraps long tuples over several output lines
  IN IF good THEN PrintT("VERDICT|" \o ToString(l) \o "|" \o p)
     ELSE PrintT("MISMATCH|" \o ToString(l) \o "|" \o p \o "|" \o e.res \o "|" \o e.verify)

Init == l = 1 /\ base = [ev |-> "none"]
Next == /\ l <= Len(Rec)
        /\ LET e == Rec[l] IN
             IF e.ev = "base" THEN base' = e
             ELSE /\ base' = base
                  /\ (e.ev = "prove" => Judge(base, e))
        /\ l' = l + 1
Spec == Init /\ [][Next]_<<l, base>>

\* every line was consumed
Accepted == TLCGet("stats").diameter - 1 = Len(Rec)
=============================================================================
