SPECIFICATION Spec
CONSTANT P = 97
CONSTANT NBits = 7
CONSTANT D = 7
CONSTANT Q = 13
CONSTANT Family = "torsion-lines"
CONSTANT Tier = "thorough"
CONSTANT Weaken = "none"
INVARIANT Sound
INVARIANT Complete
CHECK_DEADLOCK FALSE
