SPECIFICATION Spec
CONSTANTS
  P = 97
  Gen = 5
  Sizes = {4, 8}
INVARIANTS
  ScalarMapIsTextbook
  LinearisationIsIdentity
  GateIdentityIsQuotientForm
  BatchedOpeningConsistent
CHECK_DEADLOCK FALSE
