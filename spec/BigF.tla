------------------------------- MODULE BigF -------------------------------
(***************************************************************************)
(* Natural numbers below 2^260 as tuples of NL = 20 little-endian limbs in *)
(* base 2^13 (so that limb products fit TLC's 32-bit integers), with the    *)
(* modular arithmetic the specification needs over the 255-bit BLS12-381    *)
(* scalar field.                                                            *)
(*                                                                          *)
(* The definitions below are the meaning of the operators.  For speed TLC   *)
(* replaces them with the Java module override BigF.class (BigInteger);     *)
(* `BigFCheck.tla` cross-checks override against definition on seeded       *)
(* operands (run by setup).                                                 *)
(***************************************************************************)
EXTENDS Naturals, Sequences, TLC

(* TLC passes operator arguments lazily; TLCEval forces the accumulators so
   that the recursions below run in constant thunk depth. *)

Base == 8192
LimbBits == 13
NL == 20

IsBig(a) == /\ Len(a) = NL
            /\ \A i \in 1..NL : a[i] \in 0..(Base - 1)

BigZero == [i \in 1..NL |-> 0]

RECURSIVE FromIntRec(_, _, _)
FromIntRec(k, i, acc) ==
  IF i > NL THEN acc ELSE FromIntRec(k \div Base, i + 1, Append(acc, k % Base))

(* k a TLC natural (< 2^31) *)
BigFromInt(k) == FromIntRec(k, 1, <<>>)

BigOne == BigFromInt(1)

RECURSIVE CmpRec(_, _, _)
(* -1, 0, 1 as 0, 1, 2: compare from the most significant limb *)
CmpRec(a, b, i) ==
  IF i = 0 THEN 1
  ELSE IF a[i] < b[i] THEN 0
  ELSE IF a[i] > b[i] THEN 2
  ELSE CmpRec(a, b, i - 1)

BigLt(a, b) == CmpRec(a, b, NL) = 0
BigLe(a, b) == CmpRec(a, b, NL) # 2
BigEq(a, b) == a = b

RECURSIVE AddRec(_, _, _, _, _)
AddRec(a, b, i, c, acc) ==
  IF i > NL THEN acc
  ELSE LET s == a[i] + b[i] + c
       IN AddRec(a, b, i + 1, s \div Base, TLCEval(Append(acc, s % Base)))

(* a + b, which must stay below 2^260 *)
BigAdd(a, b) == AddRec(a, b, 1, 0, <<>>)

RECURSIVE SubRec(_, _, _, _, _)
SubRec(a, b, i, br, acc) ==
  IF i > NL THEN acc
  ELSE LET d == a[i] - b[i] - br
       IN IF d >= 0 THEN SubRec(a, b, i + 1, 0, TLCEval(Append(acc, d)))
                    ELSE SubRec(a, b, i + 1, 1, TLCEval(Append(acc, d + Base)))

(* a - b for a >= b *)
BigSub(a, b) == SubRec(a, b, 1, 0, <<>>)

Pow2Small(k) == IF k = 0 THEN 1 ELSE IF k = 1 THEN 2 ELSE IF k = 2 THEN 4
  ELSE IF k = 3 THEN 8 ELSE IF k = 4 THEN 16 ELSE IF k = 5 THEN 32
  ELSE IF k = 6 THEN 64 ELSE IF k = 7 THEN 128 ELSE IF k = 8 THEN 256
  ELSE IF k = 9 THEN 512 ELSE IF k = 10 THEN 1024 ELSE IF k = 11 THEN 2048
  ELSE IF k = 12 THEN 4096 ELSE 8192

(* bit i (0-based) of a; 0 beyond 260 bits *)
BigBit(a, i) ==
  IF i >= NL * LimbBits THEN 0
  ELSE (a[(i \div LimbBits) + 1] \div Pow2Small(i % LimbBits)) % 2

(* a mod 2^k *)
BigLow(a, k) ==
  [i \in 1..NL |->
     IF i * LimbBits <= k THEN a[i]
     ELSE IF (i - 1) * LimbBits >= k THEN 0
     ELSE a[i] % Pow2Small(k - (i - 1) * LimbBits)]

(* floor(a / 2^k) *)
BigShr(a, k) ==
  LET q == k \div LimbBits
      r == k % LimbBits
      limb(j) == IF j > NL THEN 0 ELSE a[j]
  IN [i \in 1..NL |->
        (limb(i + q) \div Pow2Small(r))
        + (limb(i + q + 1) % Pow2Small(r)) * Pow2Small(LimbBits - r)]

(* number of significant bits *)
RECURSIVE BitLenRec(_, _)
BitLenRec(a, i) == IF i = 0 THEN 0
                   ELSE IF BigBit(a, i - 1) = 1 THEN i ELSE BitLenRec(a, i - 1)
BigBitLen(a) == BitLenRec(a, NL * LimbBits)

(* ---- modular arithmetic; operands are < m < 2^259 ---- *)

BigAddMod(a, b, m) ==
  LET s == BigAdd(a, b) IN IF BigLe(m, s) THEN BigSub(s, m) ELSE s

BigSubMod(a, b, m) ==
  IF BigLe(b, a) THEN BigSub(a, b) ELSE BigSub(BigAdd(a, m), b)

BigNegMod(a, m) == IF a = BigZero THEN a ELSE BigSub(m, a)

RECURSIVE MulModRec(_, _, _, _, _)
MulModRec(a, b, m, i, acc) ==
  IF i = 0 THEN acc
  ELSE LET d == BigAddMod(acc, acc, m)
           e == IF BigBit(b, i - 1) = 1 THEN BigAddMod(d, a, m) ELSE d
       IN MulModRec(a, b, m, i - 1, TLCEval(e))

BigMulMod(a, b, m) == MulModRec(a, b, m, BigBitLen(b), BigZero)

RECURSIVE PowModRec(_, _, _, _, _)
PowModRec(a, e, m, i, acc) ==
  IF i = 0 THEN acc
  ELSE LET s == BigMulMod(acc, acc, m)
           t == IF BigBit(e, i - 1) = 1 THEN BigMulMod(s, a, m) ELSE s
       IN PowModRec(a, e, m, i - 1, TLCEval(t))

(* a^e mod m, e a Big *)
BigPowMod(a, e, m) == PowModRec(a, e, m, BigBitLen(e), BigOne)

(* inverse modulo the prime m; 0 is mapped to 0 *)
BigInvMod(a, m) ==
  IF a = BigZero THEN BigZero ELSE BigPowMod(a, BigSub(m, BigFromInt(2)), m)

(* reduce any a < 2^260 modulo m (m > 2^250: at most 2^10 subtractions is too
   slow in pure TLA+, so reduce bit by bit) *)
RECURSIVE ModRec(_, _, _, _)
ModRec(a, m, i, acc) ==
  IF i = 0 THEN acc
  ELSE LET d == BigAddMod(acc, acc, m)
           e == IF BigBit(a, i - 1) = 1 THEN BigAddMod(d, BigOne, m) ELSE d
       IN ModRec(a, m, i - 1, TLCEval(e))
BigMod(a, m) == ModRec(a, m, BigBitLen(a), BigZero)

(* small integer view of a Big known to be < 2^31 *)
BigToInt(a) == a[1] + a[2] * Base + (a[3] % 32) * Base * Base
=============================================================================
