--------------------------------- MODULE Kzg ---------------------------------
(***************************************************************************)
(* The KZG10 polynomial commitment scheme of src/commitment_scheme/kzg10   *)
(* (srs.rs, key.rs, proof.rs) with a FORMAL secret (C20).                  *)
(*                                                                         *)
(* Idealisation (algebraic group model): a G1 element is represented by    *)
(* its discrete logarithm with respect to the G1 generator, written as a   *)
(* POLYNOMIAL IN THE SECRET X (a normalised coefficient sequence over the  *)
(* field): the SRS power number i is s_g X^i, a commitment to f is         *)
(* s_g f(X).  G2 elements likewise (h = s_h, x_h = s_h X).  The secret is  *)
(* an argument of Setup: FormalSecret = the indeterminate, KnownSecret(t)  *)
(* = a number (then every element is a constant polynomial).  The pairing  *)
(* e(A, B) has the exponent A * B, and a pairing-product check             *)
(* "e(A1,B1) e(A2,B2) = 1" holds iff  A1 B1 + A2 B2 = 0  AS A POLYNOMIAL   *)
(* IN X (a real secret satisfies a non-identity of degree d with           *)
(* probability d / r).  Fiat-Shamir challenges are treated by quantifying  *)
(* over ALL field values: a wrong claim may pass for at most (batch size   *)
(* - 1) of them.                                                           *)
(*                                                                         *)
(* Operators follow the code: Setup / Truncate / Trim / Commit /           *)
(* AggregateWitness / Flatten / BatchCheck return what the code returns,   *)
(* including its errors.  The module is parametric in the field; KzgMC     *)
(* instantiates it with a small prime, TraceKzg with the BLS12-381 scalar  *)
(* field where X is the KNOWN scripted secret tau (a number), so the same  *)
(* operators yield the discrete logarithm every real commitment must have. *)
(***************************************************************************)
EXTENDS Naturals, Sequences, TLC

CONSTANTS FAdd(_, _), FSub(_, _), FMul(_, _), FNeg(_), FInv(_), FInt(_)

Pl == INSTANCE Poly

Zero == FInt(0)
One == FInt(1)

(* ---------------- formal group elements ---------------- *)
GId == <<>>                                        \* the identity
GAdd(a, b) == Pl!Norm(Pl!PAdd(a, b))
GSub(a, b) == Pl!Norm(Pl!PSub(a, b))
GNeg(a) == Pl!Norm(Pl!PNeg(a))
GScale(a, k) == Pl!Norm(Pl!PScale(a, k))           \* [k] a
\* the secret itself: the indeterminate X when it is formal, the constant
\* polynomial <<tau>> when it is a known number
FormalSecret == <<Zero, One>>
KnownSecret(tau) == Pl!Norm(<<tau>>)

\* exponent of e(a, b)
Pair(a, b) == Pl!Norm(Pl!PMul(a, b))
\* e(a1,b1) e(a2,b2) = 1
PairingProductIsOne(a1, b1, a2, b2) == GAdd(Pair(a1, b1), Pair(a2, b2)) = GId

Ok(v) == [ok |-> TRUE, val |-> v, err |-> "none"]
Err(e) == [ok |-> FALSE, val |-> <<>>, err |-> e]

(* ---------------- srs.rs: PublicParameters::setup / trim ---------------- *)
AddedBlindingDegree == 6

\* powers_of(x, max_degree) times the generator: s_g, s_g x, s_g x^2, ...
RECURSIVE PowersRec(_, _, _, _)
PowersRec(x, len, cur, acc) ==
  IF Len(acc) = len THEN acc
  ELSE PowersRec(x, len, TLCEval(Pair(cur, x)), TLCEval(Append(acc, cur)))

\* the key holds max_degree + 1 powers, max_degree = d + 6; x: the secret;
\* sg, sh: the (non-zero) scalars of the random generators g and h
Setup(d, x, sg, sh) ==
  IF d < 1 THEN Err("DegreeIsZero")
  ELSE Ok([powers |-> PowersRec(x, d + AddedBlindingDegree + 1, Pl!Norm(<<sg>>), <<>>),
           g |-> Pl!Norm(<<sg>>), h |-> Pl!Norm(<<sh>>), xh |-> Pair(Pl!Norm(<<sh>>), x)])

MaxDegree(powers) == Len(powers) - 1

\* key.rs: CommitKey::truncate (degree 1 is bumped to 2)
Truncate(powers, t) ==
  IF t = 0 THEN Err("TruncatedDegreeIsZero")
  ELSE IF t > MaxDegree(powers) THEN Err("TruncatedDegreeTooLarge")
  ELSE LET t2 == IF t = 1 THEN 2 ELSE t
       IN IF t2 + 1 > Len(powers) THEN Err("panic:slice")   \* truncate(1) of a 2-power key
          ELSE Ok(SubSeq(powers, 1, t2 + 1))

Trim(pp, n) == Truncate(pp.powers, n + AddedBlindingDegree)

\* SRS consistency: consecutive powers differ by the secret, in pairing form
\*   e(P_{i+1}, h) = e(P_i, x_h)   and   P_0 = g
SrsConsistent(powers, g, h, xh) ==
  /\ Len(powers) >= 1 /\ powers[1] = g
  /\ \A i \in 1..(Len(powers) - 1) :
       PairingProductIsOne(powers[i + 1], h, GNeg(powers[i]), xh)

(* ---------------- key.rs: commit ---------------- *)
\* msm_variable_base zips scalars with points
RECURSIVE MsmRec(_, _, _, _, _)
MsmRec(points, scalars, k, i, acc) ==
  IF i > k THEN acc
  ELSE MsmRec(points, scalars, k, i + 1, TLCEval(GAdd(acc, GScale(points[i], scalars[i]))))
Msm(points, scalars) ==
  MsmRec(points, scalars, IF Len(points) < Len(scalars) THEN Len(points) ELSE Len(scalars), 1, GId)

Commit(powers, poly) ==
  IF Pl!Degree(poly) > MaxDegree(powers) THEN Err("PolynomialDegreeTooLarge")
  ELSE Ok(Msm(powers, poly))

(* ---------------- key.rs: compute_aggregate_witness ---------------- *)
RECURSIVE MaxLen(_, _, _)
MaxLen(polys, i, m) ==
  IF i > Len(polys) THEN m ELSE MaxLen(polys, i + 1, IF Len(polys[i]) > m THEN Len(polys[i]) ELSE m)

\* sum_i v^i polys[i], coefficient-wise over max_len coefficients
RECURSIVE CombineRec(_, _, _, _, _)
CombineRec(polys, v, i, power, acc) ==
  IF i > Len(polys) THEN acc
  ELSE CombineRec(polys, v, i + 1, TLCEval(FMul(power, v)),
                  TLCEval(Pl!PAdd(acc, Pl!PScale(polys[i], power))))

Combine(polys, v) ==
  LET m == MaxLen(polys, 1, 0)
  IN CombineRec(polys, v, 1, One, [j \in 1..m |-> Zero])

AggregateWitness(polys, z, v) ==
  IF Len(polys) = 0 THEN <<>>
  ELSE Pl!RuffiniCode(Pl!Norm(Combine(polys, v)), z)

(* ---------------- proof.rs: AggregateProof::flatten ---------------- *)
\* a proof: [w |-> witness commitment, e |-> claimed evaluation, c |-> commitment]
RECURSIVE FlatRec(_, _, _, _, _, _)
FlatRec(evals, comms, v, i, power, acc) ==
  IF i > Len(comms) THEN acc
  ELSE FlatRec(evals, comms, v, i + 1, TLCEval(FMul(power, v)),
               [e |-> IF i <= Len(evals) THEN FAdd(acc.e, FMul(evals[i], power)) ELSE acc.e,
                c |-> GAdd(acc.c, GScale(comms[i], power))])

\* powers_of(v, len - 1) underflows for an empty aggregate (debug: panic)
Flatten(w, evals, comms, v) ==
  IF Len(comms) = 0 THEN Err("panic:subtract-with-overflow")
  ELSE LET f == FlatRec(evals, comms, v, 1, One, [e |-> Zero, c |-> GId])
       IN Ok([w |-> w, e |-> f.e, c |-> f.c])

(* ---------------- opening checks ---------------- *)
\* e(C - [v] g, h) e(W, -(x_h - [z] h)) = 1      (key.rs tests: `check`)
CheckSingle(key, z, proof) ==
  PairingProductIsOne(GSub(proof.c, GScale(key.g, proof.e)), key.h,
                      proof.w, GNeg(GSub(key.xh, GScale(key.h, z))))

\* items bound into the transcript before the batch challenge is squeezed
BatchChallengeItems(points, proofs) ==
  <<<<"dom-sep", "kzg10-batch-check-v1">>, <<"batch-len", Len(proofs)>>>> \o
  [k \in 1..(4 * (IF Len(points) < Len(proofs) THEN Len(points) ELSE Len(proofs))) |->
     LET i == ((k - 1) \div 4) + 1
         f == (k - 1) % 4
     IN IF f = 0 THEN <<"batch-point", points[i]>>
        ELSE IF f = 1 THEN <<"batch-polynomial-commitment", proofs[i].c>>
        ELSE IF f = 2 THEN <<"batch-evaluation", proofs[i].e>>
        ELSE <<"batch-witness-commitment", proofs[i].w>>]

RECURSIVE BatchRec(_, _, _, _, _, _, _)
BatchRec(key, points, proofs, u, i, power, acc) ==
  IF i > Len(proofs) THEN acc
  ELSE LET p == proofs[i]
           c == GAdd(p.c, GScale(p.w, points[i]))
       IN BatchRec(key, points, proofs, u, i + 1, TLCEval(FMul(power, u)),
                   [c |-> GAdd(acc.c, GScale(c, power)),
                    w |-> GAdd(acc.w, GScale(p.w, power)),
                    g |-> FAdd(acc.g, FMul(power, p.e))])

\* key.rs: OpeningKey::batch_check with the challenge u
BatchCheck(key, points, proofs, u) ==
  IF Len(proofs) = 0 \/ Len(points) # Len(proofs) THEN "err:ProofVerificationError"
  ELSE LET t == BatchRec(key, points, proofs, u, 1, One, [c |-> GId, w |-> GId, g |-> Zero])
           totalC == GSub(t.c, GScale(key.g, t.g))
       IN IF PairingProductIsOne(GNeg(t.w), key.xh, totalC, key.h) THEN "ok"
          ELSE "err:PairingCheckFailure"

(* ---------------- honest prover ---------------- *)
\* opening of poly at z claiming value e, with the key's powers
Open(powers, poly, z, e) ==
  [w |-> Commit(powers, AggregateWitness(<<poly>>, z, One)).val,
   e |-> e,
   c |-> Commit(powers, poly).val]

(* ---------------- sizes (DESIGN A.1) ---------------- *)
\* degrees of the polynomials the prover commits to for a padded size
ProverDegrees(size) == {size + 1,       \* blinded wire polynomials
                        size + 2,       \* blinded permutation polynomial
                        size,           \* t_low, t_mid, t_high (re-randomised)
                        size + 6,       \* t_fourth (bound)
                        size + 5}       \* opening witnesses: one less than the largest
CompileSize(c) == Pl!NextPow2(c)                 \* padded circuit size
CompileTrim(c) == Pl!NextPow2(c + AddedBlindingDegree)   \* argument of trim
=============================================================================
