SPECIFICATION Spec
CONSTANT Family = "range-closing"
CONSTANT Tier = "quick"
INVARIANT Emit
CHECK_DEADLOCK FALSE
