SPECIFICATION Spec
CONSTANTS
  MaxRows = 3
  MaxW = 2
  SelMenu = {1, 2, 3, 4}
  WireMode = "ab"
  InitMode = "empty"
  SortPI = TRUE
INVARIANTS
  RoundTripKeys
  CompressDeterministic
  DictsBijective
  SigmaIsNextInClass
  CapacityAgrees
  RejectsMalformed
  AcceptsSparse
  Bounded
CHECK_DEADLOCK FALSE
