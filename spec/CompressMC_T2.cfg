SPECIFICATION Spec
CONSTANTS
  MaxRows = 3
  MaxW = 2
  SelMenu = {1, 2, 3, 4}
  WireMode = "ab"
  InitMode = "empty"
  SortPI = TRUE
  TailIgnored = FALSE
INVARIANTS
  RoundTripKeys
  CompressDeterministic
  DictsBijective
  SigmaIsNextInClass
  CapacityAgrees
  RejectsMalformed
  AcceptsSparse
  Bounded
  RejectsTrailing
CHECK_DEADLOCK FALSE
