SPECIFICATION Spec
CONSTANTS
  MaxRows = 2
  MaxW = 3
  SelMenu = {1, 2, 3}
  WireMode = "abc"
  InitMode = "empty"
  SortPI = TRUE
  TailIgnored = FALSE
INVARIANTS
  RoundTripKeys
  CompressDeterministic
  DictsBijective
  SigmaIsNextInClass
  CapacityAgrees
  RejectsMalformed
  AcceptsSparse
  Bounded
  RejectsTrailing
CHECK_DEADLOCK FALSE
