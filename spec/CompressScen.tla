---------------------------- MODULE CompressScen ----------------------------
(***************************************************************************)
(* MBT scenario generator for C15: every composer state reachable in        *)
(* CompressMC (from Composer::initialized()) is printed as one JSON line;   *)
(* checks/c15.py turns a seeded sample of them into programs for the real   *)
(* composer (model scalar k -> a real scalar of the same kind) and          *)
(* TraceCompress judges what the two real compilation routes do with them.  *)
(***************************************************************************)
EXTENDS CompressMC, Json

Emit ==
  PrintT("SCEN|" \o ToJson([rows |-> [i \in 1..Len(c.rows) |-> [q |-> c.rows[i].q, w |-> c.rows[i].w]],
                            nw   |-> c.nw,
                            pis  |-> C!PiList(c),
                            base |-> BaseRows]))
=============================================================================
