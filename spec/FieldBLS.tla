------------------------------ MODULE FieldBLS ------------------------------
(***************************************************************************)
(* The BLS12-381 scalar field F_r over BigF limb tuples: the instantiation *)
(* of the FieldOps interface used for conformance (real-field values       *)
(* recorded from, or sent to, the implementation).                         *)
(***************************************************************************)
EXTENDS BigF, Integers

\* r = 0x73eda753299d7d483339d80809a1d80553bda402fffe5bfeffffffff00000001
R == <<1, 0, 8128, 8191, 4095, 3583, 8185, 95, 7588, 2717, 5633, 4931, 128,
       7404, 204, 4009, 2461, 6809, 7017, 231>>

\* order of the JubJub prime-order subgroup
RJ == <<3255, 6073, 6069, 3612, 3337, 2113, 4896, 4729, 2080, 1331, 3776, 616,
        4112, 5021, 1049, 5621, 1331, 1875, 8045, 28>>

BFieldBits == 255

BAdd(a, b) == BigAddMod(a, b, R)
BSub(a, b) == BigSubMod(a, b, R)
BMul(a, b) == BigMulMod(a, b, R)
BNeg(a) == BigNegMod(a, R)
BInv(a) == BigInvMod(a, R)
BInt(k) == IF k >= 0 THEN BigFromInt(k) ELSE BigNegMod(BigFromInt(0 - k), R)
BPow(a, e) == BigPowMod(a, e, R)          \* e a Big
BPowI(a, k) == BigPowMod(a, BigFromInt(k), R)   \* k a TLC natural
BPow2(k) == BigPowMod(BigFromInt(2), BigFromInt(k), R)
BBit(a, i) == BigBit(a, i)
BLow(a, k) == BigLow(a, k)                \* canonical value mod 2^k
BShr(a, k) == BigShr(a, k)                \* floor(canonical value / 2^k)
BLt(a, b) == BigLt(a, b)                  \* on canonical values
BIsField(a) == IsBig(a) /\ BigLt(a, R)

\* Edwards d of JubJub: -(10240/10241)
BEdwardsD == BNeg(BMul(BInt(10240), BInv(BInt(10241))))

\* multiplicative generator 7, 2-adicity 32, 2^32-th root of unity 7^((r-1)/2^32)
BGenerator == BInt(7)
BTwoAdicity == 32
BRootOfUnity == BPow(BGenerator, BigShr(BigSub(R, BigOne), 32))
=============================================================================
