SPECIFICATION Spec
CONSTANTS
  NW = 3
  Rows = 2
  WireMode = "ab"
  SortKeys = TRUE
INVARIANTS
  SigmaIndependent
  PiIndependent
  WritesDisjoint
CHECK_DEADLOCK FALSE
