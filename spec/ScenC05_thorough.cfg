SPECIFICATION Spec
CONSTANT Tier = "thorough"
INVARIANT Emit
CHECK_DEADLOCK FALSE
