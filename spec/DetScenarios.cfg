SPECIFICATION Spec
CONSTANTS
  Circuits = {"small", "mid", "edge"}
  BelowSwitch = {"small"}
  AllPools = {1, 2, 3, 4, 5, 6, 7, 8, 9, 10, 11, 12, 13, 14, 15, 16, 17, 32, 33}
  SmallPools = {1, 3, 4, 32}
  FreshPools = {0, 1, 4, 17}
  FreshProcs = 2
  ConcPools = {1, 4}
INVARIANTS
  Emit
  Predicted
CHECK_DEADLOCK FALSE
