SPECIFICATION Spec
CONSTANT Tier = "quick"
INVARIANT Emit
CHECK_DEADLOCK FALSE
