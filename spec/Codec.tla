------------------------------- MODULE Codec -------------------------------
(***************************************************************************)
(* Byte encodings of dusk-plonk (C16, C17): field-by-field grammars, the   *)
(* CHECKED decoders as explicit step machines over an abstract alphabet,   *)
(* and the encoders modelled AS THE CODE ENCODES.                          *)
(*                                                                         *)
(* Grammars (sizes in bytes; integers inside ProverKey / VerifierKey /     *)
(* EvaluationDomain are little-endian u64, the Prover / Verifier headers   *)
(* and the public-input rows are big-endian u64):                          *)
(*                                                                         *)
(*  Proof            = 11 x g1c  ++ 15 x scalar                 (1008)     *)
(*  VerifierKey      = n:u64 ++ 15 x g1c ++ 240 bytes padding   (968)      *)
(*  OpeningKey       = g:g1c ++ h:g2c ++ x_h:g2c                (240)      *)
(*  EvaluationDomain = size:u64 ++ log:u32 ++ 5 x scalar        (172)      *)
(*  Evaluations      = EvaluationDomain ++ size x scalar                   *)
(*  Polynomial       = len x scalar   (len announced by the container)     *)
(*  ProverKey        = n:u64 ++ es:u64 ++ 15 x (len:u64 ++ Polynomial ++   *)
(*                     Evaluations) ++ linear:Evaluations ++               *)
(*                     vanishing:Evaluations                               *)
(*                     polynomial order q_m q_l q_r q_o q_f q_c q_arith    *)
(*                     q_logic q_range q_fixed q_var s1 s2 s3 s4           *)
(*  CommitKey(raw)   = count:u64le ++ count x g1raw(97)                    *)
(*  CommitKey        = k x g1c                                             *)
(*  PublicParameters = OpeningKey ++ CommitKey       (compressed / raw)    *)
(*  Prover           = 6 x u64be (label_len pk_len ck_len vk_len size      *)
(*                     constraints) ++ label ++ ProverKey ++               *)
(*                     CommitKey(raw) ++ VerifierKey                       *)
(*  Verifier         = 6 x u64be (label_len vk_len ok_len #pi size         *)
(*                     constraints) ++ label ++ VerifierKey ++ OpeningKey  *)
(*                     ++ #pi x u64be                                      *)
(*                                                                         *)
(* An abstract input is a VALID encoding of a fixed base object in which   *)
(* chosen fields are replaced by a representative of a class.  The input   *)
(* is revealed lazily: each step of a machine reads one field and chooses  *)
(* its class; `hist` is the abstract input read so far.  At most MaxMut    *)
(* fields carry a non-default class.  A read at a position that is not a   *)
(* field boundary of the valid content (after an inconsistent length)      *)
(* yields garbage, which the first validating read rejects.                *)
(*                                                                         *)
(* Dev names the deviations of the code from the property that the model   *)
(* reproduces when asked to ("flagbyte", "unreduced", "pkbuf"); the        *)
(* normative model has Dev = {}.                                           *)
(***************************************************************************)
EXTENDS Integers, Sequences, FiniteSets, TLC, Json

CONSTANTS N,        \* padded circuit size of the base object
          CONS,     \* its number of constraints (Npo2(CONS) = N)
          LABEL,    \* label length
          NPI,      \* number of public inputs
          CKP,      \* raw commit-key points in the prover (first/middle/last are mutated)
          PPP,      \* compressed commit-key points in the parameters
          Machines, \* subset of {"proof","verifier","prover","pp","pkenc"}
          MaxMut,   \* machine -> max number of non-default fields per input
          Dev,      \* deviations present
          Emit      \* print one SCEN line per terminal state

SC   == 32
G1C  == 48
G2C  == 96
RAW  == 97
DOM  == 172
VKS  == 968
OKS  == 240
MAXU == 268435455          \* the model's usize::MAX (2^28 - 1)
DOMMAX == 1048576          \* stand-in for the 2-adicity limit (2^32 in the code)
HUGE == 16777216           \* a length far beyond any buffer, sums do not overflow
NHUGE == 67108864          \* 8 * NHUGE overflows
NBIG == 4194304            \* 8 * NBIG fits, but the domain is too large

ES      == DOM + 8 * N * SC
PKLEN   == 16 + 15 * (8 + N * SC + ES) + 2 * ES
CKLEN   == 8 + CKP * RAW
PROVLEN == 48 + LABEL + PKLEN + CKLEN + VKS
VERLEN  == 48 + LABEL + VKS + OKS + 8 * NPI
PPLEN   == OKS + PPP * G1C

None == -1
CAdd(a, b) == IF a = None \/ b = None THEN None ELSE IF a + b > MAXU THEN None ELSE a + b
CMul(a, k) == IF a = None THEN None ELSE IF a > MAXU \div k THEN None ELSE a * k
Pow2s == {2^e : e \in 0..27}
IsPow2(x) == x \in Pow2s
Npo2(x) == IF x = 0 THEN 1
           ELSE IF x > 134217728 THEN None
           ELSE CHOOSE p \in Pow2s : p >= x /\ \A q \in Pow2s : q >= x => p <= q
DomainOk(x) == Npo2(x) # None /\ Npo2(x) < DOMMAX   \* EvaluationDomain::new(x) succeeds

LenVal(actual, c) ==
  CASE c = "exact" -> actual
    [] c = "m1"    -> IF actual = 0 THEN MAXU ELSE actual - 1
    [] c = "p1"    -> actual + 1
    [] c = "zero"  -> 0
    [] c = "huge"  -> HUGE
    [] c = "ovf"   -> MAXU

LenC    == {"exact", "m1", "p1", "zero", "huge", "ovf"}
G1cAcc  == {"valid", "other", "identity", "negated"}
G1cAll  == G1cAcc \cup {"offcurve", "wrongsub", "noflag", "infx", "infsort", "xgep"}
G2cAcc  == {"valid", "other", "identity"}
G2cAll  == G2cAcc \cup {"offcurve", "wrongsub", "noflag", "infx", "xgep"}
RawAcc  == {"valid", "other", "identity", "flag1xy"}
RawUnr  == {"unredx", "unredy"}
RawFlag == {"flag2", "flag3", "flag255"}
RawAll  == RawAcc \cup RawUnr \cup RawFlag \cup {"offcurve", "wrongsub"}
ScAll   == {"canon", "ger", "max"}

VARIABLES s, hist

vars == <<s, hist>>

Base(m) == [m |-> m, pc |-> "total", st |-> "run", why |-> "", steps |-> 0, alloc |-> 0,
            total |-> 0, wf |-> TRUE, canon |-> TRUE, i |-> 0, muts |-> 0,
            l |-> 0, a |-> 0, b |-> 0, v |-> 0, size |-> 0, cons |-> 0, req |-> 0,
            n |-> 0, es |-> 0, cur |-> 0, win |-> 0, mis |-> FALSE, npts |-> 0,
            vkn |-> 0, skipped |-> FALSE, buf |-> 0]

ErrS(x, why)   == [x EXCEPT !.st = "err", !.why = why]
OkS(x)         == [x EXCEPT !.st = "ok"]
StuckS(x, why) == [x EXCEPT !.st = "stuck", !.why = why]
Go(x, pc)      == [x EXCEPT !.pc = pc]
GoI(x, pc, i)  == [x EXCEPT !.pc = pc, !.i = i]
Alloc(x, k)    == [x EXCEPT !.alloc = @ + k]

\* reading k bytes from the current window [cur, win): error or advance
CanRead(x, k) == x.cur + k <= x.win

(***************************************************************************)
(* Element decoders                                                        *)
(***************************************************************************)
G1cStep(x, c, next, nonid) ==
  IF c \in G1cAcc /\ ~(nonid /\ c = "identity") THEN next ELSE ErrS(x, "InvalidData")
G2cStep(x, c, next, nonid) ==
  IF c \in G2cAcc /\ ~(nonid /\ c = "identity") THEN next ELSE ErrS(x, "InvalidData")
RawStep(x, c, next) ==
  IF c \in RawAcc THEN next
  ELSE IF c \in RawUnr THEN
       (IF "unreduced" \in Dev THEN [next EXCEPT !.wf = FALSE] ELSE ErrS(x, "PointMalformed"))
  ELSE IF c \in RawFlag THEN
       (IF "flagbyte" \in Dev THEN StuckS(x, "raw-flag-byte") ELSE ErrS(x, "PointMalformed"))
  ELSE ErrS(x, "PointMalformed")

(***************************************************************************)
(* Proof::from_slice                                                       *)
(***************************************************************************)
ProofField(x) == CASE x.pc = "total" -> "total"
                   [] x.pc = "g1" -> "g1." \o ToString(x.i)
                   [] x.pc = "sc" -> "sc." \o ToString(x.i)
                   [] OTHER -> "-"
ProofClasses(x) == CASE x.pc = "total" -> {"exact", "short", "long", "empty"}
                     [] x.pc = "g1" -> G1cAll
                     [] x.pc = "sc" -> ScAll
                     [] OTHER -> {"-"}
ProofDef(x) == CASE x.pc = "total" -> "exact" [] x.pc = "g1" -> "valid" [] x.pc = "sc" -> "canon" [] OTHER -> "-"
ProofDo(x, c) ==
  CASE x.pc = "total" ->
         LET t == CASE c = "exact" -> 1008 [] c = "short" -> 1007 [] c = "long" -> 1009 [] c = "empty" -> 0
         IN IF t < 1008 THEN ErrS([x EXCEPT !.total = t], "BadLength")
            ELSE [x EXCEPT !.total = t, !.pc = "g1", !.i = 1, !.win = 1008]
    [] x.pc = "g1" ->
         IF ~CanRead(x, G1C) THEN StuckS(x, "oob")
         ELSE G1cStep(x, c, IF x.i < 11 THEN [x EXCEPT !.i = @ + 1, !.cur = @ + G1C]
                                  ELSE [x EXCEPT !.pc = "sc", !.i = 1, !.cur = @ + G1C], FALSE)
    [] x.pc = "sc" ->
         IF ~CanRead(x, SC) THEN StuckS(x, "oob")
         ELSE IF c # "canon" THEN ErrS(x, "InvalidData")
         ELSE IF x.i < 15 THEN [x EXCEPT !.i = @ + 1, !.cur = @ + SC]
         ELSE [x EXCEPT !.pc = "finish", !.cur = @ + SC]
    [] x.pc = "finish" -> OkS(x)

(***************************************************************************)
(* VerifierKey::from_slice / OpeningKey::from_slice on the window          *)
(* [cur, win) of an enclosing machine; `after` = pc once done.             *)
(***************************************************************************)
VkDo(x, c, after) ==
  CASE x.pc = "vk.n" ->
         IF x.win - x.cur < VKS THEN ErrS(x, "BadLength")
         ELSE IF x.mis THEN GoI(x, "vk.pt", 1)   \* any u64 is a valid n; the points are garbage
         ELSE LET nv == CASE c = "exact" -> CONS [] c = "zero" -> 0 [] c = "one" -> 1 [] c = "alt" -> CONS + 1
                          [] c = "big" -> DOMMAX \div 2 [] c = "huge" -> NBIG [] c = "max" -> MAXU
              IN [x EXCEPT !.vkn = nv, !.pc = "vk.pt", !.i = 1]
    [] x.pc = "vk.pt" ->
         IF x.mis THEN ErrS(x, "InvalidData")
         ELSE G1cStep(x, c, IF x.i < 15 THEN [x EXCEPT !.i = @ + 1] ELSE Go(x, "vk.pad"), FALSE)
    [] x.pc = "vk.pad" -> [x EXCEPT !.pc = after, !.cur = @ + VKS]

VkField(x) == CASE x.pc = "vk.n" -> "vk.n" [] x.pc = "vk.pt" -> "vk.pt." \o ToString(x.i) [] x.pc = "vk.pad" -> "vk.pad"
VkClasses(x) == IF x.mis THEN {"-"}
                ELSE CASE x.pc = "vk.n" -> {"exact", "zero", "one", "alt", "big", "huge", "max"}
                       [] x.pc = "vk.pt" -> G1cAll
                       [] x.pc = "vk.pad" -> {"zero", "junk"}
VkDef(x) == IF x.mis THEN "-" ELSE CASE x.pc = "vk.n" -> "exact" [] x.pc = "vk.pt" -> "valid" [] x.pc = "vk.pad" -> "zero"

OkDo(x, c, after) ==
  CASE x.pc = "ok.g" ->
         IF x.win - x.cur < OKS THEN ErrS(x, "BadLength")
         ELSE IF x.mis THEN ErrS(x, "InvalidData")
         ELSE G1cStep(x, c, Go(x, "ok.h"), TRUE)
    [] x.pc = "ok.h"  -> G2cStep(x, c, Go(x, "ok.xh"), TRUE)
    [] x.pc = "ok.xh" -> G2cStep(x, c, Alloc([x EXCEPT !.pc = after, !.cur = @ + OKS], 40000), TRUE)
                         \* two G2Prepared: a constant, independent of the input
OkClasses(x) == IF x.mis THEN {"-"} ELSE IF x.pc = "ok.g" THEN G1cAll ELSE G2cAll
OkDef(x) == IF x.mis THEN "-" ELSE "valid"

(***************************************************************************)
(* Verifier::try_from_bytes                                                *)
(***************************************************************************)
VerHdr == <<"hdr.label_len", "hdr.vk_len", "hdr.ok_len", "hdr.pi_count", "hdr.size", "hdr.constraints">>
VerField(x) == CASE x.pc = "total" -> "total"
                 [] x.pc = "hdr" -> VerHdr[x.i]
                 [] x.pc \in {"vk.n", "vk.pt", "vk.pad"} -> VkField(x)
                 [] x.pc \in {"ok.g", "ok.h", "ok.xh"} -> x.pc
                 [] x.pc = "pi" -> "pi." \o ToString(x.i)
                 [] OTHER -> "-"
VerClasses(x) == CASE x.pc = "total" -> {"exact", "short", "long", "tiny"}
                   [] x.pc = "hdr" -> IF x.i <= 4 THEN LenC ELSE {"exact", "zero", "huge", "double"}
                   [] x.pc \in {"vk.n", "vk.pt", "vk.pad"} -> VkClasses(x)
                   [] x.pc \in {"ok.g", "ok.h", "ok.xh"} -> OkClasses(x)
                   [] x.pc = "pi" -> IF x.mis THEN {"-"} ELSE {"exact", "max", "zero"}
                   [] OTHER -> {"-"}
VerDef(x) == CASE x.pc = "total" -> "exact" [] x.pc = "hdr" -> "exact"
               [] x.pc \in {"vk.n", "vk.pt", "vk.pad"} -> VkDef(x)
               [] x.pc \in {"ok.g", "ok.h", "ok.xh"} -> OkDef(x)
               [] x.pc = "pi" -> IF x.mis THEN "-" ELSE "exact"
               [] OTHER -> "-"
VerDo(x, c) ==
  CASE x.pc = "total" ->
         LET t == CASE c = "exact" -> VERLEN [] c = "short" -> VERLEN - 1 [] c = "long" -> VERLEN + 1 [] c = "tiny" -> 47
         IN IF t < 48 THEN ErrS([x EXCEPT !.total = t], "NotEnoughBytes")
            ELSE [x EXCEPT !.total = t, !.pc = "hdr", !.i = 1]
    [] x.pc = "hdr" ->          \* ReadHeader(i)
         LET y == CASE x.i = 1 -> [x EXCEPT !.l = LenVal(LABEL, c)]
                    [] x.i = 2 -> [x EXCEPT !.a = LenVal(VKS, c)]
                    [] x.i = 3 -> [x EXCEPT !.b = LenVal(OKS, c)]
                    [] x.i = 4 -> [x EXCEPT !.v = LenVal(NPI, c)]
                    [] OTHER -> x    \* size / constraints: any value is accepted, never validated
         IN IF x.i < 6 THEN [y EXCEPT !.i = @ + 1] ELSE Go(y, "add")
    [] x.pc = "add" ->          \* CheckedAdd
         LET pib == CMul(x.v, 8)
             r == CAdd(CAdd(CAdd(x.l, x.a), x.b), pib)
         IN IF r = None THEN ErrS(x, "NotEnoughBytes") ELSE [x EXCEPT !.req = r, !.pc = "bounds"]
    [] x.pc = "bounds" ->       \* Bounds
         IF x.total - 48 < x.req THEN ErrS(x, "NotEnoughBytes") ELSE Go(x, "slice")
    [] x.pc = "slice" ->        \* Slice: label.to_vec(); window of the verifier key
         IF 48 + x.req > x.total THEN StuckS(x, "slice-oob")
         ELSE Alloc([x EXCEPT !.pc = "vk.n", !.cur = 0, !.win = x.a, !.mis = (x.l # LABEL)], x.l)
    [] x.pc \in {"vk.n", "vk.pt", "vk.pad"} -> VkDo(x, c, "ok.open")
    [] x.pc = "ok.open" ->      \* window of the opening key
         [x EXCEPT !.pc = "ok.g", !.cur = 0, !.win = x.b, !.mis = (x.l + x.a # LABEL + VKS)]
    [] x.pc \in {"ok.g", "ok.h", "ok.xh"} -> OkDo(x, c, "pi.open")
    [] x.pc = "pi.open" ->      \* chunks_exact(8) over the declared rows; any u64 is a row index
         LET y == Alloc([x EXCEPT !.mis = (x.l + x.a + x.b # LABEL + VKS + OKS)], 8 * x.v)
         IN IF x.v >= 1 /\ ~y.mis /\ x.v <= NPI THEN GoI(y, "pi", 1) ELSE Go(y, "new")
    [] x.pc = "pi" -> IF x.i < x.v THEN [x EXCEPT !.i = @ + 1] ELSE Go(x, "new")
    [] x.pc = "new" ->          \* Verifier::new: domain of vk.n, one root per row
         IF ~DomainOk(x.vkn) THEN ErrS(x, "InvalidEvalDomainSize")
         ELSE OkS(Alloc(x, SC * x.v))

(***************************************************************************)
(* Prover::try_from_bytes (ProverKey::from_slice,                          *)
(* CommitKey::from_raw_var_bytes, VerifierKey::from_slice, Prover::new)    *)
(***************************************************************************)
ProvHdr == <<"hdr.label_len", "hdr.pk_len", "hdr.ck_len", "hdr.vk_len", "hdr.size", "hdr.constraints">>
PolyName(i) == ToString(i)
ProvField(x) ==
  CASE x.pc = "total" -> "total"
    [] x.pc = "hdr" -> ProvHdr[x.i]
    [] x.pc = "pk.n" -> "pk.n"
    [] x.pc = "pk.es" -> "pk.es"
    [] x.pc = "pk.len" -> "pk.len." \o PolyName(x.i)
    [] x.pc = "pk.coef" -> "pk.coef." \o PolyName(x.i)
    [] x.pc = "pk.dom" -> "pk.dom." \o PolyName(x.i)
    [] x.pc = "pk.ev" -> "pk.ev." \o PolyName(x.i)
    [] x.pc = "pk.lin" -> "pk.ev.lin"
    [] x.pc = "pk.van" -> "pk.ev.van"
    [] x.pc = "ck.count" -> "ck.count"
    [] x.pc = "ck.pt" -> "ck.pt." \o ToString(x.i)
    [] x.pc \in {"vk.n", "vk.pt", "vk.pad"} -> VkField(x)
    [] OTHER -> "-"
ProvClasses(x) ==
  IF x.mis /\ x.pc \in {"pk.n", "pk.es", "pk.len", "pk.coef", "pk.dom", "pk.ev", "pk.lin", "pk.van", "ck.count", "ck.pt"}
  THEN {"-"}
  ELSE CASE x.pc = "total" -> {"exact", "short", "long", "tiny"}
    [] x.pc = "hdr" -> IF x.i <= 4 THEN LenC
                       ELSE IF x.i = 5 THEN {"exact", "double", "zero", "huge"}
                       ELSE {"exact", "alt", "half", "double", "zero", "huge"}
    [] x.pc = "pk.n" -> {"exact", "double", "odd", "zero", "huge", "big"}
    [] x.pc = "pk.es" -> {"exact", "m1", "p1", "zero", "huge"}
    [] x.pc = "pk.len" -> LenC \cup {"over"}   \* "over": a CONSISTENT encoding of n+1 coefficients
    [] x.pc = "pk.coef" -> {"canon", "ger", "gerlast", "topzero"}
    [] x.pc = "pk.dom" -> {"canon", "othersize", "nonpow2", "hugesize", "maxsize", "logwrong", "badfield", "gerfield"}
    [] x.pc = "pk.ev" -> {"canon", "ger"}
    [] x.pc = "pk.lin" -> {"exact", "swap", "zero", "ger"}
    [] x.pc = "pk.van" -> {"exact", "swap", "zero", "scaled", "ger"}
    [] x.pc = "ck.count" -> LenC
    [] x.pc = "ck.pt" -> RawAll
    [] x.pc \in {"vk.n", "vk.pt", "vk.pad"} -> VkClasses(x)
    [] OTHER -> {"-"}
ProvDef(x) ==
  IF x.mis /\ x.pc \in {"pk.n", "pk.es", "pk.len", "pk.coef", "pk.dom", "pk.ev", "pk.lin", "pk.van", "ck.count", "ck.pt"}
  THEN "-"
  ELSE CASE x.pc \in {"total", "hdr", "pk.n", "pk.es", "pk.len", "pk.lin", "pk.van", "ck.count"} -> "exact"
    [] x.pc \in {"pk.coef", "pk.dom", "pk.ev"} -> "canon"
    [] x.pc = "ck.pt" -> "valid"
    [] x.pc \in {"vk.n", "vk.pt", "vk.pad"} -> VkDef(x)
    [] OTHER -> "-"

\* an Evaluations block at [cur, ..): split_at_checked(es), domain checks, size check, scalars
EvalsRead(x, domOk, evOk, next) ==
  IF x.es = None \/ ~CanRead(x, x.es) THEN ErrS(x, "NotEnoughBytes")
  ELSE IF x.es < DOM THEN ErrS(x, "BadLength")
  ELSE IF x.mis \/ ~domOk THEN ErrS(x, "InvalidData")
  ELSE IF x.es # ES THEN ErrS(x, "InvalidData")          \* buffer.len() != size * 32
  ELSE IF x.n # N THEN ErrS(Alloc(x, 8 * N * SC), "InvalidData")  \* eval.domain() != 8n domain (after collecting)
  ELSE IF ~evOk THEN ErrS(x, "InvalidData")
  ELSE Alloc([next EXCEPT !.cur = x.cur + x.es], 8 * N * SC)

ProvDo(x, c) ==
  CASE x.pc = "total" ->
         LET t == CASE c = "exact" -> PROVLEN [] c = "short" -> PROVLEN - 1 [] c = "long" -> PROVLEN + 1 [] c = "tiny" -> 47
         IN IF t < 48 THEN ErrS([x EXCEPT !.total = t], "NotEnoughBytes")
            ELSE [x EXCEPT !.total = t, !.pc = "hdr", !.i = 1]
    [] x.pc = "hdr" ->
         LET y == CASE x.i = 1 -> [x EXCEPT !.l = LenVal(LABEL, c)]
                    [] x.i = 2 -> [x EXCEPT !.a = LenVal(PKLEN, c)]
                    [] x.i = 3 -> [x EXCEPT !.b = LenVal(CKLEN, c)]
                    [] x.i = 4 -> [x EXCEPT !.v = LenVal(VKS, c)]
                    [] x.i = 5 -> [x EXCEPT !.size = CASE c = "exact" -> N [] c = "double" -> 2 * N [] c = "zero" -> 0 [] c = "huge" -> NHUGE * 2 + 1]
                    [] x.i = 6 -> [x EXCEPT !.cons = CASE c = "exact" -> CONS [] c = "alt" -> N [] c = "half" -> N \div 2
                                                        [] c = "double" -> 2 * N [] c = "zero" -> 0 [] c = "huge" -> NHUGE * 2 + 1]
         IN IF x.i < 6 THEN [y EXCEPT !.i = @ + 1] ELSE Go(y, "add")
    [] x.pc = "add" ->
         LET r == CAdd(CAdd(CAdd(x.l, x.a), x.b), x.v)
         IN IF r = None THEN ErrS(x, "NotEnoughBytes") ELSE [x EXCEPT !.req = r, !.pc = "bounds"]
    [] x.pc = "bounds" ->
         IF x.total - 48 < x.req THEN ErrS(x, "NotEnoughBytes") ELSE Go(x, "sizecheck")
    [] x.pc = "sizecheck" ->    \* Validate: next_power_of_two(constraints) = size
         IF Npo2(x.cons) = None \/ Npo2(x.cons) # x.size THEN ErrS(x, "InvalidData") ELSE Go(x, "slice")
    [] x.pc = "slice" ->
         IF 48 + x.req > x.total THEN StuckS(x, "slice-oob")
         ELSE Alloc([x EXCEPT !.pc = "pk.n", !.cur = 0, !.win = x.a, !.mis = (x.l # LABEL)], x.l)
    \* ---- ProverKey::from_slice
    [] x.pc = "pk.n" ->
         IF ~CanRead(x, 8) THEN ErrS(x, "BadLength")
         ELSE IF x.mis THEN ErrS(x, "InvalidData")
         ELSE LET nv == CASE c = "exact" -> N [] c = "double" -> 2 * N [] c = "odd" -> N + 1
                          [] c = "zero" -> 0 [] c = "huge" -> NHUGE [] c = "big" -> NBIG
              IN [x EXCEPT !.n = nv, !.cur = @ + 8, !.pc = "pk.es"]
    [] x.pc = "pk.es" ->
         IF ~CanRead(x, 8) THEN ErrS(x, "BadLength")
         ELSE [x EXCEPT !.es = LenVal(ES, c), !.cur = @ + 8, !.pc = "pk.domain"]
    [] x.pc = "pk.domain" ->    \* Validate: 8n checked, power of two, domain exists
         LET d == CMul(x.n, 8)
         IN IF d = None THEN ErrS(x, "InvalidData")
            ELSE IF d = 0 \/ ~IsPow2(d) THEN ErrS(x, "InvalidData")
            ELSE IF ~DomainOk(d) THEN ErrS(x, "InvalidEvalDomainSize")
            ELSE GoI(x, "pk.len", 1)
    [] x.pc = "pk.len" ->
         IF ~CanRead(x, 8) THEN ErrS(x, "BadLength")
         ELSE IF x.mis THEN ErrS(x, "InvalidData")
         ELSE LET d == IF c = "over" THEN N + 1 ELSE LenVal(N, c)
              IN IF d > x.n THEN ErrS(x, "InvalidData")      \* degree bound of the fixed polynomials
                 ELSE IF CMul(d, SC) = None THEN ErrS(x, "NotEnoughBytes")
                 ELSE IF d = 0 THEN [x EXCEPT !.cur = @ + 8, !.pc = "pk.dom", !.mis = TRUE]   \* buffer left intact
                 ELSE [x EXCEPT !.cur = @ + 8, !.pc = "pk.coef", !.req = d]
    [] x.pc = "pk.coef" ->      \* split_at_checked(len * 32); Polynomial::from_slice
         IF ~CanRead(x, x.req * SC) THEN ErrS(x, "NotEnoughBytes")
         ELSE IF c \in {"ger", "gerlast"} /\ ~(c = "gerlast" /\ x.req < N) THEN ErrS(Alloc(x, x.req * SC), "InvalidData")
         ELSE Alloc([x EXCEPT !.cur = @ + x.req * SC, !.pc = "pk.dom", !.mis = (x.req # N)], x.req * SC)
    [] x.pc = "pk.dom" ->
         IF x.es = None \/ ~CanRead(x, x.es) THEN ErrS(x, "NotEnoughBytes")
         ELSE IF x.es < DOM THEN ErrS(x, "BadLength")
         ELSE IF x.mis \/ c # "canon" THEN ErrS(x, "InvalidData")
         ELSE Go(x, "pk.ev")
    [] x.pc = "pk.ev" ->
         EvalsRead(x, TRUE, c = "canon",
                   IF x.i < 15 THEN GoI(x, "pk.len", x.i + 1) ELSE Go(x, "pk.lin"))
    [] x.pc = "pk.lin" ->       \* Validate: evaluations of X over the coset
         EvalsRead(x, TRUE, c = "exact", Go(x, "pk.van"))
    [] x.pc = "pk.van" ->       \* Validate: evaluations of X^n - 1 over the coset, all non-zero
         EvalsRead(x, TRUE, c = "exact", Alloc(Go(x, "pk.check"), 3 * (N * SC + ES)))
    [] x.pc = "pk.check" ->     \* Validate: prover_key.n = size
         IF x.n # x.size THEN ErrS(x, "InvalidData")
         ELSE [x EXCEPT !.pc = "ck.count", !.cur = 0, !.win = x.b, !.mis = (x.l + x.a # LABEL + PKLEN)]
    \* ---- CommitKey::from_raw_var_bytes
    [] x.pc = "ck.count" ->
         IF x.win < 8 THEN ErrS(x, "NotEnoughBytes")
         ELSE IF x.mis THEN ErrS(x, "NotEnoughBytes")
         ELSE LET k == LenVal(CKP, c)
                  e == CAdd(8, CMul(k, RAW))
              IN IF k = 0 THEN ErrS(x, "InvalidData")
                 ELSE IF e = None \/ e # x.win THEN ErrS(x, "NotEnoughBytes")
                 ELSE Alloc([x EXCEPT !.npts = k, !.pc = "ck.pt", !.i = 1, !.cur = 8], k * 104)
    [] x.pc = "ck.pt" ->
         RawStep(x, c, IF x.i < 3 THEN [x EXCEPT !.i = @ + 1]
                       ELSE [x EXCEPT !.pc = "vk.n", !.cur = 0, !.win = x.v,
                                      !.mis = (x.l + x.a + x.b # LABEL + PKLEN + CKLEN)])
    [] x.pc \in {"vk.n", "vk.pt", "vk.pad"} -> VkDo(x, c, "new")
    [] x.pc = "new" ->          \* Prover::new: the checks again, two domains, four FFTs
         IF Npo2(x.cons) # x.size \/ x.n # x.size THEN ErrS(x, "InvalidData")
         ELSE IF ~DomainOk(x.cons) \/ ~DomainOk(8 * x.size) THEN ErrS(x, "InvalidEvalDomainSize")
         ELSE OkS(Alloc(x, 4 * N * SC + 8 * SC))

(***************************************************************************)
(* PublicParameters::from_slice (compressed)                               *)
(***************************************************************************)
PpField(x) == CASE x.pc = "total" -> "total"
                [] x.pc \in {"ok.g", "ok.h", "ok.xh"} -> x.pc
                [] x.pc = "ck.pt" -> "ck.pt." \o ToString(x.i)
                [] OTHER -> "-"
PpClasses(x) == CASE x.pc = "total" -> {"exact", "short", "long", "tiny", "dropone"}
                  [] x.pc \in {"ok.g", "ok.h", "ok.xh"} -> OkClasses(x)
                  [] x.pc = "ck.pt" -> G1cAll
                  [] OTHER -> {"-"}
PpDef(x) == CASE x.pc = "total" -> "exact" [] x.pc = "ck.pt" -> "valid"
              [] x.pc \in {"ok.g", "ok.h", "ok.xh"} -> OkDef(x) [] OTHER -> "-"
PpDo(x, c) ==
  CASE x.pc = "total" ->
         LET t == CASE c = "exact" -> PPLEN [] c = "short" -> PPLEN - 1 [] c = "long" -> PPLEN + 1
                    [] c = "tiny" -> OKS [] c = "dropone" -> PPLEN - G1C
         IN IF t <= OKS THEN ErrS([x EXCEPT !.total = t], "NotEnoughBytes")
            ELSE [x EXCEPT !.total = t, !.pc = "ok.g", !.cur = 0, !.win = t]
    [] x.pc \in {"ok.g", "ok.h", "ok.xh"} -> OkDo(x, c, "ck.open")
    [] x.pc = "ck.open" -> GoI(x, "ck.pt", 1)
    [] x.pc = "ck.pt" ->        \* chunks(48): the three mutated points, then the rest
         G1cStep(x, c, IF x.i < 3 THEN [x EXCEPT !.i = @ + 1] ELSE Go(x, "ck.rest"), FALSE)
    [] x.pc = "ck.rest" ->      \* a trailing partial chunk is rejected; collect doubles its buffer
         IF (x.total - OKS) % G1C # 0 THEN ErrS(Alloc(x, 2 * 104 * ((x.total - OKS) \div G1C)), "BadLength")
         ELSE OkS(Alloc(x, 2 * 104 * ((x.total - OKS) \div G1C)))

(***************************************************************************)
(* ProverKey::to_var_bytes AS THE CODE ENCODES: the buffer is sized from   *)
(* q_m, every write either fits entirely or is skipped silently.           *)
(* Value = length class of each of the 15 polynomials.                     *)
(***************************************************************************)
EncLen(c) == CASE c = "full" -> N [] c = "short" -> N - 1 [] c = "zero" -> 0
EncField(x) == IF x.pc = "poly" THEN "len." \o ToString(x.i) ELSE "-"
EncClasses(x) == IF x.pc = "poly" THEN (IF x.i <= 7 THEN {"full", "short"}
                                         ELSE IF x.i <= 11 THEN {"full", "short", "zero"} ELSE {"full"})
                 ELSE {"-"}
EncDef(x) == IF x.pc = "poly" THEN "full" ELSE "-"
Write(x, k) == IF "pkbuf" \notin Dev THEN [x EXCEPT !.cur = @ + k]      \* buffer sized from the actual lengths
               ELSE IF x.cur + k <= x.buf THEN [x EXCEPT !.cur = @ + k]
               ELSE [x EXCEPT !.skipped = TRUE]
EncDo(x, c) ==
  CASE x.pc = "total" -> GoI(x, "poly", 1)
    [] x.pc = "poly" ->
         LET d == EncLen(c)
             y == IF x.i = 1 THEN Write(Write([x EXCEPT !.buf = 15 * d * SC + 17 * ES + 17 * 8], 8), 8) ELSE x
             z == Write(Write(Write(y, 8), d * SC), ES)
         IN IF x.i < 15 THEN [z EXCEPT !.i = @ + 1] ELSE Go(z, "tail")
    [] x.pc = "tail" -> Go(Write(Write(x, ES), ES), "finish")
    [] x.pc = "finish" -> OkS(x)

(***************************************************************************)
(* Dispatch                                                                *)
(***************************************************************************)
Field(x) == CASE x.m = "proof" -> ProofField(x) [] x.m = "verifier" -> VerField(x)
              [] x.m = "prover" -> ProvField(x) [] x.m = "pp" -> PpField(x) [] x.m = "pkenc" -> EncField(x)
Classes(x) == CASE x.m = "proof" -> ProofClasses(x) [] x.m = "verifier" -> VerClasses(x)
                [] x.m = "prover" -> ProvClasses(x) [] x.m = "pp" -> PpClasses(x) [] x.m = "pkenc" -> EncClasses(x)
Def(x) == CASE x.m = "proof" -> ProofDef(x) [] x.m = "verifier" -> VerDef(x)
            [] x.m = "prover" -> ProvDef(x) [] x.m = "pp" -> PpDef(x) [] x.m = "pkenc" -> EncDef(x)
Do(x, c) == CASE x.m = "proof" -> ProofDo(x, c) [] x.m = "verifier" -> VerDo(x, c)
              [] x.m = "prover" -> ProvDo(x, c) [] x.m = "pp" -> PpDo(x, c) [] x.m = "pkenc" -> EncDo(x, c)

Allowed(x) == IF x.muts >= MaxMut[x.m] THEN {Def(x)} ELSE Classes(x)

Step(x, c) == LET y == Do(x, c)
              IN [y EXCEPT !.steps = x.steps + 1, !.muts = IF c = Def(x) THEN x.muts ELSE x.muts + 1]

Init == \E m \in Machines : s = Base(m) /\ hist = <<>>

Next == /\ s.st = "run"
        /\ \E c \in Allowed(s) :
             /\ s' = Step(s, c)
             /\ hist' = IF c = "-" THEN hist ELSE Append(hist, <<Field(s), c>>)

Spec == Init /\ [][Next]_vars

(***************************************************************************)
(* Properties                                                              *)
(***************************************************************************)
MaxSteps(m) == CASE m = "proof" -> 28
                 [] m = "verifier" -> 13 + 17 + 4 + NPI + 2
                 [] m = "prover" -> 11 + 3 + 15 * 4 + 3 + 4 + 17 + 1
                 [] m = "pp" -> 1 + 3 + 1 + 3 + 1
                 [] m = "pkenc" -> 18

InputLen(x) == IF x.total > 0 THEN x.total ELSE 0

\* C17: terminates in Ok or Err; "stuck" is the model's stand-in for a panic
Total == s.st # "stuck"
StepBound == s.steps <= MaxSteps(s.m)
\* C17: allocation within a small multiple of the input plus a constant
AllocBound == s.m # "pkenc" => s.alloc <= 4 * InputLen(s) + 65536
\* C17: accepted data is well-formed
AcceptedIsWellFormed == s.st = "ok" => s.wf
\* C16: Decode(Encode(x)) = x -- every field of x reached the buffer
RoundTrip == (s.m = "pkenc" /\ s.st = "ok") => ~s.skipped
\* C16: accepted 1008-byte strings consist of canonical tokens only
CanonTok(t) == \/ t[1] = "total"
               \/ t[2] \in {"valid", "other", "identity", "negated", "canon"}
ProofCanonical == (s.m = "proof" /\ s.st = "ok" /\ s.total = 1008) =>
                     \A k \in 1..Len(hist) : CanonTok(hist[k])

Scenario == [m |-> s.m, toks |-> hist, pred |-> s.st, why |-> s.why, steps |-> s.steps,
             alloc |-> s.alloc, total |-> s.total, skipped |-> s.skipped]
\* one STRING per line (TLC wraps long tuples)
EmitScenarios == (Emit /\ s.st # "run") => PrintT("SCEN|" \o ToJson(Scenario))
=============================================================================
