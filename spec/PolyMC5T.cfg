SPECIFICATION Spec
CONSTANTS
  P = 5
  GEN = 2
  MaxLog = 2
  AllLen = 4
  AllMaxLog = 2
  PolyAllLen = 3
  MaxThreads = 17
  SchedThreads = {1,2,3,4,5,6,7,8,9,10,11,12,13,14,15,16,17}
  Fams = {"fft", "twid", "poly", "binv", "closed", "bary"}
INVARIANTS
  FftIsDirectEvaluation
  CosetFftIsDirectEvaluation
  FftLongerInputTruncates
  FoldLemma
  IfftIsInterpolation
  FftIfftMutuallyInverse
  ThreadCountIndependence
  FunctionalLemma
  RangeSplitCoversOnce
  TwiddlesIndependentOfThreads
  AddSubAgreeWithSchoolbook
  ScalarOpsAgreeWithSchoolbook
  MulAgreesWithSchoolbook
  EvaluateAgreesWithHorner
  RuffiniIdentity
  BatchInversionInvertsNonZeroKeepsZero
  VanishingClosedForm
  LagrangeClosedForm
  VanishingOverCosetClosedForm
  LagrangeFunctionalLemma
  BarycentricIsSumOfLagrangeTerms
  BarycentricInDomainYieldsZero
  FusedIsLagrangeAndPiSum
CHECK_DEADLOCK FALSE
