------------------------------- MODULE GatesMC -------------------------------
(***************************************************************************)
(* Exhaustive small-field check of what the gate identities of Gates.tla   *)
(* MEAN: the zero set of every widget's atoms is exactly the documented    *)
(* relation (base-4 digit, AND/XOR of digits, signed digit and the Edwards *)
(* addition law).  This is the semantic foundation the gadget models       *)
(* (C08-C14) and the prover-exactness binding (C05) rest on.               *)
(***************************************************************************)
EXTENDS FieldSmall, Sequences, FiniteSets, TLC

CONSTANTS NS,         \* number of slices the outer quantifiers are split into (parallelism)
          Q,          \* order of the prime-order subgroup of the toy curve
          D            \* Edwards d of the toy curve  -x^2 + y^2 = 1 + d x^2 y^2

G == INSTANCE Gates WITH FAdd <- SAdd, FSub <- SSub, FMul <- SMul, FNeg <- SNeg,
                         FInt <- SInt, EdD <- D

Digit == 0..3
And2(a, b) == (IF a \in {1, 3} /\ b \in {1, 3} THEN 1 ELSE 0) + (IF a \in {2, 3} /\ b \in {2, 3} THEN 2 ELSE 0)
Xor2(a, b) == (IF (a \in {1, 3}) # (b \in {1, 3}) THEN 1 ELSE 0) + (IF (a \in {2, 3}) # (b \in {2, 3}) THEN 2 ELSE 0)

\* delta vanishes exactly on the base-4 digits
DeltaExact == \A f \in F : (G!Delta(f) = 0) <=> (f \in Digit)

\* range row: all four atoms vanish iff the four quads are digits
RangeExact(sl) ==
  \A a \in {x \in F : x % NS = sl} : \A b \in F : \A c, d \in 0..7 : \A dn \in F :
     G!AllZero(G!RangeAtoms(a, b, c, d, dn))
       <=> /\ SSub(c, SMul(4, d)) \in Digit /\ SSub(b, SMul(4, c)) \in Digit
           /\ SSub(a, SMul(4, b)) \in Digit /\ SSub(dn, SMul(4, a)) \in Digit

\* logic row (accumulators at zero so quads = next-row wires):
\* atoms vanish iff A,B,D digits, w = A*B and D = A op B
LogicExact ==
  \A qc \in {1, P - 1} : \A A, B, Dq \in 0..5 : \A w \in F :
     G!AllZero(G!LogicAtoms(qc, 0, 0, w, 0, A, B, Dq))
       <=> /\ A \in Digit /\ B \in Digit /\ Dq \in Digit
           /\ w = (A * B) % P
           /\ Dq = (IF qc = 1 THEN And2(A, B) ELSE Xor2(A, B))

OnCurve(x, y) == SSub(SMul(y, y), SMul(x, x)) = SAdd(1, SMul(D, SMul(SMul(x, x), SMul(y, y))))
Curve == {p \in F \X F : OnCurve(p[1], p[2])}
AddPt(p, q) ==
  LET t == SMul(D, SMul(SMul(p[1], q[1]), SMul(p[2], q[2])))
  IN << SMul(SAdd(SMul(p[1], q[2]), SMul(p[2], q[1])), SInv(SAdd(1, t))),
        SMul(SAdd(SMul(p[2], q[2]), SMul(p[1], q[1])), SInv(SSub(1, t))) >>

\* the addition law is complete on the toy curve (denominators never vanish)
AddComplete ==
  \A p, q \in Curve :
    LET t == SMul(D, SMul(SMul(p[1], q[1]), SMul(p[2], q[2])))
    IN SAdd(1, t) # 0 /\ SSub(1, t) # 0

\* variable-base addition row: for curve points, the atoms vanish iff the
\* helper is x1*y2 and (x3, y3) is the group sum
VarExact(sl) ==
  \A p \in {x \in Curve : x[1] % NS = sl} : \A q \in Curve :
    LET h == SMul(p[1], q[2])
        s == AddPt(p, q)
    IN /\ \A x3, y3 \in F :
            G!AllZero(G!VarAtoms(p[1], p[2], q[1], q[2], x3, y3, h)) <=> (<<x3, y3>> = s)
       /\ \A hh \in F \ {h} : ~G!AllZero(G!VarAtoms(p[1], p[2], q[1], q[2], s[1], s[2], hh))

RECURSIVE MulPt(_, _)
MulPt(k, p) == IF k = 0 THEN <<0, 1>> ELSE AddPt(p, MulPt(k - 1, p))
\* the prime-order subgroup (order Q)
Sub == {p \in Curve : MulPt(Q, p) = <<0, 1>>}

\* fixed-base row: accumulated scalar d -> dn, digit = dn - 2d in {-1,0,1};
\* acc (a,b) -> (an,bn) = acc + digit * (ql, qr); c = digit * qc with qc = ql*qr
FixedExact(sl) ==
  \A acc \in Sub : \A beta \in Sub \ {<<0, 1>>} : \A dg \in {x \in F : x % NS = sl} : \A cd \in {0, 1} :
  \A an, bn \in F :
    LET d0 == 3
        c == SAdd(cd, SMul(IF dg = 1 THEN beta[1] ELSE IF dg = P - 1 THEN SNeg(beta[1]) ELSE 0,
                           IF dg \in {1, P - 1} THEN beta[2] ELSE 1))
        dn == SAdd(SMul(2, d0), dg)
        qc == SMul(beta[1], beta[2])
        alpha == IF dg = 1 THEN beta
                 ELSE IF dg = P - 1 THEN << SNeg(beta[1]), beta[2] >>
                 ELSE << 0, 1 >>
    IN G!AllZero(G!FixedAtoms(beta[1], beta[2], qc, acc[1], acc[2], c, d0, an, bn, dn))
         <=> /\ dg \in {0, 1, P - 1}
             /\ c = SMul(alpha[1], alpha[2])
             /\ <<an, bn>> = AddPt(acc, alpha)

\* arithmetic row: the identity is what it says (sanity of the transcription)
ArithExact ==
  \A qm, ql, qo \in {0, 1, P - 1, 2} : \A a, b, c \in 0..4 : \A pi \in {0, 3} :
    LET q == << qm, ql, 0, qo, 0, 5, 1, 0, 0, 0, 0 >>
    IN (G!ArithAtom(q, a, b, c, 0, pi) = 0)
         <=> ((qm * a * b + ql * a + qo * c + 5 + pi) % P = 0)

\* The checks are spread over NS * 4 states so that TLC's workers evaluate
\* them in parallel: <<0,0>> -> group heads <<0,g>> -> tasks <<phase, slice>>.
VARIABLE task
Init == task = <<0, 0>>
Next == \/ /\ task = <<0, 0>>
           /\ task' \in {<<0, g>> : g \in 1..NS}
        \/ /\ task[1] = 0 /\ task[2] > 0
           /\ task' \in {<<ph, task[2] - 1>> : ph \in 1..4}
Spec == Init /\ [][Next]_task

Inv == CASE task[1] = 1 -> RangeExact(task[2]) /\ (task[2] = 0 => DeltaExact /\ ArithExact)
         [] task[1] = 2 -> VarExact(task[2]) /\ (task[2] = 0 => AddComplete)
         [] task[1] = 3 -> FixedExact(task[2])
         [] task[1] = 4 -> (task[2] = 0 => LogicExact)
         [] OTHER -> TRUE
=============================================================================
