SPECIFICATION Spec
CONSTANT Family = "truncate-alias"
CONSTANT Tier = "thorough"
INVARIANT Emit
CHECK_DEADLOCK FALSE
