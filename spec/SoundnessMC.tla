---------------------------- MODULE SoundnessMC ----------------------------
(***************************************************************************)
(* C02, design level: PLONK over the prime field F_97 with an IDEAL        *)
(* commitment scheme (a commitment is the polynomial it commits to; the    *)
(* pairing check  e(left,[x]_2) e(right,[1]_2) = 1  is the polynomial      *)
(* identity  X * left(X) + right(X) = 0  in the formal secret).            *)
(*                                                                         *)
(* The FORCED prover is the proving algorithm of compiler/prover.rs with   *)
(* the unsatisfied exit removed exactly as the hook does: the numerator is *)
(* divided by Z_H pointwise on the coset of size 8n, interpolated, and the *)
(* low 4n+7 coefficients are kept.  Evaluations are honest, the opening    *)
(* witnesses are the quotients by (X - z) and (X - z w) (the remainder is  *)
(* dropped, as `ruffini` does) -- the best an adversary can do once the    *)
(* other commitments are fixed.                                            *)
(*                                                                         *)
(* The VERIFIER is Protocol!TextbookTerms / LeftTerms, i.e. the very       *)
(* scalar map that C03 validates against the real verifier.                *)
(*                                                                         *)
(* For every assignment of a family (the honest one, every single-witness  *)
(* overwrite, every single-position overwrite on a wire with a zero        *)
(* coefficient = copy-constraint break) and every sampled tuple of the     *)
(* other challenges, TLC evaluates the verifier for EVERY evaluation       *)
(* challenge z outside the domain and counts the acceptances:              *)
(*   statement true  (ConstraintSystem!Satisfied)  => accepted for all z   *)
(*   statement false                               => accepted for at most *)
(*        5n+6 values of z (Schwartz-Zippel budget of the identity), and   *)
(*        the prover's own floor test (len > 7n) reports it.               *)
(***************************************************************************)
EXTENDS Naturals, Sequences, FiniteSets, TLC, IOUtils

CONSTANTS P,        \* 97
          Gen,      \* 5, generator of the multiplicative group
          N         \* domain size (4)

SAdd(a, b) == (a + b) % P
SSub(a, b) == (a + P - b) % P
SMul(a, b) == (a * b) % P
SNeg(a) == (P - a) % P
SInt(k) == k % P
InvTab == TLCEval([a \in 1..(P - 1) |-> CHOOSE x \in 1..(P - 1) : (a * x) % P = 1])
SInv(a) == IF a = 0 THEN 0 ELSE InvTab[a]

Pr == INSTANCE Protocol WITH
        FAdd <- SAdd, FSub <- SSub, FMul <- SMul, FNeg <- SNeg, FInt <- SInt,
        FInv <- SInv, EdD <- 7
Po == INSTANCE Poly WITH
        FAdd <- SAdd, FSub <- SSub, FMul <- SMul, FNeg <- SNeg, FInt <- SInt, FInv <- SInv
CS == INSTANCE ConstraintSystem WITH
        FAdd <- SAdd, FSub <- SSub, FMul <- SMul, FNeg <- SNeg, FInt <- SInt, EdD <- 7

EnvInt(name, default) == IF name \in DOMAIN IOEnv THEN atoi(IOEnv[name]) ELSE default
Seed == EnvInt("VERIF_SEED", 1) % 1000
NChal == EnvInt("SND_NCHAL", 2)        \* sampled challenge tuples per assignment
NDelta == EnvInt("SND_NDELTA", 2)      \* overwritten values per witness / position

W == Pr!Pow(Gen, (P - 1) \div N)             \* generator of H
W8 == Pr!Pow(Gen, (P - 1) \div (8 * N))      \* generator of the 8n domain
H == Po!SubgroupPoints(W, N)                 \* 1, w, w^2, ...
Coset == Po!CosetPoints(Gen, W8, 8 * N)      \* the 8n coset the prover works on
KK == <<1, 7, 13, 17>>                       \* coset representatives of the permutation

(* ------------------------------ circuit -------------------------------- *)
(* rows (selectors in Gates order: m l r o f c arith range logic fixed var) *)
(*  1  x * y - m = 0                                                        *)
(*  2  x + m + PI = 0                (public input -(x+m))                  *)
(*  3  range row on (ra, rb, rc, rd), next-row d = re                       *)
(*  4  no selector: carries copies of m, x, y and the last range digit      *)
Sel == << <<1, 0, 0, P - 1, 0, 0, 1, 0, 0, 0, 0>>,
          <<0, 1, 1, 0, 0, 0, 1, 0, 0, 0, 0>>,
          <<0, 0, 0, 0, 0, 0, 0, 1, 0, 0, 0>>,
          <<0, 0, 0, 0, 0, 0, 0, 0, 0, 0, 0>> >>
\* witness table: 1 zero, 2 x, 3 y, 4 m, 5 ra, 6 rb, 7 rc, 8 rd, 9 re
Table0 == <<0, 3, 4, 12, 91, 22, 5, 1, (4 * 91) % P>>
Cls == << <<2, 3, 4, 1>>, <<2, 4, 1, 1>>, <<5, 6, 7, 8>>, <<4, 2, 3, 9>> >>
PiRows == <<1>>                              \* 0-based row of the public input
Pis0 == << SNeg(SAdd(3, 12)) >>
PiDense(pis) == [i \in 1..N |-> IF i = 2 THEN pis[1] ELSE 0]

ValsOf(tab) == [i \in 1..N |-> [k \in 1..4 |-> tab[Cls[i][k]]]]

(* the assignment family: vals matrices *)
Honest == ValsOf(Table0)
\* overwrite one witness everywhere
SetWitness(j, dlt) == ValsOf([Table0 EXCEPT ![j] = SAdd(@, dlt)])
\* overwrite one position only (a copy-constraint break when nothing reads it)
SetPosition(i, k, dlt) == [Honest EXCEPT ![i][k] = SAdd(@, dlt)]
Deltas == { ((Seed * 17 + 5 * t) % (P - 1)) + 1 : t \in 1..NDelta }
Family ==
  {[kind |-> "honest", vals |-> Honest]}
  \cup { [kind |-> "witness", vals |-> SetWitness(j, dl)] : j \in 2..9, dl \in Deltas }
  \cup { [kind |-> "position", vals |-> SetPosition(x[1], x[2], dl)] :
           x \in {<<4, 1>>, <<4, 2>>, <<4, 3>>, <<1, 4>>, <<2, 3>>}, dl \in Deltas }

IsTrue(vals) == CS!Satisfied(Sel, Cls, vals, PiDense(Pis0), N)

(* --------------------------- preprocessing ----------------------------- *)
SelPoly(s) == Po!IDFT([i \in 1..N |-> Sel[i][s]], W, N)
\* identity of position (column k, row i) and the permutation
PosId(k, i) == SMul(KK[k], H[i])
PosIdx(i, k) == (i - 1) * 4 + k
SigmaAt(k, i) ==
  LET c == Cls[i][k]
      same == { x \in (1..N) \X (1..4) : Cls[x[1]][x[2]] = c }
      after == { x \in same : PosIdx(x[1], x[2]) > PosIdx(i, k) }
      first(S) == CHOOSE x \in S : \A y \in S : PosIdx(x[1], x[2]) <= PosIdx(y[1], y[2])
      nx == IF after # {} THEN first(after) ELSE first(same)
  IN PosId(nx[2], nx[1])
SigmaVals(k) == [i \in 1..N |-> SigmaAt(k, i)]
SigmaPoly(k) == Po!IDFT(SigmaVals(k), W, N)
ZHPoly == [i \in 1..(N + 1) |-> IF i = 1 THEN P - 1 ELSE IF i = N + 1 THEN 1 ELSE 0]

VK == TLCEval([sel |-> [s \in 1..11 |-> SelPoly(s)], sigma |-> [k \in 1..4 |-> SigmaPoly(k)]])

(* ------------------------------ challenges ----------------------------- *)
\* a deterministic pseudo-random field element (never 0)
Rnd(a, b) == (((((a * 7919) + (b * 104729) + (Seed * 611953)) % 1009) * (a + b + 17)) % (P - 1)) + 1
Chal(s) == [beta |-> Rnd(s, 1), gamma |-> Rnd(s, 2), alpha |-> Rnd(s, 3),
            range_sep |-> Rnd(s, 4), logic_sep |-> Rnd(s, 5), fixed_sep |-> Rnd(s, 6),
            var_sep |-> Rnd(s, 7), v |-> Rnd(s, 8), v_w |-> Rnd(s, 9), u |-> Rnd(s, 10),
            z |-> 0]
\* 14 blinders; sample 1 is unblinded
Blind(s, j) == IF s = 1 THEN 0 ELSE Rnd(s, 20 + j)

(* ------------------------------- prover -------------------------------- *)
Column(vals, k) == [i \in 1..N |-> vals[i][k]]
\* witnesses + (b1 + b2 X [+ b3 X^2]) Z_H(X)
Blinded(values, bs) == Po!PAdd(Po!IDFT(values, W, N), Po!PMul(bs, ZHPoly))
WirePoly(vals, k, s) == Blinded(Column(vals, k), <<Blind(s, 2 * k - 1), Blind(s, 2 * k)>>)

\* grand product; <<>> when a denominator vanishes (the code asserts there)
RECURSIVE ZValues(_, _, _, _)
ZValues(vals, ch, i, acc) ==
  IF i = N THEN acc
  ELSE LET num == Pr!Prod4(SAdd(SAdd(vals[i][1], SMul(ch.beta, PosId(1, i))), ch.gamma),
                           SAdd(SAdd(vals[i][2], SMul(ch.beta, PosId(2, i))), ch.gamma),
                           SAdd(SAdd(vals[i][3], SMul(ch.beta, PosId(3, i))), ch.gamma),
                           SAdd(SAdd(vals[i][4], SMul(ch.beta, PosId(4, i))), ch.gamma))
           den == Pr!Prod4(SAdd(SAdd(vals[i][1], SMul(ch.beta, SigmaAt(1, i))), ch.gamma),
                           SAdd(SAdd(vals[i][2], SMul(ch.beta, SigmaAt(2, i))), ch.gamma),
                           SAdd(SAdd(vals[i][3], SMul(ch.beta, SigmaAt(3, i))), ch.gamma),
                           SAdd(SAdd(vals[i][4], SMul(ch.beta, SigmaAt(4, i))), ch.gamma))
       IN IF den = 0 THEN <<>>
          ELSE ZValues(vals, ch, i + 1,
                       TLCEval(Append(acc, SMul(acc[Len(acc)], SMul(num, SInv(den))))))

\* evaluations of everything at a point x (the proof's `evaluations` when x = z)
EvalsAt(pp, x) ==
  LET xw == SMul(x, W) IN
  [a_eval |-> Po!Eval(pp.a, x), b_eval |-> Po!Eval(pp.b, x), c_eval |-> Po!Eval(pp.c, x),
   d_eval |-> Po!Eval(pp.d, x),
   s_sigma_1_eval |-> Po!Eval(VK.sigma[1], x), s_sigma_2_eval |-> Po!Eval(VK.sigma[2], x),
   s_sigma_3_eval |-> Po!Eval(VK.sigma[3], x),
   z_eval |-> Po!Eval(pp.z, xw),
   a_w_eval |-> Po!Eval(pp.a, xw), b_w_eval |-> Po!Eval(pp.b, xw), d_w_eval |-> Po!Eval(pp.d, xw),
   q_arith_eval |-> Po!Eval(VK.sel[7], x), q_c_eval |-> Po!Eval(VK.sel[6], x),
   q_l_eval |-> Po!Eval(VK.sel[2], x), q_r_eval |-> Po!Eval(VK.sel[3], x)]

\* the numerator of the quotient at a point outside H (DESIGN A.3)
Numerator(pp, ch0, pipoly, x) ==
  LET ch == [ch0 EXCEPT !.z = x]
      ev == EvalsAt(pp, x)
      selx == [s \in 1..11 |-> Po!Eval(VK.sel[s], x)]
      zx == Po!Eval(pp.z, x)
      s4 == Po!Eval(VK.sigma[4], x)
  IN SAdd(SAdd(SAdd(Pr!GateIdentity(selx, ev, ch), Po!Eval(pipoly, x)),
               SSub(SMul(Pr!PermIdFactor(ev, ch), zx),
                    SMul(Pr!PermSigmaFactor(ev, ch), SAdd(SAdd(ev.d_eval, SMul(ch.beta, s4)), ch.gamma)))),
          SMul(SMul(ch.alpha, ch.alpha), SMul(SSub(zx, 1), Pr!L1(x, N))))

\* rounds 1-3 of the (forced) prover for one assignment and one challenge sample
Prove(vals, s) ==
  LET ch == Chal(s)
      zv == ZValues(vals, ch, 1, <<1>>)
  IN IF zv = <<>> THEN [status |-> "degenerate"]
     ELSE
     LET pp == TLCEval([a |-> WirePoly(vals, 1, s), b |-> WirePoly(vals, 2, s),
                        c |-> WirePoly(vals, 3, s), d |-> WirePoly(vals, 4, s),
                        z |-> Blinded(zv, <<Blind(s, 9), Blind(s, 10), Blind(s, 11)>>)])
         pipoly == Po!IDFT(PiDense(Pis0), W, N)
         quotvals == TLCEval([j \in 1..(8 * N) |->
                        SMul(Numerator(pp, ch, pipoly, Coset[j]),
                             SInv(Pr!ZH(Coset[j], N)))])
         full == TLCEval(Po!Norm(Po!CosetIDFT(quotvals, Gen, W8, 8 * N)))
         kept == Po!Resize(full, 4 * N + 7)              \* the force switch
         part(lo, hi) == [i \in 1..(hi - lo + 1) |-> kept[lo + i - 1]]
     IN [status |-> "ok", ch |-> ch, polys |-> pp,
         quotient_len |-> Len(full),
         t_low |-> part(1, N), t_mid |-> part(N + 1, 2 * N),
         t_high |-> part(2 * N + 1, 3 * N), t_fourth |-> part(3 * N + 1, 4 * N + 7)]

(* ------------------------ verifier under ideal KZG --------------------- *)
PolyOf(pf, name) ==
  CASE name = "proof.a_comm" -> pf.polys.a [] name = "proof.b_comm" -> pf.polys.b
    [] name = "proof.c_comm" -> pf.polys.c [] name = "proof.d_comm" -> pf.polys.d
    [] name = "proof.z_comm" -> pf.polys.z
    [] name = "proof.t_low_comm" -> pf.t_low [] name = "proof.t_mid_comm" -> pf.t_mid
    [] name = "proof.t_high_comm" -> pf.t_high [] name = "proof.t_fourth_comm" -> pf.t_fourth
    [] name = "vk.s_sigma_1" -> VK.sigma[1] [] name = "vk.s_sigma_2" -> VK.sigma[2]
    [] name = "vk.s_sigma_3" -> VK.sigma[3] [] name = "vk.s_sigma_4" -> VK.sigma[4]
    [] name = "ok.g" -> <<1>>
    [] OTHER -> VK.sel[CHOOSE k \in 1..11 : Pr!SelPoint[k] = name]

RECURSIVE Combine(_, _, _, _)
\* SUM scalar * polynomial over a list of <<name, scalar>> terms
Combine(pf, terms, i, acc) ==
  IF i > Len(terms) THEN acc
  ELSE Combine(pf, terms, i + 1,
               TLCEval(Po!PAdd(acc, Po!PScale(PolyOf(pf, terms[i][1]), terms[i][2]))))

\* quotient by (X - pt), remainder dropped (synthetic division)
RECURSIVE Synth(_, _, _, _)
Synth(p, pt, i, acc) ==       \* i runs from Len(p) down to 2; acc = <<coefficients, carry>>
  IF i < 2 THEN acc[1]
  ELSE LET c == SAdd(p[i], SMul(acc[2], pt))
       IN Synth(p, pt, i - 1, TLCEval(<< <<c>> \o acc[1], c >>))
Quot(p, pt) == IF Len(p) < 2 THEN <<0>> ELSE Synth(p, pt, Len(p), << <<>>, 0 >>)

IsWitnessName(nm) == nm \in {"proof.w_z_chall_comm", "proof.w_z_chall_w_comm"}

\* does the verifier accept the forced proof at evaluation challenge z ?
Accepts(pf, z) ==
  LET ch == [pf.ch EXCEPT !.z = z]
      ev == EvalsAt(pf.polys, z)
  IN IF Pr!ZInDomain(z, W, PiRows, Pis0) THEN FALSE
     ELSE
     LET terms == Pr!TextbookTerms("V3", ev, ch, N, W, PiRows, Pis0)
         oz == Pr!OpenedAtZ("V3")
         \* what the prover opens at z: linearisation (= D up to a constant) + v^i p_i
         az == Combine(pf, Pr!DTerms(ev, ch, N)
                             \o [i \in 1..Len(oz) |-> << oz[i][1], Pr!Pow(ch.v, i) >>], 1, <<0>>)
         azw == Combine(pf, << << "proof.z_comm", 1 >> >>
                              \o [j \in 1..3 |-> << Pr!OpenedAtZw[j][1], Pr!Pow(ch.v_w, j) >>],
                        1, <<0>>)
         wz == Quot(az, z)
         wzw == Quot(azw, SMul(z, W))
         witness(nm) == IF nm = "proof.w_z_chall_comm" THEN wz ELSE wzw
         nonw == SelectSeq(terms, LAMBDA t : ~IsWitnessName(t[1]))
         wts == SelectSeq(terms, LAMBDA t : IsWitnessName(t[1]))
         right == Po!PAdd(Combine(pf, nonw, 1, <<0>>),
                          Po!PAdd(Po!PScale(witness(wts[1][1]), wts[1][2]),
                                  Po!PScale(witness(wts[2][1]), wts[2][2])))
         lt == Pr!LeftTerms(ch)
         left == Po!PAdd(Po!PScale(witness(lt[1][1]), lt[1][2]),
                         Po!PScale(witness(lt[2][1]), lt[2][2]))
     IN Po!IsZeroPoly(Po!PAdd(Po!PMul(<<0, 1>>, left), right))

OutsideH == { z \in 0..(P - 1) : Pr!ZH(z, N) # 0 }
AcceptCount(pf) == Cardinality({ z \in OutsideH : Accepts(pf, z) })

(* ------------------------------- machine ------------------------------- *)
VARIABLES phase, member, sample, result
vars == <<phase, member, sample, result>>

NoResult == [status |-> "none", count |-> 0, qlen |-> 0, truth |-> FALSE]
Init == phase = "root" /\ member = [kind |-> "none"] /\ sample = 0 /\ result = NoResult
\* one pending state per (assignment, challenge sample); the workers share them
Pick ==
  /\ phase = "root"
  /\ phase' = "pending"
  /\ member' \in Family
  /\ sample' \in 1..NChal
  /\ result' = NoResult
Compute ==
  /\ phase = "pending"
  /\ phase' = "leaf"
  /\ UNCHANGED <<member, sample>>
  /\ LET pf == Prove(member.vals, sample)
         truth == IsTrue(member.vals)
     IN result' = IF pf.status # "ok"
                  THEN [status |-> "degenerate", count |-> 0, qlen |-> 0, truth |-> truth]
                  ELSE [status |-> "ok", count |-> AcceptCount(pf), qlen |-> pf.quotient_len,
                        truth |-> truth]
Next == Pick \/ Compute
Spec == Init /\ [][Next]_vars

Leaf == phase = "leaf" /\ result.status = "ok"
Budget == 5 * N + 6

\* completeness of the model (what makes its verifier a usable oracle)
Complete == (Leaf /\ result.truth) => result.count = Cardinality(OutsideH)
\* an honest quotient is never flagged and has the length Sizes predicts
FloorSound == (Leaf /\ result.truth) => result.qlen <= 4 * N + 7
(* A false statement can still yield a numerator divisible by Z_H when the   *)
(* EARLIER challenges collide (the kappa-weighted atoms of a row cancel, or  *)
(* the grand product closes for a broken copy constraint): probability about *)
(* degree/|F|, negligible over the real field, a few percent over F_97.      *)
(* Those leaves are reported ("COLLISION"): the forced proof then is a valid *)
(* proof of the false statement -- the soundness error of the protocol       *)
(* itself.  Everywhere else the identity fails on the domain and then:       *)
Collision == Leaf /\ ~result.truth /\ result.qlen <= 7 * N
\* soundness: the forced proof passes on at most the Schwartz-Zippel budget of z
SZBudget == (Leaf /\ ~result.truth /\ ~Collision) => result.count <= Budget
\* a collision is all-or-nothing: the proof is then accepted everywhere
CollisionIsValidProof == Collision => result.count = Cardinality(OutsideH)
\* the family is what it claims: the honest member is true, overwrites are false
FamilyShape == phase = "leaf" => ((member.kind = "honest") = result.truth)
Report == phase = "leaf" =>
            PrintT("SND|" \o member.kind \o "|" \o ToString(sample) \o "|"
                   \o (IF Collision THEN "collision" ELSE result.status)
                   \o "|" \o ToString(result.truth) \o "|" \o ToString(result.count)
                   \o "|" \o ToString(result.qlen))
=============================================================================
