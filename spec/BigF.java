// Java module override for BigF.tla: the same operators computed with
// java.math.BigInteger. Values are tuples of 20 limbs, base 2^13,
// little-endian. Compiled by setup into BigF.class next to the specs
// (TLC's legacy override loader picks up a class named after the module).
import java.math.BigInteger;

import tlc2.value.impl.BoolValue;
import tlc2.value.impl.IntValue;
import tlc2.value.impl.TupleValue;
import tlc2.value.impl.Value;

public class BigF {
    static final int NL = 20;
    static final int LB = 13;
    static final int MASK = (1 << LB) - 1;

    static BigInteger big(Value v) {
        TupleValue t = (TupleValue) v.toTuple();
        if (t == null) {
            throw new RuntimeException("BigF: not a limb tuple: " + v);
        }
        Value[] e = t.elems;
        BigInteger r = BigInteger.ZERO;
        for (int i = e.length - 1; i >= 0; i--) {
            r = r.shiftLeft(LB).or(BigInteger.valueOf(((IntValue) e[i]).val));
        }
        return r;
    }

    static Value limbs(BigInteger x) {
        if (x.signum() < 0 || x.bitLength() > NL * LB) {
            throw new RuntimeException("BigF: value out of range: " + x);
        }
        Value[] e = new Value[NL];
        for (int i = 0; i < NL; i++) {
            e[i] = IntValue.gen(x.shiftRight(i * LB).intValue() & MASK);
        }
        return new TupleValue(e);
    }

    static int small(Value v) {
        return ((IntValue) v).val;
    }

    public static Value BigFromInt(Value k) {
        return limbs(BigInteger.valueOf(small(k)));
    }

    public static Value BigLt(Value a, Value b) {
        return big(a).compareTo(big(b)) < 0 ? BoolValue.ValTrue : BoolValue.ValFalse;
    }

    public static Value BigLe(Value a, Value b) {
        return big(a).compareTo(big(b)) <= 0 ? BoolValue.ValTrue : BoolValue.ValFalse;
    }

    public static Value BigAdd(Value a, Value b) {
        return limbs(big(a).add(big(b)));
    }

    public static Value BigSub(Value a, Value b) {
        return limbs(big(a).subtract(big(b)));
    }

    public static Value BigBit(Value a, Value i) {
        return IntValue.gen(big(a).testBit(small(i)) ? 1 : 0);
    }

    public static Value BigLow(Value a, Value k) {
        return limbs(big(a).mod(BigInteger.ONE.shiftLeft(small(k))));
    }

    public static Value BigShr(Value a, Value k) {
        return limbs(big(a).shiftRight(small(k)));
    }

    public static Value BigBitLen(Value a) {
        return IntValue.gen(big(a).bitLength());
    }

    public static Value BigAddMod(Value a, Value b, Value m) {
        return limbs(big(a).add(big(b)).mod(big(m)));
    }

    public static Value BigSubMod(Value a, Value b, Value m) {
        return limbs(big(a).subtract(big(b)).mod(big(m)));
    }

    public static Value BigNegMod(Value a, Value m) {
        return limbs(big(a).negate().mod(big(m)));
    }

    public static Value BigMulMod(Value a, Value b, Value m) {
        return limbs(big(a).multiply(big(b)).mod(big(m)));
    }

    public static Value BigPowMod(Value a, Value e, Value m) {
        return limbs(big(a).modPow(big(e), big(m)));
    }

    public static Value BigInvMod(Value a, Value m) {
        BigInteger x = big(a);
        if (x.signum() == 0) {
            return limbs(BigInteger.ZERO);
        }
        return limbs(x.modInverse(big(m)));
    }

    public static Value BigMod(Value a, Value m) {
        return limbs(big(a).mod(big(m)));
    }

    public static Value BigToInt(Value a) {
        return IntValue.gen(big(a).intValueExact());
    }
}
