SPECIFICATION Spec
CONSTANTS
  MaxRows = 2
  MaxW = 1
  SelMenu = {2, 3, 5}
  WireMode = "scen"
  InitMode = "initialized"
  SortPI = TRUE
  TailIgnored = FALSE
INVARIANTS
  Emit
CHECK_DEADLOCK FALSE
