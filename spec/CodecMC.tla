------------------------------ MODULE CodecMC ------------------------------
(* Model-checking wrapper of Codec: constants of the base object used by     *)
(* the concretiser (harness/src/bin/codec), mutation bounds per machine.     *)
EXTENDS Codec

\* exhaustive design check: up to 3 simultaneous non-default fields (the
\* encoder machine is explored without bound: all 2^7 * 3^4 length vectors)
MutMC  == [m \in {"proof", "verifier", "prover", "pp", "pkenc"} |->
             CASE m = "pkenc" -> 99 [] m = "proof" -> 3 [] m = "pp" -> 3 [] OTHER -> 2]
\* scenario generation, quick tier
MutGenQ == [m \in {"proof", "verifier", "prover", "pp", "pkenc"} |->
             CASE m = "proof" -> 2 [] m = "pp" -> 2 [] m = "pkenc" -> 2 [] OTHER -> 1]
\* scenario generation, thorough tier
MutGenT == [m \in {"proof", "verifier", "prover", "pp", "pkenc"} |->
             CASE m = "proof" -> 2 [] m = "pp" -> 3 [] m = "pkenc" -> 3 [] OTHER -> 2]
AllDev == {"flagbyte", "unreduced", "pkbuf"}
AllMachines == {"proof", "verifier", "prover", "pp", "pkenc"}
DecMachines == {"proof", "verifier", "prover", "pp"}
NoDev == {}
PkbufDev == {"pkbuf"}
EncMachines == {"proof", "pkenc"}
OnlyEnc == {"pkenc"}
Progress == s.st = "run" => Allowed(s) # {}
=============================================================================
