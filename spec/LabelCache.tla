----------------------------- MODULE LabelCache -----------------------------
(***************************************************************************)
(* The label cache of `transcript.rs::transcript_label_static` (std):      *)
(*                                                                         *)
(*   static CACHE: Mutex<Option<HashMap<Vec<u8>, &'static [u8]>>>          *)
(*   let mut guard = CACHE.lock()...;            -- Lock                   *)
(*   if let Some(&cached) = map.get(label) { return cached; }  -- Lookup   *)
(*   let leaked = Box::leak(label.to_vec()...);  -- Insert (leak + insert) *)
(*   map.insert(label.to_vec(), leaked); leaked                            *)
(*   (guard dropped)                              -- Unlock                *)
(*                                                                         *)
(* Threads client threads each make Calls calls with labels of their       *)
(* choice (prove and verify on shared keys from several threads).  Lock /  *)
(* Lookup / Insert / Unlock are separate actions, so every interleaving of *)
(* the callers is explored.  UseLock = FALSE is the self-test (the cache   *)
(* without its mutex): OneLeakPerLabel must fail.                          *)
(***************************************************************************)
EXTENDS Naturals, FiniteSets, Sequences, TLC

CONSTANTS Threads, Labels, Calls, UseLock

None == [id |-> 0, bytes |-> "none"]

VARIABLES map,     \* label -> leaked slice (None if absent)
          lock,    \* 0 = free, else the holder
          pc,      \* per thread: "idle" "lock" "lookup" "insert" "unlock" "ret"
          cur,     \* per thread: the label of the call in progress
          ret,     \* per thread: the slice the call returns
          done,    \* per thread: calls completed
          leaks,   \* every slice ever leaked
          hist     \* (label, slice id) of every returned call
vars == <<map, lock, pc, cur, ret, done, leaks, hist>>

T == 1..Threads

Init == /\ map = [l \in Labels |-> None]
        /\ lock = 0
        /\ pc = [t \in T |-> "idle"]
        /\ cur = [t \in T |-> CHOOSE l \in Labels : TRUE]
        /\ ret = [t \in T |-> None]
        /\ done = [t \in T |-> 0]
        /\ leaks = {}
        /\ hist = {}

Call(t) == /\ pc[t] = "idle" /\ done[t] < Calls
           /\ \E l \in Labels : cur' = [cur EXCEPT ![t] = l]
           /\ pc' = [pc EXCEPT ![t] = "lock"]
           /\ UNCHANGED <<map, lock, ret, done, leaks, hist>>

Lock(t) == /\ pc[t] = "lock"
           /\ IF UseLock THEN lock = 0 /\ lock' = t ELSE lock' = lock
           /\ pc' = [pc EXCEPT ![t] = "lookup"]
           /\ UNCHANGED <<map, cur, ret, done, leaks, hist>>

Lookup(t) == /\ pc[t] = "lookup"
             /\ IF map[cur[t]] # None
                THEN /\ ret' = [ret EXCEPT ![t] = map[cur[t]]]        \* hit
                     /\ pc' = [pc EXCEPT ![t] = "unlock"]
                ELSE /\ ret' = ret                                     \* miss
                     /\ pc' = [pc EXCEPT ![t] = "insert"]
             /\ UNCHANGED <<map, lock, cur, done, leaks, hist>>

Insert(t) == /\ pc[t] = "insert"
             /\ LET s == [id |-> Cardinality(leaks) + 1, bytes |-> cur[t]]   \* Box::leak(label.to_vec())
                IN /\ leaks' = leaks \cup {s}
                   /\ map' = [map EXCEPT ![cur[t]] = s]
                   /\ ret' = [ret EXCEPT ![t] = s]
             /\ pc' = [pc EXCEPT ![t] = "unlock"]
             /\ UNCHANGED <<lock, cur, done, hist>>

Unlock(t) == /\ pc[t] = "unlock"
             /\ lock' = IF UseLock THEN 0 ELSE lock
             /\ pc' = [pc EXCEPT ![t] = "ret"]
             /\ UNCHANGED <<map, cur, ret, done, leaks, hist>>

Return(t) == /\ pc[t] = "ret"
             /\ hist' = hist \cup {<<cur[t], ret[t].id>>}
             /\ done' = [done EXCEPT ![t] = @ + 1]
             /\ pc' = [pc EXCEPT ![t] = "idle"]
             /\ UNCHANGED <<map, lock, cur, ret, leaks>>

Thread(t) == Call(t) \/ Lock(t) \/ Lookup(t) \/ Insert(t) \/ Unlock(t) \/ Return(t)
Next == \E t \in T : Thread(t)
Spec == Init /\ [][Next]_vars /\ \A t \in T : WF_vars(Thread(t))

--------------------------------------------------------------------------
InCritical(t) == pc[t] \in {"lookup", "insert", "unlock"}

MutualExclusion == \A t1, t2 \in T : (t1 # t2 /\ InCritical(t1)) => ~InCritical(t2)
LockHeldByCritical == \A t \in T : InCritical(t) => lock = t

\* bounded memory: each distinct label is leaked at most once
OneLeakPerLabel == \A l \in Labels : Cardinality({s \in leaks : s.bytes = l}) <= 1

\* the returned static slice has the bytes of the label asked for
RetEqualsLabel == \A t \in T : pc[t] = "ret" => ret[t].bytes = cur[t] /\ ret[t] \in leaks

\* every call for a label gets the same slice
StableSlice == \A h1, h2 \in hist : h1[1] = h2[1] => h1[2] = h2[2]

\* no deadlock: unless everybody is finished some thread can move
NoDeadlock == (\A t \in T : pc[t] = "idle" /\ done[t] = Calls) \/ ENABLED Next

\* liveness: every started call returns (weak fairness per thread; no state constraint)
EventuallyReturns == \A t \in T : (pc[t] = "lock") ~> (pc[t] = "ret")
AllFinish == <>(\A t \in T : done[t] = Calls)
=============================================================================
