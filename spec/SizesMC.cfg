SPECIFICATION Spec
CONSTANTS
  MinC = 4
  MaxC = 8200
  MaxD = 8200
  Padding = 6
  Blinding = 6
  CapSlack = 0
  TableMax = 16500
  Blocks = 64
INVARIANTS CountOK PairsOK SetupOK Seen
CHECK_DEADLOCK FALSE
