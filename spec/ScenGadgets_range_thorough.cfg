SPECIFICATION Spec
CONSTANT Family = "range"
CONSTANT Tier = "thorough"
INVARIANT Emit
CHECK_DEADLOCK FALSE
