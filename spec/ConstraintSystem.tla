-------------------------- MODULE ConstraintSystem --------------------------
(***************************************************************************)
(* What it means for a circuit instance to satisfy a compiled description. *)
(*                                                                         *)
(* compiled description:  rows 1..c, each with 11 selectors and four wire  *)
(*   CLASSES (the witness index wired to a, b, c, d: wires with the same   *)
(*   class are tied by the permutation argument); the set of public-input  *)
(*   rows; the padded size (a power of two >= c).                          *)
(* instance: four wire VALUES per row, one public-input value per          *)
(*   public-input row.                                                     *)
(*                                                                         *)
(* Rows c+1..size are padding: all selectors and all wire values are zero  *)
(* and every padded wire is its own class.  Custom gates read wires of the *)
(* next row CYCLICALLY over the padded domain (row size wraps to row 1).   *)
(***************************************************************************)
EXTENDS Naturals, Sequences, FiniteSets

CONSTANTS FAdd(_, _), FSub(_, _), FMul(_, _), FNeg(_), FInt(_), EdD

G == INSTANCE Gates

ZeroV == << G!Zero, G!Zero, G!Zero, G!Zero >>

(* sel : sequence (row) of selector tuples;  vals : sequence of <<a,b,c,d>>
   values;  pi : sequence (row) of public-input values (zero where none);
   size : padded size *)
NextVals(vals, size, i) ==
  LET c == Len(vals)
      j == IF i = size THEN 1 ELSE i + 1
  IN IF j <= c THEN vals[j] ELSE ZeroV

RowSatisfied(sel, vals, pi, size, i) ==
  G!RowOK(sel[i], vals[i], NextVals(vals, size, i), pi[i])

GatesSatisfied(sel, vals, pi, size) ==
  \A i \in 1..Len(sel) : RowSatisfied(sel, vals, pi, size, i)

\* first row whose identities fail (0 if none) -- what the debugger reports
FirstUnsatisfiedRow(sel, vals, pi, size) ==
  LET bad == {i \in 1..Len(sel) : ~RowSatisfied(sel, vals, pi, size, i)}
  IN IF bad = {} THEN 0 ELSE CHOOSE i \in bad : \A j \in bad : i <= j

(* cls : sequence (row) of <<class a, class b, class c, class d>>.
   The copy constraints hold iff every class carries a single value:
   the relation {(class, value)} is a function. *)
CopyRespected(cls, vals) ==
  LET Pos == (1..Len(cls)) \X (1..4)
      pairs == { << cls[p[1]][p[2]], vals[p[1]][p[2]] >> : p \in Pos }
      classes == { cls[p[1]][p[2]] : p \in Pos }
  IN Cardinality(pairs) = Cardinality(classes)

Satisfied(sel, cls, vals, pi, size) ==
  /\ GatesSatisfied(sel, vals, pi, size)
  /\ CopyRespected(cls, vals)

(* wire values of an instance given as a witness table and wire indices
   (1-based witness numbering inside the specification) *)
ValsOf(wires, table) ==
  [i \in 1..Len(wires) |->
     << table[wires[i][1]], table[wires[i][2]], table[wires[i][3]], table[wires[i][4]] >>]
=============================================================================
