SPECIFICATION Spec
CONSTANTS
  Padding = 6
  Blinding = 6
  CapSlack = 0
  TableMax = 300
  Caps <- C04Caps
  ProgsFor <- C04ProgsFor
  RoutesFor <- C04Routes
  LabelsFor <- C04Labels
  RoundTrips <- C04RoundTrips
  ProveVersions <- C04ProveVersions
  VerifyVersions <- C04VerifyVersions
  PIEditKinds = {}
  VerifierEditKinds = {"pimove"}
  ProofEditKinds = {}
  SpliceSets <- NoSplices
  SpliceProgs = {}
  ViolationKinds = {}
  ViolationPick <- NoPick
  MaxEdits = 1
  Emit = FALSE
VIEW view
INVARIANTS BindsDescriptionStrict
CHECK_DEADLOCK FALSE
