SPECIFICATION Spec
CONSTANT P = 29
CONSTANT NBits = 5
CONSTANT D = 3
CONSTANT Q = 3
CONSTANT Family = "truncate"
CONSTANT Tier = "quick"
CONSTANT Weaken = "no-range"
INVARIANT Sound
INVARIANT Complete
CHECK_DEADLOCK FALSE
