SPECIFICATION Spec
CONSTANT P = 61
CONSTANT D = 2
CONSTANT Q = 7
CONSTANT NS = 16
INVARIANT Inv
CHECK_DEADLOCK FALSE
