SPECIFICATION Spec
CONSTANTS
  P = 97
  Omega8 = 64
  Omega16 = 8
  Omega32 = 28
  LogN = 4
  ThreadSet = {3, 5}
  MinLen = 8
  MinChunks = 4
  MinThreads = 2
  Inputs = "dense"
  RangeLen = "floor-seed"
INVARIANTS
  ResultIsSerial
PROPERTY Terminates
CHECK_DEADLOCK FALSE
