"""C19 - FFT and polynomial kernels equal their mathematical definitions.

MC   spec/PolyMC.tla (one TLC run per small FFT-friendly prime): the
     TRANSCRIPTIONS of the code's algorithms in spec/Poly.tla (serial_fft,
     best_fft with the range split / seeds of parallel_butterfly_chunk,
     coset variants, ruffini, batch_inversion, closed forms) equal the
     DEFINITIONS (direct evaluation, interpolation, schoolbook arithmetic,
     products of linear factors, sums of Lagrange terms); IFFT o FFT = id;
     thread-count independence for 1..17 threads and every half-chunk
     length; the two places where the code as it is leaves the definition
     are modelled and must be exhibited (DEVIATION lines).
TV   harness `kernels record` drives the real kernels (dusk_plonk::verif::*)
     under rayon pools of 1..17 threads; spec/TraceKernels.tla recomputes
     every logged call over the BLS12-381 scalar field with the definitions
     of Poly (complete for domains <= 64, seeded indices + the O(n)
     functional for larger ones).

A kernel result that differs from the definition is a violation keyed by
{"site": <kernel>, "class": <class>}; the two deviations known at design time
have the classes "len>n" (fft / coset_fft truncate a longer input) and
"point-in-domain" (barycentric_eval yields 0 inside the domain).  They are
reported only when the real code exhibits them, so the check is silent again
once the code is repaired.
"""
import collections
import json
import os
import re

import vlib

PID = "C19"
ALL_FAMS = '{"fft","twid","poly","binv","closed","bary"}'

MC_QUICK = [("PolyMC5.cfg", {"P": 5, "n": "1..4", "mode": "all polynomials len<=2, all vectors len<=4"}),
            ("PolyMC17.cfg", {"P": 17, "n": "1..16", "mode": "all vectors len<=3 on n<=4 + basis"}),
            ("PolyMC97.cfg", {"P": 97, "n": "1..32", "mode": "basis + length classes, all points"}),
            ("PolyMC257Q.cfg", {"P": 257, "n": "1..32", "mode": "fft and twiddle families"})]
MC_THOROUGH = [("PolyMC5T.cfg", {"P": 5, "n": "1..4", "mode": "all polynomials len<=3, all vectors len<=4"}),
               ("PolyMC17T.cfg", {"P": 17, "n": "1..16", "mode": "all vectors len<=4 on n<=4 + basis"}),
               ("PolyMC97.cfg", {"P": 97, "n": "1..32", "mode": "basis + length classes, all points"}),
               ("PolyMC193T.cfg", {"P": 193, "n": "1..64", "mode": "basis + length classes, all points"}),
               ("PolyMC257T.cfg", {"P": 257, "n": "1..64", "mode": "basis + length classes, all points"})]

DEVIATIONS = [("fft", "len>n"), ("barycentric_eval", "point-in-domain")]

WHAT = {
    "len>n": "%s of a vector LONGER than the domain evaluates the truncated polynomial "
             "(Vec::resize) instead of the polynomial with those coefficients (fold mod X^n-1)",
    "point-in-domain": "%s returns 0 instead of evals[k] for a point w^k INSIDE the domain "
                       "(its denominator is 0, batch_inversion keeps it 0, and point^n-1 = 0)",
    "thread-dependence": "%s returns different results under different rayon thread counts",
    "outcome": "%s: unexpected outcome (error / panic / refusal) for this input",
    "other": "%s differs from its mathematical definition",
}


def _slim(e, limit=40):
    """Event without the bulk of long vectors (for messages); replays keep it whole."""
    out = {}
    for k, v in e.items():
        if isinstance(v, dict) and ("l" in v or "s" in v):
            vec = v.get("l", v.get("s"))
            out[k] = {"len": len(vec), "head": vec[:3]} if len(vec) > limit else v
        else:
            out[k] = v
    return out


def model_check(ck, tier, workers):
    runs = MC_QUICK if tier == "quick" else MC_THOROUGH
    for cfg, consts in runs:
        res = vlib.tlc("PolyMC", cfg=cfg, workers=workers, timeout=3000)
        if res.violated or not res.finished:
            raise vlib.ToolError("PolyMC/%s: the transcription of a kernel disagrees with its "
                                 "definition in the MODEL (specification error, not a finding "
                                 "about the code):\n%s" % (cfg, res.out[-4000:]))
        # the model of the code as it is must exhibit both known deviations
        for site, cls in DEVIATIONS:
            if ('"DEVIATION|%s|%s|' % (site, cls)) not in res.out:
                if cfg.endswith("Q.cfg") and site == "barycentric_eval":
                    continue        # family not explored in this configuration
                raise vlib.ToolError("PolyMC/%s did not exhibit the modelled deviation %s/%s "
                                     "(vacuous run?)" % (cfg, site, cls))
        if res.distinct < 1000:
            raise vlib.ToolError("PolyMC/%s explored only %d states" % (cfg, res.distinct))
        ck.add_tlc(res, "PolyMC/" + cfg, consts)


def judge_trace(ck, path, events, workers, timeout, label="TraceKernels"):
    tv = vlib.tlc("TraceKernels", workers=workers, timeout=timeout, heap="12g", env={"TRACE": path})
    if tv.violated or not tv.finished:
        raise vlib.ToolError("TraceKernels did not judge the whole trace:\n" + tv.out[-3000:])
    ck.add_tlc(tv, label, {"field": "BLS12-381 scalar field (BigF)", "events": len(events)},
               exhaustive=False)
    verdicts = {}
    for l in tv.out.splitlines():
        if not (l.startswith('"VERDICT|') or l.startswith('"MISMATCH|')):
            continue
        f = l.strip('"').split("|")
        i = int(f[1])
        if i in verdicts:
            raise vlib.ToolError("event %d judged twice" % i)
        verdicts[i] = (f[0], f[2], f[3])
    ids = set(e["id"] for e in events)
    if set(verdicts) != ids:
        raise vlib.ToolError("TraceKernels judged %d of %d events (missing %s)\n%s"
                             % (len(verdicts), len(ids), sorted(ids - set(verdicts))[:10], tv.out[-2000:]))
    return verdicts


def account(ck, events, verdicts):
    by_id = {e["id"]: e for e in events}
    groups = collections.OrderedDict()      # (site, class) -> [event ids]
    per_kernel = collections.Counter()
    sampled = 0
    # schedule independence: one event per case
    by_case = collections.defaultdict(list)
    for e in events:
        if e["ev"] == "call":
            by_case[e["case"]].append(e)
    for case, evs in by_case.items():
        seen = sorted(t for e in evs for t in e["threads"])
        if seen != list(range(1, 18)) + [33, 65]:
            raise vlib.ToolError("case %s: thread counts %s" % (case, seen))
        if len(evs) > 1:
            groups.setdefault((evs[0]["kern"], "thread-dependence"), []).extend(e["id"] for e in evs)
    for i in sorted(verdicts):
        kind, kern, cls = verdicts[i]
        e = by_id[i]
        per_kernel[kern] += 1
        size = None
        if "out" in e and isinstance(e["out"], dict):
            size = len(e["out"].get("l", []))
            if size > 64:
                sampled += 1
        ck.case({"kern": kern, "cls": e.get("cls", ""), "verdict": cls})
        if kind == "MISMATCH":
            groups.setdefault((kern, cls), []).append(i)
        elif e["ev"] == "call":
            ck.sample({"kern": kern, "class": e.get("cls"), "threads": "1..17, 33, 65 identical",
                       "digest": e.get("digest"), "verdict": cls}, limit=8)
    for (site, cls), ids in groups.items():
        first = by_id[ids[0]]
        head = {k: first[k] for k in ("id", "kern", "cls", "nc", "res", "threads", "deg", "rows") if k in first}
        for k in ("a", "b", "out"):
            if isinstance(first.get(k), dict):
                head["len(%s)" % k] = len(first[k].get("l", first[k].get("s", [])))
        what = (WHAT.get(cls, WHAT["other"]) % site) + \
            " - %d recorded call(s), e.g. %s" % (len(ids), json.dumps(head))
        ck.violation(what, {"key": {"site": site, "class": cls},
                            "event": first, "event_ids": ids[:50], "count": len(ids),
                            "replay_cmd": "bin/check C19 --replay <this file>"})
    return per_kernel, sampled


def run(tier):
    ck = vlib.Check(PID, tier)
    ck.assumptions = [
        "field arithmetic of dusk-bls12_381 (BlsScalar) is trusted; BigF Java override == its TLA+ "
        "definition (cross-checked by setup)",
        "for domains larger than 64 points the comparison with the definition is at 4 seeded "
        "indices plus one random linear functional (error probability <= 2^15 / r per vector); "
        "the functional identity itself is proved by PolyMC on every small instance",
        "soundness of the small-field results for the real field is by parametricity of Poly.tla",
    ]
    workers = 8
    model_check(ck, tier, workers)

    d = vlib.workdir(PID)
    path = os.path.join(d, "trace.ndjson")
    out = vlib.harness("kernels", ["record", "--tier", tier, "--out", path], timeout=3000)
    summary = vlib.read_ndjson_text(out)[-1]
    events = [json.loads(l) for l in open(path)]
    if len(events) != summary["events"] or len(events) < 1000:
        raise vlib.ToolError("recorder wrote %d events, reported %s" % (len(events), summary))
    verdicts = judge_trace(ck, path, events, workers, 6000)
    ck.traces += 1
    per_kernel, sampled = account(ck, events, verdicts)
    ck.extra["events_per_kernel"] = dict(per_kernel)
    ck.extra["events_sampled_comparison"] = sampled
    ck.extra["thread_counts"] = "1..17, 33, 65 (every case; identical outputs required)"
    ck.extra["max_domain"] = "2^14" if tier == "thorough" else "2^12 (+ one 2^13 transform)"
    ck.notes.append("ifft / coset_ifft of more than n values have no mathematical definition; "
                    "judged against the code's `resize` semantics (verdict tag resize-semantics)")
    import shutil
    shutil.rmtree(d, ignore_errors=True)
    return ck.finish(rule="one case per (kernel, input class label, verdict); input classes are "
                          "generated by harness/src/bin/kernels.rs from VERIF_SEED: domain sizes "
                          "2^0..2^max, lengths <,=,> domain, dense/small/zeros/trailing/leading "
                          "zeros/spike, points inside and outside the domain")


def replay(path):
    """Re-executes the recorded call on the current tree and judges it again."""
    rp = json.load(open(path))
    ck = vlib.Check(PID, "replay")
    d = vlib.workdir(PID + "-replay")
    src = os.path.join(d, "event.json")
    json.dump(rp["event"], open(src, "w"))
    tr = os.path.join(d, "trace.ndjson")
    vlib.harness("kernels", ["replay", "--event", src, "--out", tr], timeout=600)
    events = [json.loads(l) for l in open(tr)]
    verdicts = judge_trace(ck, tr, events, 2, 1200)
    account(ck, events, verdicts)
    for i, v in sorted(verdicts.items()):
        vlib.log("replay: event %d %s" % (i, v))
    return 1 if ck.violations else 0
