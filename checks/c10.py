"""C10 Bitwise AND / XOR components return exactly the truncated result."""
import gadgets


def run(tier):
    return gadgets.standard("C10", tier, mc=["logic"], weak=["weak_norange"], scen=["logic", "logic-alias"])
