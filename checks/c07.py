"""C07 Circuit shape is independent of witness values; generation is total.

MBT  ScenGadgets family "shape": TLC enumerates, per template (public
     component + constant parameters), a vector of witness values (boundary
     scalars, malformed point coordinates, extended representations with
     Z = 0 / inconsistent T).
     The real Composer runs every program; for one template all value vectors
     must give the identical shape (selectors, wiring, public-input rows,
     witness count) or an error that appended nothing; a panic is a
     violation.
TV   TraceComposer: the common shape must be the one Components.tla states
     (lock-step, NB = 255); differences are SPEC-DRIFT.
MC   GadgetSearch "arith" keeps the composer state machine of the
     specification exercised (Complete: honest values always satisfy).
"""
import json
import os

import gadgets
import vlib


def shape_sig(events):
    """shape of one program run: everything except witness / PI values"""
    sig = []
    res = "ok"
    for e in events:
        if e["ev"] == "call":
            rows = [(tuple(tuple(e["d"][i - 1]) for i in r["q"]), tuple(r["w"])) for r in e["rows"]]
            sig.append((e["op"], e["res"], tuple(rows), len(e["vals"]), tuple(p["row"] for p in e["pis"]),
                        tuple(e["ret"])))
        elif e["ev"] == "end":
            res = e["res"]
    return tuple(sig), res


def run(tier):
    ck = vlib.Check("C07", tier)
    ck.assumptions = ["the value vectors are the TLC-enumerated boundary / malformed sets, not all field elements"]
    gadgets.mc_family(ck, "arith", tier)
    sc = gadgets.scenarios(ck, "shape", tier)
    inp = "\n".join(json.dumps({"id": s["id"], "ops": s["ops"]}) for s in sc) + "\n"
    out = vlib.harness("composer_trace", [], stdin=inp, timeout=3000)
    events = vlib.read_ndjson_text(out)
    by_id = {}
    for e in events:
        by_id.setdefault(e["id"], []).append(e)
    groups = {}
    for s in sc:
        groups.setdefault(s["shape"], []).append(s)
    n_err = 0
    for shape, members in groups.items():
        ref = None
        for s in members:
            evs = by_id.get(s["id"], [])
            sig, res = shape_sig(evs)
            ck.case("%s/%s" % (shape, s["id"]))
            if res.startswith("panic") or any(str(e.get("res", "")).startswith("panic") for e in evs):
                ck.violation("component panicked for template %s: %s" % (shape, res),
                             {"key": {"site": shape, "class": "panic"}, "scenario": s})
                continue
            if res == "bad" or any(e.get("res") == "bad" for e in evs):
                raise vlib.ToolError("scenario %s could not be run: %s" % (s["id"], [e.get("why") for e in evs if e.get("why")]))
            last = [e for e in evs if e["ev"] == "call"][-1]
            if last["res"] != "ok":
                n_err += 1
                # an error must append nothing
                if last["rows"] or last["vals"] or last["pis"]:
                    ck.violation("template %s: call returned %s after appending %d rows / %d witnesses"
                                 % (shape, last["res"], len(last["rows"]), len(last["vals"])),
                                 {"key": {"site": shape, "class": "error-after-append"}, "scenario": s})
                continue
            if ref is None:
                ref = (sig, s)
            elif sig != ref[0]:
                ck.violation("template %s: the emitted shape depends on the witness values "
                             "(two value vectors give different rows / wiring / public-input rows / counts)"
                             % shape,
                             {"key": {"site": shape, "class": "value-dependent-shape"},
                              "scenario": s, "reference_scenario": ref[1]})
        if len(ck.samples) < 5:
            ck.sample({"template": shape, "value_vectors": len(members),
                       "first_program": [op.get("op") for op in members[0]["ops"]]})
    ck.extra["templates"] = len(groups)
    ck.extra["error_outcomes_checked"] = n_err
    # lock-step with the specification on a subset (first two value vectors of each template)
    subset = []
    for shape, members in groups.items():
        subset.extend(members[:2] if tier == "quick" else members)
    gadgets.composer_conformance(ck, subset)
    return ck.finish(
        rule="one case per (template, value vector) program run on the real Composer; templates = public "
             "component + constant parameters (TLC-enumerated widths / selectors / point parameters); "
             "non-trivial = every case (its shape is compared with the template's reference shape or its "
             "error is checked to have appended nothing)")
