"""C18 Compilation and proving are deterministic and schedule-independent.

MC   FftPar: one FFT as best_fft runs it (parallel chunks / parallel final
     stages with the range split and seeds / serial), F_97, n in {8,16}
     (thorough: 32), thread counts 1..5, thresholds scaled into range: in
     EVERY interleaving NoOverlap, StageCovers, ResultIsSerial, ResultIsDFT,
     termination; TilingLemma for all m in 1..64, threads in 1..17.
     LabelCache: the mutex-protected label cache with 3 client threads,
     Lock/Lookup/Insert/Unlock separate: MutualExclusion, OneLeakPerLabel,
     RetEqualsLabel, StableSlice, NoDeadlock, liveness EventuallyReturns
     under weak fairness.  HashOrder: sigma mapping and public-input index
     list for every iteration order of witness_map / public_inputs.
     Self-tests (must FAIL): seed step from floor(m/threads); cache without
     its mutex; public-input keys not sorted.
MBT  DetScenarios (TLC) enumerates configurations (rayon pools 1..=17 and 32,
     circuits on both sides of the 2^12 FFT-length switch, repeated runs,
     fresh processes, 16 concurrent callers on shared keys, the alloc-only
     build); harness/bin/determinism runs the same lifecycle under each;
     predicted: byte-identical public parameters, keys, proofs, verdicts.
"""
import json
import os

import vlib

ENV = {"JDK_JAVA_OPTIONS": "-Xss1g"}
WORKERS = int(os.environ.get("VERIF_WORKERS", "8"))

# constraints, setup degree.  "edge": size 512, quotient domain exactly 2^12 = the length at which the
# parallel FFT paths start (thread-count thresholds bite earliest there: ceil(m/threads) is smallest)
SIZES = {"small": (200, 256), "edge": (400, 512), "mid": (600, 1024), "large": (5000, 8192)}
SEEDS = [1, 2]


# ------------------------------------------------------------------- MC ---

def expect_hold(ck, module, cfg, consts, workers=None, timeout=2400, coverage=False):
    res = vlib.tlc(module, cfg=cfg, workers=workers or WORKERS, timeout=timeout, env=ENV, coverage=coverage)
    if res.violated or not res.finished:
        raise vlib.ToolError("%s/%s: the model violates its own property (tool error):\n%s"
                             % (module, cfg, res.out[-3000:]))
    ck.add_tlc(res, "%s/%s" % (module, cfg), consts)
    if coverage:
        ck.never_taken += res.coverage_zero()
    return res


def expect_fail(ck, module, cfg, what):
    res = vlib.tlc(module, cfg=cfg, workers=2, timeout=900, env=ENV, check_error=False)
    if not res.violated:
        raise vlib.ToolError("vacuous model: self-test %s/%s (%s) is not detected\n%s"
                             % (module, cfg, what, res.out[-2000:]))
    ck.notes.append("model self-test detected: " + what)


def model_check(ck, tier):
    inv = ["NoOverlap", "StageCovers", "ResultIsSerial", "ResultIsDFT", "Terminates (liveness)"]
    thr = tier == "thorough"
    expect_hold(ck, "FftPar", "FftPar_n8.cfg", {"P": 97, "n": 8, "threads": "1..5", "MinLen": 8, "MinChunks": 4,
                                                 "MinThreads": 2, "inputs": "all basis vectors", "properties": inv},
                coverage=thr)
    expect_hold(ck, "FftPar", "FftPar_n16.cfg", {"P": 97, "n": 16, "threads": "1..5", "MinLen": 8, "MinChunks": 4,
                                                  "MinThreads": 4, "inputs": "all basis vectors", "properties": inv})
    expect_hold(ck, "FftPar", "FftPar_n16b.cfg", {"P": 97, "n": 16, "threads": "1,2,3,5", "MinLen": 16, "MinChunks": 8,
                                                   "MinThreads": 2, "inputs": "2 dense vectors", "properties": inv})
    expect_hold(ck, "FftPar", "FftPar_serial.cfg", {"P": 97, "n": 16, "MinLen": 32, "strategy": "serial_fft",
                                                    "properties": inv})
    expect_hold(ck, "FftPar", "FftPar_tiling.cfg", {"TilingLemma": "m in 1..64, threads in 1..17"}, workers=2)
    if thr:
        expect_hold(ck, "FftPar", "FftPar_n32.cfg", {"P": 97, "n": 32, "threads": "3,4,5", "MinLen": 8, "MinChunks": 4,
                                                      "MinThreads": 4, "inputs": "2 dense vectors", "properties": inv})
    expect_fail(ck, "FftPar", "FftPar_mutant.cfg", "seed step computed from floor(m/threads)")

    lc = ["MutualExclusion", "LockHeldByCritical", "OneLeakPerLabel", "RetEqualsLabel", "StableSlice", "NoDeadlock",
          "EventuallyReturns (liveness, WF)", "AllFinish (liveness)"]
    expect_hold(ck, "LabelCache", "LabelCache.cfg" if thr else "LabelCache_quick.cfg",
                {"threads": 3, "labels": 2, "calls per thread": 2 if thr else 1, "properties": lc})
    expect_fail(ck, "LabelCache", "LabelCache_nolock.cfg", "label cache without its mutex leaks twice")

    expect_hold(ck, "HashOrder", "HashOrder_T.cfg" if thr else "HashOrder.cfg",
                {"witnesses": 3, "rows": 2, "iteration orders": "all",
                 "properties": ["SigmaIndependent", "PiIndependent", "WritesDisjoint"]})
    expect_fail(ck, "HashOrder", "HashOrder_unsorted.cfg", "public_input_indexes without the sort")


# ------------------------------------------------------------------ MBT ---

def program(n):
    return {"ops": [{"op": "witness", "v": 200, "out": "a"}, {"op": "witness", "v": 77, "out": "b"},
                    {"op": "public", "v": 5, "out": "p"},
                    {"op": "range_bits", "w": "a", "bits": 8},
                    {"op": "logic", "a": "a", "b": "b", "pairs": 4, "xor": True, "out": "x"},
                    {"op": "gate_mul", "q": {"m": 1}, "w": ["a", "b"], "out": "prod"},
                    {"op": "select", "bit": 1, "a": "a", "b": "b", "out": "s"},
                    {"op": "append_point", "pt": {"name": "G"}, "out": "P"},
                    {"op": "append_public_point", "pt": {"name": "G_NUMS"}, "out": "Q"},
                    {"op": "add_point_gates", "a": "P", "b": "Q", "out": "R"},
                    {"op": "assert_equal_constant", "a": "a", "c": 200, "pi": 0},
                    {"op": "pad", "to": n}]}


def label_of(circuit):
    """Labels longer than 64 bytes, so that a cache keyed by less than the whole label
    (a prefix, a bounded inline buffer, a fingerprint of the ends) is observable."""
    return "c18-%s-%s" % (circuit, "".join(chr(97 + (k * 7) % 26) for k in range(64)))


def label_primers(lab):
    """Labels a cache could confuse with `lab`: an extension, a prefix, one byte changed in
    the middle / past the 64th byte, a trailing NUL, the same first 64 bytes."""
    mid = len(lab) // 2
    flip = lambda k: lab[:k] + ("#" if lab[k] != "#" else "%") + lab[k + 1:]
    return [lab + "+ext", lab[:-1], flip(mid), flip(12), flip(len(lab) - 3), lab + "\u0000", lab[:64] + "/other-tail"]


def scen_json(cfg, i):
    n, cap = SIZES[cfg["circuit"]]
    return {"id": "s%d" % i, "program": program(n), "cap": cap, "label": label_of(cfg["circuit"]),
            "pool": cfg["pool"], "runs": cfg["runs"], "concurrent": cfg["concurrent"], "seeds": SEEDS}


def execute(cfgs):
    """-> list of (cfg, record)"""
    out = []
    batch = [(i, c) for i, c in enumerate(cfgs) if c["mode"] in ("in-process", "concurrent")]
    # primers: the shared process first meets labels that EXTEND and labels that are
    # PREFIXES of the labels used below, so that the label cache (LabelCache!RetEqualsLabel:
    # the slice returned for a label is that label, whatever was cached before) is exercised
    # with a history the fresh processes do not have
    primers = []
    for circuit in sorted(set(c["circuit"] for _, c in batch)):
        for lab in label_primers(label_of(circuit)):
            n, cap = SIZES["small"]
            primers.append({"id": "primer", "program": program(n), "cap": cap, "label": lab, "pool": 1,
                            "runs": 1, "concurrent": 0, "seeds": SEEDS[:1]})
    inp = "\n".join([json.dumps(x) for x in primers] + [json.dumps(scen_json(c, i)) for i, c in batch]) + "\n"
    recs = vlib.read_ndjson_text(vlib.harness("determinism", [], stdin=inp, timeout=6000))
    if len(recs) != len(batch) + len(primers):
        raise vlib.ToolError("determinism: %d records for %d scenarios" % (len(recs), len(batch) + len(primers)))
    recs = recs[len(primers):]
    out += [(c, r) for (i, c), r in zip(batch, recs)]
    for i, c in enumerate(cfgs):
        if c["mode"] in ("in-process", "concurrent"):
            continue
        one = json.dumps(scen_json(c, i)) + "\n"
        variant = "serial" if c["build"] == "serial" else "std"     # alloc-only build of this one binary
        recs = vlib.read_ndjson_text(vlib.harness("determinism", [], stdin=one, timeout=3000, variant=variant))
        if len(recs) != 1:
            raise vlib.ToolError("determinism(%s): no record for %s" % (c["build"], c))
        out.append((c, recs[0]))
    return out


FIELDS = ["pp", "prover", "verifier"]


def compare(ck, pairs):
    ref = {}
    for c, r in pairs:
        if c["mode"] == "in-process" and c["pool"] == 1:
            ref[c["circuit"]] = (c, r)
    n_diff = 0
    pids = set()
    for c, r in pairs:
        pids.add(r["pid"])
        if c["circuit"] not in ref:
            raise vlib.ToolError("no reference run for circuit %s" % c["circuit"])
        rc, rr = ref[c["circuit"]]
        key = "%s/%s/pool=%d/proc=%d" % (c["mode"], c["circuit"], c["pool"], c["proc"])
        ck.case(key)
        # sanity of the configuration itself (tool errors, not violations)
        if r["error"] or rr["error"]:
            raise vlib.ToolError("lifecycle failed under %s: %s" % (key, r["error"] or rr["error"]))
        if r["build"] != c["build"] or (c["build"] == "std" and c["pool"] and r["threads"] != c["pool"]):
            raise vlib.ToolError("configuration not in force for %s: %s" % (key, {k: r[k] for k in ("build", "threads")}))
        if r["rows"] != SIZES[c["circuit"]][0]:
            raise vlib.ToolError("circuit %s has %d rows" % (c["circuit"], r["rows"]))
        diffs = [f for f in FIELDS if r[f] != rr[f]]
        if len(r["runs"]) != len(rr["runs"]):
            diffs.append("runs")
        for a, b in zip(r["runs"], rr["runs"]):
            for f in ("proof", "pi", "verify", "draws"):
                if a[f] != b[f]:
                    diffs.append("%s(seed %d)" % (f, a["seed"]))
            if a["verify"] != "ok":
                diffs.append("verify(seed %d)=%s" % (a["seed"], a["verify"]))
        if not r["repeat_equal"]:
            diffs.append("repeated-run")
        if c["concurrent"]:
            if r["concurrent"].get("threads") != c["concurrent"]:
                raise vlib.ToolError("concurrent callers not run for %s" % key)
            if not r["concurrent"].get("equal"):
                diffs.append("concurrent-vs-sequential")
        if diffs:
            n_diff += 1
            ck.violation(
                "keys/proofs depend on the configuration: %s differ between [%s] and the reference [in-process, "
                "pool=1] for circuit %s" % (", ".join(sorted(set(diffs))), key, c["circuit"]),
                {"key": {"site": sorted(set(d.split("(")[0] for d in diffs))[0], "mode": c["mode"],
                         "circuit": c["circuit"], "pool": c["pool"]},
                 "configuration": c, "reference_configuration": rc,
                 "observed": {k: v for k, v in r.items() if k != "runs"},
                 "reference": {k: v for k, v in rr.items() if k != "runs"},
                 "proofs": [x["proof"][:64] for x in r["runs"]],
                 "reference_proofs": [x["proof"][:64] for x in rr["runs"]],
                 "scenario": scen_json(c, 0)})
    return n_diff, pids


def run(tier):
    ck = vlib.Check("C18", tier)
    ck.assumptions = [
        "rayon's par_chunks_mut / par_iter / join run the closures of one call in some interleaving and "
        "return only when all have finished (barrier); which worker runs what is unconstrained",
        "a butterfly's two reads and two writes are atomic w.r.t. other tasks -- exact because NoOverlap holds",
        "std::sync::Mutex provides mutual exclusion; weak fairness of every client thread",
        "small-field FFT (F_97) results carry to the real field by parametricity of the schedule in the field",
    ]
    model_check(ck, tier)

    gen = vlib.tlc("DetScenarios", cfg="DetScenarios.cfg" if tier == "quick" else "DetScenarios_thorough.cfg",
                   workers=1, timeout=300, env=ENV)
    cfgs = [json.loads(json.loads(l)[len("SCEN|"):]) for l in gen.out.splitlines() if l.startswith('"SCEN|')]
    if len(cfgs) < 40:
        raise vlib.ToolError("DetScenarios produced %d configurations\n%s" % (len(cfgs), gen.out[-2000:]))
    ck.add_tlc(gen, "DetScenarios", {"tier": tier})
    vlib.build_harness("std", "determinism")
    vlib.build_harness("serial", "determinism")
    pairs = execute(cfgs)
    n_diff, pids = compare(ck, pairs)
    ck.traces += len(pairs)
    modes = {}
    for c, r in pairs:
        modes[c["mode"]] = modes.get(c["mode"], 0) + 1
    ck.extra["configurations"] = modes
    ck.extra["distinct_processes"] = len(pids)
    ck.extra["pools"] = sorted(set(c["pool"] for c, _ in pairs))
    ck.extra["circuits"] = {k: {"constraints": v[0], "setup_degree": v[1]} for k, v in SIZES.items()
                            if any(c["circuit"] == k for c, _ in pairs)}
    ck.extra["differences"] = n_diff
    for c, r in pairs[:3] + [p for p in pairs if p[0]["mode"] != "in-process"][:3]:
        ck.sample({"configuration": c, "pid": r["pid"], "threads": r["threads"], "prover": r["prover"][:24],
                   "verifier": r["verifier"][:24], "proof": r["runs"][0]["proof"][:32], "verify": r["runs"][0]["verify"]})
    if len(pids) < 5 or "serial-build" not in modes or "concurrent" not in modes:
        raise vlib.ToolError("vacuous run: %s, %d processes" % (modes, len(pids)))
    return ck.finish(
        rule="cases = configurations enumerated by TLC from DetScenarios: (circuit below / above the 2^12 "
             "FFT-length switch) x (rayon pool 1..=17, 32 in one process; fresh processes with pools 0(default), 1, 4, "
             "17; 16 concurrent callers on shared keys; alloc-only build), each running setup, compile, prove "
             "(two scripted seeds), verify; compared field by field (sha-256 of public parameters / prover / "
             "verifier bytes, the full proof bytes, public inputs, verdict, number of RNG draws) with the "
             "reference configuration (std, one process, pool of 1); distinct = distinct configurations")


def replay(path):
    r = json.load(open(path))
    ck = vlib.Check("C18", "quick")
    cfgs = [r["reference_configuration"], r["configuration"]]
    pairs = execute(cfgs)
    compare(ck, pairs)
    return 1 if ck.violations else 0
