"""C15 Compressed circuit descriptions compile to the identical keys.

MC   CompressMC (spec/Compress.tla): a small composer state machine; in every
     reachable composer, for every hash iteration order and both table
     settings: Preprocess(Decompress(Compress(c))) = Preprocess(c),
     CapacityAgrees (both routes succeed for exactly the same parameter
     sizes), RejectsMalformed, AcceptsSparse, Bounded (what the decoder
     materialises <= f(capacity)).  Self-tests of the model: with the
     public-input sort removed (SortPI = FALSE) the invariants must FAIL.
     RejectsTrailing holds for the container as the code reads it now
     (inflate_exact; TailIgnored = FALSE).  With TailIgnored = TRUE -- the
     reading before the fix, the inflater stopping at the end of the stream --
     it must FAIL (self-test; that was the finding).  If the real code is
     seen to accept bytes after the stream again, the binding reports it with
     the key {compile_with_compressed, tail-after-deflate-stream}.
MBT  CompressScen (TLC) prints the reachable composers; a seeded sample is
     turned into programs for the real composer; further families are listed
     in `families()`.
TV   harness/bin/compress runs Circuit::compress, both compilation routes over
     SRS capacities from too small to ample, unpacks the real bytes, and runs
     compile_with_compressed on hostile edits under a counting allocator;
     TraceCompress judges every event with the operators of Compress over
     the real scalars / the real built-in table.
"""
import json
import os
import random

import vlib

ENV = {"JDK_JAVA_OPTIONS": "-Xss1g"}   # main-thread stack (initial states, constants)
WORKERS = int(os.environ.get("VERIF_WORKERS", "8"))
FINDING_KEY = {"site": "compile_with_compressed", "class": "tail-after-deflate-stream"}
ALL_INV = ["RoundTripKeys", "CompressDeterministic", "DictsBijective", "SigmaIsNextInClass", "CapacityAgrees",
           "RejectsMalformed", "AcceptsSparse", "Bounded", "RejectsTrailing"]


# ------------------------------------------------------------------- MC ---

def model_check(ck, tier):
    cfgs = [("CompressMC.cfg", {"init": "empty", "rows": 2, "extra witnesses": 2, "wires": "all 4-tuples", "selector tuples": 2}),
            ("CompressMC_init.cfg", {"init": "Composer::initialized()", "rows": "4+1", "extra witnesses": 1, "wires": "a,b free", "selector tuples": 5})]
    if tier == "thorough":
        cfgs += [("CompressMC_T1.cfg", {"init": "empty", "rows": 2, "extra witnesses": 3, "wires": "a,b,c free", "selector tuples": 3}),
                 ("CompressMC_T2.cfg", {"init": "empty", "rows": 3, "extra witnesses": 2, "wires": "a,b free", "selector tuples": 4}),
                 ("CompressMC_T3.cfg", {"init": "Composer::initialized()", "rows": "4+1", "extra witnesses": 1, "wires": "a,b,c free", "selector tuples": 5})]
    for i, (cfg, consts) in enumerate(cfgs):
        cov = tier == "thorough" and i == 0
        res = vlib.tlc("CompressMC", cfg=cfg, workers=WORKERS, timeout=2400, env=ENV, coverage=cov)
        if res.violated or not res.finished:
            raise vlib.ToolError("CompressMC/%s: the model violates its own invariant (tool error, "
                                 "not a finding):\n%s" % (cfg, res.out[-3000:]))
        consts = dict(consts)
        consts["invariants"] = ALL_INV
        consts["hash iteration orders"] = "all"
        ck.add_tlc(res, "CompressMC/" + cfg, consts)
        if cov:
            ck.never_taken += res.coverage_zero()
    # model self-test: without the sort the invariants must fail (non-vacuity)
    st = vlib.tlc("CompressMC", cfg="CompressMC_unsorted.cfg", workers=2, timeout=600, env=ENV,
                  check_error=False)
    if not st.violated:
        raise vlib.ToolError("vacuous model: removing the public-input sort is not detected by "
                             "RoundTripKeys/CompressDeterministic\n" + st.out[-2000:])
    ck.notes.append("model self-test: SortPI=FALSE violates RoundTripKeys (as it must)")
    # self-test: the pre-fix reading of the container (tail ignored) must violate RejectsTrailing
    tail = vlib.tlc("CompressMC", cfg="CompressMC_tail.cfg", workers=2, timeout=600, env=ENV,
                    check_error=False)
    if tail.error or not tail.violated:
        raise vlib.ToolError("vacuous model: RejectsTrailing does not fail when the tail is ignored:\n"
                             + tail.out[-2000:])
    ck.notes.append("model self-test: TailIgnored=TRUE (the code before the fix) violates RejectsTrailing")
    return True


# ------------------------------------------------------------ scenarios ---

BIG = "0x5fffffffffffffffffffffffffffffffffffffffffffffffffffffffffffff80"


def real_scalar(k, table):
    """model scalar -> a real scalar of the same kind"""
    return {0: 0, 1: 1, 2: -1,
            3: table[3 + 335 + 5][0],      # MDS entry 1/6: occurs twice in the table
            4: table[5][0],                # a Hades round constant
            5: "0x1234567", 6: BIG}[k]


def program_of_state(st, table):
    base = st["base"]
    ops = [{"op": "witness", "v": 9 + i} for i in range(st["nw"] - 6)]
    for i, r in enumerate(st["rows"]):
        if i < base:
            continue
        op = {"op": "raw", "sel": [real_scalar(k, table) for k in r["q"]], "w": r["w"]}
        if i in st["pis"]:
            op["pi"] = 0                   # zero-valued public input
        ops.append(op)
    return {"ops": ops}


def raw(sel, w, pi=None):
    s = [0] * 11
    for k, v in sel.items():
        s[k] = v
    op = {"op": "raw", "sel": s, "w": w}
    if pi is not None:
        op["pi"] = pi
    return op


def families(tier, table):
    T = lambda i: table[i][0]
    fam = []
    fam.append(("empty", {"ops": []}))
    fam.append(("unused-witnesses-37", {"ops": [{"op": "witness", "v": i} for i in range(37)]}))
    fam.append(("unused-then-used", {"ops": [{"op": "witness", "v": 1}, {"op": "witness", "v": 2, "out": "b"},
                                             {"op": "witness", "v": 3}, {"op": "witness", "v": 4, "out": "d"},
                                             {"op": "gate", "q": {"l": 1, "r": -1}, "w": ["d", "b", "d", "b"]},
                                             {"op": "gate", "q": {"m": 1, "o": -1}, "w": ["b", "b", 1, "d"]}]}))
    # public inputs: first and last user row, zero-valued, every row
    fam.append(("pi-first-last-zero", {"ops": [{"op": "gate", "q": {"l": 1}, "w": [0], "pi": 0},
                                               {"op": "witness", "v": 5, "out": "a"},
                                               {"op": "gate", "q": {"l": 1, "c": -5}, "w": ["a"]},
                                               {"op": "gate", "q": {"l": 1}, "w": ["a"], "pi": -5}]}))
    fam.append(("pi-every-row", {"ops": [{"op": "public", "v": i % 3} for i in range(9)]}))
    # selectors equal to entries of the built-in table (incl. the duplicated MDS entries)
    tab_rows = [raw({0: T(3), 1: T(4), 5: T(3 + 335), 6: 1}, [0, 1, 0, 0]),
                raw({0: T(3 + 335 + 5), 1: T(3 + 335 + 1), 2: T(3 + 335 + 24), 5: T(3 + 334)}, [1, 1, 0, 0], pi=0),
                raw({k: T(3 + 7 * k) for k in range(11)}, [0, 0, 1, 1]),
                raw({0: 1, 1: -1, 2: 0, 3: 1, 4: -1}, [1, 0, 1, 0])]
    fam.append(("table-selectors", {"ops": tab_rows}))
    # repeated / distinct tuples, one scalar in several positions
    rep = []
    for i in range(12):
        rep.append(raw({0: "0x77", 1: "0x77", 5: hex(1000 + i % 3), 6: 1}, [0, 1, 0, 1]))
    for i in range(5):
        rep.append(raw({k: hex(0x10000 + 11 * i + k) for k in range(11)}, [1, 0, 0, 0]))
    fam.append(("repeated-and-distinct", {"ops": rep}))
    # eleven fresh worst-case-size scalars per row
    dense = []
    for i in range(6):
        dense.append(raw({k: "0x5f" + "ff" * 29 + "%02x%02x" % (0x80 + i, 0x80 + k) for k in range(11)},
                         [0, 1, 0, 1], pi=(0 if i % 2 else None)))
    fam.append(("dense-scalars", {"ops": dense}))
    # gadgets
    gad = [{"op": "witness", "v": 200, "out": "a"}, {"op": "witness", "v": 77, "out": "b"},
           {"op": "public", "v": 0, "out": "p"},
           {"op": "range_bits", "w": "a", "bits": 8}, {"op": "range_bits", "w": "b", "bits": 7},
           {"op": "logic", "a": "a", "b": "b", "pairs": 4, "xor": True, "out": "x"},
           {"op": "logic", "a": "a", "b": "b", "pairs": 4, "xor": False, "out": "y"},
           {"op": "boolean", "a": 1}, {"op": "select", "bit": 1, "a": "a", "b": "b", "out": "s"},
           {"op": "gate_add", "q": {"l": 1, "r": 1}, "w": ["a", "b"], "out": "sum"},
           {"op": "gate_mul", "q": {"m": 1}, "w": ["a", "b"], "out": "prod"},
           {"op": "decomposition", "w": "b", "n": 8, "out": "bits"},
           {"op": "assert_equal_constant", "a": "a", "c": 200, "pi": 0}]
    fam.append(("gadgets", {"ops": gad}))
    ecc = [{"op": "witness", "v": 5, "out": "k"},
           {"op": "append_point", "pt": {"name": "G"}, "out": "P"},
           {"op": "append_public_point", "pt": {"name": "G_NUMS"}, "out": "Q"},
           {"op": "add_point_gates", "a": "P", "b": "Q", "out": "R"}]
    fam.append(("curve-add", {"ops": ecc}))
    if tier == "thorough":
        fam.append(("mul-generator", {"ops": gad + [{"op": "witness", "v": 5, "out": "k"},
                                                    {"op": "mul_generator", "s": "k", "pt": {"name": "G"}, "out": "M"}]}))
    # constraint counts around the capacity boundary 2^k - 6
    ks = [4, 5, 6] if tier == "quick" else [4, 5, 6, 7, 8, 9, 10]
    for k in ks:
        for dlt in (-1, 0, 1):
            fam.append(("pad-2^%d-6%+d" % (k, dlt),
                        {"ops": [{"op": "public", "v": 3}, {"op": "pad", "to": (1 << k) - 6 + dlt}]}))
    # a circuit whose definition fails
    return fam


def scenarios(ck, tier, table):
    gen = vlib.tlc("CompressScen", cfg="CompressScen.cfg", workers=4, timeout=900, env=ENV)
    lines = [l for l in gen.out.splitlines() if l.startswith('"SCEN|')]
    if len(lines) < 1000:
        raise vlib.ToolError("CompressScen produced %d states\n%s" % (len(lines), gen.out[-2000:]))
    ck.add_tlc(gen, "CompressScen", {"init": "Composer::initialized()", "rows": "4+2", "extra witnesses": 1})
    rnd = random.Random(vlib.seed())
    n = 60 if tier == "quick" else 600
    full = [l for l in lines if l.count('\\"q\\"') == 6]      # two appended rows
    pick = rnd.sample(full, min(n, len(full)))
    scens = []
    for i, l in enumerate(pick):
        st = json.loads(json.loads(l)[len("SCEN|"):])
        scens.append({"id": "model-%d" % i, "family": "model", "program": program_of_state(st, table),
                      "state": st, "label": "c15"})
    labels = ["c15", "", "a-much-longer-circuit-label-0123456789" * 3]
    for j, (name, prog) in enumerate(families(tier, table)):
        scens.append({"id": name, "family": name, "program": prog, "label": labels[j % 3]})
    # hostile edits: on a handful of descriptions, at an ample capacity
    hostile = {"pi-first-last-zero": 64, "table-selectors": 64, "empty": 16, "pi-every-row": 32,
               "model-0": 64, "model-1": 64}
    if tier == "thorough":
        hostile.update({"gadgets": 1024, "repeated-and-distinct": 128, "dense-scalars": 64, "model-2": 32})
    for s in scens:
        if s["id"] in hostile:
            s["hostile"] = True
            s["hostile_cap"] = hostile[s["id"]]
    return scens


# ------------------------------------------------------------------- TV ---

def fields(line):
    return line.strip('"').split("|")


def validate(ck, scens, tier, model_tail_violated, strict=True):
    d = vlib.workdir("C15")
    by_id = {s["id"]: s for s in scens}
    inp = "\n".join(json.dumps({k: v for k, v in s.items() if k != "state"}) for s in scens) + "\n"
    out = vlib.harness("compress", [], stdin=inp, timeout=3000)
    events = vlib.read_ndjson_text(out)
    bad = [e for e in events if e["ev"] not in ("table", "packed", "route", "hostile")]
    if bad:
        raise vlib.ToolError("scenario could not be run: %s" % json.dumps(bad[:3])[:1500])
    path = os.path.join(d, "trace.ndjson")
    vlib.write_ndjson(path, events)
    tv = vlib.tlc("TraceCompress", workers=1, trace=True, env=dict(ENV, TRACE=path), timeout=3000, heap="8g")
    ck.add_tlc(tv, "TraceCompress", {"scalars": "BLS12-381 (opaque tokens)", "table": "363 built-in entries"},
               exhaustive=False)
    judged = {}
    findings = []
    for l in tv.out.splitlines():
        if l.startswith('"VERDICT|') or l.startswith('"MISMATCH|'):
            f = fields(l)
            judged[int(f[1])] = f
        elif l.startswith('"FINDING|'):
            findings.append(fields(l))
    need = [i for i, e in enumerate(events, 1) if e["ev"] != "table"]
    if tv.diameter - 1 != len(events) or sorted(judged) != need:
        raise vlib.ToolError("TraceCompress consumed %d/%d lines, judged %d/%d\n%s"
                             % (tv.diameter - 1, len(events), len(judged), len(need), tv.out[-3000:]))
    ck.traces += 1
    finding_lines = set(int(f[1]) for f in findings)
    counts = {"packed": 0, "route_ok": 0, "route_err": 0, "hostile_err": 0, "hostile_ok": 0}
    for i, e in enumerate(events, 1):
        if e["ev"] == "table":
            continue
        f = judged[i]
        sc = by_id.get(e.get("id"), {})
        if e["ev"] == "packed":
            key = "packed/%s" % e["id"]
            counts["packed"] += 1
        elif e["ev"] == "route":
            key = "route/%s/cap=%d" % (e["id"], e["cap"])
            counts["route_ok" if e["direct"] == "ok" else "route_err"] += 1
            if e["direct"] == "ok":
                ck.sample({"circuit": e["id"], "rows": e["rows"], "setup": e["cap"], "direct": e["direct"],
                           "compressed": e["compressed"], "prover": e["prover"], "cprover": e["cprover"],
                           "verifier": e["verifier"], "cverifier": e["cverifier"]}, limit=3)
        else:
            key = "hostile/%s/%s" % (e["id"], e["class"])
            counts["hostile_ok" if e["res"] == "ok" else "hostile_err"] += 1
            if e["class"].startswith("deflate-bomb"):
                ck.sample({"circuit": e["id"], "class": e["class"], "input_bytes": e["len"], "res": e["res"],
                           "peak_heap": e["peak"]}, limit=5)
        ck.case(key)
        if f[0] == "MISMATCH" and i not in finding_lines:
            site = {"packed": "Circuit::compress", "route": "compile", "hostile": "compile_with_compressed"}[e["ev"]]
            ck.violation(
                "%s: the specification predicts %s, the implementation did %s (scenario %s)"
                % (e["ev"], "|".join(f[3:5]), json.dumps({k: e.get(k) for k in
                                                          ("direct", "compressed", "res", "same_prover",
                                                           "same_verifier", "peak", "class", "cap")}), e.get("id")),
                {"key": {"site": site, "class": e.get("class", e["ev"]), "scenario": e.get("id")},
                 "scenario": {k: v for k, v in sc.items() if k != "state"},
                 "event": {k: v for k, v in e.items() if k not in ("snap", "container")},
                 "verdict": f})
    # the known finding: an accepted container with bytes after the stream
    for f in findings:
        e = events[int(f[1]) - 1]
        ck.violation(
            "compile_with_compressed accepts a description followed by %d extra bytes after the deflate "
            "stream (keys %s those of the clean description); the property asks for an error "
            "(CompressMC!RejectsTrailing; the model predicts InvalidCompressedCircuit)"
            % (e["container"]["tail"], "identical to" if e["same_keys"] else "different from"),
            {"key": dict(FINDING_KEY), "scenario": {k: v for k, v in by_id.get(e["id"], {}).items() if k != "state"},
             "event": {k: v for k, v in e.items() if k != "container"}, "tail_bytes": e["container"]["tail"]})
    tails = [e for e in events if e["ev"] == "hostile" and e["container"]["tail"] > 0]
    ck.extra["tail_inputs"] = len(tails)
    ck.extra["tail_inputs_accepted"] = len(findings)
    ck.extra.update(counts)
    if strict and (counts["route_ok"] < 20 or counts["route_err"] < 20 or counts["hostile_err"] < 20 or not tails):
        raise vlib.ToolError("vacuous run: %s" % counts)
    return events


def get_table():
    out = vlib.harness("compress", [], stdin="", timeout=600)
    ev = vlib.read_ndjson_text(out)
    if not ev or ev[0]["ev"] != "table" or len(ev[0]["table"]) != 363:
        raise vlib.ToolError("no built-in table from the harness")
    return ev[0]["table"]


def run(tier):
    ck = vlib.Check("C15", tier)
    ck.assumptions = [
        "deflate/inflate (miniz_oxide) and MessagePack framing are modelled structurally: a container is "
        "(stream ok|garbage, payload fields, bytes after the last field, bytes after the stream)",
        "keys are a function of Preprocess (selector columns, copy permutation, public-input rows, count) "
        "and of the public parameters; byte equality of the real keys is checked by the binding",
        "the built-in table is recomputed in the harness from the published Poseidon recipe (sha2)",
    ]
    model_tail = model_check(ck, tier)
    table = get_table()
    scens = scenarios(ck, tier, table)
    validate(ck, scens, tier, model_tail)
    ck.extra["scenarios"] = len(scens)
    return ck.finish(
        rule="cases = (circuit, SRS capacity) pairs through both routes + (circuit, hostile edit) pairs + one "
             "unpacked description per circuit; circuits = seeded sample of the composer states TLC "
             "enumerates in CompressScen (two rows appended to Composer::initialized(), table / non-table "
             "/ repeated selectors, zero-valued public inputs, unused witnesses) + hand-written families "
             "(37 unused witnesses, PI on first/last user row and on every row, selectors equal to built-in "
             "table entries incl. duplicated MDS entries, repeated and distinct tuples, worst-case-size "
             "scalars, gadget circuits, constraint counts 2^k-6-1..2^k-6+1); capacities 1, 2, n/2-1, n/2, "
             "n-1, n, n+1, 2n-1, 2n around the padded size n; every case is judged by TLC with the "
             "operators of Compress; distinct = distinct case keys")


def replay(path):
    r = json.load(open(path))
    sc = r["scenario"]
    ck = vlib.Check("C15", "quick")
    validate(ck, [sc], "quick", True, strict=False)
    return 1 if ck.violations else 0
