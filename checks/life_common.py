"""Shared driver code of the Lifecycle checks (C01, C02, C04).

TLC explores spec/Lifecycle.tla under a profile of spec/LifecycleMC.tla and
prints every finished behaviour as a scenario (list of steps, each with the
specification's prediction `pred`).  harness/src/bin/life.rs executes the
scenarios against the real library; `compare` confronts every step's
observation with its prediction.
"""
import concurrent.futures
import json
import os

import vlib

R = 0x73eda753299d7d483339d80809a1d80553bda402fffe5bfeffffffff00000001

SIZES = {"Padding": 6, "Blinding": 6}


def fe_hex(v):
    """Specification value (small integer, possibly negative, or 0x.. string) ->
    the harness' canonical hex."""
    if isinstance(v, str):
        v = int(v, 16)
    return "0x%064x" % (v % R)


def dev_mbt_only():
    """Development aid (mutant runs): LIFE_DEV_MBT_ONLY=1 skips the runs that
    involve the model alone -- they cannot depend on the code under test."""
    return os.environ.get("LIFE_DEV_MBT_ONLY") == "1"


def generate(cfg, env, tier_workers=4, timeout=900, expect_violation=False):
    """Runs LifecycleMC under `cfg`; returns (TlcResult, scenarios)."""
    e = {"VERIF_SEED": str(vlib.seed())}
    e.update({k: str(v) for k, v in env.items()})
    res = vlib.tlc("LifecycleMC", cfg=cfg, workers=tier_workers, timeout=timeout, env=e,
                   check_error=False)
    if res.error or (res.violated and not expect_violation) or \
            (not res.finished and not res.violated):
        lines = [l for l in res.out.splitlines() if not l.startswith('<<"SCEN"')]
        raise vlib.ToolError("LifecycleMC/%s: the model itself fails (invariant of the "
                             "specification violated or evaluation error):\n%s"
                             % (cfg, "\n".join(l[:400] for l in lines[-60:])))
    scens = res.printed_json("SCEN")
    return res, scens


def strip(step):
    return {k: v for k, v in step.items() if k != "pred"}


def order(scens):
    """Sorts scenarios so that shared prefixes are adjacent (the harness reuses
    the state reached after a shared prefix) and gives them ids."""
    keyed = [([json.dumps(strip(s), sort_keys=True) for s in sc["steps"]], sc) for sc in scens]
    keyed.sort(key=lambda x: x[0])
    out = []
    for i, (_, sc) in enumerate(keyed):
        out.append({"id": i, "steps": sc["steps"]})
    return out


def execute(pid, scens, shards=4, trace=False, timeout=3000):
    """Runs the scenarios through `life`; returns (observations by id, trace paths)."""
    d = vlib.workdir(pid)
    vlib.build_harness("std")
    if not scens:
        return {}, []
    # contiguous chunks; cut only where the first three steps change so that a
    # compiled circuit is not compiled again in another shard
    def head(sc):
        return json.dumps([strip(s) for s in sc["steps"][:3]], sort_keys=True)
    target = max(1, len(scens) // max(1, shards))
    chunks, cur = [], []
    for sc in scens:
        if cur and len(cur) >= target and head(sc) != head(cur[-1]) and len(chunks) < shards - 1:
            chunks.append(cur)
            cur = []
        cur.append(sc)
    if cur:
        chunks.append(cur)

    def run_chunk(k):
        inp = "\n".join(json.dumps(s, separators=(",", ":")) for s in chunks[k]) + "\n"
        args = []
        tp = None
        if trace:
            tp = os.path.join(d, "forced-%d.ndjson" % k)
            args = ["--trace", tp]
        out = vlib.harness("life", args, stdin=inp, timeout=timeout)
        return vlib.read_ndjson_text(out), tp

    obs, traces = {}, []
    with concurrent.futures.ThreadPoolExecutor(max_workers=len(chunks)) as ex:
        for recs, tp in ex.map(run_chunk, range(len(chunks))):
            for r in recs:
                obs[r["id"]] = r
            if tp:
                traces.append(tp)
    missing = [s["id"] for s in scens if s["id"] not in obs]
    if missing:
        raise vlib.ToolError("life returned no observation for scenarios %s" % missing[:10])
    return obs, traces


class Ids:
    """The model's identifiers against digests of to_bytes(): the same identifier
    must always show the same bytes and different identifiers different bytes."""

    def __init__(self):
        self.by_id = {}
        self.by_digest = {}
        self.conflicts = []

    def see(self, kind, ident, digest, where):
        k = kind + ":" + json.dumps(ident, sort_keys=True)
        dg = kind + ":" + digest
        if k in self.by_id and self.by_id[k][0] != digest:
            self.conflicts.append(("same-id-different-bytes", kind, ident, self.by_id[k], (digest, where)))
        self.by_id.setdefault(k, (digest, where))
        if dg in self.by_digest and self.by_digest[dg][0] != k:
            self.conflicts.append(("different-id-same-bytes", kind, ident, self.by_digest[dg], (k, where)))
        self.by_digest.setdefault(dg, (k, where))


def is_err(res):
    return isinstance(res, str) and res.startswith("err:")


def compare(scen, ob, ids):
    """Yields mismatches (step index, field, predicted, observed, severity).
    severity: 'accept'   observed ok where the model predicts an error
              'reject'   observed error where the model predicts ok
              'panic'    a panic anywhere
              'class'    both errors, different class (recorded as drift)
              'value'    another predicted field differs
              'tool'     the step could not be executed as intended"""
    out = []
    steps, obs = scen["steps"], ob["obs"]
    for i, (st, o) in enumerate(zip(steps, obs)):
        pred = st.get("pred", {})
        res = o.get("res", "")
        if isinstance(res, str) and res.startswith("panic"):
            out.append((i, "res", pred.get("res"), res, "panic"))
            continue
        if isinstance(res, str) and (res.startswith("bad:") or res.startswith("skip:")):
            # a skipped step after a predicted failure is fine; otherwise tool level
            out.append((i, "res", pred.get("res"), res, "tool"))
            continue
        pr = pred.get("res")
        if pr is not None and pr != res:
            if pr == "ok" and res != "ok":
                out.append((i, "res", pr, res, "reject"))
            elif pr != "ok" and res == "ok":
                out.append((i, "res", pr, res, "accept"))
            elif res.startswith("err:decode") and is_err(pr):
                pass    # rejected while decoding the proof: an error, as predicted
            else:
                out.append((i, "res", pr, res, "class"))
        for k, v in pred.items():
            if k in ("res", "corner"):
                continue
            if k in ("prover", "verifier"):
                if k in o:
                    ids.see(k, v, o[k], (scen["id"], i))
                continue
            if k == "pis":
                want = [fe_hex(x) for x in v]
                if o.get("pis") != want:
                    out.append((i, "pis", want, o.get("pis"), "value"))
                continue
            if k == "differing":
                # the number of spliced fields that differ between two proofs of
                # the same statement under different randomness: all of them
                if o.get(k) != v:
                    out.append((i, k, v, o.get(k), "value"))
                continue
            if k == "unforced":
                if o.get(k) != v:
                    out.append((i, k, v, o.get(k), "value"))
                continue
            if o.get(k) != v:
                out.append((i, k, v, o.get(k), "value"))
    return out


def step_names(scen):
    return [s["a"] for s in scen["steps"]]


def find(scen, name, last=True):
    idx = [i for i, s in enumerate(scen["steps"]) if s["a"] == name]
    if not idx:
        return None
    return idx[-1] if last else idx[0]


def sizes_mc(ck, tier, workers=8):
    """Exhaustive Sizes run (C01, also quoted by C04/C02 for the compile outcome)."""
    if dev_mbt_only():
        return None
    cfg = "SizesMC.cfg" if tier == "thorough" else "SizesMCq.cfg"
    res = vlib.tlc("SizesMC", cfg=cfg, workers=workers, timeout=1500)
    if res.violated:
        raise vlib.ToolError("SizesMC: the size arithmetic of the specification is inconsistent:\n"
                             + res.out[-3000:])
    consts = {"c": "4..8200", "d": "1..8200"} if tier == "thorough" else {"c": "4..4200", "d": "1..4200"}
    ck.add_tlc(res, "SizesMC", consts)
    # anti-vacuity: an off-by-one in max_constraints must be found by the same invariants
    mut = vlib.tlc("SizesMC", cfg="SizesMutant.cfg", workers=2, timeout=300, check_error=False)
    if not mut.violated:
        raise vlib.ToolError("SizesMC does not detect CapSlack = 1 (vacuous invariants)")
    return res
