"""C01 Completeness: every satisfied circuit proves and verifies.

MC   Sizes: exhaustive arithmetic of constraints -> size -> trim degree ->
     key capacity for every (constraint count, setup argument) of a rectangle:
     compile succeeds exactly when npo2(c+6) <= d, both routes agree, every
     committed polynomial fits the trimmed key, the detection floor never fires
     on an honest quotient.  The same invariants must refute an off-by-one in
     max_constraints (anti-vacuity).
     Lifecycle (profile c01): the honest path always ends in acceptance.
MBT  the sweep of the Lifecycle model (constraint counts 2^k-8 .. 2^k+2, public
     input placements incl. the last row of a full domain, a custom-gate row
     wrapping to row 0, capacities one short / exact / ample, direct / default /
     compressed routes, prover and verifier from their own bytes, V2 / V3) is
     executed against the real library by harness/bin/life.
"""
import collections
import json

import life_common as lc
import vlib


def describe(sc):
    st = {s["a"]: s for s in sc["steps"]}
    comp = st.get("Compose", {})
    c = comp.get("pred", {}).get("c")
    cap = st.get("Setup", {}).get("cap")
    route = st.get("Compile", {}).get("route")
    ops = comp.get("prog", {}).get("ops", [])
    body = [o["op"] for o in ops if o["op"] not in ("witness", "public", "pad")]
    rts = [a for a in lc.step_names(sc) if a.startswith("RoundTrip")]
    ver = st.get("Prove", {}).get("version")
    return {"c": c, "cap": cap, "route": route, "pirows": comp.get("pred", {}).get("pirows"),
            "pis": comp.get("pred", {}).get("pis"), "body": body[:3], "roundtrips": rts,
            "version": ver, "label": st.get("Compile", {}).get("label")}


def run(tier):
    ck = vlib.Check("C01", tier)
    ck.assumptions = [
        "catalogue programs are satisfied by the components' own witness generation "
        "(C05/C08-C14 decide that); here their row counts and public inputs are checked",
        "no scripted RNG draw is degenerate (negligible case of the property text)",
    ]
    thorough = tier == "thorough"
    lc.sizes_mc(ck, tier)

    env = {"LIFE_KMIN": 3, "LIFE_KMAX": 13 if thorough else 10, "LIFE_KFULL": 10 if thorough else 8}
    gen, scens = lc.generate("LifeC01.cfg", env, tier_workers=4, timeout=1200)
    ck.add_tlc(gen, "Lifecycle/c01 sweep", dict(env))
    if len(scens) < 200:
        raise vlib.ToolError("only %d sweep scenarios generated" % len(scens))
    scens = lc.order(scens)
    obs, _ = lc.execute("C01", scens, shards=4, timeout=6000)

    ids = lc.Ids()
    stats = collections.Counter()
    drift = collections.Counter()
    size_boundary = set()
    for sc in scens:
        ob = obs[sc["id"]]
        d = describe(sc)
        names = lc.step_names(sc)
        pred_compile = sc["steps"][2]["pred"]["res"]
        ok_path = "Verify" in names
        stats["compile:" + pred_compile] += 1
        stats["route:%s" % d["route"]] += 1
        if ok_path:
            stats["version:%s" % d["version"]] += 1
            stats["roundtrips:%d" % len(d["roundtrips"])] += 1
            c = d["c"]
            if c & (c - 1) == 0:
                stats["c=2^k"] += 1
                if d["pirows"] and d["pirows"][-1] == c - 1:
                    stats["pi on last row of a full domain"] += 1
            if ((c + 6) & (c + 5)) == 0:
                stats["c=2^k-6"] += 1
            if d["pis"] and 0 in d["pis"]:
                stats["zero-valued pi"] += 1
            if not d["pirows"]:
                stats["no pi"] += 1
            size_boundary.add(c)
        ck.case(json.dumps(d, sort_keys=True), nontrivial=True)
        ck.traces += 1
        if len(ck.samples) < 5 and ok_path and len(d["roundtrips"]) == 2:
            ck.sample({"scenario": d, "observed": [o.get("res") for o in ob["obs"]], "ms": ob.get("ms")})
        failed_before = False
        for (i, field, want, got, sev) in lc.compare(sc, ob, ids):
            st = sc["steps"][i]
            a = st["a"]
            if sev == "tool":
                if failed_before:
                    continue
                raise vlib.ToolError("scenario %s step %d (%s) not executed: %s" % (sc["id"], i, a, got))
            failed_before = True
            if sev == "class":
                drift["%s: %s instead of %s" % (a, got, want)] += 1
                continue
            if field == "c" or field == "nw":
                raise vlib.ToolError("catalogue drift: program has %s = %s, model says %s\n%s"
                                     % (field, got, want, json.dumps(st)[:600]))
            cls = {"accept": "compiled_beyond_capacity" if a == "Compile" else "unexpected_ok",
                   "reject": "honest_failed", "panic": "panic", "value": "value:" + field}[sev]
            ck.violation(
                "%s: model predicts %s = %s, implementation gave %s for c=%s cap=%s route=%s "
                "pirows=%s roundtrips=%s version=%s"
                % (a, field, json.dumps(want)[:160], json.dumps(got)[:160], d["c"], d["cap"],
                   d["route"], d["pirows"], d["roundtrips"], d["version"]),
                {"key": {"site": a.lower(), "class": cls, "route": d["route"],
                         "boundary": "size" if d["c"] and d["c"] & (d["c"] - 1) == 0 else
                         ("trim" if d["c"] and ((d["c"] + 6) & (d["c"] + 5)) == 0 else "other")},
                 "scenario": sc, "observed": ob["obs"], "step": i})
    for c in ids.conflicts:
        ck.violation(
            "prover/verifier bytes differ between routes that the model says produce the same "
            "compiled description (or coincide where it says they differ): %s (%s)" % (c[0], c[1]),
            {"key": {"site": "to_bytes", "class": c[0], "object": c[1]},
             "id": c[2], "first": c[3], "second": c[4]})
    ck.extra["mbt"] = {"scenarios": len(scens), "stats": dict(stats),
                       "constraint_counts_proved": len(size_boundary),
                       "max_constraint_count": max(size_boundary) if size_boundary else 0,
                       "error_class_drift": dict(drift),
                       "harness_ms_total": sum(o.get("ms", 0) for o in obs.values())}
    for need in ("compile:ok", "compile:err:TruncatedDegreeTooLarge",
                 "compile:err:InvalidCompressedCircuit", "c=2^k", "c=2^k-6",
                 "pi on last row of a full domain", "zero-valued pi", "no pi"):
        if stats[need] == 0:
            raise vlib.ToolError("sweep is vacuous for `%s`" % need)
    return ck.finish(rule="one case per behaviour of the Lifecycle sweep: constraint count "
                          "(window 2^k-8..2^k+2, all of it for small k, both boundaries plus a "
                          "seeded sample for large k) x capacity {one short, exact, ample} x route "
                          "{direct|default, compressed}; block, PI placement, label, round trips "
                          "and version rotate with (c, cap, VERIF_SEED); all are non-trivial")


def replay(path):
    rep = json.load(open(path))
    sc = rep.get("scenario")
    if not sc:
        print("replay file has no scenario")
        return 2
    obs, _ = lc.execute("C01", [{"id": 0, "steps": sc["steps"]}], shards=1)
    mm = lc.compare({"id": 0, "steps": sc["steps"]}, obs[0], lc.Ids())
    print(json.dumps({"observed": obs[0]["obs"], "mismatches": mm}, indent=1))
    return 1 if mm else 0
