"""C17 Checked decoders are total, bounded and admit only well-formed data.

MC   spec/Codec.tla: the checked decoders (Proof, Verifier, Prover incl.
     ProverKey / raw CommitKey / VerifierKey, PublicParameters) as step
     machines over the abstract alphabet; invariants Total, StepBound,
     AllocBound, AcceptedIsWellFormed (+ Progress).  A second run with the
     code's known deviations switched on must violate exactly the expected
     invariants (the model can see such defects).
MBT  every terminal behaviour of the machines is one abstract input with the
     predicted Ok/Err; harness `codec replay` concretises it from valid
     encodings of real objects (self-tested class representatives), calls the
     real decoder under catch_unwind and a counting allocator, applies the
     library's own predicates to what was accepted and uses it (prove /
     verify / compile).  Seeded unstructured mutations and splices on top.
     Hostile compressed circuits for `compile_with_compressed`.
"""
import json
import os
import re
import random

import vlib
from codec_common import *

ALLOC_K = 4
ALLOC_C = 65536


def judge(ck, g, sc, r):
    """Compares one replayed scenario with the model's prediction."""
    ex = {"m": sc["m"], "toks": muts(sc) if sc.get("pred") is not None else sc["toks"],
          "pred": sc.get("pred"), "observed": r.get("res"), "scenario": sc}
    obs = obs_class(r["res"])
    touched = set(t[1] for t in sc["toks"])
    flag = bool(touched & {"flag2", "flag3", "flag255"})
    unred = bool(touched & {"unredx", "unredy"})
    # never panic
    if obs == "panic":
        if sc["m"] == "prover" and "(input == 0u8) | (input == 1u8)" in r["res"]:
            g.add("raw commit-key point with a flag byte outside {0,1} makes Prover::try_from_bytes panic", KEY_FLAG, ex)
        else:
            g.add("checked decoder panicked: %s" % r["res"][:160],
                  {"site": sc["m"], "class": "panic", "msg": r["res"][:80]}, ex)
        return
    # bounded allocation
    if r["peak"] > ALLOC_K * r["len"] + ALLOC_C:
        g.add("decoder allocated %d bytes on a %d-byte input" % (r["peak"], r["len"]),
              {"site": sc["m"], "class": "alloc-bound"}, ex)
    # predicted class
    pred = sc.get("pred")
    if pred is not None and obs != pred:
        if unred and not flag and obs == "ok" and pred == "err":
            g.add("raw commit-key point with an unreduced coordinate (limbs + p) is accepted", KEY_UNRED, ex)
        else:
            g.add("decoder outcome %s differs from the model's %s (%s)" % (r["res"], pred, sc.get("why")),
                  {"site": sc["m"], "class": "pred-%s-obs-%s" % (pred, obs), "classes": sorted(set(t[1] for t in muts(sc)))}, ex)
    # accepted => well-formed, usable
    if obs == "ok":
        bad = [f for f in r.get("nwf", [])]
        if bad:
            if all(f.endswith(":unreduced") for f in bad):
                g.add("accepted commit key contains an unreduced field element", KEY_UNRED, ex)
            else:
                g.add("accepted data is not well-formed: %s" % bad[:4],
                      {"site": sc["m"], "class": "accepted-malformed", "kinds": sorted(set(f.split(":")[-1] for f in bad))}, ex)
        smoke = r.get("smoke", {})
        for k, v in smoke.items():
            if isinstance(v, str) and v.startswith("panic"):
                g.add("using an accepted %s panicked in %s: %s" % (sc["m"], k, v[:160]),
                      {"site": sc["m"], "class": "smoke-panic", "use": k}, ex)
        if isinstance(r.get("reenc"), str) and r["reenc"].startswith("panic"):
            g.add("re-encoding an accepted %s panicked" % sc["m"], {"site": sc["m"], "class": "reenc-panic"}, ex)


def run(tier):
    ck = vlib.Check("C17", tier)
    thorough = tier == "thorough"
    g = Grouped(ck)

    # 1. the design
    mc = run_mc(ck, "CodecMC.cfg", "CodecMC")
    ck.add_tlc(mc, "CodecMC", dict(CONSTS, MaxMut="proof 3, pp 3, verifier 2, prover 2, pkenc unbounded", Dev="{}"))
    asis = run_asis(ck)
    ck.states += asis.distinct
    ck.transitions += asis.generated

    # 2. abstract inputs = terminal behaviours of the decoder machines
    gen = run_mc(ck, "CodecGenT.cfg" if thorough else "CodecGenQ.cfg", "CodecGen", coverage=True)
    ck.add_tlc(gen, "CodecGen", dict(CONSTS, MaxMut="thorough" if thorough else "quick"))
    zero = [z for z in gen.coverage_zero() if "Emit" not in z]
    ck.never_taken = zero
    scen = [s for s in scen_lines(gen) if s["m"] != "pkenc"]
    if len(scen) < 500:
        raise vlib.ToolError("only %d scenarios generated" % len(scen))
    for i, s in enumerate(scen):
        s["id"] = i + 1
    rng = random.Random(vlib.seed())
    extra = random_scenarios(rng, 400 if thorough else 60, len(scen))
    # every bit of the verifier's trailing public-input index list (the last 8 bytes per
    # index): reordered / huge / duplicate indexes must decode or be refused, never panic
    nid = len(scen) + len(extra)
    for j in range(16):
        for b in range(8):
            nid += 1
            extra.append({"id": nid, "m": "verifier", "toks": [["byte.%d" % (1274 - 16 + j), str(1 << b)]],
                          "pred": None, "why": "pi-index"})
    for j, b in ((0, 0), (1, 7), (7, 7)):       # first index raised above the second as well as the second changed
        nid += 1
        extra.append({"id": nid, "m": "verifier", "pred": None, "why": "pi-index",
                      "toks": [["byte.%d" % (1274 - 16 + j), str(1 << b)], ["byte.%d" % (1274 - 8), "1"]]})
    allsc = scen + extra
    byid = {s["id"]: s for s in allsc}
    d = vlib.workdir("C17")
    path = os.path.join(d, "scenarios.ndjson")
    vlib.write_ndjson(path, allsc)

    # 3. the real decoders
    recs, aborted = harness_lines(["replay"], stdin=open(path).read(), timeout=2400)
    st = [r for r in recs if "reps_selftests" in r]
    if not st:
        raise vlib.ToolError("class representatives were not self-tested")
    ck.extra["class_representative_selftests"] = st[0]["reps_selftests"]
    if aborted:
        sc = byid.get(aborted["id"])
        g.add("decoder aborted the process (refused allocation): %s" % aborted["stderr"][-120:],
              {"site": sc["m"] if sc else "?", "class": "alloc-abort"}, {"scenario": sc, "abort": aborted})
    seen = 0
    peaks = {}
    outcomes = {}
    for r in recs:
        if "id" not in r:
            continue
        sc = byid[r["id"]]
        if "error" in r:
            raise vlib.ToolError("concretiser refused scenario %s: %s" % (case_key(sc), r["error"]))
        seen += 1
        judge(ck, g, sc, r)
        ck.case(case_key(sc) if sc.get("pred") is not None else "%s:%s" % (sc["m"], sc["toks"]))
        if sc.get("pred") is not None and len(muts(sc)) == 1:
            ck.sample({"m": sc["m"], "input": muts(sc), "predicted": sc["pred"], "observed": r["res"],
                       "peak_bytes": r["peak"]}, limit=4)
        p = peaks.setdefault(sc["m"], {"max_peak": 0, "max_peak_over_len(len>=4096)": 0.0})
        p["max_peak"] = max(p["max_peak"], r["peak"])
        if r["len"] >= 4096:
            p["max_peak_over_len(len>=4096)"] = max(p["max_peak_over_len(len>=4096)"], round(r["peak"] / r["len"], 2))
        o = outcomes.setdefault(sc["m"], {})
        k = "%s/%s" % (sc.get("pred") or "unstructured", obs_class(r["res"]))
        o[k] = o.get(k, 0) + 1
    if seen != len(allsc) and not aborted:
        raise vlib.ToolError("replayed %d of %d scenarios" % (seen, len(allsc)))
    ck.traces += seen
    n_f1 = sum(1 for r in recs if "id" in r and r.get("res") == "ok"
               and any(t[1] == "flag1xy" for t in byid[r["id"]]["toks"]))
    if n_f1:
        ck.notes.append("%d accepted inputs carry a raw point with flag = 1 and non-zero coordinates: the model "
                        "classes it as the identity (the raw format has no canonical identity); a probe shows the "
                        "decoded prover behaves exactly as with the canonical identity bytes" % n_f1)
    ck.extra["decoder_outcomes(pred/observed)"] = outcomes
    ck.extra["peak_allocation"] = peaks
    ck.extra["alloc_bound"] = "peak <= %d*len + %d (constant = two G2Prepared of an opening key)" % (ALLOC_K, ALLOC_C)

    # 3b. thorough: the single-field inputs again on a larger object of the same
    # shape (size 64): same predictions, allocation ratio at a meaningful size
    if thorough:
        big = [s for s in scen if len(muts(s)) <= 1]
        pb = os.path.join(d, "scenarios-big.ndjson")
        vlib.write_ndjson(pb, big)
        brecs, baborted = harness_lines(["replay", "--extra-rows", "50"], stdin=open(pb).read(), timeout=2400)
        if baborted:
            g.add("decoder aborted the process on the size-64 object", {"site": "?", "class": "alloc-abort"}, {"abort": baborted})
        nb = 0
        bpk = {}
        for r in brecs:
            if "id" not in r:
                continue
            sc = byid[r["id"]]
            if "error" in r:
                raise vlib.ToolError("concretiser refused scenario %s on the large base: %s" % (case_key(sc), r["error"]))
            nb += 1
            judge(ck, g, sc, r)
            ck.case("n64:" + case_key(sc))
            if r["len"] >= 4096:
                bpk[sc["m"]] = max(bpk.get(sc["m"], 0.0), round(r["peak"] / r["len"], 2))
        ck.traces += nb
        ck.extra["size64_replay"] = {"cases": nb, "max_peak_over_len": bpk}

    # 3c. the verifier's public-input index list reordered / duplicated / extended / bit-flipped
    precs, paborted = harness_lines(["piindex"], timeout=1200)
    if paborted:
        g.add("Verifier::try_from_bytes aborted the process", {"site": "verifier", "class": "alloc-abort"}, {"abort": paborted})
    pout = {}
    for r in precs:
        if r.get("m") != "pi-index":
            continue
        ck.case("verifier-pi-index:" + re.sub(r"\d+\.\d+", "k.b", r["id"]) if r["id"].startswith("flip") else "verifier-pi-index:" + r["id"])
        ck.traces += 1
        o = obs_class(r["res"])
        pout[o] = pout.get(o, 0) + 1
        for k in ("res", "smoke_verify", "reenc"):
            v = str(r.get(k, ""))
            if v.startswith("panic"):
                g.add("a verifier encoding with an edited public-input index list panics in %s: %s"
                      % ({"res": "Verifier::try_from_bytes", "smoke_verify": "verify", "reenc": "to_bytes"}[k], v[:120]),
                      {"site": "verifier", "class": "pi-index-panic", "where": k}, {"input": r["id"], "observed": r})
    if sum(pout.values()) < 100 or pout.get("ok", 0) == 0:
        raise vlib.ToolError("piindex replay is vacuous: %s" % pout)
    ck.extra["verifier_pi_index_outcomes"] = pout

    # 4. hostile compressed circuits (never panic, bounded allocation)
    hrecs, haborted = harness_lines(["hostile", "--tier", tier], timeout=2400)
    if haborted:
        g.add("compile_with_compressed aborted the process: %s" % haborted["stderr"][-120:],
              {"site": "compile_with_compressed", "class": "alloc-abort"}, {"input": haborted["id"]})
    hs = [r for r in hrecs if r.get("m") == "compressed"]
    ref = [r for r in hs if r["id"] == "valid"]
    if not ref or ref[0]["res"] != "ok":
        raise vlib.ToolError("the library's own compressed circuit does not compile")
    cap = ref[0]["cap_bytes"]
    # reference: peak allocation of compiling a circuit that fills the
    # parameters' capacity (what any accepted description may legitimately cost)
    bound = 2 * ref[0]["cap_peak"] + ALLOC_C
    hout = {}
    for r in hs:
        ck.case("compressed:" + r["id"])
        o = obs_class(r["res"])
        hout[o] = hout.get(o, 0) + 1
        ex = {"input": r["id"], "observed": r["res"], "peak": r["peak"], "len": r["len"]}
        if r["id"] == "declared-plus-65536" and o == "ok":
            g.add("a compressed description whose public-input vector declares 65536 more entries than it "
                  "carries was accepted", {"site": "compile_with_compressed", "class": "declared-count-ignored"}, ex)
        if o == "panic":
            g.add("compile_with_compressed panicked: %s" % r["res"][:160],
                  {"site": "compile_with_compressed", "class": "panic", "msg": r["res"][:80]}, ex)
        if r["peak"] > bound:
            g.add("compile_with_compressed allocated %d bytes (capacity %d bytes)" % (r["peak"], cap),
                  {"site": "compile_with_compressed", "class": "alloc-bound"}, ex)
        for k in ("smoke_prove", "smoke_verify"):
            if str(r.get(k, "")).startswith("panic"):
                g.add("keys compiled from an accepted compressed circuit panic in %s" % k,
                      {"site": "compile_with_compressed", "class": "smoke-panic"}, ex)
    ck.traces += len(hs)
    ck.extra["hostile_compressed"] = {"cases": len(hs), "outcomes": hout,
                                      "max_peak": max(r["peak"] for r in hs), "bound": bound,
                                      "capacity_bytes": cap, "capacity_compile_peak": ref[0]["cap_peak"]}

    g.flush()
    ck.assumptions += [
        "abstract inputs are bounded to MaxMut simultaneous non-default fields of ONE base object (size 8, 7 constraints, 1 public input, 23 commit-key points); first/middle/last commit-key point stand for all",
        "a read at a non-boundary position (after an inconsistent length field) is modelled as garbage that the first validating read rejects; each such prediction is confirmed on the real decoder",
        "peak allocation is measured with a counting global allocator (reallocation transients not included)",
        "CommitKey / OpeningKey / ProverKey / VerifierKey decoders are reached through Prover, Verifier and PublicParameters (their own entry points are crate-private)",
    ]
    return ck.finish(rule="one case per abstract input (terminal behaviour of a decoder machine of spec/Codec.tla, "
                          "distinct = distinct machine + set of non-default field classes), plus seeded byte flips / "
                          "splices and hostile compressed payloads; non-trivial = at least one mutated field")


def replay(path):
    rp = json.load(open(path))
    scs = []
    for e in rp.get("examples", []):
        sc = e.get("scenario")
        if sc:
            scs.append(sc)
    if not scs:
        print("replay file has no decoder scenario")
        return 2
    for i, s in enumerate(scs):
        s["id"] = i + 1
        s["keep"] = True
    recs, aborted = harness_lines(["replay"], stdin="\n".join(json.dumps(s) for s in scs) + "\n")
    ck = vlib.Check("C17", "replay")
    g = Grouped(ck)
    for r in recs:
        if "id" in r:
            print(json.dumps({k: r[k] for k in r if k != "hex"}))
            judge(ck, g, scs[r["id"] - 1], r)
    g.flush()
    return 1 if ck.violations else 0
