"""C06 - zero-knowledge masking: every opened polynomial is freshly blinded.

1. MC  MasksMC (Masking over F_97): blinded polynomials agree with the
       unblinded ones on H, have the prescribed degrees with the blinders as
       top coefficients, the four quotient shares recombine, and a change of
       draw k moves exactly the polynomial(s) Masking!ExpectedDelta names.
2. MBT (spec -> implementation), differential in the exponent, no prover
       hook: TLC (TraceMasks = Masking!ExpectedScalars over the real field)
       predicts from (tau, s_g, n, k, delta) by which multiple of G each
       commitment must move when draw k is incremented by delta, and which
       commitments must stay byte-identical; the harness proves under
       scripted generators and compares with the library's group operations.
       Also: exactly 14 draws of 64 bytes, nothing else; two proofs under
       streams differing in every draw share no commitment and no evaluation
       of a masked polynomial.
"""
import json
import os
import random

import vlib

PID = "C06"
R = 0x73eda753299d7d483339d80809a1d80553bda402fffe5bfeffffffff00000001


def limbs(x):
    x %= R
    return [(x >> (13 * i)) & 8191 for i in range(20)]


def _mmc_params(tier, path, rnd):
    n = 8
    p = {
        "stream": [rnd.randrange(0, 97) for _ in range(14)],
        "wires": [[rnd.randrange(0, 97) for _ in range(n)] for _ in range(4)],
        "zvals": [1] + [rnd.randrange(1, 97) for _ in range(n - 1)],
        "t": [rnd.randrange(0, 97) for _ in range(4 * n + 6)],
        "tau": rnd.randrange(2, 97), "sg": rnd.randrange(1, 97),
    }
    if tier == "quick":
        p["pairs"] = [[1, 2], [8, 9], [10, 11], [12, 13], [13, 14]]
        p["deltas"] = [1, 2, 48, 96]
    else:
        p["pairs"] = [[i, i + 1] for i in range(1, 14)] + [[1, 14], [2, 9], [4, 12]]
        p["deltas"] = list(range(1, 97))
    json.dump(p, open(path, "w"))
    return p


def _scenarios(tier, fams, rnd):
    """fams: {family: constraints}. Scenario parameters (MBT inputs)."""
    sc = []
    srs = [(rnd.randrange(2, R), rnd.randrange(1, R), rnd.randrange(1, R)) for _ in range(2)]
    ALL = list(range(1, 15))
    # "big" (2100 constraints, domain 4096) and "huge" (4200, domain 8192) lie beyond
    # the 2^12 switch of the FFT / parallel code paths: both sides are always covered
    if tier == "quick":
        plan = [("tiny", 3, [1], ALL), ("arith", 3, [1, None], ALL), ("widgets", 3, [None], ALL),
                ("arith", 2, [R - 1], ALL), ("big", 3, [None], [1, 2, 4, 6, 8, 10, 13])]
        fresh = [("tiny", 3), ("arith", 3), ("widgets", 3), ("arith", 2), ("big", 3)]
    else:
        plan = [(f, 3, [1, None, R - 1], ALL) for f in ("tiny", "arith", "widgets", "ecc", "mixed")] + \
               [(f, 2, [None], ALL) for f in ("arith", "widgets")] + \
               [("big", 3, [1, None], ALL), ("big", 2, [None], [2, 4, 6, 8, 11, 14]),
                ("huge", 3, [None], [1, 2, 4, 6, 8, 9, 12])]
        fresh = [(f, v) for f in ("tiny", "arith", "widgets", "ecc", "mixed", "big") for v in (3, 2)] + \
                [("huge", 3)]
    for i, (fam, version, deltas, draws) in enumerate(plan):
        if fam not in fams:
            raise vlib.ToolError("circuit family %s is not known to the harness" % fam)
        tau, sg, sh = srs[i % len(srs)]
        for k in draws:
            for dl in deltas:
                delta = dl if dl is not None else rnd.randrange(2, R)
                stream = [rnd.randrange(0, R) for _ in range(14)]
                sc.append({"id": len(sc), "kind": "diff", "family": fam, "salt": rnd.randrange(0, 3),
                           "version": version, "c": fams[fam], "k": k, "delta": limbs(delta),
                           "tau": limbs(tau), "sg": limbs(sg), "sh": limbs(sh),
                           "stream": [limbs(x) for x in stream]})
    # a draw whose value is ZERO is a mask like any other: drawn once, used as it is
    # (the differential pairs it with a non-zero increment, so the commitment must move by
    # exactly [delta]; a prover that re-samples a zero draw consumes a 15th draw)
    for k in ([1, 2, 9, 12, 14] if tier == "quick" else list(range(1, 15))):
        for fam in (("arith",) if tier == "quick" else ("tiny", "arith")):
            tau, sg, sh = srs[k % len(srs)]
            stream = [rnd.randrange(1, R) for _ in range(14)]
            stream[k - 1] = 0
            sc.append({"id": len(sc), "kind": "diff", "family": fam, "salt": 0, "version": 3, "c": fams[fam],
                       "k": k, "delta": limbs(rnd.randrange(2, R)), "tau": limbs(tau), "sg": limbs(sg),
                       "sh": limbs(sh), "stream": [limbs(x) for x in stream]})
    for i, (fam, version) in enumerate(fresh):
        if fam not in fams:
            continue
        tau, sg, sh = srs[i % len(srs)]
        s1 = [rnd.randrange(0, R) for _ in range(14)]
        s2 = [(x + rnd.randrange(1, R)) % R for x in s1]
        sc.append({"id": len(sc), "kind": "fresh", "family": fam, "salt": 0, "version": version,
                   "c": fams[fam], "tau": limbs(tau), "sg": limbs(sg), "sh": limbs(sh),
                   "stream": [limbs(x) for x in s1], "stream2": [limbs(x) for x in s2]})
    return sc


def run(tier):
    ck = vlib.Check(PID, tier)
    d = vlib.workdir(PID)
    rnd = random.Random(vlib.seed() * 7919 + 6)

    # 1. the masking design over F_97
    mp = os.path.join(d, "mmc.json")
    p = _mmc_params(tier, mp, rnd)
    res = vlib.tlc("MasksMC", workers=8 if tier == "quick" else 12,
                   timeout=400 if tier == "quick" else 1500, env={"MMC_PARAMS": mp})
    if res.violated:
        raise vlib.ToolError("MasksMC: invariant violated on the unchanged spec\n" + res.out[-3000:])
    ck.add_tlc(res, "MasksMC", {"P": 97, "N": 8, "pairs": p["pairs"], "deltas": len(p["deltas"]),
                                "diff_leaves": 14 * 97 * len(set(p["deltas"]))})
    want = len(p["pairs"]) * 97 * 97 + 14 * 97 * len(set(p["deltas"]))
    if res.distinct < want:
        raise vlib.ToolError("MasksMC explored %d states, expected at least %d" % (res.distinct, want))

    # 2. MBT: scenarios -> TLC predictions -> harness
    fams = {x["family"]: x["constraints"] for x in vlib.read_ndjson_text(vlib.harness("masks", ["describe"]))}
    scen = _scenarios(tier, fams, rnd)
    sp = os.path.join(d, "scen.ndjson")
    vlib.write_ndjson(sp, scen)
    tv = vlib.tlc("TraceMasks", workers=4, timeout=600, env={"TRACE": sp})
    if tv.violated:
        raise vlib.ToolError("TraceMasks did not consume every scenario:\n" + tv.out[-3000:])
    ck.add_tlc(tv, "TraceMasks", {"field": "BLS12-381 scalar field", "scenarios": len(scen)}, exhaustive=False)
    exp = []
    for l in tv.out.splitlines():
        if l.startswith('"{') and "EXPECT" in l:
            exp.append(json.loads(json.loads(l)))
    if len(exp) != len(scen):
        raise vlib.ToolError("TraceMasks predicted %d of %d scenarios" % (len(exp), len(scen)))
    ep = os.path.join(d, "expect.ndjson")
    vlib.write_ndjson(ep, exp)
    out = vlib.harness("masks", ["run", "--scen", sp, "--expect", ep], timeout=1500)
    results = vlib.read_ndjson_text(out)
    if len(results) != len(scen):
        raise vlib.ToolError("masks returned %d results for %d scenarios" % (len(results), len(scen)))
    # the same predictions with narrow rayon pools (the masking of the four wires is split
    # across rayon tasks: which draw masks which polynomial must not depend on the pool width)
    small = [x for x in scen if x["family"] in ("tiny", "arith")]
    small_ids = set(x["id"] for x in small)
    sp2, ep2 = os.path.join(d, "scen-small.ndjson"), os.path.join(d, "expect-small.ndjson")
    vlib.write_ndjson(sp2, small)
    vlib.write_ndjson(ep2, [e for e in exp if e["id"] in small_ids])
    pools = (1, 3) if tier == "quick" else (1, 2, 3, 5)
    for nt in pools:
        out = vlib.harness("masks", ["run", "--scen", sp2, "--expect", ep2], timeout=1500,
                           env={"RAYON_NUM_THREADS": str(nt)})
        more = vlib.read_ndjson_text(out)
        if len(more) != len(small):
            raise vlib.ToolError("masks (pool %d) returned %d results for %d scenarios" % (nt, len(more), len(small)))
        for r in more:
            r["pool"] = nt
        results += more
    ck.extra["rayon_pools"] = ["default"] + list(pools)
    byid = {s["id"]: s for s in scen}
    expid = {e["id"]: e for e in exp}
    n_ok = 0
    for r in results:
        s = byid[r["id"]]
        if "error" in r:
            raise vlib.ToolError("masks scenario %d: %s" % (r["id"], r["error"]))
        ck.case({"family": s["family"], "kind": s["kind"], "k": s.get("k", 0), "version": s["version"],
                 "id": s["id"], "pool": r.get("pool", "default")})
        ck.traces += 1
        if r.get("ok"):
            n_ok += 1
            continue
        if r.get("rng") == "unexpected":
            what = ("the prover did not draw exactly 14 x fill_bytes(64) from the caller's generator: %s"
                    % json.dumps(r.get("rng_log"))[:300])
            site = "rng-draws"
        elif "bad" in r:
            what = ("masking placement differs from the specification (family %s, draw %s): %s"
                    % (s["family"], s.get("k"), json.dumps(r["bad"])[:300]))
            site = "mask-placement" if s["kind"] == "diff" else "fresh-shared"
        else:
            what = "scripted proof did not prove/verify: %s" % json.dumps(
                {k: r.get(k) for k in ("prove", "verify")})
            site = "prove-verify"
        if "pool" in r:
            what += " [rayon pool of %d threads]" % r["pool"]
        ck.violation(what, {"key": {"site": site, "kind": s["kind"], "k": s.get("k", 0),
                                    "fields": sorted(b.get("field", "?") for b in r.get("bad", []))},
                            "scenario": s, "expected": expid[r["id"]], "observed": r})
    for r in results[:3] + results[-2:]:
        ck.sample({"scenario": {k: byid[r["id"]].get(k) for k in ("family", "kind", "k", "version")},
                   "expected_moved": [m[0] for m in expid[r["id"]]["moved"]],
                   "expected_same": expid[r["id"]]["same"], "ok": r.get("ok"), "shared": r.get("shared")})
    ck.extra["scenarios_ok"] = n_ok
    ck.notes.append("evaluations of public polynomials (selectors, sigmas) are not required to differ "
                    "between two proofs: they carry no witness information (a constant selector "
                    "polynomial evaluates identically at every point)")
    ck.assumptions += ["group operations and point decoding of dusk-bls12_381 are trusted",
                       "the opened evaluations are tied to the commitments by the opening check (C03/C20)"]
    return ck.finish(rule="one case per (family, version, draw index k, increment) differential scenario and "
                          "per two-stream freshness scenario; every scenario runs the real prover twice "
                          "under scripted generators with a scripted SRS")
