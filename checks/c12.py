"""C12 Curve-group components compute the JubJub group law."""
import gadgets


def run(tier):
    return gadgets.standard("C12", tier, mc=["curve", "mul_point"], weak=["weak_nobool"],
                            scen=["curve", "mul_point"])
