"""C16 Serialization round trips preserve keys, proofs and parameters.

MC   spec/Codec.tla: ProverKey::to_var_bytes modelled AS THE CODE ENCODES
     (buffer sized from q_m, writes that do not fit are skipped) over all
     2^7*3^4 length vectors -> RoundTrip; Proof decoder over the abstract
     alphabet -> ProofCanonical.  The same model with the known deviation
     switched on must violate RoundTrip.
MBT  * every encoder behaviour (length class of each selector polynomial) is
       realised by a REAL circuit (free selector per column solved from two
       compiles so that the top interpolation coefficient vanishes) and
       Prover::try_from_bytes(to_bytes()) is compared with the model;
     * proof canonicity on the real decoder for every token class at every
       one of the 26 field positions (and pairs);
     * round trips of real provers / verifiers / proofs / parameters: same
       re-encoding, same proof bytes from the same scripted randomness,
       same verdicts on accepted and corrupted proofs;
     * the known family: all five widgets, q_m top coefficient vanishing.
"""
import json
import os
import random

import vlib
from codec_common import *


def truncated_shape(r):
    lens = r.get("lens") or []
    return len(lens) == 15 and sum(lens) > 15 * lens[0]


def judge_rt(g, r):
    """One record of `codec roundtrip` / `codec qm`."""
    name = r["case"]
    ex = {"case": name, "record": {k: v for k, v in r.items() if k != "verdicts"}}
    if "skip" in r:
        raise vlib.ToolError("round-trip case %s did not compile: %s" % (name, r["skip"]))
    if name.startswith("pp-"):
        for k in ("pp_rt", "ppraw_rt"):
            if r.get(k) != "ok":
                g.add("PublicParameters do not decode from their own encoding: %s=%s" % (k, r.get(k)),
                      {"site": "PublicParameters", "class": k}, ex)
        for k in ("pp_reenc", "pp_reenc_raw", "pp_max_degree", "pp_same_keys",
                  "ppraw_reenc", "ppraw_reenc_compressed", "ppraw_same_keys"):
            if r.get(k) is False:
                g.add("PublicParameters round trip changes the object: %s" % k,
                      {"site": "PublicParameters", "class": k}, ex)
        return
    if not r.get("serialized_size_ok", True):
        g.add("serialized_size() differs from to_bytes().len()", {"site": "serialized_size", "class": "size"}, ex)
    if r.get("prove_v3") != "ok" or not r.get("good_accepted", False):
        raise vlib.ToolError("round-trip case %s: base circuit does not prove/verify (%s)" % (name, r.get("prove_v3")))
    if r.get("prover_rt") != "ok":
        lens = r.get("lens") or []
        if truncated_shape(r) and lens and lens[0] < max(lens):
            g.add("Prover::to_bytes is truncated (buffer sized from q_m: len(q_m)=%d < %d) and does not decode: %s"
                  % (lens[0], max(lens), r.get("prover_rt")), KEY_PKBUF, ex)
        else:
            g.add("Prover::try_from_bytes(to_bytes()) = %s" % r.get("prover_rt"),
                  {"site": "Prover", "class": "decode-own-encoding"}, ex)
    else:
        for k, what in (("prover_reenc", "decoded prover re-encodes differently"),
                        ("same_proof_v3", "decoded prover produces a different V3 proof from the same randomness"),
                        ("same_proof_v2", "decoded prover produces a different V2 proof from the same randomness")):
            if r.get(k) is False:
                g.add(what, {"site": "Prover", "class": k}, ex)
        for k in ("draws_v3", "draws_v2"):
            d = r.get(k)
            if d and d[0] != d[1]:
                g.add("decoded prover draws %d random values, the original %d" % (d[1], d[0]),
                      {"site": "Prover", "class": "rng-draws"}, ex)
    if r.get("verifier_rt") != "ok":
        g.add("Verifier::try_from_bytes(to_bytes()) = %s" % r.get("verifier_rt"),
              {"site": "Verifier", "class": "decode-own-encoding"}, ex)
    else:
        if r.get("verifier_reenc") is False:
            g.add("decoded verifier re-encodes differently", {"site": "Verifier", "class": "reenc"}, ex)
        if r.get("verdicts_agree") is False:
            ex2 = dict(ex, verdicts=r.get("verdicts"))
            g.add("decoded verifier gives a different verdict", {"site": "Verifier", "class": "verdict"}, ex2)
    if r.get("proof_rt") != "ok" or r.get("proof_reenc") is False:
        g.add("Proof round trip fails: %s reenc=%s" % (r.get("proof_rt"), r.get("proof_reenc")),
              {"site": "Proof", "class": "roundtrip"}, ex)


def run(tier):
    ck = vlib.Check("C16", tier)
    thorough = tier == "thorough"
    g = Grouped(ck)
    q = "T" if thorough else "Q"

    # 1. the design
    mc = run_mc(ck, "CodecC16.cfg", "CodecC16")
    ck.add_tlc(mc, "CodecC16", dict(CONSTS, machines="proof (<=3 non-default fields), pkenc (all length vectors)", Dev="{}"))
    asis = run_asis(ck)
    ck.states += asis.distinct
    ck.transitions += asis.generated

    # 2. encoder behaviours, predicted with the code's sizing rule
    enc = vlib.tlc("CodecMC", cfg="CodecEncAsIs%s.cfg" % q, workers=4, timeout=600)
    if enc.violated or not enc.finished:
        raise vlib.ToolError("encoder scenario generation failed:\n" + enc.out[-2000:])
    ck.add_tlc(enc, "CodecEncAsIs", dict(CONSTS, Dev="{pkbuf}", MaxMut=tier))
    escen = [s for s in scen_lines(enc) if s["m"] == "pkenc"]
    if len(escen) < 50 or not any(s["skipped"] for s in escen):
        raise vlib.ToolError("encoder scenarios are vacuous (%d)" % len(escen))
    for i, s in enumerate(escen):
        s["id"] = i + 1
    d = vlib.workdir("C16")
    p1 = os.path.join(d, "pkenc.ndjson")
    vlib.write_ndjson(p1, [{"id": s["id"], "lens": [t[1] for t in s["toks"]][:11]} for s in escen])
    recs, _ = harness_lines(["pkenc"], stdin=open(p1).read())
    byid = {s["id"]: s for s in escen}
    n_enc = 0
    agree = {"model-skips/real-truncated": 0, "model-fits/real-ok": 0, "model-skips/real-ok": 0, "model-fits/real-fails": 0}
    for r in recs:
        if "id" not in r:
            continue
        s = byid[r["id"]]
        if "stage" in r:
            # an auxiliary circuit of the scenario (free selectors 0 / 1) already fails the property
            n_enc += 1
            ck.case(case_key(s))
            g.add("prover round trip fails (%s) for a compiled circuit (stage %s of the encoder scenario)"
                  % (r["rt"], r["stage"]),
                  {"site": "ProverKey::to_var_bytes", "class": "roundtrip-fails-unpredicted"},
                  {"observed": r["rt"], "stage": r["stage"], "scenario": s})
            continue
        if "layout_unreadable" in r:
            # the bytes are not laid out as Codec.tla says; what the property demands is the round trip
            n_enc += 1
            ck.case(case_key(s))
            if r.get("rt", "ok") != "ok":
                g.add("prover round trip fails (%s) and the encoding is not laid out as the Codec model says (%s)"
                      % (r.get("rt"), r["layout_unreadable"]),
                      {"site": "ProverKey::to_var_bytes", "class": "roundtrip-fails-unpredicted"},
                      {"observed": r.get("rt"), "scenario": s})
            else:
                print("SPEC-DRIFT C16: encoder scenario %s: the prover encoding is not laid out as Codec.tla "
                      "says (%s); the round trip holds" % (case_key(s), r["layout_unreadable"]))
            continue
        if "error" in r:
            raise vlib.ToolError("encoder scenario %s could not be realised: %s" % (case_key(s), r["error"]))
        want = [{"full": r["n"], "short": r["n"] - 1, "zero": 0}[c] for c in [t[1] for t in s["toks"]][:11]]
        if r["lens"][:11] != want or r["lens"][11:] != [r["n"]] * 4:
            # the length prefixes read from the encoding are not the polynomial lengths the
            # scenario constructs: the encoder's fault if the round trip fails, otherwise a
            # scenario that could not be realised (tool error)
            if r["rt"] != "ok" or r.get("reenc") is not True:
                n_enc += 1
                ck.case(case_key(s))
                g.add("prover round trip fails (%s); the length prefixes of the encoding read %s where the "
                      "circuit's selector polynomials have lengths %s" % (r["rt"], r["lens"][:11], want),
                      {"site": "ProverKey::to_var_bytes", "class": "roundtrip-fails-unpredicted"},
                      {"observed": r["rt"], "lens": r["lens"], "wanted": want, "scenario": s})
                continue
            raise vlib.ToolError("encoder scenario %s realised with lengths %s" % (case_key(s), r["lens"]))
        n_enc += 1
        ck.case(case_key(s))
        ok = r["rt"] == "ok" and r.get("reenc") is True
        ex = {"lens": r["lens"], "observed": r["rt"], "model_skips_a_write": s["skipped"], "scenario": s}
        if ok:
            agree["model-skips/real-ok" if s["skipped"] else "model-fits/real-ok"] += 1
        elif s["skipped"]:
            agree["model-skips/real-truncated"] += 1
            g.add("Prover::to_bytes is truncated when q_m is shorter than other fixed polynomials; "
                  "try_from_bytes(to_bytes()) = %s" % r["rt"], KEY_PKBUF, ex)
        else:
            agree["model-fits/real-fails"] += 1
            g.add("prover round trip fails (%s) where the model of the encoder fits every field" % r["rt"],
                  {"site": "ProverKey::to_var_bytes", "class": "roundtrip-fails-unpredicted"}, ex)
        if len(ck.samples) < 2 and s["skipped"]:
            ck.sample({"selector_lengths": r["lens"], "model": "a write is skipped", "observed": r["rt"]})
    if n_enc != len(escen):
        raise vlib.ToolError("replayed %d of %d encoder scenarios" % (n_enc, len(escen)))
    ck.traces += n_enc
    ck.extra["encoder_model_vs_code"] = agree

    # 3. proof canonicity on the real decoder
    gen = run_mc(ck, "CodecGen%s.cfg" % q, "CodecGen", coverage=True)
    ck.add_tlc(gen, "CodecGen", dict(CONSTS, MaxMut=tier))
    ck.never_taken = [z for z in gen.coverage_zero() if "Emit" not in z]
    pscen = [s for s in scen_lines(gen) if s["m"] == "proof"]
    singles = set((t[0], t[1]) for s in pscen for t in muts(s) if len(muts(s)) == 1)
    fields = set(f for f, _ in singles if f != "total")
    if len(fields) != 26:
        raise vlib.ToolError("proof scenarios cover %d of 26 field positions" % len(fields))
    rng = random.Random(vlib.seed())
    for i, s in enumerate(pscen):
        s["id"] = i + 1
    extra = []
    for k in range(600 if thorough else 150):
        extra.append({"id": len(pscen) + k + 1, "m": "proof", "pred": None, "why": "unstructured",
                      "toks": [["byte.%d" % rng.randrange(1008), str(1 << rng.randrange(8))]
                               for _ in range(rng.choice([1, 1, 2]))]})
    allp = pscen + extra
    p2 = os.path.join(d, "proof.ndjson")
    vlib.write_ndjson(p2, allp)
    recs, aborted = harness_lines(["replay"], stdin=open(p2).read())
    if aborted:
        raise vlib.ToolError("proof replay aborted: %s" % aborted)
    byid = {s["id"]: s for s in allp}
    n_p = 0
    canon = {"accepted": 0, "accepted_reencodes_identically": 0, "rejected": 0}
    for r in recs:
        if "id" not in r:
            continue
        s = byid[r["id"]]
        if "error" in r:
            raise vlib.ToolError("concretiser refused proof scenario %s: %s" % (case_key(s), r["error"]))
        n_p += 1
        ck.case(case_key(s) if s["pred"] is not None else "proof:%s" % s["toks"])
        obs = obs_class(r["res"])
        ex = {"toks": muts(s) if s["pred"] is not None else s["toks"], "pred": s["pred"], "observed": r["res"], "scenario": s}
        if obs == "ok":
            canon["accepted"] += 1
            if r["len"] == 1008:
                if r.get("reenc") == "same":
                    canon["accepted_reencodes_identically"] += 1
                else:
                    g.add("Proof::from_bytes accepts a 1008-byte string that re-encodes differently",
                          {"site": "Proof", "class": "non-canonical-accepted", "classes": sorted(set(t[1] for t in muts(s)))}, ex)
            elif not r.get("reenc_prefix"):
                g.add("accepted proof does not re-encode to its first 1008 bytes",
                      {"site": "Proof", "class": "non-canonical-accepted"}, ex)
        else:
            canon["rejected"] += 1
        if s["pred"] is not None and obs != s["pred"]:
            g.add("Proof decoder outcome %s differs from the model's %s" % (r["res"], s["pred"]),
                  {"site": "Proof", "class": "pred-%s-obs-%s" % (s["pred"], obs), "classes": sorted(set(t[1] for t in muts(s)))}, ex)
        if s["pred"] is not None and len(muts(s)) == 1 and len(ck.samples) < 5 and muts(s)[0][1] in ("identity", "infx", "negated"):
            ck.sample({"proof_field": muts(s)[0], "predicted": s["pred"], "observed": r["res"], "reencodes": r.get("reenc")})
    if n_p != len(allp):
        raise vlib.ToolError("replayed %d of %d proof scenarios" % (n_p, len(allp)))
    ck.traces += n_p
    ck.extra["proof_canonicity"] = dict(canon, field_positions=len(fields), single_field_classes=len(singles))

    # 4. round trips of real objects; the known family
    recs, _ = harness_lines(["roundtrip", "--tier", tier], timeout=2400)
    qrecs, _ = harness_lines(["qm"], timeout=900)
    fam = [r for r in qrecs if r.get("family") == "qm"]
    if not fam or any(r["lens"][0] != r["n"] - 1 for r in fam):
        raise vlib.ToolError("the vanishing-top-coefficient family was not generated: %s"
                             % [r.get("lens", [None])[0] for r in fam])
    n_rt = 0
    sizes = set()
    for r in recs + qrecs:
        if "case" not in r:
            continue
        n_rt += 1
        ck.case("rt:" + r["case"])
        if "n" in r:
            sizes.add(r["n"])
        judge_rt(g, r)
    ck.traces += n_rt
    ck.extra["roundtrip_cases"] = n_rt
    ck.extra["circuit_sizes"] = sorted(sizes)
    ck.extra["qm_family"] = [{"case": r["case"], "len_q_m": r["lens"][0], "n": r["n"], "prover_rt": r["prover_rt"],
                              "prove": r["prove_v3"], "verify": r.get("good_accepted")} for r in fam]
    g.flush()
    ck.assumptions += [
        "encoder behaviours are realised at circuit size 8 (raw rows through the verif hook; compile only), the real-widget family at sizes 512 and 1024",
        "sigma polynomials are taken at full length in the encoder model (they are not freely choosable)",
        "PublicParameters raw decoding exists only as `unsafe from_slice_unchecked`; its round trip is included, its totality is not claimed",
    ]
    return ck.finish(rule="one case per encoder behaviour (length class per selector polynomial), per abstract proof "
                          "input (machine terminal behaviour; every class at every one of the 26 positions, pairs), per "
                          "round-tripped real object (circuit size x PI placement x label)")


def replay(path):
    rp = json.load(open(path))
    print(json.dumps({"key": rp.get("key"), "examples": rp.get("examples", [])[:2]})[:3000])
    key = rp.get("key", {})
    if key == KEY_PKBUF:
        qrecs, _ = harness_lines(["qm"], timeout=900)
        bad = [r for r in qrecs if r.get("family") == "qm" and r.get("prover_rt") != "ok"]
        for r in bad:
            print("still present: %s len(q_m)=%d n=%d prover_rt=%s" % (r["case"], r["lens"][0], r["n"], r["prover_rt"]))
        return 1 if bad else 0
    scs = [e["scenario"] for e in rp.get("examples", []) if "scenario" in e and e["scenario"].get("m") == "proof"]
    if scs:
        for i, s in enumerate(scs):
            s["id"] = i + 1
        recs, _ = harness_lines(["replay"], stdin="\n".join(json.dumps(s) for s in scs) + "\n")
        for r in recs:
            if "id" in r:
                print(json.dumps(r))
        return 1
    return run("quick")
