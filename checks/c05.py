"""C05 Prover exactness: it proves iff the compiled constraints hold.

MC   GatesMC: exhaustive small-field check that the zero set of every gate
     identity of spec/Gates.tla is the documented relation.
MBT  ScenC05 (TLC) enumerates the scenario families -> harness prover_trace
     runs the real prover on every instance.
TV   TraceProver: ConstraintSystem!Satisfied over the BLS12-381 scalar field
     predicts ok / CircuitUnsatisfied / InvalidCircuitSize for every recorded
     instance; a returned proof must verify.
"""
import json
import os
import re

import vlib


def mismatches(res):
    out = []
    for l in res.out.splitlines():
        if l.startswith('"MISMATCH|'):
            f = l.strip('"').split("|")
            out.append((int(f[1]), f[2], f[3], f[4]))
    return out


def validate(ck, trace_path, events, scen_by_id, label):
    tv = vlib.tlc("TraceProver", workers=1, trace=True, env={"TRACE": trace_path},
                  timeout=3000, heap="6g")
    ck.add_tlc(tv, label, {"field": "BLS12-381 scalar field (BigF)"}, exhaustive=False)
    n_prove = sum(1 for e in events if e.get("ev") == "prove")
    verdicts = [l for l in tv.out.splitlines() if l.startswith('"VERDICT|')]
    mm = mismatches(tv)
    if len(verdicts) + len(mm) != n_prove or tv.diameter - 1 != len(events):
        raise vlib.ToolError("TraceProver consumed %d/%d lines, judged %d/%d prove events\n%s"
                             % (tv.diameter - 1, len(events), len(verdicts) + len(mm), n_prove,
                                tv.out[-3000:]))
    ck.traces += 1
    pred = {}
    for l in verdicts:
        f = l.strip('"').split("|")
        pred[int(f[1])] = f[2]
    for line, p, res, ver in mm:
        e = events[line - 1] if 0 < line <= len(events) else {}
        sc = scen_by_id.get(e.get("id"), {})
        ck.violation(
            "prover outcome differs from the specification: spec predicts %s, implementation "
            "returned %s (verify: %s) for scenario %s instance %s"
            % (p, res, ver, sc.get("name"), json.dumps(e.get("what"))),
            {"key": {"site": "prove", "scenario": sc.get("name"), "predicted": p, "observed": res},
             "scenario": sc, "event": e, "predicted": p})
    return pred


def run(tier):
    ck = vlib.Check("C05", tier)
    ck.assumptions = [
        "field, group and pairing arithmetic of dusk-bls12_381 / dusk-jubjub are trusted",
        "BigF Java override == its TLA+ definition (cross-checked by setup)",
        "soundness of the small-field results for the real field is by parametricity of Gates.tla, not proved",
    ]
    # ---- MC: meaning of the gate identities, exhaustive over a small field
    cfg = "GatesMC_quick.cfg" if tier == "quick" else "GatesMC.cfg"
    mc = vlib.tlc("GatesMC", cfg=cfg, workers=12, timeout=1500)
    if mc.violated:
        raise vlib.ToolError("GatesMC: a gate identity of the specification does not have the "
                             "documented zero set:\n" + mc.out[-3000:])
    ck.add_tlc(mc, "GatesMC", {"cfg": cfg})

    # ---- MBT: scenarios from the specification
    gen = vlib.tlc("ScenC05", cfg="ScenC05.cfg" if tier == "quick" else "ScenC05_thorough.cfg",
                   workers=1, timeout=300)
    scens = gen.printed_json("SCEN")
    if len(scens) < 20:
        raise vlib.ToolError("scenario generation produced %d scenarios" % len(scens))
    ck.add_tlc(gen, "ScenC05", {"tier": tier})
    scen_by_id = {s["id"]: s for s in scens}
    d = vlib.workdir("C05")
    inp = "\n".join(json.dumps(s) for s in scens) + "\n"
    out = vlib.harness("prover_trace", [], stdin=inp, timeout=3000,
                       env={"VERIF_SEED": str(vlib.seed())})
    events = vlib.read_ndjson_text(out)
    skipped = [e for e in events if e.get("ev") == "skip"]
    if skipped:
        raise vlib.ToolError("scenario could not be run: %s" % skipped[:3])
    path = os.path.join(d, "trace.ndjson")
    vlib.write_ndjson(path, events)

    # ---- TV: the specification judges every instance
    pred = validate(ck, path, events, scen_by_id, "TraceProver")
    n_ok = n_unsat = n_size = 0
    for i, e in enumerate(events, 1):
        if e.get("ev") != "prove":
            continue
        sc = scen_by_id.get(e["id"], {})
        p = pred.get(i)
        # non-trivial: the specification had to evaluate the instance
        ck.case("%s/%s/%s" % (sc.get("name"), e["id"], json.dumps(e["what"], sort_keys=True)))
        n_ok += p == "ok"
        n_unsat += p == "err:CircuitUnsatisfied"
        n_size += p == "err:InvalidCircuitSize"
        if len(ck.samples) < 6 and (e["what"].get("kind") != "honest"):
            ck.sample({"scenario": sc.get("name"), "instance": e["what"], "rows": e["n"],
                       "spec_predicts": p, "prover": e["res"], "verify": e["verify"]})
    # honest proofs of the scenario programs through C03's reference verifier (catches a
    # consistent change of an atom / weight in quotient, linearisation and verifier)
    import c03
    progs = [{"id": str(s["id"]), "ops": s["compile"]["ops"]} for s in scens
             if "prove" not in s and s["name"] in ("arith", "select", "points", "multi", "range", "logic-xor",
                                                   "logic-and", "truncate", "mul-generator")]
    byname = {}
    for pgm, s in zip(progs, [s for s in scens if "prove" not in s and s["name"] in (
            "arith", "select", "points", "multi", "range", "logic-xor", "logic-and", "truncate", "mul-generator")]):
        byname.setdefault(s["name"], pgm)
    summary = c03.reference_check(ck, list(byname.values()), tier=tier, tag="ref-C05")
    ck.extra["reference_verifier"] = {k: summary.get(k) for k in
                                      ("programs", "triples", "disagreements", "transcript_differences")}
    ck.extra["predicted_ok"] = n_ok
    ck.extra["predicted_unsatisfied"] = n_unsat
    ck.extra["predicted_size_mismatch"] = n_size
    ck.extra["scenarios"] = len(scens)
    if n_ok < 10 or n_unsat < 10 or n_size < 1:
        raise vlib.ToolError("vacuous run: ok=%d unsat=%d size=%d" % (n_ok, n_unsat, n_size))
    return ck.finish(
        rule="scenarios = TLC-enumerated (compiled program, instance program, perturbation) "
             "families of ScenC05 (every public gadget, multi-widget rows, selected row on the last "
             "row of a full domain, compile-A/prove-B copy breaks, size mismatches); one case per "
             "recorded instance (honest or one witness overridden); every case is judged by "
             "ConstraintSystem!Satisfied evaluated by TLC over the real field; distinct = distinct "
             "(scenario, instance) pairs")


def replay(path):
    r = json.load(open(path))
    sc = r["scenario"]
    ck = vlib.Check("C05", "quick")
    d = vlib.workdir("C05r")
    out = vlib.harness("prover_trace", [], stdin=json.dumps(sc) + "\n", timeout=3000)
    events = vlib.read_ndjson_text(out)
    p = os.path.join(d, "trace.ndjson")
    vlib.write_ndjson(p, events)
    validate(ck, p, events, {sc["id"]: sc}, "TraceProver(replay)")
    return 1 if ck.violations else 0
