"""C04 A proof binds its statement: public inputs, circuit, label, version.

MC   Lifecycle (profile c04): VerifyOutcome is defined by the MECHANISM (length
     check, equality of the Fiat-Shamir transcripts under an idealised oracle,
     equality of what the equation reads, opened set of the version, proof
     integrity); the invariants BindsStatement / BindsDescription state the
     property about it.  Checked for every combination of up to two edits.
     The literal reading (BindsDescriptionStrict) must be REFUTED by TLC: the
     counterexample is the zero-valued-public-input corner (known finding).
MBT  every behaviour  Setup Compose Compile Prove <one edit> Verify  of the
     model is replayed by harness/bin/life against the real library; verdicts,
     returned public inputs, and equality of Verifier/Prover::to_bytes are
     compared with the model.
"""
import collections
import hashlib
import json

import life_common as lc
import vlib


def scen_key(sc):
    steps = sc["steps"]
    parts = []
    for s in steps:
        a = s["a"]
        if a == "Compose":
            parts.append("prog:" + hashlib.sha1(json.dumps(s["prog"], sort_keys=True).encode()).hexdigest()[:8])
        elif a in ("Prove", "Verify"):
            parts.append("%s%d" % (a[0], s["version"]))
        elif a == "SetPI":
            parts.append("pi:%s@%s:%s" % (s["kind"], s["at"], json.dumps(s["pis"])))
        elif a == "SwapVerifier":
            parts.append("vf:%s:%s:%s" % (s["kind"], s["label"],
                                          hashlib.sha1(json.dumps(s["prog"], sort_keys=True).encode()).hexdigest()[:8]))
        elif a == "MutateProof":
            parts.append("mp:%s:%s:%s" % (s["kind"], s["i"], s["j"]))
    return "|".join(parts)


def edit_of(sc):
    for s in sc["steps"]:
        if s["a"] in ("SetPI", "SwapVerifier", "MutateProof"):
            return s["a"], s.get("kind")
    return "none", None


def run(tier):
    ck = vlib.Check("C04", tier)
    ck.assumptions = [
        "idealised Fiat-Shamir oracle: distinct transcripts give independent challenges, and an "
        "equation fed with a different key / public-input evaluation / opened set fails",
        "catalogue programs are opaque to the model (their key columns are identifiers); "
        "near-miss circuits are generated for the raw-row programs, whose rows the model knows",
    ]
    thorough = tier == "thorough"

    if not lc.dev_mbt_only():
        # ---- MC: the mechanism delivers the property (two edits deep)
        mc, _ = lc.generate("LifeC04MC.cfg" if thorough else "LifeC04MCq.cfg",
                            {"LIFE_NLABELS": 3 if thorough else 1}, tier_workers=8, timeout=2400)
        ck.add_tlc(mc, "Lifecycle/c04 two edits",
                   {"circuits": 5, "labels": 3 if thorough else 1, "versions": "{1,2,3}^2",
                    "MaxEdits": 2, "proof edits": thorough})
        # ---- anti-vacuity: the literal reading is refuted, by the known corner only
        strict, _ = lc.generate("LifeC04Strict.cfg", {}, tier_workers=2, timeout=600,
                                expect_violation=True)
        if not strict.violated:
            raise vlib.ToolError("BindsDescriptionStrict was not refuted: the model lost the "
                                 "zero-valued public-input corner (or the invariant is vacuous)")
        ck.notes.append("TLC refutes BindsDescriptionStrict with a moved zero-valued public-input "
                        "row (the corner of the known finding); BindsDescription (with the corner "
                        "exempted) and BindsStatement hold")

    # ---- MBT
    gen, scens = lc.generate("LifeC04.cfg", {"LIFE_NLABELS": 1}, tier_workers=4, timeout=900)
    ck.add_tlc(gen, "Lifecycle/c04 scenarios", {"MaxEdits": 1, "emit": True})
    if len(scens) < 500:
        raise vlib.ToolError("only %d scenarios generated" % len(scens))
    scens = lc.order(scens)
    obs, _ = lc.execute("C04", scens, shards=4)
    ids = lc.Ids()
    kinds = collections.Counter()
    accepted_with_edit = 0
    drift = collections.Counter()
    for sc in scens:
        ob = obs[sc["id"]]
        names = lc.step_names(sc)
        mm = lc.compare(sc, ob, ids)
        ek = edit_of(sc)
        kinds["%s/%s" % ek] += 1
        vi = lc.find(sc, "Verify")
        reached = vi is not None
        ck.case(scen_key(sc), nontrivial=reached or "Prove" in names)
        ck.traces += 1
        if reached and sc["steps"][vi]["pred"]["res"] == "ok" and ek[0] != "none":
            accepted_with_edit += 1
        if len(ck.samples) < 4 and ek[0] != "none" and reached:
            ck.sample({"edit": ek, "steps": names,
                       "predicted": sc["steps"][vi]["pred"], "observed": ob["obs"][vi]})
        # the known corner: accepted (as the model predicts) under another description
        if reached and sc["steps"][vi]["pred"].get("corner") and ob["obs"][vi].get("res") == "ok":
            ck.violation(
                "a proof is accepted by the verifier of a circuit that differs in which row "
                "carries a (zero-valued) public input: public-input rows are bound neither by "
                "the key nor by the transcript",
                {"key": {"site": "verify", "class": "pi_row_moved_zero_value"},
                 "scenario": sc, "observed": ob["obs"]})
        failed_before = False
        for (i, field, want, got, sev) in mm:
            st = sc["steps"][i]
            a = st["a"]
            if sev == "tool":
                if failed_before:
                    continue
                raise vlib.ToolError("scenario %s step %d (%s) not executed: %s\n%s"
                                     % (sc["id"], i, a, got, json.dumps(st)[:600]))
            failed_before = True
            if sev == "class":
                drift["%s: %s instead of %s" % (a, got, want)] += 1
                continue
            if a == "Verify" and sc["steps"][i]["pred"].get("corner"):
                # the implementation rejects in the corner: stricter than the
                # model, not a violation of the property
                ck.notes.append("corner scenario rejected by the implementation")
                continue
            if field == "c":
                raise vlib.ToolError("catalogue drift: program has %s constraints, model says %s\n%s"
                                     % (got, want, json.dumps(st)[:600]))
            cls = {"accept": "accepted_under_different_statement",
                   "reject": "honest_rejected", "panic": "panic", "value": "value:" + field}[sev]
            ck.violation(
                "%s step: model predicts %s = %s, implementation gave %s (edit %s/%s)"
                % (a, field, json.dumps(want)[:200], json.dumps(got)[:200], ek[0], ek[1]),
                {"key": {"site": a.lower(), "class": cls, "edit": ek[0], "kind": ek[1]},
                 "scenario": sc, "observed": ob["obs"], "step": i})
    for c in ids.conflicts:
        ck.violation(
            "Verifier/Prover::to_bytes equality differs from the model's compiled-description "
            "equality: %s (%s)" % (c[0], c[1]),
            {"key": {"site": "to_bytes", "class": c[0], "object": c[1]},
             "id": c[2], "first": c[3], "second": c[4]})
    n_ids = len(ids.by_id)
    ck.extra["mbt"] = {
        "scenarios": len(scens), "by_edit": dict(kinds),
        "accepted_although_edited": accepted_with_edit,
        "distinct_serialized_objects": n_ids,
        "error_class_drift": dict(drift),
    }
    if accepted_with_edit == 0:
        raise vlib.ToolError("no edited scenario is predicted to be accepted (vacuous equalities)")
    # binding of the statement into the transcript, checked directly: the operations the real
    # prover / verifier perform on their transcripts for proofs with several public inputs
    # must be exactly Transcript!Items (a challenge that silently stops depending on the
    # public inputs is invisible to verdicts on non-adaptive edits)
    import gadgets
    gadgets.reference_widgets(ck, tier)
    return ck.finish(rule="one case per behaviour Setup/Compose/Compile/Prove/<edit>/Verify of "
                          "Lifecycle (profile c04): every PI edit (+1, 0, copy, permutation, "
                          "truncation, extension), every near-miss circuit (selector, wire, PI row, "
                          "PI moved, row count, same description by other text), every label edit, "
                          "every proof field mutation, every ordered version pair; non-trivial = "
                          "reaches Prove")


def replay(path):
    rep = json.load(open(path))
    sc = rep.get("scenario")
    if not sc:
        print("replay file has no scenario")
        return 2
    obs, _ = lc.execute("C04", [{"id": 0, "steps": sc["steps"]}], shards=1)
    ids = lc.Ids()
    mm = lc.compare({"id": 0, "steps": sc["steps"]}, obs[0], ids)
    print(json.dumps({"observed": obs[0]["obs"], "mismatches": mm}, indent=1))
    return 1 if mm else 0
