"""C02 Soundness: no proof of a false statement is accepted.

MC   Lifecycle (profile c02): whatever was forced, spliced, mutated or
     degenerated is rejected by the verification mechanism (TamperRejected);
     the only accepted splices are the two valid proofs themselves.
     SoundnessMC (small-field PLONK, when present): see spec/SoundnessMC.tla.
MBT  adversary behaviours of the model, executed by harness/bin/life:
       ForceProve  the real proving algorithm forced past its unsatisfied
                   check (`verif::set_force_prove`, remainder dropped) on
                   (a) one overwritten witness per user witness of every block
                   (all gate atoms of all five widgets are hit), (b) compile
                   program A / prove program B with every row satisfied and one
                   compiled copy constraint broken;
       Splice      fields of a second valid proof of the same statement copied
                   into the first: every single field, every pair, the
                   round-aligned blocks, a seeded sample of larger subsets;
       MutateProof / Degenerate  field edits, identity commitments, zero
                   evaluations, the default proof, 1008 zero bytes.
TV   TraceProver: ConstraintSystem!Satisfied over the BLS12-381 scalar field
     decides for every forced instance whether the statement really is false;
     only those count, and for those the verifier must answer with an error.
"""
import collections
import json
import os

import life_common as lc
import vlib


def judge_forced(ck, traces):
    """Runs TraceProver over the forced-instance traces. Returns
    {scenario id: predicted outcome of the honest prover}."""
    verdict = {}
    # one trace (one TLC start): the shards' event files are concatenated
    events = []
    for tp in traces:
        events += vlib.read_ndjson_text(open(tp).read())
    if not events:
        return verdict
    allp = os.path.join(os.path.dirname(traces[0]), "forced-all.ndjson")
    vlib.write_ndjson(allp, events)
    tv = vlib.tlc("TraceProver", workers=1, trace=True, env={"TRACE": allp}, timeout=3000,
                  heap="6g")
    ck.add_tlc(tv, "TraceProver (forced instances)", {"field": "BLS12-381 scalar field"},
               exhaustive=False)
    n_prove = sum(1 for e in events if e.get("ev") == "prove")
    got = 0
    for l in tv.out.splitlines():
        if l.startswith('"VERDICT|') or l.startswith('"MISMATCH|'):
            f = l.strip('"').split("|")
            e = events[int(f[1]) - 1]
            verdict[e["id"]] = {"spec": f[2], "mismatch": f[0] == "MISMATCH", "event": e}
            got += 1
    if got != n_prove or tv.diameter - 1 != len(events):
        raise vlib.ToolError("TraceProver judged %d of %d forced instances (%d/%d lines)\n%s"
                             % (got, n_prove, tv.diameter - 1, len(events), tv.out[-2000:]))
    ck.traces += 1
    return verdict


def adversary(sc):
    for s in sc["steps"]:
        a = s["a"]
        if a == "ForceProve":
            return "force", s["what"]["kind"]
        if a == "Splice":
            n = len(s["fields"])
            return "splice", ("single" if n == 1 else "pair" if n == 2 else
                              "none" if n == 0 else "all" if n == 26 else "subset")
        if a == "MutateProof":
            return "mutate", s["kind"]
        if a == "Degenerate":
            return "degenerate", s["kind"]
    return "honest", None


def run(tier):
    ck = vlib.Check("C02", tier)
    ck.assumptions = [
        "explores the prover strategies listed by the property (forced honest algorithm, "
        "copy-constraint breaks, splices, degenerate proofs), not all adversaries",
        "the model idealises commitments and the Fiat-Shamir oracle",
    ]
    thorough = tier == "thorough"

    # ---- MC: small-field PLONK with ideal commitments; the specification's forced
    # prover against the specification's verifier (Protocol!TextbookTerms), every
    # evaluation challenge of F_97 outside the domain
    if not lc.dev_mbt_only():
        senv = {"VERIF_SEED": str(vlib.seed()), "SND_NCHAL": "4" if thorough else "2",
                "SND_NDELTA": "3" if thorough else "1"}
        snd = vlib.tlc("SoundnessMC", workers=8, timeout=2400, env=senv)
        if snd.violated:
            raise vlib.ToolError("SoundnessMC: the design-level soundness/completeness statement "
                                 "fails on the small instance:\n" + snd.out[-3000:])
        leaves = [l.strip('"').split("|") for l in snd.out.splitlines() if l.startswith('"SND|')]
        true_l = [f for f in leaves if f[4] == "TRUE" and f[3] == "ok"]
        false_l = [f for f in leaves if f[4] == "FALSE" and f[3] == "ok"]
        coll = [f for f in leaves if f[3] == "collision"]
        if len(coll) * 5 > len(false_l) + len(coll):
            raise vlib.ToolError("SoundnessMC: %d of %d false leaves are challenge collisions "
                                 "(expected a few percent over F_97)" % (len(coll), len(false_l) + len(coll)))
        if not true_l or len(false_l) < 10:
            raise vlib.ToolError("SoundnessMC is vacuous: %d true / %d false leaves"
                                 % (len(true_l), len(false_l)))
        ck.add_tlc(snd, "SoundnessMC", {"P": 97, "n": 4, "challenge_samples": senv["SND_NCHAL"],
                                        "overwrites_per_target": senv["SND_NDELTA"],
                                        "z": "all of F_97 outside the domain"})
        ck.extra["soundness_mc"] = {
            "leaves": len(leaves),
            "honest_accepting_challenges": sorted({int(f[5]) for f in true_l}),
            "false_statement_max_accepting_challenges": max(int(f[5]) for f in false_l),
            "budget_5n_plus_6": 26,
            "forced_quotient_lengths_false": sorted({int(f[6]) for f in false_l}),
            "honest_quotient_lengths": sorted({int(f[6]) for f in true_l}),
            "degenerate_challenge_leaves": sum(1 for f in leaves if f[3] == "degenerate"),
            "early_challenge_collisions": len(coll),
        }

    env = {"LIFE_V2": 1 if thorough else 0, "LIFE_BIG": 1 if thorough else 0,
           "LIFE_NSPLICE": 200 if thorough else 24}
    gen, scens = lc.generate("LifeC02.cfg", env, tier_workers=4, timeout=1200)
    ck.add_tlc(gen, "Lifecycle/c02 adversary", dict(env))
    if len(scens) < 300:
        raise vlib.ToolError("only %d adversary scenarios generated" % len(scens))
    scens = lc.order(scens)
    obs, traces = lc.execute("C02", scens, shards=4, trace=True, timeout=6000)
    verdict = judge_forced(ck, traces)
    # a verifier weakened CONSISTENTLY with the prover (dropped / merged identity component)
    # still rejects every forced proof above; it is visible to the specification-driven
    # reference verifier on honest proofs of every widget
    import gadgets
    gadgets.reference_widgets(ck, tier)

    ids = lc.Ids()
    stats = collections.Counter()
    drift = collections.Counter()
    for sc in scens:
        ob = obs[sc["id"]]
        adv = adversary(sc)
        vi = lc.find(sc, "Verify")
        fi = lc.find(sc, "ForceProve")
        nontrivial = True
        false_statement = None
        if fi is not None:
            v = verdict.get(sc["id"])
            if v is None:
                raise vlib.ToolError("forced scenario %s has no TraceProver verdict: %s"
                                     % (sc["id"], ob["obs"][fi]))
            false_statement = v["spec"] == "err:CircuitUnsatisfied"
            want_unforced = sc["steps"][fi]["pred"]["unforced"]
            if v["spec"] != want_unforced:
                # Lifecycle's claim about the block (every witness constrained) vs the
                # gate-level decision over the real field: a disagreement of the two models
                drift["Lifecycle says %s, ConstraintSystem says %s" % (want_unforced, v["spec"])] += 1
            if not false_statement:
                nontrivial = False
                stats["force: assignment still satisfied (not counted)"] += 1
            if v["mismatch"]:
                ck.violation(
                    "the prover's own verdict on a violating assignment differs from "
                    "ConstraintSystem!Satisfied: spec %s, prover %s"
                    % (v["spec"], ob["obs"][fi].get("unforced")),
                    {"key": {"site": "prove", "class": "unsatisfied_not_detected",
                             "what": adv[1]}, "scenario": sc, "observed": ob["obs"]})
        stats["%s/%s" % adv] += 1
        ck.traces += 1
        ck.case(json.dumps([adv, [lc.strip(s) for s in sc["steps"][1:]]], sort_keys=True)[:4000],
                nontrivial=nontrivial)
        if len(ck.samples) < 5 and adv[0] in ("force", "splice") and vi is not None:
            ck.sample({"adversary": adv, "step": lc.strip(sc["steps"][vi - 1]) if adv[0] != "force"
                       else sc["steps"][fi]["what"],
                       "spec_says_false_statement": false_statement,
                       "observed": ob["obs"][vi]})
        failed_before = False
        for (i, field, want, got, sev) in lc.compare(sc, ob, ids):
            st = sc["steps"][i]
            a = st["a"]
            if a == "Verify" and fi is not None and false_statement is False:
                continue        # the perturbation did not violate anything: out of scope
            if a == "ForceProve" and field == "unforced":
                continue        # judged by TraceProver above
            if sev == "tool":
                if failed_before:
                    continue
                raise vlib.ToolError("scenario %s step %d (%s) not executed: %s\n%s"
                                     % (sc["id"], i, a, got, json.dumps(st)[:500]))
            failed_before = True
            if sev == "class":
                drift["%s: %s instead of %s" % (a, got, want)] += 1
                continue
            if field in ("c", "nw"):
                raise vlib.ToolError("catalogue drift: %s = %s, model says %s" % (field, got, want))
            if field == "differing":
                # two proofs under different randomness sharing a field is a masking
                # matter (C06), not an acceptance: recorded, not alarmed here
                drift["splice: %s of %s spliced fields differ" % (got, want)] += 1
                continue
            cls = {"accept": "%s_accepted" % adv[0], "reject": "honest_rejected",
                   "panic": "panic", "value": "value:" + field}[sev]
            ck.violation(
                "%s after %s/%s: model predicts %s = %s, implementation gave %s"
                % (a, adv[0], adv[1], field, json.dumps(want)[:160], json.dumps(got)[:160]),
                {"key": {"site": a.lower(), "class": cls, "adversary": adv[0], "kind": adv[1]},
                 "scenario": sc, "observed": ob["obs"], "step": i})
        # a forced proof of a false statement must be rejected whatever Lifecycle predicted
        if fi is not None and false_statement and vi is not None:
            r = ob["obs"][vi].get("res", "")
            if not lc.is_err(r) and sc["steps"][vi]["pred"]["res"] == "ok":
                ck.violation(
                    "forced proof of a false statement: verifier answered %s" % r,
                    {"key": {"site": "verify", "class": "force_accepted", "kind": adv[1]},
                     "scenario": sc, "observed": ob["obs"]})
    n_false = sum(1 for v in verdict.values() if v["spec"] == "err:CircuitUnsatisfied")
    ck.extra["mbt"] = {"scenarios": len(scens), "by_adversary": dict(stats),
                       "forced_instances": len(verdict), "forced_false_statements": n_false,
                       "model_disagreements": dict(drift)}
    if n_false < 20:
        raise vlib.ToolError("only %d forced instances are false statements" % n_false)
    if stats["splice/all"] == 0 or stats["splice/single"] < 26 or stats["splice/pair"] < 325:
        raise vlib.ToolError("splice family incomplete: %s" % dict(stats))
    return ck.finish(rule="one case per adversary behaviour of Lifecycle (profile c02): forced "
                          "prover on every overwritten user witness of every block and every "
                          "copy-constraint break of the raw-row circuits (non-trivial only when "
                          "ConstraintSystem!Satisfied over the real field says the statement is "
                          "false), every single/pair/block/sampled splice, field mutations, "
                          "degenerate proofs")


def replay(path):
    rep = json.load(open(path))
    sc = rep.get("scenario")
    if not sc:
        print("replay file has no scenario")
        return 2
    obs, _ = lc.execute("C02", [{"id": 0, "steps": sc["steps"]}], shards=1)
    mm = lc.compare({"id": 0, "steps": sc["steps"]}, obs[0], lc.Ids())
    print(json.dumps({"observed": obs[0]["obs"], "mismatches": mm}, indent=1))
    return 1 if mm else 0
