"""C13 Subgroup boundary: only prime-order subgroup points are admitted."""
import gadgets


def run(tier):
    mc = ["torsion"] if tier == "quick" else ["torsion", "torsion_all"]
    return gadgets.standard("C13", tier, mc=mc, weak=[], scen=["subgroup"])
