"""C13 Subgroup boundary: only prime-order subgroup points are admitted."""
import gadgets


def run(tier):
    # thorough: F_97 sampled + every curve point of the F_97 instance (all orders) + all of F_29^2
    # (all of F_97^2 is ~10^8 states: measured, does not finish in the budget)
    mc = ["torsion"] if tier == "quick" else ["torsion", "torsion_lines", "torsion_all29"]
    return gadgets.standard("C13", tier, mc=mc, weak=[], scen=["subgroup"])
