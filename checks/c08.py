"""C08 Arithmetic, equality, boolean and selection components are exact."""
import gadgets


def run(tier):
    return gadgets.standard("C08", tier, mc=["arith"], weak=["weak_nobool"], scen=["arith"])
