"""C09 Range check admits exactly the interval [0, 2^BITS)."""
import gadgets


def run(tier):
    return gadgets.standard("C09", tier, mc=["range"], weak=["weak_range", "weak_norange"], scen=["range", "range-closing"])
