"""C20 - KZG commitments and openings are exact.

MC   spec/KzgMC.tla: ideal KZG over F_13 (and F_5) with a FORMAL secret
     (a G1 element is a polynomial in the secret, a pairing check is a
     polynomial identity): SRS consistency after setup and every truncation,
     trim keeps n+6 >= every degree the prover commits (DESIGN A.1), commit
     linear / zero -> identity / degree beyond the key -> Err, and a single,
     aggregated or batched opening verifies iff every claimed evaluation is
     the true one (all polynomials up to degree 2 (quick) / 3 (thorough), all
     points, all claimed values; all witness polynomials over F_5; batches
     of 1..3 with one wrong entry anywhere, wrong witness, swapped entries,
     empty and mismatched batches; every challenge value).
TV   harness `kzg record` runs PublicParameters::setup with SCRIPTED draws,
     so the secret tau and the generator scalars are known.
     spec/TraceKzg.tla (= Kzg over the BLS12-381 scalar field with the known
     secret) predicts every outcome / verdict and prints the discrete
     logarithm each logged group element must have; `kzg verify-dlogs`
     multiplies the generator by it with the library's scalar multiplication
     and compares the bytes (SRS powers, G2 elements, commitments with and
     without trim, flattened commitments, witnesses).
     Batch-challenge binding probes: batches crafted to satisfy the
     verification equation under the challenge of a verifier that forgot to
     bind one item (point / commitment / evaluation / witness of one or of
     every entry) must be rejected.
"""
import collections
import json
import os
import re
import shutil

import vlib

PID = "C20"

WHAT = {
    "setup-outcome": "PublicParameters::setup returned an unexpected outcome",
    "setup": "generated parameters are not the consistent powers of the scripted secret",
    "trim-outcome": "PublicParameters::trim: outcome or key length differs from the specification",
    "commit-outcome": "CommitKey::commit: Ok/Err differs from the degree rule of the specification",
    "commit-linearity": "commitments are not additive / homogeneous on the curve points",
    "aggregate-witness": "compute_aggregate_witness is not the quotient of sum v^i p_i by (X - z)",
    "flatten-outcome": "AggregateProof::flatten: unexpected outcome",
    "flatten-evaluation": "AggregateProof::flatten: flattened evaluation is not sum v^i e_i",
    "aggregated-opening-verdict": "aggregated opening: verdict differs from the verification equation",
    "batch-verdict": "batch_check: verdict differs from the verification equation / the property",
    "batch-binding": "batch_check ACCEPTED a batch crafted against a challenge that does not bind one item: "
                     "the batch challenge does not bind every point, commitment, evaluation and witness",
    "dlog": "a group element returned by the library is not [predicted discrete logarithm] * generator",
}
TOOL_CLASSES = ("harness-probe-malformed", "harness-transcript-items", "model", "unknown-event")


def model_check(ck, tier, workers):
    runs = [("KzgMC.cfg", {"P": 13, "polynomials": "all with <= 3 coefficients", "challenges": "all"})]
    if tier == "thorough":
        runs = [("KzgMCT.cfg", {"P": 13, "polynomials": "all with <= 4 coefficients (degree <= 3)", "challenges": "all"}),
                ("KzgMC5.cfg", {"P": 5, "polynomials": "all with <= 4 coefficients", "witnesses": "all with <= 3 coefficients"})]
    for cfg, consts in runs:
        res = vlib.tlc("KzgMC", cfg=cfg, workers=workers, timeout=6000)
        if res.violated or not res.finished:
            raise vlib.ToolError("KzgMC/%s: the ideal KZG model violates one of its invariants "
                                 "(specification error):\n%s" % (cfg, res.out[-4000:]))
        if res.distinct < 1000:
            raise vlib.ToolError("KzgMC/%s explored only %d states" % (cfg, res.distinct))
        ck.add_tlc(res, "KzgMC/" + cfg, consts)


def conformance(ck, tier, workers, d):
    trace = os.path.join(d, "trace.ndjson")
    out = vlib.harness("kzg", ["record", "--tier", tier, "--out", trace], timeout=3000)
    summary = vlib.read_ndjson_text(out)[-1]
    events = [json.loads(l) for l in open(trace)]
    if len(events) != summary["events"] or len(events) < 300:
        raise vlib.ToolError("kzg recorder wrote %d events, reported %s" % (len(events), summary))
    tv = vlib.tlc("TraceKzg", workers=workers, timeout=6000, heap="8g", env={"TRACE": trace})
    if tv.violated or not tv.finished:
        raise vlib.ToolError("TraceKzg did not judge the whole trace:\n" + tv.out[-3000:])
    ck.add_tlc(tv, "TraceKzg", {"field": "BLS12-381 scalar field (BigF), known secret", "events": len(events)},
               exhaustive=False)
    verdicts, dlogs = {}, []
    for l in tv.out.splitlines():
        if l.startswith('"VERDICT|') or l.startswith('"MISMATCH|'):
            f = l.strip('"').split("|")
            i = int(f[1])
            if i in verdicts:
                raise vlib.ToolError("event %d judged twice" % i)
            verdicts[i] = (f[0], f[2], f[3], "|".join(f[4:]))
        elif l.startswith('"DLOG|'):
            f = l.strip('"').split("|")
            limbs = [int(x) for x in re.findall(r"\d+", f[3])]
            if len(limbs) != 20:
                raise vlib.ToolError("bad DLOG line: " + l[:200])
            dlogs.append({"id": int(f[1]), "slot": f[2], "dlog": limbs})
    ids = set(e["id"] for e in events)
    if set(verdicts) != ids:
        raise vlib.ToolError("TraceKzg judged %d of %d events\n%s" % (len(verdicts), len(ids), tv.out[-2000:]))
    by_id = {e["id"]: e for e in events}

    # second pass: [dlog] generator == logged bytes, with the library's scalar multiplication
    dpath = os.path.join(d, "dlogs.ndjson")
    vlib.write_ndjson(dpath, dlogs)
    mpath = os.path.join(d, "matches.ndjson")
    vlib.harness("kzg", ["verify-dlogs", "--trace", trace, "--dlogs", dpath, "--out", mpath], timeout=3000)
    matches = [json.loads(l) for l in open(mpath)]
    if len(matches) != len(dlogs) or len(dlogs) < 300:
        raise vlib.ToolError("verify-dlogs answered %d of %d predictions" % (len(matches), len(dlogs)))

    groups = collections.OrderedDict()
    for i in sorted(verdicts):
        kind, ev, cls, detail = verdicts[i]
        e = by_id[i]
        ck.case({"ev": ev, "what": e.get("what", ev), "verdict": cls})
        if kind == "MISMATCH":
            if cls in TOOL_CLASSES:
                raise vlib.ToolError("TraceKzg: %s on event %d (%s): %s" % (cls, i, e.get("what"), detail))
            groups.setdefault((ev, cls), []).append((i, detail))
        else:
            ck.sample({"ev": ev, "what": e.get("what", ""), "verdict": cls, "res": e.get("res", e.get("flat"))}, limit=8)
    for m in matches:
        ck.case({"ev": "dlog", "slot": re.sub(r"\d+", "i", m["slot"]), "kind": by_id[m["id"]]["ev"]})
        if not m["match"]:
            if by_id[m["id"]]["ev"] == "setup" and m["slot"] in ("g", "h"):
                # the generators are not [scripted scalar] * generator: the scripted draws are not
                # consumed in the order (secret, g, h) any more - the harness has to follow
                raise vlib.ToolError("setup event %d: scripted draws are not aligned with the library's "
                                     "use of the RNG (slot %s)" % (m["id"], m["slot"]))
            groups.setdefault((by_id[m["id"]]["ev"], "dlog"), []).append((m["id"], m["slot"]))
    for (ev, cls), lst in groups.items():
        first = by_id[lst[0][0]]
        head = {k: first[k] for k in ("id", "ev", "what", "res", "d", "n", "trim", "sid") if k in first}
        ck.violation("%s - %d event(s), e.g. %s %s" % (WHAT.get(cls, cls), len(lst), json.dumps(head), lst[0][1]),
                     {"key": {"site": ev, "class": cls}, "event": first,
                      "setup": by_id.get(first.get("sid")), "event_ids": [x[0] for x in lst][:50],
                      "detail": lst[0][1], "count": len(lst)})
    per = collections.Counter(v[1] + ":" + v[2] for v in verdicts.values())
    ck.extra["verdicts"] = dict(per)
    ck.extra["group_elements_checked_by_dlog"] = len(matches)
    ck.extra["binding_probes"] = sum(1 for e in events if "probe" in e)
    return events


def run(tier):
    ck = vlib.Check(PID, tier)
    ck.assumptions = [
        "group, pairing and field arithmetic of dusk-bls12_381 are trusted (the second pass uses the "
        "library's scalar multiplication of the generators); BigF override == its TLA+ definition",
        "algebraic group model: in the small-field model a pairing check is a polynomial identity in "
        "the formal secret; challenges are quantified over all field values",
        "the batch challenge is recomputed by the harness with merlin from the item list of "
        "Kzg!BatchChallengeItems; the library's own challenge is not observable, binding is probed by "
        "crafted batches",
    ]
    workers = 8
    model_check(ck, tier, workers)
    d = vlib.workdir(PID)
    conformance(ck, tier, workers, d)
    ck.traces += 1
    shutil.rmtree(d, ignore_errors=True)
    return ck.finish(rule="one case per (event kind, scenario label, verdict) and per kind of group element "
                          "checked by discrete logarithm; scenarios are generated by harness/src/bin/kzg.rs "
                          "from VERIF_SEED (setup degrees, trims at every boundary, monomials through "
                          "trimmed keys, degrees up to and beyond the key, batches of 1..3 (thorough: ..6) "
                          "with one corruption each, binding probes)")


def replay(path):
    """Re-runs the conformance part on the current tree and reports whether
    the recorded (event kind, class) still occurs."""
    rp = json.load(open(path))
    ck = vlib.Check(PID, "replay")
    d = vlib.workdir(PID + "-replay")
    conformance(ck, "quick", 4, d)
    shutil.rmtree(d, ignore_errors=True)
    again = [v for v in ck.violations]
    vlib.log("replay: recorded %s; violations now: %d" % (rp.get("key"), len(again)))
    return 1 if again else 0
