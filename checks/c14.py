"""C14 Fixed-base multiplication returns [s]G for canonical s only."""
import gadgets


def run(tier):
    return gadgets.standard("C14", tier, mc=["fixed"], weak=["weak_norange"], scen=["fixed", "fixed-digits"])
