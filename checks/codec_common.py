"""Shared pieces of the C16 / C17 checks (spec/Codec.tla + harness `codec`)."""
import json
import os
import random
import re

import vlib

DEFAULTS = {"valid", "exact", "canon", "-", "full"}
EXPECTED_ASIS = {"Total", "AcceptedIsWellFormed", "RoundTrip"}
CONSTS = {"N": 8, "CONS": 7, "LABEL": 10, "NPI": 1, "CKP": 23, "PPP": 23}

KEY_FLAG = {"site": "CommitKey::from_raw_var_bytes", "class": "flag-byte"}
KEY_UNRED = {"site": "CommitKey::from_raw_var_bytes", "class": "unreduced-coordinate"}
KEY_PKBUF = {"site": "ProverKey::to_var_bytes", "class": "len(q_m) < max len"}


def scen_lines(res):
    """Scenarios printed by the EmitScenarios invariant: one string per line,
    `"SCEN|<json with escaped quotes>"`."""
    out = []
    tagged = 0
    for l in res.out.splitlines():
        if "SCEN|" not in l:
            continue
        tagged += 1
        l = l.strip()
        if l.startswith('"SCEN|') and l.endswith('"'):
            out.append(json.loads(json.loads(l)[5:]))
    if tagged != len(out):
        raise vlib.ToolError("%d SCEN lines, %d parsed (wrapped output?)" % (tagged, len(out)))
    return out


def muts(sc):
    return [t for t in sc["toks"] if t[1] not in DEFAULTS and not (t[0] == "vk.pad" and t[1] == "zero")]


def case_key(sc):
    return sc["m"] + ":" + ",".join("%s=%s" % (t[0], t[1]) for t in muts(sc))


def run_mc(ck, cfg, name, workers=8, timeout=900, coverage=False):
    res = vlib.tlc("CodecMC", cfg=cfg, workers=workers, timeout=timeout, coverage=coverage)
    if res.violated:
        raise vlib.ToolError("the normative Codec model violates its own invariants (%s):\n%s"
                             % (cfg, res.out[-3000:]))
    if not res.finished:
        raise vlib.ToolError("TLC did not finish %s" % cfg)
    return res


def run_asis(ck):
    """The model with the code's known deviations switched on must exhibit
    them: that is what validates that the invariants can see such defects."""
    res = vlib.tlc("CodecMC", cfg="CodecAsIs.cfg", workers=4, timeout=600,
                   extra=["-continue"], check_error=False)
    got = set(re.findall(r"Invariant (\w+) is violated", res.out))
    if got != EXPECTED_ASIS:
        raise vlib.ToolError("as-is model: expected violations %s, TLC reported %s\n%s"
                             % (sorted(EXPECTED_ASIS), sorted(got), res.out[-2000:]))
    ck.notes.append("model with Dev={flagbyte,unreduced,pkbuf} violates exactly %s (as the probes of the real code do)"
                    % sorted(got))
    return res


def harness_lines(cmd, stdin=None, timeout=1500):
    """Runs the codec binary; returns (records, aborted_scenario_or_None)."""
    d = vlib.build_harness()
    rc, out, err = vlib.run([os.path.join(d, "codec")] + cmd, stdin=stdin, timeout=timeout, cwd=vlib.VERIF)
    recs = vlib.read_ndjson_text(out)
    for r in recs:
        if "fatal" in r:
            raise vlib.ToolError("codec %s: %s" % (cmd, r["fatal"]))
    aborted = None
    if rc != 0:
        begins = [r["begin"] for r in recs if "begin" in r]
        done = set(json.dumps(r.get("id")) for r in recs if "id" in r)
        pending = [b for b in begins if json.dumps(b) not in done]
        if pending and ("ALLOC-REFUSED" in err or rc < 0 or rc == 134):
            aborted = {"id": pending[-1], "stderr": err[-400:], "rc": rc}
        else:
            raise vlib.ToolError("codec %s exited %d:\n%s" % (cmd, rc, err[-3000:]))
    return recs, aborted


def obs_class(res):
    if res == "ok":
        return "ok"
    if res.startswith("panic"):
        return "panic"
    return "err"


def random_scenarios(rng, n_each, start_id):
    """Unstructured mutations on top of the model's inputs (no prediction):
    seeded bit flips and splices of two valid encodings."""
    out = []
    i = start_id
    sizes = {"proof": 1008, "verifier": 1274, "prover": 44981, "pp": 1344}
    for m, sz in sizes.items():
        for _ in range(n_each):
            i += 1
            k = rng.choice([1, 1, 2, 3])
            toks = [["byte.%d" % rng.randrange(sz), str(1 << rng.randrange(8))] for _ in range(k)]
            out.append({"id": i, "m": m, "toks": toks, "pred": None, "why": "unstructured"})
        for _ in range(max(4, n_each // 4)):
            i += 1
            out.append({"id": i, "m": m, "toks": [["splice.%d" % rng.randrange(sz), "alt"]],
                        "pred": None, "why": "splice"})
    return out


class Grouped:
    """Collects violations by key; one ck.violation per distinct key."""

    def __init__(self, ck):
        self.ck = ck
        self.g = {}

    def add(self, what, key, example):
        k = json.dumps(key, sort_keys=True)
        e = self.g.setdefault(k, {"what": what, "key": key, "examples": [], "count": 0})
        e["count"] += 1
        if len(e["examples"]) < 5:
            e["examples"].append(example)

    def flush(self):
        for e in self.g.values():
            self.ck.violation("%s (%d cases)" % (e["what"], e["count"]),
                              {"key": e["key"], "count": e["count"], "examples": e["examples"]})
