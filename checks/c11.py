"""C11 Truncation and bit decomposition return the canonical bits.

Besides the standard three layers, the toy model must EXHIBIT the known
alias of the decomposition at N in {NB, NB+1} (family decomposition_wide,
expected to violate Sound), and the same alias is replayed on the real code
(family decomposition-alias): it is a recorded known finding for N in
{255, 256} and must be unsatisfiable for every smaller N.
"""
import gadgets


def site_of(s, o):
    return {"n": s.get("n")}


def run(tier):
    return gadgets.standard("C11", tier, mc=["truncate", "decomposition"], weak=["weak_norange"],
                            scen=["truncate", "decomposition", "decomposition-alias", "truncate-alias"],
                            site_of=site_of, mc_expect_violation=["decomposition_wide"])
